-------------------------------- MODULE MDist --------------------------------
(***************************************************************************)
(* Rule book of `meson dist` (release archives), written from              *)
(*   [CR]  docs/markdown/Creating-releases.md                              *)
(*   [CMD] docs/markdown/Commands.md, section "dist" (+ the option help)   *)
(*   [ADS] docs/yaml/builtins/meson.yaml, add_dist_script                  *)
(*   [RN]  release notes 0.41 (dist), 0.48 (dist scripts), 0.52 (--formats),*)
(*         0.53 (--include-subprojects), 0.54/0.58 (script environment),   *)
(*         0.55 (--no-tests), 0.57 (release a subproject separately),      *)
(*         0.62 (--allow-dirty), 1.4 (MESONREWRITE), 1.5 (bztar)           *)
(*   [UT]  unittests/allplatformstests.py: dist_impl, test_dist_git_script,*)
(*         test_dist_nested_promoted_subproject and "test cases/unit/35    *)
(*         dist script"                                                    *)
(* It is NOT a transcription of mesonbuild/mdist.py: it speaks about the   *)
(* state of the revision-controlled source tree and about archives.        *)
(*                                                                         *)
(* Vocabulary                                                              *)
(*   path    sequence of file-name components, <<"d", "f.c">>              *)
(*   entry   [k: "file" | "link", c: content id | link target, x: exec bit]*)
(*   tree    function path -> entry (directories are implied by the paths) *)
(*   repo    [head, index, wt]: the tree of the latest commit, of the      *)
(*           staging area and of the working directory                     *)
(*   module  a git submodule of the main repository: [path, rec, idx, head,*)
(*           wt] - the tree of the submodule commit recorded by the main   *)
(*           repository's latest commit (rec) and by its index (idx), of   *)
(*           the commit checked out in the submodule (head) and of its     *)
(*           working directory (wt)                                        *)
(*   source  [main: repo, mods: Seq(module), own: Seq([name, repo-fields]),*)
(*            plain: Seq([name, wt])]                                      *)
(*   cfg     what `meson setup` fixed: project name and version, the       *)
(*           directory of the project being released inside the repository *)
(*           (root, <<>> for the top), the subprojects (name, directory,   *)
(*           kind, used by the configuration or not) and the dist scripts  *)
(*           in the order add_dist_script() was called                     *)
(*   opts    [formats, dirty (--allow-dirty), subs (--include-subprojects),*)
(*            tests: "none" (--no-tests) | "pass" | "build" | "test" |     *)
(*            "install" (the stage of the test cycle that fails)]          *)
(*   md      the archives present in <build>/meson-dist: function          *)
(*           file name -> [mem: members, sum: "ok" | "none" | "bad"]       *)
(***************************************************************************)
EXTENDS Sequences, FiniteSets, Naturals, TLC

-----------------------------------------------------------------------------
\* trees

File(c, x) == [k |-> "file", c |-> c, x |-> x]
Link(t)    == [k |-> "link", c |-> t, x |-> FALSE]
NoTree     == [p \in {} |-> File("", FALSE)]

Overlay(A, B) == [p \in DOMAIN A \cup DOMAIN B |-> IF p \in DOMAIN B THEN B[p] ELSE A[p]]
IsPrefix(q, p) == Len(q) <= Len(p) /\ SubSeq(p, 1, Len(q)) = q
Below(T, q)   == { p \in DOMAIN T : Len(p) > Len(q) /\ IsPrefix(q, p) }
\* the tree T placed in directory q / the part of T below directory q, relative to q
Graft(q, T)   == [p \in { q \o r : r \in DOMAIN T } |-> T[SubSeq(p, Len(q) + 1, Len(p))]]
Cut(T, q)     == [r \in { SubSeq(p, Len(q) + 1, Len(p)) : p \in Below(T, q) } |-> T[q \o r]]
Without(T, P) == [p \in DOMAIN T \ P |-> T[p]]
\* the directories a tree implies
DirsOfT(T)    == UNION { { SubSeq(p, 1, n) : n \in 1..(Len(p) - 1) } : p \in DOMAIN T }

RECURSIVE OverlayAll(_)
OverlayAll(ts) == IF ts = <<>> THEN NoTree ELSE Overlay(ts[1], OverlayAll(Tail(ts)))

-----------------------------------------------------------------------------
\* "uncommitted changes"
\* [CR] "Meson packages the latest revision control commit"; [CR]/[RN 0.62] "when a repository contains uncommitted
\* changes, Meson will produce an error ... If --allow-dirty is given ... a warning will be emitted instead and Meson
\* will proceed as usual."  A change is uncommitted when the staging area differs from the latest commit or a tracked
\* file differs from the staging area (content, type, exec bit, deletion).  Untracked and ignored files are not changes:
\* [UT] dist_impl runs `meson dist` without --allow-dirty in a repository with untracked directories (tarballsub,
\* unusedsub, vcssub); a new time stamp alone is not a change either ([UT] "update a source file timestamp; dist should
\* succeed anyway").

RepoDirty(r) ==
    \/ r.index # r.head
    \/ \E p \in DOMAIN r.index : p \notin DOMAIN r.wt \/ r.wt[p] # r.index[p]

\* a submodule is part of the repository ([CR] "including all the submodules"): a recorded commit that is staged but
\* not committed, another commit checked out, or modified tracked files inside it are uncommitted changes
ModDirty(m) ==
    \/ m.idx # m.rec
    \/ m.head # m.idx
    \/ \E p \in DOMAIN m.head : p \notin DOMAIN m.wt \/ m.wt[p] # m.head[p]

Elems(s) == { s[i] : i \in 1..Len(s) }

MainDirty(S) == RepoDirty(S.main) \/ \E m \in Elems(S.mods) : ModDirty(m)

-----------------------------------------------------------------------------
\* what the latest commit contains

\* [CR] "This archive contains the full contents of the latest commit in revision control including all the
\* submodules (recursively).  All revision control metadata is removed."
\* [CR "Release a subproject separately"] / [RN 0.57]: for a project that lives in a subdirectory of the repository
\* "a tarball containing only the source code from that subdir and not the rest of the main project or other
\* subprojects".
Committed(S, cfg) ==
    LET all == Overlay(S.main.head, OverlayAll([i \in 1..Len(S.mods) |-> Graft(S.mods[i].path, S.mods[i].rec)]))
    IN IF cfg.root = <<>> THEN all ELSE Cut(all, cfg.root)

-----------------------------------------------------------------------------
\* subprojects

\* [CR "Include subprojects in your release"] / [RN 0.53] / [CMD] "--include-subprojects: Include source code of
\* subprojects that have been used for the build": exactly the subprojects used by the current configuration; [UT]
\* dist_impl: 'unusedsub' is not included; a subproject that is part of the main repository is in the archive with or
\* without the option (it is content of the latest commit, used or not); a subproject with its own repository
\* contributes its latest commit, a plain directory (e.g. unpacked from a tarball) its files.
SubIdx(cfg)       == 1..Len(cfg.subs)
Included(cfg, o)  == IF o.subs THEN { i \in SubIdx(cfg) : cfg.subs[i].used } ELSE {}
Lookup(seq, name) == CHOOSE r \in Elems(seq) : r.name = name
SubTree(S, s) ==
    CASE s.kind = "own"   -> Graft(s.dir, Lookup(S.own, s.name).head)
      [] s.kind = "plain" -> Graft(s.dir, Lookup(S.plain, s.name).wt)
      [] OTHER            -> NoTree
\* "a repository contains uncommitted changes" applies to every repository whose latest commit is packaged
SubsDirty(S, cfg, o) == \E i \in Included(cfg, o) : cfg.subs[i].kind = "own" /\ RepoDirty(Lookup(S.own, cfg.subs[i].name))

RECURSIVE AddSubs(_, _, _, _)
AddSubs(T, S, cfg, I) ==
    IF I = {} THEN T
    ELSE LET i == CHOOSE i \in I : TRUE IN AddSubs(Overlay(T, SubTree(S, cfg.subs[i])), S, cfg, I \ {i})

\* the staging directory before the first script runs
Staged(S, cfg, o) == AddSubs(Committed(S, cfg), S, cfg, Included(cfg, o))

-----------------------------------------------------------------------------
\* dist scripts

\* [ADS] "Causes the script given as argument to run during dist operation after the distribution source has been
\* generated but before it is archived.  Note that this runs the script file that is in the staging directory, not the
\* one in the source directory.  If the script file cannot be found in the staging directory, it is a hard error."
\* [ADS]/[RN 0.58] "Subproject dist scripts will only be executed when running meson dist --include-subprojects."
\* [ADS] MESON_DIST_ROOT; (0.54) MESON_SOURCE_ROOT, MESON_BUILD_ROOT "root source and build directory of the main
\* project, even when the script comes from a subproject"; (0.58) MESON_PROJECT_{SOURCE,BUILD,DIST}_ROOT "identical to
\* MESON_SOURCE_ROOT, MESON_BUILD_ROOT and MESON_DIST_ROOT for main project scripts, but for subproject scripts they
\* have the path to the root of the subproject appended"; (1.4) MESONREWRITE.
\* [CR] "Modification to the checked out files like generating files or setting version info can be done with dist
\* scripts": what the scripts leave below MESON_DIST_ROOT is what gets archived.
Top(cfg) == cfg.name \o "-" \o cfg.version

SubDirOf(cfg, owner) == IF owner = "" THEN <<>> ELSE Lookup(cfg.subs, owner).dir
Eligible(cfg, o, sc) == sc.owner = "" \/ \E i \in Included(cfg, o) : cfg.subs[i].name = sc.owner

\* environment of a script, as paths relative to the build directory (dist, pdist, bld, pbld) and to the source
\* directory (src, psrc) of the project being released
EnvOf(cfg, owner) ==
    LET d == SubDirOf(cfg, owner) IN
    [dist |-> <<"meson-dist", Top(cfg)>>, pdist |-> <<"meson-dist", Top(cfg)>> \o d,
     src |-> <<>>, psrc |-> d, bld |-> <<>>, pbld |-> d]

\* one action of a (generated) script: a |-> [op, base: "proj" | "dist", p, c]
\*   add   create or overwrite the file base/p with content c (an existing file keeps its exec bit)
\*   rm    remove the file or link base/p;   rmtree   remove the directory base/p
\*   setver  $MESONREWRITE --sourcedir=base kwargs set project / version c    ([CR] "Cement a version obtained from VCS")
Act(T, d, a) ==
    LET q == (IF a.base = "proj" THEN d ELSE <<>>) \o a.p IN
    CASE a.op = "add"    -> Overlay(T, [p \in {q} |-> File(a.c, IF q \in DOMAIN T THEN T[q].x ELSE FALSE)])
      [] a.op = "rm"     -> Without(T, {q})
      [] a.op = "rmtree" -> Without(T, Below(T, q))
      [] a.op = "setver" -> LET mb == q \o <<"meson.build">> IN
                            IF mb \in DOMAIN T THEN [T EXCEPT ![mb].c = @ \o ">" \o a.c] ELSE T
      [] OTHER           -> T

RECURSIVE Acts(_, _, _)
Acts(T, d, as) == IF as = <<>> THEN T ELSE Acts(Act(T, d, as[1]), d, Tail(as))

\* scripts run one after the other in the order they were added; a script that fails (non-zero exit) ends the dist
\* operation with an error and nothing is archived
\* result: [T: staging tree, ran: what ran (id, content id of the script file that ran, environment, the files the
\*          script could see), ok, why]
RECURSIVE RunScripts(_, _, _, _, _)
RunScripts(T, cfg, o, k, ran) ==
    IF k > Len(cfg.scripts) THEN [T |-> T, ran |-> ran, ok |-> TRUE, why |-> ""]
    ELSE LET sc == cfg.scripts[k]
             d  == SubDirOf(cfg, sc.owner)
             f  == d \o sc.file
         IN IF ~Eligible(cfg, o, sc) THEN RunScripts(T, cfg, o, k + 1, ran)
            ELSE IF f \notin DOMAIN T \/ T[f].k # "file"
                 THEN [T |-> T, ran |-> ran, ok |-> FALSE, why |-> "ScriptMissingInStaging"]
            ELSE LET r == [id |-> sc.id, tag |-> T[f].c, env |-> EnvOf(cfg, sc.owner), sees |-> DOMAIN T]
                     T2 == Acts(T, d, sc.acts)
                 IN IF sc.rc # 0 THEN [T |-> T2, ran |-> Append(ran, r), ok |-> FALSE, why |-> "ScriptFailed"]
                    ELSE RunScripts(T2, cfg, o, k + 1, Append(ran, r))

-----------------------------------------------------------------------------
\* archives

\* [CMD] "--formats: Comma separated list of archive types to create. Supports xztar (default), bztar, gztar, and zip"
Formats == {"xztar", "bztar", "gztar", "zip"}
Ext(f) == CASE f = "xztar" -> ".tar.xz" [] f = "bztar" -> ".tar.bz2" [] f = "gztar" -> ".tar.gz" [] f = "zip" -> ".zip"
FormatsOK(o) == Len(o.formats) > 0 /\ \A f \in Elems(o.formats) : f \in Formats
\* [CR] "a file called projectname-version.tar.xz in the build tree subdirectory meson-dist"
ArchiveName(cfg, f) == Top(cfg) \o Ext(f)

\* members of an archive: the files and links of the staging tree, the directories they imply, all below one
\* top-level directory projectname-version ([UT] dist_impl: 'disttest-1.4.3/', 'disttest-1.4.3/meson.build', ...)
Mem(T) == [files |-> { [p |-> p, k |-> T[p].k, c |-> T[p].c, x |-> T[p].x] : p \in DOMAIN T },
           dirs  |-> DirsOfT(T)]
\* the documents say nothing about how a zip file represents symbolic links: members at link paths are not compared
LinkPaths(T) == { p \in DOMAIN T : T[p].k = "link" }

-----------------------------------------------------------------------------
\* the test cycle
\* [CR] "Meson then takes this archive and tests that it works by doing a full compile + test + install cycle.  If all
\* these pass, Meson will then create a SHA-256 checksum file next to the archive."  [CR --no-tests] "skip build and
\* tests steps".  [CR]/[RN 0.53] with --include-subprojects the tarball "can be built offline (i.e.
\* --wrap-mode=nodownload)".  The archive tested is one of those created (the first format).
Stages == <<"build", "test", "install">>
StageNo(s) == CHOOSE i \in 1..3 : Stages[i] = s
TestCalls(T, o) ==
    IF o.tests = "none" THEN <<>>
    ELSE LET n == IF o.tests = "pass" THEN 3 ELSE StageNo(o.tests)
         IN [i \in 1..n |-> [stage |-> Stages[i], files |-> DOMAIN T, offline |-> o.subs, destdir |-> i = 3]]
TestsPass(o) == o.tests \in {"none", "pass"}

-----------------------------------------------------------------------------
\* the whole operation, declaratively
\*   result: [ok, why, md, ran, tests, T]
Dist(S, cfg, o, md) ==
    LET fail(why, ran) == [ok |-> FALSE, why |-> why, md |-> md, ran |-> ran, tests |-> <<>>, T |-> NoTree]
    IN IF ~FormatsOK(o) THEN fail("BadFormat", <<>>)
       ELSE IF MainDirty(S) /\ ~o.dirty THEN fail("Dirty", <<>>)
       ELSE IF SubsDirty(S, cfg, o) /\ ~o.dirty THEN fail("SubprojectDirty", <<>>)
       ELSE LET r == RunScripts(Staged(S, cfg, o), cfg, o, 1, <<>>) IN
            IF ~r.ok THEN fail(r.why, r.ran)
            ELSE LET names == { ArchiveName(cfg, f) : f \in Elems(o.formats) }
                     sum   == IF TestsPass(o) THEN "ok" ELSE "none"
                     md2   == [n \in DOMAIN md \cup names |->
                                  IF n \in names THEN [mem |-> Mem(r.T), links |-> LinkPaths(r.T), sum |-> sum] ELSE md[n]]
                 IN [ok |-> TestsPass(o), why |-> IF TestsPass(o) THEN "" ELSE "TestsFailed",
                     md |-> md2, ran |-> r.ran, tests |-> TestCalls(r.T, o), T |-> r.T]

\* content that exists only in a staging area or a working directory (never in a commit that is packaged, never in a
\* plain subproject directory): "a dirty or untracked file never leaks"
CommittedIds(S) ==
    { S.main.head[p].c : p \in DOMAIN S.main.head }
    \cup UNION { { m.rec[p].c : p \in DOMAIN m.rec } : m \in Elems(S.mods) }
    \cup UNION { { r.head[p].c : p \in DOMAIN r.head } : r \in Elems(S.own) }
    \cup UNION { { r.wt[p].c : p \in DOMAIN r.wt } : r \in Elems(S.plain) }
WorkIds(S) ==
    { S.main.index[p].c : p \in DOMAIN S.main.index } \cup { S.main.wt[p].c : p \in DOMAIN S.main.wt }
    \cup UNION { { m.idx[p].c : p \in DOMAIN m.idx } \cup { m.head[p].c : p \in DOMAIN m.head } \cup { m.wt[p].c : p \in DOMAIN m.wt } : m \in Elems(S.mods) }
    \cup UNION { { r.index[p].c : p \in DOMAIN r.index } \cup { r.wt[p].c : p \in DOMAIN r.wt } : r \in Elems(S.own) }
LeakIds(S) == WorkIds(S) \ CommittedIds(S)
=============================================================================
