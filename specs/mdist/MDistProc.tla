------------------------------ MODULE MDistProc ------------------------------
(***************************************************************************)
(* The dist operation as a state machine (the operational formulation):    *)
(*   formats -> dirty -> export -> subs (one subproject per step, in ANY   *)
(*   order) -> scripts (one per step, in the order they were added) ->     *)
(*   archive (one format per step) -> test (one stage of the compile /     *)
(*   test / install cycle per step) -> sum (checksum files) -> done        *)
(* with `failed` reachable from every stage that can fail.  The source     *)
(* state, the configuration and the options are constants of a behaviour;  *)
(* MDist_MC proves the machine equal to the declarative MDist!Dist and     *)
(* checks the laws on every intermediate state.                            *)
(***************************************************************************)
EXTENDS MDist

VARIABLES src, cfg, opt, md0,        \* fixed by Init
          pc, T, todo, k, ran, fi, made, tests, md, why

pvars == <<src, cfg, opt, md0, pc, T, todo, k, ran, fi, made, tests, md, why>>
fixed == <<src, cfg, opt, md0>>

PInit == /\ pc = "formats" /\ T = NoTree /\ todo = {} /\ k = 1 /\ ran = <<>> /\ fi = 1 /\ made = {}
         /\ tests = <<>> /\ md = md0 /\ why = ""

Fail(w) == pc' = "failed" /\ why' = w

CheckFormats ==
    /\ pc = "formats"
    /\ IF FormatsOK(opt) THEN pc' = "dirty" /\ why' = why ELSE Fail("BadFormat")
    /\ UNCHANGED <<T, todo, k, ran, fi, made, tests, md>>

CheckDirty ==
    /\ pc = "dirty"
    /\ IF MainDirty(src) /\ ~opt.dirty THEN Fail("Dirty") ELSE pc' = "export" /\ why' = why
    /\ UNCHANGED <<T, todo, k, ran, fi, made, tests, md>>

Export ==
    /\ pc = "export"
    /\ T' = Committed(src, cfg)
    /\ todo' = Included(cfg, opt)
    /\ pc' = "subs"
    /\ UNCHANGED <<k, ran, fi, made, tests, md, why>>

AddSub ==
    /\ pc = "subs"
    /\ IF todo = {} THEN pc' = "scripts" /\ UNCHANGED <<T, todo, why>>
       ELSE \E i \in todo :
              LET s == cfg.subs[i] IN
              IF s.kind = "own" /\ RepoDirty(Lookup(src.own, s.name)) /\ ~opt.dirty
              THEN Fail("SubprojectDirty") /\ UNCHANGED <<T, todo>>
              ELSE T' = Overlay(T, SubTree(src, s)) /\ todo' = todo \ {i} /\ UNCHANGED <<pc, why>>
    /\ UNCHANGED <<k, ran, fi, made, tests, md>>

RunScript ==
    /\ pc = "scripts"
    /\ IF k > Len(cfg.scripts) THEN pc' = "archive" /\ UNCHANGED <<T, k, ran, why>>
       ELSE LET sc == cfg.scripts[k]
                d  == SubDirOf(cfg, sc.owner)
                f  == d \o sc.file
            IN IF ~Eligible(cfg, opt, sc) THEN k' = k + 1 /\ UNCHANGED <<T, ran, pc, why>>
               ELSE IF f \notin DOMAIN T \/ T[f].k # "file" THEN Fail("ScriptMissingInStaging") /\ UNCHANGED <<T, k, ran>>
               ELSE /\ ran' = Append(ran, [id |-> sc.id, tag |-> T[f].c, env |-> EnvOf(cfg, sc.owner), sees |-> DOMAIN T])
                    /\ T' = Acts(T, d, sc.acts)
                    /\ IF sc.rc # 0 THEN Fail("ScriptFailed") /\ k' = k ELSE k' = k + 1 /\ UNCHANGED <<pc, why>>
    /\ UNCHANGED <<todo, fi, made, tests, md>>

Archive ==
    /\ pc = "archive"
    /\ IF fi > Len(opt.formats) THEN pc' = "test" /\ UNCHANGED <<fi, made, md>>
       ELSE LET n == ArchiveName(cfg, opt.formats[fi]) IN
            /\ md' = [x \in DOMAIN md \cup {n} |-> IF x = n THEN [mem |-> Mem(T), links |-> LinkPaths(T), sum |-> "none"] ELSE md[x]]
            /\ made' = made \cup {n}
            /\ fi' = fi + 1
            /\ pc' = pc
    /\ UNCHANGED <<T, todo, k, ran, tests, why>>

Test ==
    /\ pc = "test"
    /\ IF opt.tests = "none" \/ Len(tests) = 3 THEN pc' = "sum" /\ UNCHANGED <<tests, why>>
       ELSE LET st == Stages[Len(tests) + 1] IN
            /\ tests' = Append(tests, [stage |-> st, files |-> DOMAIN T, offline |-> opt.subs, destdir |-> st = "install"])
            /\ IF opt.tests = st THEN Fail("TestsFailed") ELSE UNCHANGED <<pc, why>>
    /\ UNCHANGED <<T, todo, k, ran, fi, made, md>>

Sum ==
    /\ pc = "sum"
    /\ md' = [x \in DOMAIN md |-> IF x \in made THEN [md[x] EXCEPT !.sum = "ok"] ELSE md[x]]
    /\ pc' = "done"
    /\ UNCHANGED <<T, todo, k, ran, fi, made, tests, why>>

PNext == (CheckFormats \/ CheckDirty \/ Export \/ AddSub \/ RunScript \/ Archive \/ Test \/ Sum) /\ UNCHANGED fixed

Finished == pc \in {"done", "failed"}
\* the result in the shape of MDist!Dist
Result == [ok |-> pc = "done", why |-> why, md |-> md, ran |-> ran, tests |-> tests]
=============================================================================
