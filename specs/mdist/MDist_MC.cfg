SPECIFICATION Spec
CONSTANTS Family = "flat"
INVARIANT TypeOK
INVARIANT OperationalEqualsDeclarative
INVARIANT DirtyGate
INVARIANT NoLeak
INVARIANT AllowDirtyPackagesTheCommit
INVARIANT CleanWhenStrict
INVARIANT FormatsAgree
INVARIANT ArchiveNames
INVARIANT ChecksumOnlyOnSuccess
INVARIANT FailureLeavesNothing
INVARIANT SuccessHasChecksums
INVARIANT NoArchiveBeforeScripts
INVARIANT ScriptsInOrder
INVARIANT ScriptEnvLaw
INVARIANT ScriptsRunTheCommittedFile
INVARIANT IncludeExactlyUsed
INVARIANT TestsSeeTheArchive
INVARIANT OnlyTheSubdir
PROPERTY SourceUntouched
PROPERTY Terminates
CHECK_DEADLOCK FALSE
POSTCONDITION EmitSpace
