------------------------------- MODULE MDist_MC -------------------------------
(***************************************************************************)
(* Bounded exhaustive model of `meson dist`.                               *)
(* An initial state is (family, source state, options, earlier content of  *)
(* meson-dist); the behaviour is the run of MDistProc from it.  A family   *)
(* fixes what `meson setup` saw (subprojects, dist scripts, which project  *)
(* is released) and gives every path that matters a *status* out of the    *)
(* catalogue below (clean, modified, staged, staged and edited again,      *)
(* staged and reverted, deleted, removed from the index, untracked, newly  *)
(* staged, exec bit changed, absent); content ids of the three layers are  *)
(* distinct ("n0" committed, "n1" staged / edited, "n2" edited again) so   *)
(* that a leak is visible.                                                 *)
(* The initial states of the selected family are exported                  *)
(* (mdist_space.json) - the harness renders each as a real git repository  *)
(* and runs the real command on it.                                        *)
(***************************************************************************)
EXTENDS MDistProc, Json, IOUtils, SequencesExt

CONSTANT Family

-----------------------------------------------------------------------------
\* statuses of one path -> its entry (or none) in the three layers of a repository

One(p, e) == p :> e
\* x: the exec bit of the committed file
StX(p, st, n, x) ==
    LET e0 == File(n \o "0", x)  e1 == File(n \o "1", x)  e2 == File(n \o "2", x)
        o0 == One(p, e0)  o1 == One(p, e1)  o2 == One(p, e2)
    IN CASE st = "clean"     -> [head |-> o0, index |-> o0, wt |-> o0]
         [] st = "mod"       -> [head |-> o0, index |-> o0, wt |-> o1]
         [] st = "staged"    -> [head |-> o0, index |-> o1, wt |-> o1]
         [] st = "staged2"   -> [head |-> o0, index |-> o1, wt |-> o2]
         [] st = "reverted"  -> [head |-> o0, index |-> o1, wt |-> o0]
         [] st = "del"       -> [head |-> o0, index |-> o0, wt |-> NoTree]
         [] st = "rmcached"  -> [head |-> o0, index |-> NoTree, wt |-> NoTree]
         [] st = "untracked" -> [head |-> NoTree, index |-> NoTree, wt |-> o1]
         [] st = "new"       -> [head |-> NoTree, index |-> o1, wt |-> o1]
         [] st = "chmod"     -> [head |-> o0, index |-> o0, wt |-> One(p, File(n \o "0", ~x))]
         [] st = "link"      -> LET l == One(p, Link("a")) IN [head |-> l, index |-> l, wt |-> l]
         [] st = "absent"    -> [head |-> NoTree, index |-> NoTree, wt |-> NoTree]
St(p, st, n) == StX(p, st, n, FALSE)
AllStatuses == {"clean", "mod", "staged", "staged2", "reverted", "del", "rmcached", "untracked", "new", "chmod", "link", "absent"}

RECURSIVE Join(_)
Join(fr) == IF fr = <<>> THEN [head |-> NoTree, index |-> NoTree, wt |-> NoTree]
            ELSE LET r == Join(Tail(fr)) IN
                 [head |-> fr[1].head @@ r.head, index |-> fr[1].index @@ r.index, wt |-> fr[1].wt @@ r.wt]

\* a module in status st: the submodule's files are l (and l2 once something changed)
ModSt(st) ==
    LET t0 == One(<<"l">>, File("l0", FALSE))  t1 == One(<<"l">>, File("l1", FALSE))  t2 == One(<<"l">>, File("l2", FALSE)) IN
    CASE st = "clean"     -> [path |-> <<"sm">>, rec |-> t0, idx |-> t0, head |-> t0, wt |-> t0]
      [] st = "wtdirty"   -> [path |-> <<"sm">>, rec |-> t0, idx |-> t0, head |-> t0, wt |-> t1]
      [] st = "untracked" -> [path |-> <<"sm">>, rec |-> t0, idx |-> t0, head |-> t0, wt |-> t0 @@ One(<<"u">>, File("u1", FALSE))]
      [] st = "newcommit" -> [path |-> <<"sm">>, rec |-> t0, idx |-> t0, head |-> t1, wt |-> t1]
      [] st = "stagedbump" -> [path |-> <<"sm">>, rec |-> t0, idx |-> t1, head |-> t1, wt |-> t1]
      [] st = "bumpmore"  -> [path |-> <<"sm">>, rec |-> t0, idx |-> t1, head |-> t2, wt |-> t2]

-----------------------------------------------------------------------------
\* families

Sub(name, kind, used) == [name |-> name, dir |-> <<"subprojects", name>>, kind |-> kind, used |-> used]
A(op, base, p, c)     == [op |-> op, base |-> base, p |-> p, c |-> c]
Script(id, owner, file, acts, rc) == [id |-> id, owner |-> owner, file |-> file, acts |-> acts, rc |-> rc]
MB == <<"meson.build">>

Cfg(fam) ==
    CASE fam = "flat" ->
           [name |-> "flat", version |-> "1.0", root |-> <<>>, subs |-> <<>>,
            scripts |-> << Script("m1", "", <<"ds.sh">>, <<A("add", "proj", <<"gen", "g.txt">>, "g1"), A("add", "dist", <<"b">>, "bnew")>>, 0),
                           Script("m2", "", <<"ds.sh">>, <<A("rm", "proj", <<"a">>, "")>>, 0) >>]
      [] fam = "subs" ->
           [name |-> "subs", version |-> "2", root |-> <<>>,
            subs |-> << Sub("own", "own", TRUE), Sub("pl", "plain", TRUE), Sub("un", "own", FALSE),
                        Sub("up", "plain", FALSE), Sub("sr", "same", TRUE) >>,
            scripts |-> << Script("o1", "own", <<"s.sh">>, <<A("add", "proj", <<"gen.txt">>, "g1")>>, 0),
                           Script("m1", "", <<"ds.sh">>, <<A("rmtree", "dist", <<"subprojects", "sr">>, "")>>, 0) >>]
      [] fam = "fail" ->
           [name |-> "fail", version |-> "0.1", root |-> <<>>, subs |-> <<>>,
            scripts |-> << Script("m1", "", <<"ds.sh">>, <<A("add", "proj", <<"g.txt">>, "g1")>>, 0),
                           Script("m2", "", <<"ds.sh">>, <<A("add", "proj", <<"h.txt">>, "h1")>>, 3),
                           Script("m3", "", <<"ds.sh">>, <<A("add", "proj", <<"i.txt">>, "i1")>>, 0) >>]
      [] fam = "mods" ->
           [name |-> "mods", version |-> "3", root |-> <<>>, subs |-> <<>>, scripts |-> <<>>]
      [] fam = "subroot" ->
           [name |-> "lib", version |-> "1.1", root |-> <<"subprojects", "lib">>, subs |-> <<>>,
            scripts |-> << Script("l1", "", <<"ls.sh">>, <<A("setver", "proj", <<>>, "9.9")>>, 0) >>]
      [] fam = "tests" ->
           [name |-> "tests", version |-> "1", root |-> <<>>, subs |-> << Sub("pl", "plain", TRUE) >>, scripts |-> <<>>]

FileClean(p, c) == St(p, "clean", c)
ExecClean(p, c) == StX(p, "clean", c, TRUE)

\* the source states of a family
Sources(fam) ==
    CASE fam = "flat" ->
           { [main |-> Join(<<FileClean(MB, "mb"), StX(<<"ds.sh">>, ss, "ds", TRUE), St(<<"a">>, sa, "a"), St(<<"b">>, sb, "b")>>),
              mods |-> <<>>, own |-> <<>>, plain |-> <<>>]
             : ss \in {"clean", "mod", "untracked"}, sa \in AllStatuses, sb \in {"clean", "untracked", "absent"} }
      [] fam = "subs" ->
           { [main |-> Join(<<FileClean(MB, "mb"), ExecClean(<<"ds.sh">>, "ds"), St(<<"a">>, sa, "a"),
                              FileClean(<<"subprojects", "sr", "meson.build">>, "srmb"), St(<<"subprojects", "sr", "f">>, sf, "srf")>>),
              mods |-> <<>>,
              own |-> << [name |-> "own"] @@ Join(<<FileClean(MB, "ownmb"), ExecClean(<<"s.sh">>, "owns"), St(<<"x">>, sx, "ownx")>>),
                         [name |-> "un"] @@ Join(<<FileClean(MB, "unmb")>>) >>,
              plain |-> << [name |-> "pl", wt |-> One(MB, File("plmb0", FALSE)) @@ One(<<"d", "y">>, File("ply0", FALSE))],
                           [name |-> "up", wt |-> One(MB, File("upmb0", FALSE))] >>]
             : sa \in {"clean", "mod", "untracked"}, sf \in {"clean", "mod", "untracked"}, sx \in {"clean", "mod", "untracked", "new", "staged"} }
      [] fam = "fail" ->
           { [main |-> Join(<<FileClean(MB, "mb"), ExecClean(<<"ds.sh">>, "ds"), St(<<"a">>, sa, "a")>>),
              mods |-> <<>>, own |-> <<>>, plain |-> <<>>] : sa \in {"clean", "mod"} }
      [] fam = "mods" ->
           { [main |-> Join(<<FileClean(MB, "mb"), FileClean(<<".gitmodules">>, "gm"), St(<<"a">>, sa, "a")>>),
              mods |-> << ModSt(sm) >>, own |-> <<>>, plain |-> <<>>]
             : sa \in {"clean", "untracked", "mod"}, sm \in {"clean", "wtdirty", "untracked", "newcommit", "stagedbump", "bumpmore"} }
      [] fam = "subroot" ->
           { [main |-> Join(<<FileClean(MB, "mb"), St(<<"a">>, sa, "a"),
                              FileClean(<<"subprojects", "lib", "meson.build">>, "libmb"),
                              ExecClean(<<"subprojects", "lib", "ls.sh">>, "libs"),
                              St(<<"subprojects", "lib", "f">>, sf, "libf"),
                              FileClean(<<"subprojects", "other", "meson.build">>, "othmb")>>),
              mods |-> <<>>, own |-> <<>>, plain |-> <<>>]
             : sa \in {"clean", "mod", "untracked"}, sf \in {"clean", "mod", "untracked", "del", "new"} }
      [] fam = "tests" ->
           { [main |-> Join(<<FileClean(MB, "mb"), St(<<"a">>, sa, "a")>>),
              mods |-> <<>>, own |-> <<>>,
              plain |-> << [name |-> "pl", wt |-> One(MB, File("plmb0", FALSE))] >>] : sa \in {"clean", "mod"} }

FormatLists(fam) ==
    IF fam = "flat" THEN { <<"gztar">>, <<"zip">>, <<"xztar", "zip">>, <<"bztar", "gztar", "zip">>, <<"tar">>, <<"zip", "">>, <<>>, <<"zip", "zip">> }
    ELSE IF fam = "tests" THEN { <<"gztar">>, <<"zip", "gztar">> }
    ELSE { <<"gztar">>, <<"zip", "gztar">> }
TestModes(fam) == IF fam = "tests" THEN {"none", "pass", "build", "test", "install"} ELSE {"none"}
Options(fam) == { [formats |-> f, dirty |-> d, subs |-> s, tests |-> t] :
                  f \in FormatLists(fam), d \in BOOLEAN,
                  s \in (IF fam \in {"subs", "tests"} THEN BOOLEAN ELSE {FALSE}), t \in TestModes(fam) }

\* what meson-dist held before: nothing, or the archive of an earlier successful run with other members
NoMd == [n \in {} |-> [mem |-> Mem(NoTree), links |-> {}, sum |-> "none"]]
OldMd(fam) == ArchiveName(Cfg(fam), "gztar") :> [mem |-> Mem(One(<<"old">>, File("old0", FALSE))), links |-> {}, sum |-> "ok"]
Earlier(fam) == IF fam \in {"tests", "fail"} THEN {NoMd, OldMd(fam)} ELSE {NoMd}

Init == /\ cfg = Cfg(Family)
        /\ src \in Sources(Family)
        /\ opt \in Options(Family)
        /\ md0 \in Earlier(Family)
        /\ PInit
Spec == Init /\ [][PNext]_pvars /\ WF_pvars(PNext)

-----------------------------------------------------------------------------
\* laws

D == Dist(src, cfg, opt, md0)

\* L1 the state machine computes the declarative result, whatever the order in which subprojects are added
OperationalEqualsDeclarative ==
    Finished => Result = [ok |-> D.ok, why |-> D.why, md |-> D.md, ran |-> D.ran, tests |-> D.tests]

\* L2 the source tree, the configuration and the options are not modified by any step
SourceUntouched == [][src' = src /\ cfg' = cfg /\ opt' = opt]_pvars

\* L3 nothing is exported before the dirty gate: with uncommitted changes and without --allow-dirty nothing happens
DirtyGate == (MainDirty(src) /\ ~opt.dirty) => (pc \in {"formats", "dirty", "failed"} /\ md = md0 /\ ran = <<>>)

\* L4 content that exists only in a staging area / working directory never reaches the staging tree or an archive;
\*    only scripts add content that no commit has
ScriptIds == UNION { { sc.acts[j].c : j \in 1..Len(sc.acts) } : sc \in Elems(cfg.scripts) }
NoLeak ==
    /\ \A p \in DOMAIN T : T[p].c \in LeakIds(src) => T[p].c \in ScriptIds
    /\ \A n \in made : \A m \in md[n].mem.files : m.c \notin LeakIds(src)

\* L5 with --allow-dirty the result is the result on the clean check-out of the same commits
CleanRepo(r) == [r EXCEPT !.index = r.head, !.wt = r.head]
CleanMod(m)  == [m EXCEPT !.idx = m.rec, !.head = m.rec, !.wt = m.rec]
Cleaned(S) == [main |-> CleanRepo(S.main), mods |-> [i \in 1..Len(S.mods) |-> CleanMod(S.mods[i])],
               own |-> [i \in 1..Len(S.own) |-> CleanRepo(S.own[i])], plain |-> S.plain]
Proj(d) == [ok |-> d.ok, why |-> d.why, md |-> d.md, ran |-> d.ran, tests |-> d.tests]
AllowDirtyPackagesTheCommit == opt.dirty => Proj(D) = Proj(Dist(Cleaned(src), cfg, opt, md0))
\*    and without it a run that gets past the gate has seen a clean repository
CleanWhenStrict == (~opt.dirty /\ D.why \notin {"BadFormat", "Dirty", "SubprojectDirty"}) => Proj(D) = Proj(Dist(Cleaned(src), cfg, opt, md0))

\* L6 all archives made by one run have the same members
FormatsAgree == \A n1, n2 \in made : md[n1].mem = md[n2].mem
ArchiveNames == made \subseteq { Top(cfg) \o e : e \in {".tar.xz", ".tar.gz", ".tar.bz2", ".zip"} }

\* L7 a checksum exists only when the operation succeeded (tests passed or were skipped); a failed operation that did
\*    not reach archiving leaves meson-dist as it was
ChecksumOnlyOnSuccess == \A n \in made : md[n].sum = "ok" => (pc = "done" /\ TestsPass(opt))
FailureLeavesNothing == (pc = "failed" /\ why # "TestsFailed") => (md = md0 /\ made = {})
SuccessHasChecksums  == pc = "done" => (made # {} /\ \A n \in made : md[n].sum = "ok")
NoArchiveBeforeScripts == made # {} => (k > Len(cfg.scripts) /\ pc \in {"archive", "test", "sum", "done", "failed"})

\* L8 scripts: the scripts that ran are a prefix of the eligible ones, in the order they were added; subproject
\*    scripts only with --include-subprojects; every script saw the edits of its predecessors
EligibleIds == SelectSeq([j \in 1..Len(cfg.scripts) |-> cfg.scripts[j]], LAMBDA sc : Eligible(cfg, opt, sc))
ScriptsInOrder ==
    /\ Len(ran) <= Len(EligibleIds)
    /\ \A j \in 1..Len(ran) : ran[j].id = EligibleIds[j].id
    /\ \A j \in 1..Len(ran) : EligibleIds[j].owner # "" => opt.subs
    /\ pc = "done" => Len(ran) = Len(EligibleIds)
ScriptEnvLaw ==
    \A j \in 1..Len(ran) :
        LET e == ran[j].env  own == EligibleIds[j].owner IN
        /\ e.dist = <<"meson-dist", Top(cfg)>> /\ e.src = <<>> /\ e.bld = <<>>
        /\ own = "" => (e.pdist = e.dist /\ e.psrc = e.src /\ e.pbld = e.bld)
        /\ own # "" => (e.pdist = e.dist \o <<"subprojects", own>> /\ e.psrc = <<"subprojects", own>> /\ e.pbld = e.psrc)
ScriptsRunTheCommittedFile ==
    \A j \in 1..Len(ran) : ran[j].tag \notin LeakIds(src)

\* L9 --include-subprojects adds exactly the used subprojects that are not already part of the commit
IncludeExactlyUsed ==
    (pc = "scripts" /\ k = 1) =>
        \A i \in SubIdx(cfg) :
            LET s == cfg.subs[i] IN
            IF s.kind = "same" THEN Cut(T, s.dir) = Cut(Committed(src, cfg), s.dir)
            ELSE (Below(T, s.dir) # {}) <=> (opt.subs /\ s.used)
\* L10 the test cycle works on the archive: the files it sees are the archive's files; offline iff subprojects included
TestsSeeTheArchive ==
    \A j \in 1..Len(tests) : /\ \A n \in made : tests[j].files = { m.p : m \in md[n].mem.files }
                             /\ tests[j].offline = opt.subs
                             /\ tests[j].stage = Stages[j]
\* L11 releasing a subproject separately contains that directory only
OnlyTheSubdir ==
    (cfg.root # <<>> /\ pc = "scripts" /\ k = 1) =>
        /\ \A p \in DOMAIN T : (cfg.root \o p) \in DOMAIN src.main.head /\ T[p] = src.main.head[cfg.root \o p]
        /\ \A q \in Below(src.main.head, cfg.root) : SubSeq(q, Len(cfg.root) + 1, Len(q)) \in DOMAIN T

TypeOK == /\ pc \in {"formats", "dirty", "export", "subs", "scripts", "archive", "test", "sum", "done", "failed"}
          /\ todo \subseteq SubIdx(cfg)
          /\ made \subseteq DOMAIN md

\* progress: every behaviour ends in done or failed
Terminates == <>(Finished)

-----------------------------------------------------------------------------
\* export of the bounded input space

TreeSeq(t) == SetToSeq({ [p |-> p, k |-> t[p].k, c |-> t[p].c, x |-> t[p].x] : p \in DOMAIN t })
RepoJ(r)   == [head |-> TreeSeq(r.head), index |-> TreeSeq(r.index), wt |-> TreeSeq(r.wt)]
SrcJ(S) == [main  |-> RepoJ(S.main),
            mods  |-> [i \in 1..Len(S.mods) |-> [path |-> S.mods[i].path, rec |-> TreeSeq(S.mods[i].rec), idx |-> TreeSeq(S.mods[i].idx),
                                                  head |-> TreeSeq(S.mods[i].head), wt |-> TreeSeq(S.mods[i].wt)]],
            own   |-> [i \in 1..Len(S.own) |-> [name |-> S.own[i].name] @@ RepoJ(S.own[i])],
            plain |-> [i \in 1..Len(S.plain) |-> [name |-> S.plain[i].name, wt |-> TreeSeq(S.plain[i].wt)]]]
Space == [family |-> Family, cfg |-> Cfg(Family),
          sources |-> SetToSeq({ SrcJ(S) : S \in Sources(Family) }),
          options |-> SetToSeq(Options(Family)),
          earlier |-> Cardinality(Earlier(Family))]
EmitSpace == TLCGet("stats").diameter >= 0 /\ JsonSerialize("mdist_space.json", Space)
=============================================================================
