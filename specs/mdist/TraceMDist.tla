------------------------------ MODULE TraceMDist ------------------------------
(***************************************************************************)
(* Trace validation for X12.  One case = one configured build directory of *)
(* one generated project (cfg) and a history of real `meson dist` runs.    *)
(* Every run is an event                                                   *)
(*   src     the state of the source tree observed just before the run     *)
(*           (the three layers of every repository, the submodules, the    *)
(*           plain subproject directories), projected to content ids       *)
(*   opt     the options of the run (and which stage of the test cycle the *)
(*           stand-in for ninja was told to fail)                          *)
(*   before  the archives and checksum files in meson-dist before the run  *)
(*   obs     exit status, the archives and checksum files afterwards (read *)
(*           back with tarfile / zipfile), what every dist script logged   *)
(*           (id, the content id of the script file that ran, its          *)
(*           environment relative to the source / build directory, the     *)
(*           files it saw), what the stand-in for ninja logged, and which  *)
(*           files of the source tree / build directory changed            *)
(* The run is judged against MDist!Dist applied to the observed state; the *)
(* first failing clause is reported.                                       *)
(***************************************************************************)
EXTENDS MDist, Json, IOUtils

Cases == JsonDeserialize(IOEnv.TRACE_FILE)

VARIABLES i, done
vars == <<i, done>>

Rng(s) == { s[j] : j \in 1..Len(s) }
TreeFrom(s) == [ p \in { s[j].p : j \in 1..Len(s) } |->
                   LET e == CHOOSE e \in Rng(s) : e.p = p IN [k |-> e.k, c |-> e.c, x |-> e.x] ]
RepoFrom(r) == [head |-> TreeFrom(r.head), index |-> TreeFrom(r.index), wt |-> TreeFrom(r.wt)]
SrcFrom(s) ==
    [main  |-> RepoFrom(s.main),
     mods  |-> [j \in 1..Len(s.mods) |-> [path |-> s.mods[j].path, rec |-> TreeFrom(s.mods[j].rec), idx |-> TreeFrom(s.mods[j].idx),
                                           head |-> TreeFrom(s.mods[j].head), wt |-> TreeFrom(s.mods[j].wt)]],
     own   |-> [j \in 1..Len(s.own) |-> [name |-> s.own[j].name, head |-> TreeFrom(s.own[j].head),
                                          index |-> TreeFrom(s.own[j].index), wt |-> TreeFrom(s.own[j].wt)]],
     plain |-> [j \in 1..Len(s.plain) |-> [name |-> s.plain[j].name, wt |-> TreeFrom(s.plain[j].wt)]]]

\* the checksum file next to an archive: none, matching the archive bytes and naming the archive, or not
SumState(a) == IF a.sumhex = "" THEN "none" ELSE IF a.sumhex = a.sha /\ a.sumname = a.name THEN "ok" ELSE "bad"
FilesOf(a) == { [p |-> f.p, k |-> f.k, c |-> f.c, x |-> f.x] : f \in Rng(a.files) }
MdFrom(as) == [ n \in { a.name : a \in Rng(as) } |->
                  LET a == CHOOSE a \in Rng(as) : a.name = n IN
                  [mem |-> [files |-> FilesOf(a), dirs |-> Rng(a.dirs)], links |-> {}, sum |-> SumState(a)] ]
ArchNamed(as, n) == CHOOSE a \in Rng(as) : a.name = n

ScriptIds(cfg) == UNION { { sc.acts[j].c : j \in 1..Len(sc.acts) } : sc \in Rng(cfg.scripts) }
Ids(t) == { t[p].c : p \in DOMAIN t }
\* where a content id that is in no packaged commit comes from
Origin(S, c) ==
    IF \E m \in Rng(S.mods) : c \in Ids(m.idx) THEN "submodule commit recorded in the staging area only"
    ELSE IF \E m \in Rng(S.mods) : c \in Ids(m.head) THEN "commit checked out in the submodule but not recorded"
    ELSE IF \E m \in Rng(S.mods) : c \in Ids(m.wt) THEN "working tree of the submodule"
    ELSE IF c \in Ids(S.main.index) THEN "staging area"
    ELSE IF \E p \in DOMAIN S.main.wt : S.main.wt[p].c = c /\ p \in DOMAIN S.main.index THEN "working tree (tracked file)"
    ELSE IF c \in Ids(S.main.wt) THEN "untracked file"
    ELSE IF \E r \in Rng(S.own) : c \in Ids(r.index) THEN "staging area of a subproject repository"
    ELSE IF \E r \in Rng(S.own) : c \in Ids(r.wt) THEN "working tree of a subproject repository"
    ELSE "unknown"

RECURSIVE SetSeq(_)
SetSeq(X) == IF X = {} THEN <<>> ELSE LET x == CHOOSE x \in X : TRUE IN <<x>> \o SetSeq(X \ {x})

V(clause, note, missing, extra) == [clause |-> clause, note |-> note, missing |-> SetSeq(missing), extra |-> SetSeq(extra)]
Ok == V("ok", "", {}, {})

RanView(r) == [id |-> r.id, tag |-> r.tag]
EnvView(e) == [dist |-> e.dist, pdist |-> e.pdist, src |-> e.src, psrc |-> e.psrc, bld |-> e.bld, pbld |-> e.pbld]

\* first archive (in the order of the names) for which P fails
JudgeArchive(cfg, S, exp, made, a, before) ==
    LET n    == a.name
        e    == exp.md[n]
        lk   == e.links
        zip  == a.fmt = "zip"
        of   == IF zip THEN { f \in FilesOf(a) : f.p \notin lk } ELSE FilesOf(a)
        ef   == IF zip THEN { f \in e.mem.files : f.p \notin lk } ELSE e.mem.files
        od   == IF zip THEN Rng(a.dirs) \ lk ELSE Rng(a.dirs)
        leak == { f \in FilesOf(a) : f.c \in LeakIds(S) /\ f.c \notin ScriptIds(cfg) }
    IN IF n \notin made
       THEN \* an archive of an earlier run: untouched
            LET b == ArchNamed(before, n) IN
            IF a.sha # b.sha \/ SumState(a) # SumState(b) THEN V("EarlierArchivesUntouched", "", {}, {}) ELSE Ok
       ELSE IF Rng(a.top) # {Top(cfg)} THEN V("TopDir", "", {Top(cfg)}, Rng(a.top))
       ELSE IF \E f \in FilesOf(a) : ".git" \in Rng(f.p) \/ ".hg" \in Rng(f.p) THEN V("NoVCSMetadata", "", {}, { f.p : f \in { g \in FilesOf(a) : ".git" \in Rng(g.p) } })
       ELSE IF leak # {} THEN V("OnlyCommitted", Origin(S, (CHOOSE f \in leak : TRUE).c), {}, { f.p : f \in leak })
       ELSE IF of # ef \/ od # e.mem.dirs
            THEN V("ExactMembers", a.fmt \o (IF ef \ of # {} \/ e.mem.dirs \ od # {} THEN " missing" ELSE "") \o (IF of \ ef # {} \/ od \ e.mem.dirs # {} THEN " extra" ELSE ""),
                   { f.p : f \in ef \ of } \cup (e.mem.dirs \ od), { f.p : f \in of \ ef } \cup (od \ e.mem.dirs))
       ELSE IF SumState(a) = "bad" THEN V(IF e.sum = "none" THEN "ChecksumOnlyAfterTests" ELSE "ChecksumMatches", "checksum file does not match the archive", {}, {})
       ELSE IF e.sum = "ok" /\ SumState(a) = "none" THEN V("ChecksumCreated", "", {}, {})
       ELSE IF e.sum = "none" /\ SumState(a) = "ok" THEN V("ChecksumOnlyAfterTests", "checksum file created although the test cycle failed", {}, {})
       ELSE Ok

RECURSIVE FirstBad(_)
FirstBad(vs) == IF vs = <<>> THEN Ok ELSE IF vs[1].clause # "ok" THEN vs[1] ELSE FirstBad(Tail(vs))

TestView(t) == [stage |-> t.stage, files |-> Rng(t.files), offline |-> t.offline, destdir |-> t.destdir]

JudgeDist(cfg, ev) ==
    LET S     == SrcFrom(ev.src)
        o     == ev.opt
        obs   == ev.obs
        exp   == Dist(S, cfg, o, MdFrom(ev.before))
        early == ~exp.ok /\ exp.why # "TestsFailed"
        made  == IF early THEN {} ELSE { ArchiveName(cfg, f) : f \in Rng(o.formats) }
        names == { a.name : a \in Rng(obs.arch) }
        oran  == obs.ran
        gate  == ~exp.ok /\ exp.why \in {"BadFormat", "Dirty", "SubprojectDirty"}
    IN
    IF obs.crash THEN V("NoCrash", obs.crashtype \o (IF o.subs THEN " with --include-subprojects" ELSE ""), {}, {})
    \* the operation must stop at the gate (bad --formats, uncommitted changes): non-zero exit, nothing staged, run or archived
    ELSE IF gate /\ (obs.rc = 0 \/ oran # <<>> \/ obs.tests # <<>> \/ names # { a.name : a \in Rng(ev.before) })
         THEN V(exp.why \o "IsError", IF o.dirty THEN "--allow-dirty" ELSE "", {}, { r.id : r \in Rng(oran) })
    ELSE IF ~exp.ok /\ obs.rc = 0
         THEN V(CASE exp.why = "BadFormat" -> "BadFormatIsError" [] exp.why = "Dirty" -> "DirtyIsError"
                  [] exp.why = "SubprojectDirty" -> "SubprojectDirtyIsError" [] exp.why = "ScriptFailed" -> "ScriptFailureAborts"
                  [] exp.why = "ScriptMissingInStaging" -> "ScriptMissingInStagingIsError" [] OTHER -> "TestFailureIsError",
                IF o.dirty THEN "--allow-dirty" ELSE "", {}, {})
    ELSE IF exp.ok /\ obs.rc # 0
         THEN V(IF MainDirty(S) \/ SubsDirty(S, cfg, o) THEN "AllowDirtyProceeds" ELSE "Succeeds", "exit status " \o ToString(obs.rc), {}, {})
    ELSE IF obs.srcdiff # <<>> THEN V("SourceUntouched", "", {}, Rng(obs.srcdiff))
    ELSE IF obs.blddiff # <<>> THEN V("BuildDirUntouched", "", {}, Rng(obs.blddiff))
    ELSE IF [j \in 1..Len(oran) |-> oran[j].id] # [j \in 1..Len(exp.ran) |-> exp.ran[j].id]
         THEN V(IF exp.why = "ScriptMissingInStaging" /\ Len(oran) > Len(exp.ran) THEN "ScriptMissingInStagingIsError"
                ELSE IF exp.why = "ScriptFailed" /\ Len(oran) > Len(exp.ran) THEN "ScriptFailureAborts"
                ELSE IF \E j \in 1..Len(oran) : \E sc \in Rng(cfg.scripts) : sc.id = oran[j].id /\ sc.owner # "" /\ ~o.subs THEN "SubprojectScriptsOnlyWhenIncluded"
                ELSE "ScriptsInOrder", IF exp.why = "ScriptMissingInStaging" /\ o.dirty THEN "--allow-dirty" ELSE "", { r.id : r \in Rng(exp.ran) } \ { r.id : r \in Rng(oran) }, { r.id : r \in Rng(oran) } \ { r.id : r \in Rng(exp.ran) })
    ELSE IF \E j \in 1..Len(oran) : oran[j].tag # exp.ran[j].tag
         THEN LET j == CHOOSE j \in 1..Len(oran) : oran[j].tag # exp.ran[j].tag IN
              V("ScriptFromStaging", "the script that ran is the one in the " \o Origin(S, oran[j].tag), {exp.ran[j].tag}, {oran[j].tag})
    ELSE IF \E j \in 1..Len(oran) : EnvView(oran[j].env) # exp.ran[j].env
         THEN LET j == CHOOSE j \in 1..Len(oran) : EnvView(oran[j].env) # exp.ran[j].env IN
              V("ScriptEnvironment", IF \E sc \in Rng(cfg.scripts) : sc.id = oran[j].id /\ sc.owner # "" THEN "subproject script" ELSE "main project script",
                {exp.ran[j].env}, {EnvView(oran[j].env)})
    ELSE IF \E j \in 1..Len(oran) : ~oran[j].rw THEN V("RewriteToolProvided", "", {}, {})
    ELSE IF \E j \in 1..Len(oran) : Rng(oran[j].sees) # exp.ran[j].sees
         THEN LET j == CHOOSE j \in 1..Len(oran) : Rng(oran[j].sees) # exp.ran[j].sees IN
              V("ScriptSeesStaging", IF j = 1 THEN "first script" ELSE "later script", exp.ran[j].sees \ Rng(oran[j].sees), Rng(oran[j].sees) \ exp.ran[j].sees)
    ELSE IF names # DOMAIN exp.md
         THEN V(IF early THEN "ErrorLeavesNoArchive" ELSE "ArchiveSet", "", DOMAIN exp.md \ names, names \ DOMAIN exp.md)
    ELSE LET av == FirstBad([j \in 1..Len(obs.arch) |-> JudgeArchive(cfg, S, exp, made, obs.arch[j], ev.before)]) IN
         IF av.clause # "ok" THEN (IF early /\ av.clause = "EarlierArchivesUntouched" THEN [av EXCEPT !.clause = "ErrorLeavesNoArchive"] ELSE av)
         ELSE IF [j \in 1..Len(obs.tests) |-> TestView(obs.tests[j])] # exp.tests
              THEN V("TestCycle", IF Len(obs.tests) # Len(exp.tests) THEN "stages" ELSE "stage sees other files or options", {}, {})
         ELSE Ok

RECURSIVE Run(_, _, _)
Run(c, j, acc) ==
    IF j > Len(c.evs) THEN acc
    ELSE LET v == JudgeDist(c.cfg, c.evs[j]) IN
         Run(c, j + 1, IF v.clause = "ok" THEN acc ELSE Append(acc, [step |-> j] @@ v))

Judge(c) ==
    LET fails == Run(c, 1, <<>>) IN
    [id |-> c.id, clause |-> IF fails = <<>> THEN "ok" ELSE fails[1].clause, fails |-> fails]

Init == i \in 1..Len(Cases) /\ done = FALSE
Next == /\ ~done
        /\ done' = TRUE
        /\ i' = i
        /\ LET v == Judge(Cases[i]) IN v.clause = "ok" \/ PrintT(ToJson(v))
Spec == Init /\ [][Next]_vars
=============================================================================
