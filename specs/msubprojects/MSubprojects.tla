---------------------------- MODULE MSubprojects ----------------------------
(***************************************************************************)
(* X11 - the rule book of the `meson subprojects` command family           *)
(* (download, update, checkout, foreach, purge, packagefiles) over an      *)
(* abstract subprojects directory.  Written from the documentation:        *)
(*                                                                         *)
(*  [SP]  docs/markdown/Subprojects.md, "`meson subprojects` command"      *)
(*        (Download / Update / Start a topic branch / Execute a command)   *)
(*  [CM]  docs/markdown/Commands.md, "subprojects" and the generated help  *)
(*        (`meson subprojects <cmd> -h`, man/meson.1)                      *)
(*  [WM]  docs/markdown/Wrap-dependency-system-manual.md (wrap kinds,      *)
(*        `directory`, patch_directory / packagefiles, package cache)      *)
(*  [R56] Release-notes-for-0.56.0.md "`meson subprojects` command"        *)
(*  [R58] Release-notes-for-0.58.0.md "Purge subprojects folder"           *)
(*  [R59] Release-notes-for-0.59.0.md "Parallelized `meson subprojects`"   *)
(*  [R60] Release-notes-for-0.60.0.md "New `subprojects packagefiles`"     *)
(*  [UT]  unittests/subprojectscommandtests.py (test_git_update,           *)
(*        test_foreach, test_purge), unittests/allplatformstests.py        *)
(*        (wrap-redirect written when a nested wrap is promoted)           *)
(*                                                                         *)
(* A *wrap state* is one record per subproject known to the main project.  *)
(* Commits are labels; a branch / HEAD is the chain of labels from the     *)
(* root commit (histories are linear; every commit adds its own file, so   *)
(* rebases never conflict - conflicts are outside this rule book).  Where  *)
(* the documents leave a choice the rule yields every permitted outcome.   *)
(***************************************************************************)
EXTENDS Integers, Sequences, FiniteSets, TLC

Branches == {"master", "dev", "topic"}          \* local branch names of the model
RemoteBranches == {"master", "dev"}             \* branches that exist upstream
NoBranches == [b \in Branches |-> <<>>]
NoRemotes == [b \in RemoteBranches |-> <<>>]

Range(s) == { s[i] : i \in 1..Len(s) }
\* git rebase: the commits of `c` that are not part of `onto` are replayed on top of `onto` (no conflicts here)
Rebase(c, onto) == onto \o SelectSeq(c, LAMBDA x : x \notin Range(onto))

---------------------------------------------------------------------------
(* Wrap states.                                                            *)
(*  kind   "file" | "git" | "redirect" (a [wrap-redirect] in the main      *)
(*         project naming a [wrap-file] nested in another subproject) |    *)
(*         "none" (a directory without wrap file)                          *)
(*  live   the wrap file exists in the main project's subprojects dir      *)
(*  wv     which source archive the wrap file names (file kinds)           *)
(*  rev    the `revision` of a wrap-git (a branch name here)               *)
(*  ov     content version of the patch_directory overlay (0: none)        *)
(*  omod   the overlay also holds a saved local file (packagefiles --save) *)
(*  dir    "absent" | "present";  src / aov / mod: extracted archive       *)
(*         version, applied overlay version, a local file of the user      *)
(*  cache  archive versions in subprojects/packagecache                    *)
(*  repo, cur ("" = detached), det, lb, rt, dirty, stash: the checkout     *)
(*  up     the upstream repository (branch -> chain)                       *)
(***************************************************************************)
TypeName(w) == CASE w.kind = "file" -> "file"
                 [] w.kind = "git" -> "git"
                 [] w.kind = "redirect" -> "file"     \* the type of a redirected wrap is the type of the real one
                 [] OTHER -> "none"

\* the wrap is known to the main project: its wrap file is there, or (no wrap) its directory is
Visible(w) == IF w.kind = "none" THEN w.dir = "present" ELSE w.live

\* all fields that describe the directory, reset
Absent(w) == [w EXCEPT !.dir = "absent", !.src = 0, !.aov = 0, !.mod = FALSE, !.repo = FALSE, !.cur = "", !.det = <<>>,
                       !.lb = NoBranches, !.rt = NoRemotes, !.dirty = "clean", !.stash = 0]

\* [WM] a wrap-file is downloaded (into the package cache), extracted and the overlay is put on top
Extracted(w) == [Absent(w) EXCEPT !.dir = "present", !.src = w.wv, !.aov = w.ov, !.mod = (w.ov > 0 /\ w.omod),
                                  !.cache = w.cache \cup {w.wv}]

\* [WM] wrap-git: clone `url`, check out `revision`.  A clone has the remote's branches as remote-tracking refs, a
\* local branch for the remote's default branch (master) and one for the revision that was checked out.
Cloned(w) == [Absent(w) EXCEPT !.dir = "present", !.repo = TRUE, !.rt = w.up, !.cur = w.rev,
                               !.lb = [b \in Branches |-> IF b = "master" \/ b = w.rev THEN w.up[b] ELSE <<>>]]

HeadOf(w) == IF w.cur = "" THEN w.det ELSE w.lb[w.cur]

\* pending changes are put on the stash (nothing happens to a clean tree: [UT] "does not print spurious 'git stash'")
Stashed(w) == IF w.dirty = "clean" THEN w ELSE [w EXCEPT !.dirty = "clean", !.stash = w.stash + 1]
\* uncommitted work is never lost: it stays in the work tree or goes to the stash
KeptOrStashed(w) == {w, Stashed(w)}

---------------------------------------------------------------------------
(* Commands.  c: "download" | "update" | "checkout" | "foreach" | "purge"  *)
(* | "packagefiles";  sel: [k: "all" | "name" | "grp", v];  types: set of  *)
(* type names (empty: no --types);  j: -j (0: not given);  reset, b,       *)
(* branch, confirm, cache (--include-cache), save (packagefiles --save     *)
(* instead of --apply);  fail: names of subprojects in whose directory the *)
(* foreach command exits non-zero.                                         *)
(***************************************************************************)
KnownTypes == {"file", "git", "hg", "svn", "redirect"}        \* [CM] help of --types

\* [CM] "Patterns of subprojects to operate on (default: all)" - patterns match wrap *names*
Matches(sel, w) == CASE sel.k = "all" -> TRUE
                     [] sel.k = "name" -> w.name = sel.v
                     [] sel.k = "grp" -> w.grp = sel.v
                     [] OTHER -> FALSE

\* [SP] "--types <file|git|hg|svn> argument to run the subcommands only on subprojects of the given types";
\* [UT] test_foreach: a directory without wrap is selected only when no --types is given
Selected(cmd, ws) == { i \in DOMAIN ws : /\ Visible(ws[i])
                                         /\ Matches(cmd.sel, ws[i])
                                         /\ (cmd.types = {} \/ TypeName(ws[i]) \in cmd.types) }

BadInvocation(cmd) == cmd.types \ KnownTypes # {}

Out(st, ok) == [st |-> st, ok |-> ok]
Rule(name, outs) == [rule |-> name, outs |-> outs]

\* ----- download: [SP] "it will download all missing subprojects, but will not update already fetched subprojects";
\* [CM] "Already downloaded subprojects are not modified."
Download(cmd, w) ==
    IF w.dir = "present" THEN Rule("Download.PresentNotModified", {Out(w, TRUE)})
    ELSE IF w.kind = "git" THEN Rule("Download.ClonesMissingGit", {Out(Cloned(w), TRUE)})
    ELSE IF w.kind \in {"file", "redirect"} THEN Rule("Download.ExtractsMissingFile", {Out(Extracted(w), TRUE)})
    ELSE Rule("Download.NoWrapNothingToDo", {Out(w, TRUE)})

\* ----- update
\* what a fetch of the wrap's revision may leave in the remote-tracking refs (git detail the documents do not fix)
Fetched(w) == {w, [w EXCEPT !.rt[w.rev] = w.up[w.rev]]}
\* [SP] "a checkout of the revision from wrap file is performed. [...] a rebase is also performed in case the revision
\* already existed locally but was outdated"; [R56] pending changes are stashed before a branch is switched
CheckoutRebase(w) ==
    LET t == w.up[w.rev]
        base == IF w.lb[w.rev] # <<>> THEN w.lb[w.rev] ELSE t
    IN { [x EXCEPT !.cur = w.rev, !.det = <<>>, !.lb[w.rev] = Rebase(base, t)] : x \in KeptOrStashed(w) }
\* [SP] "a rebase on `origin` commit is performed";  [R56] "it is less confusing to rebase when they are different too"
StayRebase(w) == { [x EXCEPT !.lb[w.cur] = Rebase(w.lb[w.cur], w.up[w.rev])] : x \in KeptOrStashed(w) }
\* [SP] "If `--reset` is specified, a hard reset is performed instead of rebase"; [R56] "This new mode guarantees that
\* every subproject are exactly at the wrap's revision"; [UT] staged and untracked changes end up in the stash
ResetTo(w) == [Stashed(w) EXCEPT !.cur = w.rev, !.det = <<>>, !.lb[w.rev] = w.up[w.rev]]

WithFetch(S) == UNION { Fetched(x) : x \in S }
Oks(S, oks) == { Out(x, k) : x \in S, k \in oks }
\* an update that had nothing to attempt: not a failure when all subprojects are updated; the documents say nothing
\* about naming such a subproject explicitly
NothingToDo(cmd) == IF cmd.sel.k = "all" THEN {TRUE} ELSE BOOLEAN

Update(cmd, w) ==
    IF w.kind = "none" THEN Rule("Update.NoWrapNotModified", Oks({w}, NothingToDo(cmd)))
    \* [SP] "Once a subproject has been fetched ..." - update is about fetched subprojects; download fetches
    ELSE IF w.dir = "absent" THEN Rule("Update.NotFetchedNotFetched", Oks({w}, NothingToDo(cmd)))
    ELSE IF w.kind \in {"file", "redirect"} THEN
        \* [SP] "Previous source tree is not deleted, to prevent from any loss of local changes. If `--reset` is
        \* specified, the source tree is deleted and new source is extracted."
        IF cmd.reset THEN Rule("Update.FileResetReextracts", {Out(Extracted(w), TRUE)})
        ELSE Rule("Update.FileTreeKeptWithoutReset", Oks({w}, BOOLEAN))
    ELSE IF ~w.repo THEN
        \* [SP] "If the subproject directory is not a git repository but has a `[wrap-git]` the subproject is ignored,
        \* unless `--reset` is specified in which case the directory is deleted and the new repository is cloned."
        \* [UT] without --reset the command reports failure ('Not a git repository')
        IF cmd.reset THEN Rule("Update.NotARepoResetClones", {Out(Cloned(w), TRUE)})
        ELSE Rule("Update.NotARepoIgnoredAndReported", {Out(w, FALSE)})
    ELSE IF cmd.reset THEN Rule("Update.GitResetExactlyAtRevision", Oks(WithFetch({ResetTo(w)}), {TRUE}))
    ELSE IF w.cur = "" THEN Rule("Update.GitDetachedCheckoutAndRebase", Oks(WithFetch(CheckoutRebase(w)), {TRUE}))
    ELSE IF w.cur = w.rev THEN Rule("Update.GitSameBranchRebase", Oks(WithFetch(StayRebase(w)), {TRUE}))
    \* [SP] says checkout + rebase, [R56] says the current branch is rebased: both readings are accepted
    ELSE Rule("Update.GitOtherBranchCheckoutOrRebase", Oks(WithFetch(CheckoutRebase(w) \cup StayRebase(w)), {TRUE}))

\* ----- checkout: [SP] "will checkout a branch, or create one with `-b` argument, in every git subprojects";
\* "To come back to the revision set in wrap file (i.e. master), just run `meson subprojects checkout` with no branch
\* name"; "any pending changes are now stashed before checkout a new branch"
Checkout(cmd, w) ==
    LET target == IF cmd.branch = "" THEN w.rev ELSE cmd.branch
        switch(x) == [x EXCEPT !.cur = target, !.det = <<>>]
    IN IF w.kind # "git" \/ w.dir = "absent" THEN Rule("Checkout.OnlyFetchedGit", {Out(w, TRUE)})
       ELSE IF ~w.repo THEN Rule("Checkout.NotARepoNotModified", Oks({w}, BOOLEAN))
       ELSE IF target \notin Branches THEN Rule("Checkout.UnknownBranchFails", Oks(KeptOrStashed(w), {FALSE}))
       ELSE IF cmd.b THEN
            IF w.lb[target] # <<>> THEN Rule("Checkout.CreateExistingFails", Oks(KeptOrStashed(w), {FALSE}))
            ELSE Rule("Checkout.CreatesBranchFromHead", {Out([switch(Stashed(w)) EXCEPT !.lb[target] = HeadOf(w)], TRUE)})
       ELSE IF w.lb[target] # <<>> THEN Rule("Checkout.SwitchesBranch", {Out(switch(Stashed(w)), TRUE)})
       ELSE IF target \in RemoteBranches /\ w.rt[target] # <<>>
            THEN Rule("Checkout.TracksRemoteBranch", {Out([switch(Stashed(w)) EXCEPT !.lb[target] = w.rt[target]], TRUE)})
       ELSE Rule("Checkout.UnknownBranchFails", Oks(KeptOrStashed(w), {FALSE}))

\* ----- foreach: [SP] "will execute a command in each subproject directory"; a subproject that has no directory yet
\* has nowhere to run the command.  The command of the harness changes nothing.
Runs(cmd, w) == cmd.c = "foreach" /\ w.dir = "present"
Foreach(cmd, w) ==
    IF w.dir = "absent" THEN Rule("Foreach.NotFetchedSkipped", {Out(w, TRUE)})
    ELSE Rule("Foreach.StatusOfTheCommand", {Out(w, w.name \notin cmd.fail)})

\* ----- purge: [R58] "purge a subprojects folder of artifacts created from wrap-based subprojects including anything
\* in `packagecache`"; "By default the command will only print out what it is removing. You need to pass `--confirm`";
\* "`--confirm --include-cache` also removes the cache artifacts"; "`--confirm subproj1 subproj2` removes non-cache wrap
\* artifacts associated with the listed subprojects"; [UT] test_purge: directory, redirect wrap file, cache files
Purge(cmd, w) ==
    IF w.kind = "none" THEN Rule("Purge.OnlyWrapBased", {Out(w, TRUE)})
    ELSE IF ~cmd.confirm THEN Rule("Purge.WithoutConfirmDeletesNothing", {Out(w, TRUE)})
    ELSE LET gone == [Absent(w) EXCEPT !.live = (w.kind # "redirect")]
             \* the archive the wrap names must go; archives of earlier versions of the wrap file may stay or go
             caches == IF cmd.cache THEN {w.cache \ {w.wv}, {}} ELSE {w.cache}
         IN Rule("Purge.ConfirmDeletesTheWrapsArtifacts", { Out([gone EXCEPT !.cache = c], TRUE) : c \in caches })

\* what purge prints (and, with --confirm, deletes): [R58] "prints non-cache wrap artifacts which will be purged"
PurgeTokens(cmd, w) ==
    IF w.kind = "none" THEN {}
    ELSE (IF w.dir = "present" THEN {<<w.name, "deldir">>} ELSE {})
         \cup (IF w.kind = "redirect" THEN {<<w.name, "delredirect">>} ELSE {})
         \cup (IF cmd.cache /\ w.wv \in w.cache THEN {<<w.name, "delcache">>} ELSE {})

\* ----- packagefiles --apply: [R60] "re-apply `meson.build` overlays (`patch_filename` or `patch_directory` in the wrap
\* ini file) after a subproject was downloaded and set up"
PackagefilesApply(cmd, w) ==
    IF w.kind \in {"file", "redirect"} /\ w.dir = "present" /\ w.ov > 0
    THEN Rule("Packagefiles.ReappliesOverlay", {Out([w EXCEPT !.aov = w.ov, !.mod = (w.mod \/ w.omod)], TRUE)})
    ELSE Rule("Packagefiles.NothingToApply", {Out(w, TRUE)})

\* ----- packagefiles --save: [R60] "for `patch_directory` overlays in a `[wrap-file]`, to copy the packagefiles out of the
\* subproject and back into `packagefiles/<patch_directory>/` [...] useful for testing an edit in the subproject and then
\* saving it back to the overlay".  The packagefiles of a subproject are its files that did not come from the source
\* archive (the one the wrap file names: it must be at hand, in the package cache, to tell them apart).  Where there is
\* nothing to copy out of (no directory, no archive, no patch_directory) nothing is saved - and the overlay, which is
\* checked into the user's repository, is not touched; the documents do not say whether that counts as a failure.
PackagefilesSave(cmd, w) ==
    IF ~(w.kind \in {"file", "redirect"} /\ w.ov > 0) THEN Rule("Packagefiles.SaveNeedsPatchDirectory", Oks({w}, BOOLEAN))
    ELSE IF w.dir = "absent" THEN Rule("Packagefiles.SaveNotFetchedKeepsOverlay", Oks({w}, BOOLEAN))
    ELSE IF w.wv \notin w.cache THEN Rule("Packagefiles.SaveWithoutArchiveKeepsOverlay", Oks({w}, BOOLEAN))
    ELSE Rule("Packagefiles.SaveCopiesOverlayBack", {Out([w EXCEPT !.ov = w.aov, !.omod = w.mod], TRUE)})

Packagefiles(cmd, w) == IF cmd.save THEN PackagefilesSave(cmd, w) ELSE PackagefilesApply(cmd, w)

\* the rule that governs one selected subproject
Task(cmd, w) == CASE cmd.c = "download" -> Download(cmd, w)
                  [] cmd.c = "update" -> Update(cmd, w)
                  [] cmd.c = "checkout" -> Checkout(cmd, w)
                  [] cmd.c = "foreach" -> Foreach(cmd, w)
                  [] cmd.c = "purge" -> Purge(cmd, w)
                  [] cmd.c = "packagefiles" -> Packagefiles(cmd, w)

---------------------------------------------------------------------------
(* A whole invocation, declaratively.  [SP] "If the subcommand fails on    *)
(* any subproject the execution continues with other subprojects" and "an  *)
(* error code is returned at the end instead of returning success":        *)
(* every selected subproject gets exactly one outcome of its rule, nothing *)
(* else changes, the exit status is non-zero iff some outcome is a failure.*)
(* `oks` maps the selected indices to their verdicts.                      *)
(***************************************************************************)
IsRunOutcome(cmd, ws, ws2, oks) ==
    /\ DOMAIN ws2 = DOMAIN ws
    /\ DOMAIN oks = Selected(cmd, ws)
    /\ \A i \in DOMAIN ws :
          IF i \in Selected(cmd, ws) THEN Out(ws2[i], oks[i]) \in Task(cmd, ws[i]).outs
          ELSE ws2[i] = ws[i]
ExitNonZero(oks) == \E i \in DOMAIN oks : ~oks[i]

\* every outcome of a whole invocation (small worlds only: a product over the selected subprojects)
RECURSIVE Picks(_, _, _)
Picks(cmd, ws, S) == IF S = {} THEN {<<>>}
                     ELSE LET i == CHOOSE x \in S : TRUE
                          IN { (i :> o) @@ f : o \in Task(cmd, ws[i]).outs, f \in Picks(cmd, ws, S \ {i}) }
RunOutcomes(cmd, ws) ==
    LET sel == Selected(cmd, ws)
    IN { [ws |-> [i \in DOMAIN ws |-> IF i \in sel THEN f[i].st ELSE ws[i]], oks |-> [i \in sel |-> f[i].ok]] :
            f \in Picks(cmd, ws, sel) }

---------------------------------------------------------------------------
(* Environment events: what the user and the upstreams do between two      *)
(* commands (plain file operations and plain git - the model of git that   *)
(* the rules above rely on is validated on these events as well).          *)
(***************************************************************************)
NextLabel(w, b) == IF b = "master" THEN <<"m0", "m1", "m2", "m3", "m4">>[Len(w.up[b]) + 1]
                   ELSE <<"m0", "d1", "d2", "d3", "d4">>[Len(w.up[b]) + 1]
LocalLabel(n) == <<"L1", "L2", "L3", "L4", "L5", "L6">>[n]

EnvEnabled(ev, w) ==
    CASE ev.op = "editwrap" -> w.kind \in {"file", "redirect"} /\ w.live /\ w.wv = 1
      [] ev.op = "setrev" -> w.kind = "git" /\ w.live /\ ev.rev \in RemoteBranches /\ ev.rev # w.rev
      [] ev.op = "editoverlay" -> w.kind \in {"file", "redirect"} /\ w.ov = 1
      [] ev.op = "upcommit" -> w.kind = "git" /\ ev.b \in RemoteBranches /\ Len(w.up[ev.b]) < 4
      [] ev.op = "localcommit" -> w.kind = "git" /\ w.dir = "present" /\ w.repo /\ w.cur # "" /\ w.nloc < 6
      [] ev.op = "dirty" -> w.kind = "git" /\ w.dir = "present" /\ w.repo /\ w.dirty = "clean"
      [] ev.op = "detach" -> w.kind = "git" /\ w.dir = "present" /\ w.repo /\ w.cur # ""
      [] ev.op = "localmod" -> w.kind # "git" /\ w.dir = "present" /\ ~w.mod
      [] ev.op = "plaindir" -> w.kind = "git" /\ w.dir = "absent"
      [] OTHER -> FALSE

EnvStep(ev, w) ==
    CASE ev.op = "editwrap" -> [w EXCEPT !.wv = 2]
      [] ev.op = "setrev" -> [w EXCEPT !.rev = ev.rev]
      [] ev.op = "editoverlay" -> [w EXCEPT !.ov = 2]
      [] ev.op = "upcommit" -> [w EXCEPT !.up[ev.b] = Append(w.up[ev.b], NextLabel(w, ev.b))]
      [] ev.op = "localcommit" -> [w EXCEPT !.lb[w.cur] = Append(w.lb[w.cur], LocalLabel(w.nloc + 1)), !.nloc = w.nloc + 1]
      [] ev.op = "dirty" -> [w EXCEPT !.dirty = ev.how]
      [] ev.op = "detach" -> [w EXCEPT !.det = w.lb[w.cur], !.cur = ""]
      [] ev.op = "localmod" -> [w EXCEPT !.mod = TRUE]
      [] ev.op = "plaindir" -> [w EXCEPT !.dir = "present"]

---------------------------------------------------------------------------
(* Laws of the rule book (checked by TLC on the bounded models as action   *)
(* properties: `ws`, `ws2` are the states around one invocation).          *)
(***************************************************************************)
\* local work of a git checkout: the labels of local commits reachable from its branches / HEAD, and pending changes
LocalCommits(w) == { x \in UNION ({ Range(w.lb[b]) : b \in Branches } \cup {Range(w.det)}) :
                        x \in {"L1", "L2", "L3", "L4", "L5", "L6"} }
\* pending changes are accounted for by (dirty, stash): dirt may only move to the stash
PendingKept(w, w2) == \/ w.dirty = "clean" /\ w2.dirty = "clean" /\ w2.stash = w.stash
                      \/ w.dirty # "clean" /\ w2.dirty = w.dirty /\ w2.stash = w.stash
                      \/ w.dirty # "clean" /\ w2.dirty = "clean" /\ w2.stash = w.stash + 1

\* L1 the selection is exactly (names given, else all) filtered by --types; everything else is untouched
LawSelection(cmd, ws, ws2) == \A i \in DOMAIN ws : i \notin Selected(cmd, ws) => ws2[i] = ws[i]
\* L2 download never touches a subproject that is already present, and makes every selected missing one present
LawDownload(cmd, ws, ws2) ==
    cmd.c = "download" => \A i \in Selected(cmd, ws) :
        /\ ws[i].dir = "present" => ws2[i] = ws[i]
        /\ ws2[i].dir = "present"
\* L3 purge without --confirm deletes nothing; with --confirm exactly the artifacts of the selected wrap-based
\*    subprojects: the directory, the redirect file, and cache entries only with --include-cache
LawPurge(cmd, ws, ws2) ==
    cmd.c = "purge" =>
        /\ ~cmd.confirm => ws2 = ws
        /\ \A i \in DOMAIN ws :
              /\ ws[i].kind = "none" => ws2[i] = ws[i]
              /\ ~cmd.cache => ws2[i].cache = ws[i].cache
              /\ ws2[i].cache \subseteq ws[i].cache
              /\ (cmd.confirm /\ i \in Selected(cmd, ws) /\ ws[i].kind # "none") =>
                    /\ ws2[i].dir = "absent"
                    /\ (ws[i].kind = "redirect" => ~ws2[i].live)
                    /\ (cmd.cache => ws[i].wv \notin ws2[i].cache)
              /\ ws2[i].live = (ws[i].live /\ ~(cmd.confirm /\ i \in Selected(cmd, ws) /\ ws[i].kind = "redirect"))
\* L4 update: an extracted wrap-file tree is only replaced with --reset; without --reset a git checkout loses neither a
\*    local commit nor pending changes; with --reset it is exactly at the wrap's revision and pending changes are stashed
LawUpdate(cmd, ws, ws2) ==
    cmd.c = "update" => \A i \in Selected(cmd, ws) :
        LET w == ws[i]  w2 == ws2[i] IN
        /\ (w.kind \in {"file", "redirect"} /\ w.dir = "present" /\ ~cmd.reset) => w2 = w
        /\ (w.kind \in {"file", "redirect"} /\ w.dir = "present" /\ cmd.reset) => (w2.src = w.wv /\ w2.aov = w.ov /\ (w2.mod => w.omod))
        /\ w.dir = "absent" => w2 = w
        /\ (w.kind = "git" /\ w.dir = "present" /\ w.repo /\ ~cmd.reset) =>
              /\ LocalCommits(w) \subseteq LocalCommits(w2)
              /\ PendingKept(w, w2)
              /\ \A b \in Branches : b # w.rev /\ b # w.cur => w2.lb[b] = w.lb[b]
        /\ (w.kind = "git" /\ w.dir = "present" /\ cmd.reset) =>
              /\ w2.repo /\ w2.cur = w.rev /\ HeadOf(w2) = w.up[w.rev] /\ w2.dirty = "clean"
              /\ (w.repo => w2.stash = w.stash + (IF w.dirty = "clean" THEN 0 ELSE 1))
\* L5 commands that do not fetch or delete keep every directory where it is; foreach and an unconfirmed purge change nothing
LawReadOnly(cmd, ws, ws2) ==
    /\ cmd.c \in {"foreach"} => ws2 = ws
    /\ cmd.c \in {"checkout", "packagefiles", "foreach"} => \A i \in DOMAIN ws : ws2[i].dir = ws[i].dir /\ ws2[i].cache = ws[i].cache
\* L6 checkout never loses pending changes and never moves a branch other than the one it creates
LawCheckout(cmd, ws, ws2) ==
    cmd.c = "checkout" => \A i \in Selected(cmd, ws) :
        LET w == ws[i]  w2 == ws2[i] IN
        (w.kind = "git" /\ w.dir = "present" /\ w.repo) =>
            /\ PendingKept(w, w2)
            /\ \A b \in Branches : w.lb[b] # <<>> => w2.lb[b] = w.lb[b]
\* L7 what the user and the upstream own is never edited by a command: wrap files' content, overlays, upstreams
\*    (the one exception is what `packagefiles --save` is for: it rewrites the overlay)
LawInputsKept(cmd, ws, ws2) ==
    \A i \in DOMAIN ws : /\ ws2[i].wv = ws[i].wv /\ ws2[i].rev = ws[i].rev /\ ws2[i].up = ws[i].up
                         /\ ws2[i].kind = ws[i].kind /\ ws2[i].name = ws[i].name
                         /\ ~(cmd.c = "packagefiles" /\ cmd.save) => (ws2[i].ov = ws[i].ov /\ ws2[i].omod = ws[i].omod)
\* L8 packagefiles: --apply brings the tree's overlay to the overlay's content and never deletes a file; --save followed
\*    by a fresh extraction gives back the tree's overlay files (round trip), never empties an overlay, and neither form
\*    touches the source, the cache or the directory's existence
LawPackagefiles(cmd, ws, ws2) ==
    cmd.c = "packagefiles" => \A i \in DOMAIN ws :
        LET w == ws[i]  w2 == ws2[i] IN
        /\ w2.dir = w.dir /\ w2.src = w.src /\ w2.cache = w.cache /\ w2.live = w.live
        /\ ~cmd.save => (w.mod => w2.mod) /\ (w2.aov \in {w.aov, w.ov})
        /\ cmd.save => /\ w2.aov = w.aov /\ w2.mod = w.mod
                       /\ (w.ov > 0 => w2.ov > 0)
                       /\ (w2.ov # w.ov \/ w2.omod # w.omod) => (Extracted(w2).aov = w.aov /\ Extracted(w2).mod = w.mod)

---------------------------------------------------------------------------
(* What a run reports and when it runs things (`foreach`, any -j).         *)
(* [SP] "will execute a command in each subproject directory"; [R59] "All  *)
(* `meson subprojects` commands are now run on each subproject in parallel *)
(* by default. The number of processes can be controlled with              *)
(* `--num-processes`" - parallelism is a speed-up: what is reported about  *)
(* one subproject stays one block as in a sequential run, every selected   *)
(* subproject is still served exactly once, and [SP] a failure does not    *)
(* stop the others.                                                        *)
(* A report is a sequence of tokens <<name, kind>>: kind "head" (the line  *)
(* that announces a subproject), "m1" / "m2" (the two lines the command of *)
(* the harness prints in a directory); tokens with name "" are lines that  *)
(* name nobody.  A schedule is a sequence of events <<kind, name>>, kind   *)
(* "start" | "end".                                                        *)
(***************************************************************************)
Named(toks) == SelectSeq(toks, LAMBDA t : t[1] # "")
Of(toks, n) == SelectSeq(toks, LAMBDA t : t[1] = n)
KindsOf(toks, n) == [k \in 1..Len(Of(toks, n)) |-> Of(toks, n)[k][2]]
\* the tokens that name one subproject are next to each other
ContiguousDecl(toks) == LET nm == Named(toks) IN
    \A p, r \in 1..Len(nm) : (p < r /\ nm[p][1] = nm[r][1]) => \A q \in p..r : nm[q][1] = nm[p][1]
\* the same, counted (used on long reports): the name changes exactly (number of names - 1) times
Contiguous(toks) == LET nm == Named(toks) IN
    nm = <<>> \/ Cardinality({ p \in 1..(Len(nm) - 1) : nm[p][1] # nm[p + 1][1] }) + 1 = Cardinality({ nm[p][1] : p \in 1..Len(nm) })
\* sel: names of the selected subprojects, runs: those that have a directory to run the command in
ReportOK(toks, sel, runs) ==
    /\ \A k \in 1..Len(toks) : toks[k][1] = "" \/ toks[k][1] \in sel
    /\ \A n \in runs : KindsOf(toks, n) = <<"head", "m1", "m2">>
    /\ \A n \in sel \ runs : KindsOf(toks, n) \in {<<>>, <<"head">>}
    /\ Contiguous(toks)
Starts(evs) == SelectSeq(evs, LAMBDA e : e[1] = "start")
CountOf(evs, kind, n) == Len(SelectSeq(evs, LAMBDA e : e[1] = kind /\ e[2] = n))
Running(evs, k) == Len(SelectSeq(SubSeq(evs, 1, k), LAMBDA e : e[1] = "start")) - Len(SelectSeq(SubSeq(evs, 1, k), LAMBDA e : e[1] = "end"))
\* the largest number of commands in their directories at the same time: as a definition, and as a fold
PeakDecl(evs) == IF evs = <<>> THEN 0 ELSE CHOOSE m \in 0..Len(evs) : (\E k \in 1..Len(evs) : Running(evs, k) = m) /\ \A k \in 1..Len(evs) : Running(evs, k) <= m
RECURSIVE PeakFrom(_, _, _, _)
PeakFrom(evs, k, cur, best) ==
    IF k > Len(evs) THEN best
    ELSE LET c == IF evs[k][1] = "start" THEN cur + 1 ELSE cur - 1 IN PeakFrom(evs, k + 1, c, IF c > best THEN c ELSE best)
Peak(evs) == PeakFrom(evs, 1, 0, 0)
\* every directory that is to run the command runs it exactly once, to the end, and nobody else does
RunsOnce(evs, runs) ==
    /\ \A k \in 1..Len(evs) : evs[k][2] \in runs
    /\ \A n \in runs : CountOf(evs, "start", n) = 1 /\ CountOf(evs, "end", n) = 1
\* -j N bounds what runs at the same time (N = 0: no bound given)
AtMostJ(evs, j) == j = 0 \/ Peak(evs) <= j
\* when no task finishes by itself (the harness holds them), N of them do get to run at the same time
ParallelUpToJ(evs, j, runs) == j = 0 \/ Peak(evs) = (IF Cardinality(runs) < j THEN Cardinality(runs) ELSE j)
=============================================================================
