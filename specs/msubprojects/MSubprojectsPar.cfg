SPECIFICATION Spec
CONSTANTS Tasks = {"a", "b", "c", "d"}
 NoDir = {"c"}
 Failing = {"a", "c"}
 J = 2
 Sloppy = FALSE
INVARIANT TypeOK
INVARIANT PReportOK
INVARIANT PRunsOnce
INVARIANT PAtMostJ
INVARIANT PVerdicts
INVARIANT PFormulationsAgree
PROPERTY PFinishes
CHECK_DEADLOCK FALSE
