--------------------------- MODULE MSubprojectsPar ---------------------------
(***************************************************************************)
(* X11 - how one `meson subprojects foreach -j N` invocation unfolds in    *)
(* time, as a state machine, and the proof (TLC, exhaustive on the bounded *)
(* model) that every run of it ends with a report and a schedule that      *)
(* satisfy the declarative laws of MSubprojects.tla (ReportOK, RunsOnce,   *)
(* AtMostJ, the exit status).                                              *)
(*                                                                         *)
(* The machine is the documented behaviour made operational:               *)
(*  [SP]  "execute a command in each subproject directory"; "If the        *)
(*        subcommand fails on any subproject the execution continues with  *)
(*        other subprojects"; "an error code is returned at the end"       *)
(*  [R59] "run on each subproject in parallel by default. The number of    *)
(*        processes can be controlled with `--num-processes`"              *)
(* Every selected subproject is a task; at most J tasks are in flight; a   *)
(* task gathers what it has to say (announcement, the output of the        *)
(* command) and hands it over as one block when it is finished; a task     *)
(* whose subproject has no directory has nothing to run.  The order in     *)
(* which tasks are taken up and finish is free.                            *)
(*                                                                         *)
(* `Sloppy` (normally FALSE) lets a task write its lines straight to the   *)
(* report while it runs - the model then violates PReportOK, which shows   *)
(* that the law is not vacuous (checked once by the harness, expected to   *)
(* fail).                                                                  *)
(***************************************************************************)
EXTENDS MSubprojects
CONSTANTS Tasks,        \* names of the selected subprojects
          NoDir,        \* those without a directory
          Failing,      \* those in whose directory the command exits non-zero
          J,            \* -j (>= 1)
          Sloppy

VARIABLES todo,         \* tasks not yet taken up
          stage,        \* task -> "idle" | "announced" | "half" | "ran" | "done"
          buf,          \* task -> tokens gathered so far
          report,       \* tokens handed over so far
          sched,        \* start / end events of the command in the directories
          result        \* task -> "none" | "ok" | "failed"
vars == <<todo, stage, buf, report, sched, result>>

InFlight == { t \in Tasks : stage[t] \in {"announced", "half", "ran"} }
Say(t, tok) == IF Sloppy THEN /\ report' = Append(report, tok) /\ buf' = buf
               ELSE /\ buf' = [buf EXCEPT ![t] = Append(buf[t], tok)] /\ report' = report

Init == /\ todo = Tasks /\ stage = [t \in Tasks |-> "idle"] /\ buf = [t \in Tasks |-> <<>>]
        /\ report = <<>> /\ sched = <<>> /\ result = [t \in Tasks |-> "none"]

TakeUp(t) == /\ t \in todo /\ Cardinality(InFlight) < J
             /\ todo' = todo \ {t}
             /\ stage' = [stage EXCEPT ![t] = "announced"]
             /\ Say(t, <<t, "head">>)
             /\ UNCHANGED <<sched, result>>
\* the command starts in the directory and prints its first line
RunFirst(t) == /\ stage[t] = "announced" /\ t \notin NoDir
               /\ stage' = [stage EXCEPT ![t] = "half"]
               /\ sched' = Append(sched, <<"start", t>>)
               /\ Say(t, <<t, "m1">>)
               /\ UNCHANGED <<todo, result>>
RunSecond(t) == /\ stage[t] = "half"
                /\ stage' = [stage EXCEPT ![t] = "ran"]
                /\ sched' = Append(sched, <<"end", t>>)
                /\ Say(t, <<t, "m2">>)
                /\ UNCHANGED <<todo, result>>
\* the task is finished: its block goes to the report, its verdict is kept; a failure stops nobody
Finish(t) == /\ \/ stage[t] = "ran"
                \/ stage[t] = "announced" /\ t \in NoDir
             /\ stage' = [stage EXCEPT ![t] = "done"]
             /\ report' = report \o buf[t]
             /\ buf' = [buf EXCEPT ![t] = <<>>]
             /\ result' = [result EXCEPT ![t] = IF t \in Failing /\ t \notin NoDir THEN "failed" ELSE "ok"]
             /\ UNCHANGED <<todo, sched>>

Next == \E t \in Tasks : TakeUp(t) \/ RunFirst(t) \/ RunSecond(t) \/ Finish(t)
Spec == Init /\ [][Next]_vars /\ WF_vars(Next)

Finished == \A t \in Tasks : stage[t] = "done"
ExitStatus == IF \E t \in Tasks : result[t] = "failed" THEN 1 ELSE 0
WithDir == Tasks \ NoDir

\* the declarative laws hold of every finished run
PReportOK == Finished => ReportOK(report, Tasks, WithDir)
PRunsOnce == Finished => RunsOnce(sched, WithDir)
PAtMostJ == AtMostJ(sched, J)
\* the verdicts are those of the rule book (Foreach.StatusOfTheCommand), whatever the order of events
PVerdicts == Finished => /\ \A t \in Tasks : result[t] = (IF t \in Failing /\ t \in WithDir THEN "failed" ELSE "ok")
                         /\ (ExitStatus # 0) = (Failing \cap WithDir # {})
\* nothing is held back for ever, and J tasks can indeed be in their directories at the same time
PFinishes == <>Finished
\* the counted / folded formulations used by the trace judge agree with the definitions, on every report and schedule
\* the machine (tidy or sloppy) can produce
PFormulationsAgree == /\ Contiguous(report) = ContiguousDecl(report)
                      /\ Peak(sched) = PeakDecl(sched)
TypeOK == /\ Cardinality(InFlight) <= J
          /\ \A t \in Tasks : (stage[t] = "idle") = (t \in todo)
\* (reachability, checked as an invariant expected to be violated is not needed: PeakReached is an EF property, stated
\* as its negation's failure in the harness) - some run reaches the full width
FullWidth == Peak(sched) = (IF Cardinality(WithDir) < J THEN Cardinality(WithDir) ELSE J)
NeverFullWidth == ~(Finished /\ FullWidth)
=============================================================================
