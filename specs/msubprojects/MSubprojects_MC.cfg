SPECIFICATION Spec
CONSTANTS Family = "files"
 MaxUp = 2
 MaxLocal = 1
 MaxStash = 1
 HistDepth = 0
VIEW View
INVARIANT TypeOK
PROPERTY PSelection
PROPERTY PDownload
PROPERTY PPurge
PROPERTY PUpdate
PROPERTY PReadOnly
PROPERTY PCheckout
PROPERTY PInputsKept
PROPERTY PPackagefiles
PROPERTY PBadInvocation
PROPERTY POutcomeRelation
PROPERTY PPurgeAnnounces
PROPERTY PIdempotent
CHECK_DEADLOCK FALSE
POSTCONDITION EmitAlphabet
