-------------------------- MODULE MSubprojects_MC --------------------------
(***************************************************************************)
(* Bounded exhaustive model of the rule book: from the initial world of a  *)
(* family (nothing fetched) every sequence of invocations (each taken as   *)
(* one step choosing any outcome the rules permit) and environment events  *)
(* within the bounds.  The laws are action properties over the states      *)
(* around every invocation.  The run also exports the model's input space  *)
(* for the replay against the real command (binding A): the world, the     *)
(* command alphabet, the environment alphabet, and one witness history for *)
(* every distinct reachable world up to HistDepth steps.                   *)
(***************************************************************************)
EXTENDS MSubprojects, TLC, Json, IOUtils, SequencesExt
CONSTANTS Family,       \* "git" | "files" | "mixed"
          MaxUp,        \* longest upstream chain
          MaxLocal,     \* local commits
          MaxStash,     \* stash entries before the user stops making a mess
          HistDepth     \* witness histories are exported up to this many steps (0: none)
VARIABLES ws, act, hist

vars == <<ws, act, hist>>
View == ws

W0(name, grp, kind, ov) ==
    [name |-> name, grp |-> grp, kind |-> kind, live |-> TRUE, wv |-> 1, rev |-> IF kind = "git" THEN "master" ELSE "",
     ov |-> ov, omod |-> FALSE, dir |-> IF kind = "none" THEN "present" ELSE "absent", src |-> 0, aov |-> 0, mod |-> FALSE, cache |-> {},
     repo |-> FALSE, cur |-> "", det |-> <<>>, lb |-> NoBranches, rt |-> NoRemotes, dirty |-> "clean", stash |-> 0,
     nloc |-> 0, up |-> IF kind = "git" THEN [master |-> <<"m0">>, dev |-> <<"m0", "d1">>] ELSE NoRemotes]

World == CASE Family = "git" -> <<W0("ga", "g", "git", 0)>>
           [] Family = "files" -> <<W0("sa", "s", "file", 1), W0("tc", "t", "redirect", 0), W0("tc-host", "t", "none", 0)>>
           [] Family = "mixed" -> <<W0("sa", "s", "file", 0), W0("sb", "s", "git", 0), W0("un", "u", "none", 0)>>

Names == { World[i].name : i \in DOMAIN World }
Sel(k, v) == [k |-> k, v |-> v]
Sels == CASE Family = "git" -> {Sel("all", ""), Sel("name", "ga")}
          [] Family = "files" -> {Sel("all", ""), Sel("name", "sa"), Sel("name", "tc"), Sel("grp", "t"), Sel("name", "zz")}
          [] Family = "mixed" -> {Sel("all", ""), Sel("name", "sb"), Sel("grp", "s"), Sel("name", "un")}
TypeSets == CASE Family = "git" -> {{}}
              [] Family = "files" -> {{}, {"file"}}
              [] Family = "mixed" -> {{}, {"file"}, {"git"}, {"git", "file"}, {"bogus"}}

Cmd(c, sel, types, reset, b, branch, confirm, cache, fail) ==
    [c |-> c, sel |-> sel, types |-> types, reset |-> reset, b |-> b, branch |-> branch, confirm |-> confirm,
     cache |-> cache, save |-> FALSE, fail |-> fail]
Simple(c, sel, types) == Cmd(c, sel, types, FALSE, FALSE, "", FALSE, FALSE, {})
HasGit == \E i \in DOMAIN World : World[i].kind = "git"
CheckoutForms == IF Family = "git"
                 THEN {<<FALSE, "">>, <<FALSE, "master">>, <<FALSE, "dev">>, <<FALSE, "topic">>, <<FALSE, "nonexist">>,
                       <<TRUE, "topic">>, <<TRUE, "dev">>}
                 ELSE {<<FALSE, "">>, <<FALSE, "dev">>, <<TRUE, "topic">>}
Commands ==
    { Simple("download", s, t) : s \in Sels, t \in TypeSets }
    \cup { [Simple("update", s, t) EXCEPT !.reset = r] : s \in Sels, t \in TypeSets, r \in BOOLEAN }
    \cup (IF HasGit THEN { [Simple("checkout", s, t) EXCEPT !.b = f[1], !.branch = f[2]] :
                              s \in Sels, t \in TypeSets, f \in CheckoutForms } ELSE {})
    \cup { [Simple("foreach", s, t) EXCEPT !.fail = f] : s \in Sels, t \in TypeSets, f \in {{}, {World[1].name}} }
    \cup { [Simple("purge", s, t) EXCEPT !.confirm = k, !.cache = c] : s \in Sels, t \in TypeSets, k \in BOOLEAN, c \in BOOLEAN }
    \cup (IF Family = "files" THEN { [Simple("packagefiles", s, {}) EXCEPT !.save = v] : s \in Sels, v \in BOOLEAN } ELSE {})
\* `checkout` takes names of subprojects only after a branch name
Runnable(cmd) == cmd.c = "checkout" /\ cmd.branch = "" => cmd.sel.k = "all"
Alphabet == { c \in Commands : Runnable(c) }

Ev(op, w, b, rev, how) == [op |-> op, w |-> w, b |-> b, rev |-> rev, how |-> how]
EnvAlphabet ==
    { Ev(op, n, "", "", "") : op \in {"editwrap", "editoverlay", "localcommit", "detach", "localmod", "plaindir"}, n \in Names }
    \cup { Ev("setrev", n, "", r, "") : n \in Names, r \in RemoteBranches }
    \cup { Ev("upcommit", n, b, "", "") : n \in Names, b \in RemoteBranches }
    \cup { Ev("dirty", n, "", "", h) : n \in Names, h \in {"tracked", "untracked"} }
Idx(n) == CHOOSE i \in DOMAIN World : World[i].name = n
InBounds(ev, w) ==
    /\ ev.op = "upcommit" => Len(w.up[ev.b]) < MaxUp /\ (Family = "mixed" => ev.b = "master")
    /\ ev.op = "localcommit" => w.nloc < MaxLocal
    /\ ev.op = "dirty" => w.stash < MaxStash /\ (Family = "mixed" => ev.how = "tracked")
    /\ (Family = "mixed" /\ ev.op \in {"detach", "plaindir", "setrev"}) => FALSE

Init == ws = World /\ act = [k |-> "init"] /\ hist = <<>> /\ TLCSet(1, {})

Invoke(cmd) ==
    /\ IF BadInvocation(cmd)
       THEN ws' = ws /\ act' = [k |-> "cmd", cmd |-> cmd, oks |-> <<>>, bad |-> TRUE]
       ELSE \E o \in RunOutcomes(cmd, ws) :
               /\ ws' = o.ws
               /\ act' = [k |-> "cmd", cmd |-> cmd, oks |-> o.oks, bad |-> FALSE]
    /\ hist' = IF Len(hist) < HistDepth THEN Append(hist, [k |-> "cmd", cmd |-> cmd]) ELSE hist

Environment(ev) ==
    LET i == Idx(ev.w) IN
    /\ EnvEnabled(ev, ws[i]) /\ InBounds(ev, ws[i])
    /\ ws' = [ws EXCEPT ![i] = EnvStep(ev, ws[i])]
    /\ act' = [k |-> "env"]
    /\ hist' = IF Len(hist) < HistDepth THEN Append(hist, [k |-> "env", ev |-> ev]) ELSE hist

Next == (\E cmd \in Alphabet : Invoke(cmd)) \/ (\E ev \in EnvAlphabet : Environment(ev))
Spec == Init /\ [][Next]_vars

---------------------------------------------------------------------------
OnCmd(L(_, _, _)) == (act'.k = "cmd" /\ ~act'.bad) => L(act'.cmd, ws, ws')
PSelection == [][OnCmd(LawSelection)]_vars
PDownload == [][OnCmd(LawDownload)]_vars
PPurge == [][OnCmd(LawPurge)]_vars
PUpdate == [][OnCmd(LawUpdate)]_vars
PReadOnly == [][OnCmd(LawReadOnly)]_vars
PCheckout == [][OnCmd(LawCheckout)]_vars
PInputsKept == [][OnCmd(LawInputsKept)]_vars
PPackagefiles == [][OnCmd(LawPackagefiles)]_vars
\* a rejected invocation changes nothing
PBadInvocation == [][(act'.k = "cmd" /\ act'.bad) => ws' = ws]_vars
\* the declarative whole-invocation relation agrees with the enumeration used by this model
POutcomeRelation == [][(act'.k = "cmd" /\ ~act'.bad) => IsRunOutcome(act'.cmd, ws, ws', act'.oks)]_vars
\* purge --confirm deletes exactly what a purge without --confirm announces
PPurgeAnnounces ==
    [][(act'.k = "cmd" /\ ~act'.bad /\ act'.cmd.c = "purge" /\ act'.cmd.confirm) =>
          \A i \in DOMAIN ws :
             LET tk == IF i \in Selected(act'.cmd, ws) THEN PurgeTokens(act'.cmd, ws[i]) ELSE {} IN
             /\ (<<ws[i].name, "deldir">> \in tk) = (ws[i].dir = "present" /\ ws'[i].dir = "absent")
             /\ (<<ws[i].name, "delredirect">> \in tk) = (ws[i].live /\ ~ws'[i].live)
             /\ (<<ws[i].name, "delcache">> \in tk) => ws[i].wv \notin ws'[i].cache]_vars
\* download twice = download once; update --reset twice = once (the commands are idempotent on what they establish)
PIdempotent ==
    [][(act'.k = "cmd" /\ ~act'.bad /\ (act'.cmd.c = "download" \/ (act'.cmd.c = "update" /\ act'.cmd.reset))) =>
          \A o \in RunOutcomes(act'.cmd, ws') : \A i \in DOMAIN ws : [o.ws[i] EXCEPT !.rt = NoRemotes] = [ws'[i] EXCEPT !.rt = NoRemotes]]_vars

TypeOK ==
    \A i \in DOMAIN ws :
        LET w == ws[i] IN
        /\ w.dir \in {"absent", "present"} /\ w.dirty \in {"clean", "tracked", "untracked"}
        /\ w.cur \in Branches \cup {""}
        /\ (w.dir = "absent" => w = Absent(w))
        /\ (w.kind = "git" /\ w.dir = "present" /\ w.repo) => (IF w.cur = "" THEN w.det # <<>> ELSE w.lb[w.cur] # <<>> /\ w.det = <<>>)
        /\ (w.kind \in {"file", "redirect"} /\ w.dir = "present") => w.src \in {1, 2}
        /\ w.cache \subseteq {1, 2}

CmdJson(c) == [c EXCEPT !.types = SetToSeq(c.types), !.fail = SetToSeq(c.fail)]
\* every distinct world gets one witness history (the first one found)
HistJson == [k \in 1..Len(hist) |-> IF hist[k].k = "cmd" THEN [k |-> "cmd", cmd |-> CmdJson(hist[k].cmd)] ELSE hist[k]]
\* (TLC evaluates an invariant on every successor it generates, so the worlds already reported are remembered in a
\* register; the export run uses one worker)
EmitWitness == \/ HistDepth = 0 \/ Len(hist) = 0 \/ ws \in TLCGet(1)
               \/ (TLCSet(1, TLCGet(1) \cup {ws}) /\ PrintT(ToJson([fam |-> Family, hist |-> HistJson])))
\* a behaviour of a simulation run reports its history when it is HistDepth steps long
EmitFull == Len(hist) < HistDepth \/ PrintT(ToJson([fam |-> Family, hist |-> HistJson]))
\* the export run stops at the depth of the witness histories
LevelBound == TLCGet("level") <= HistDepth
SetAsSeq(S) == SetToSeq(S)
WrapJson(w) == [w EXCEPT !.cache = SetAsSeq(w.cache)]
EmitAlphabet ==
    /\ TLCGet("stats").diameter >= 0
    /\ JsonSerialize("alphabet.json",
          [family |-> Family, world |-> [i \in DOMAIN World |-> WrapJson(World[i])],
           commands |-> SetAsSeq({ CmdJson(c) : c \in Alphabet }), env |-> SetAsSeq(EnvAlphabet)])
=============================================================================
