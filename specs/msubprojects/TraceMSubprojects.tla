-------------------------- MODULE TraceMSubprojects --------------------------
(***************************************************************************)
(* X11 - trace validation.  A case is one recorded session of the real     *)
(* `meson subprojects` command on a real source tree:                      *)
(*   [id, init: the projected wrap states at the start,                    *)
(*    steps: <<[k: "cmd" | "env", cmd, ev, rc, crash, failed, heads, toks, *)
(*             runs, ws: the projected wrap states afterwards, foreign]>>] *)
(* The judge folds the rule book over the steps: after every command the   *)
(* projected state of every selected subproject must be one of the         *)
(* outcomes its rule (MSubprojects!Task) permits, together with the        *)
(* verdict the command reported for it; everything else must be untouched; *)
(* the exit status, the announcements, what `purge` lists and - for        *)
(* `foreach` - the schedule and the report must satisfy the laws.  The     *)
(* observed state becomes the state the next step is judged from.          *)
(* Environment steps (plain file / git operations of the harness) are      *)
(* judged with EnvEnabled / EnvStep: a disagreement there is a fault of    *)
(* the harness' model of git, reported as "Machinery.*", never as a        *)
(* violation.  Every verdict names the failing clause.  A step whose       *)
(* projected state does not fit the rules ends the judgement of its case   *)
(* (what follows would be judged from a state the rule book cannot         *)
(* vouch for); a step that only breaks a law about the exit status, the    *)
(* report, the schedule or robustness is recorded and the judgement goes   *)
(* on from the observed state.                                             *)
(***************************************************************************)
EXTENDS MSubprojects, Json, IOUtils

Cases == JsonDeserialize(IOEnv.TRACE_FILE)

VARIABLES i, done
vars == <<i, done>>

WrapOf(x) ==
    [name |-> x.name, grp |-> x.grp, kind |-> x.kind, live |-> x.live, wv |-> x.wv, rev |-> x.rev, ov |-> x.ov,
     omod |-> x.omod, dir |-> x.dir, src |-> x.src, aov |-> x.aov, mod |-> x.mod, cache |-> Range(x.cache),
     repo |-> x.repo, cur |-> x.cur, det |-> x.det, lb |-> [b \in Branches |-> x.lb[b]],
     rt |-> [b \in RemoteBranches |-> x.rt[b]], dirty |-> x.dirty, stash |-> x.stash, nloc |-> x.nloc,
     up |-> [b \in RemoteBranches |-> x.up[b]]]
WorldOf(xs) == [k \in 1..Len(xs) |-> WrapOf(xs[k])]
CmdOf(x) ==
    [c |-> x.c, sel |-> [k |-> x.sel.k, v |-> x.sel.v], types |-> Range(x.types), reset |-> x.reset, b |-> x.b,
     branch |-> x.branch, confirm |-> x.confirm, cache |-> x.cache, save |-> x.save, fail |-> Range(x.fail)]

Fields == <<"live", "wv", "rev", "ov", "omod", "dir", "src", "aov", "mod", "cache", "repo", "cur", "det", "lb", "rt",
            "dirty", "stash", "up", "kind", "name", "grp", "nloc">>
RECURSIVE Join(_)
Join(s) == IF s = <<>> THEN "" ELSE IF Len(s) = 1 THEN s[1] ELSE s[1] \o "+" \o Join(Tail(s))
\* the fields in which the observed state differs from every permitted outcome ("ok": the reported verdict does)
DiffVs(outs, w2, ok, withok) ==
    LET fs == SelectSeq(Fields, LAMBDA f : \A o \in outs : o.st[f] # w2[f])
        okbad == withok /\ \A o \in outs : o.ok # ok
        all == IF okbad THEN Append(fs, "ok") ELSE fs
    IN IF all = <<>> THEN "combination" ELSE Join(all)
DiffTo(w, w2) == Join(SelectSeq(Fields, LAMBDA f : w[f] # w2[f]))

V(c, clause, n, w, detail) == [id |-> c.id, clause |-> clause, step |-> n, w |-> w, detail |-> detail]
Min(S) == CHOOSE x \in S : \A y \in S : x <= y

DelKinds == {"deldir", "delredirect", "delcache"}

\* laws of a `foreach` step; "" when all hold
ForeachClause(s, cmd, ws, sel) ==
    LET selnames == { ws[k].name : k \in sel }
        runs == { ws[k].name : k \in { k \in sel : Runs(cmd, ws[k]) } }
        evs == [k \in 1..Len(s.runs) |-> <<s.runs[k].kind, s.runs[k].name>>]
    IN IF ~RunsOnce(evs, runs) THEN "Foreach.RunsOnceInEachSelected"
       ELSE IF \E k \in 1..Len(s.runs) : ~s.runs[k].cwd THEN "Foreach.InItsOwnDirectory"
       ELSE IF ~AtMostJ(evs, s.cmd.j) THEN "Foreach.AtMostJAtOnce"
       ELSE IF s.cmd.gated /\ ~ParallelUpToJ(evs, s.cmd.j, runs) THEN "Foreach.ParallelUpToJ"
       ELSE IF ~ReportOK(s.toks, selnames, runs) THEN "Foreach.OneBlockPerSubproject"
       ELSE ""

\* acc: the verdicts so far;  Stop: a verdict that ends the case;  Note: one after which the judgement continues
RECURSIVE JudgeFrom(_, _, _, _)
JudgeFrom(c, ws, n, acc) ==
    LET Stop(v) == Append(acc, v) IN
    IF n > Len(c.steps) THEN acc
    ELSE
    LET s == c.steps[n] IN
    IF Len(s.ws) # Len(ws) THEN Stop(V(c, "Machinery.WorldShape", n, "", ""))
    ELSE
    LET obs == WorldOf(s.ws) IN
    IF s.k = "env" THEN
        LET ev == s.ev
            idx == { k \in DOMAIN ws : ws[k].name = ev.w }
        IN IF idx = {} THEN Stop(V(c, "Machinery.EnvUnknownWrap", n, ev.w, ev.op))
           ELSE LET k == CHOOSE k \in idx : TRUE IN
                IF ~EnvEnabled(ev, ws[k]) THEN Stop(V(c, "Machinery.EnvNotEnabled", n, ev.w, ev.op))
                ELSE LET exp == [ws EXCEPT ![k] = EnvStep(ev, ws[k])] IN
                     IF \E m \in DOMAIN ws : obs[m] # exp[m]
                     THEN LET m == Min({ m \in DOMAIN ws : obs[m] # exp[m] }) IN
                          Stop(V(c, "Machinery.EnvModelDisagrees", n, ws[m].name, ev.op \o ":" \o DiffTo(exp[m], obs[m])))
                     ELSE IF s.foreign # 0 THEN Stop(V(c, "Machinery.EnvTouchedForeign", n, ev.w, ev.op))
                     ELSE JudgeFrom(c, obs, n + 1, acc)
    ELSE
    LET cmd == CmdOf(s.cmd) IN
    IF BadInvocation(cmd) THEN
        IF obs # ws \/ s.foreign # 0 THEN Stop(V(c, "BadInvocation.ChangesNothing", n, "", ""))
        ELSE IF s.rc = 0 THEN JudgeFrom(c, obs, n + 1, Append(acc, V(c, "BadInvocation.MustFail", n, "", "")))
        ELSE JudgeFrom(c, obs, n + 1, acc)
    ELSE
    LET sel == Selected(cmd, ws)
        selnames == { ws[k].name : k \in sel }
        failed == Range(s.failed)
        okOf(k) == ws[k].name \notin failed
        outs(k) == Task(cmd, ws[k]).outs
        Fits(k) == IF s.crash THEN \E b \in BOOLEAN : Out(obs[k], b) \in outs(k) ELSE Out(obs[k], okOf(k)) \in outs(k)
        badsel == { k \in sel : ~Fits(k) }
        badun == { k \in DOMAIN ws \ sel : obs[k] # ws[k] }
        named == { s.toks[k][1] : k \in { k \in 1..Len(s.toks) : s.toks[k][1] # "" } }
        deltoks == { s.toks[k] : k \in { k \in 1..Len(s.toks) : s.toks[k][2] \in DelKinds } }
        fe == IF cmd.c = "foreach" /\ ~s.crash THEN ForeachClause(s, cmd, ws, sel) ELSE ""
        Note(v) == JudgeFrom(c, obs, n + 1, Append(acc, v))
    IN
    IF badsel # {} THEN LET k == Min(badsel) IN
        Stop(V(c, Task(cmd, ws[k]).rule, n, ws[k].name, DiffVs(outs(k), obs[k], okOf(k), ~s.crash) \o (IF s.crash THEN "+crash" ELSE "")))
    ELSE IF badun # {} THEN LET k == Min(badun) IN Stop(V(c, "Selection.UnselectedNotTouched", n, ws[k].name, DiffTo(ws[k], obs[k])))
    ELSE IF s.foreign # 0 THEN Stop(V(c, "Foreign.NotTouched", n, "", IF s.crash THEN "crash" ELSE ""))
    \* [SP] "If the subcommand fails on any subproject the execution continues with other subprojects": a command that
    \* dies of an unhandled exception has not continued, and returns no verdicts
    ELSE IF s.crash THEN Note(V(c, "Continues.NoUnhandledException", n, "", ""))
    ELSE IF failed \ selnames # {} THEN Note(V(c, "ExitStatus.FailureOfUnselected", n, "", ""))
    ELSE IF (s.rc # 0) # ExitNonZero([k \in sel |-> okOf(k)]) THEN Note(V(c, "ExitStatus.NonZeroIffAFailure", n, "", IF s.rc = 0 THEN "zero" ELSE "nonzero"))
    ELSE IF fe # "" THEN Note(V(c, fe, n, "", ""))
    ELSE IF (Range(s.heads) \cup named) \ selnames # {} THEN Note(V(c, "Selection.AnnouncesOnlySelected", n, "", ""))
    ELSE IF cmd.c = "purge" /\ deltoks # UNION { PurgeTokens(cmd, ws[k]) : k \in sel }
         THEN Note(V(c, "Purge.AnnouncesExactlyItsArtifacts", n, "", ""))
    ELSE JudgeFrom(c, obs, n + 1, acc)

Judge(c) == JudgeFrom(c, WorldOf(c.init), 1, <<>>)

Init == i \in 1..Len(Cases) /\ done = FALSE
Next == /\ ~done
        /\ done' = TRUE
        /\ i' = i
        /\ LET vs == Judge(Cases[i]) IN \A k \in 1..Len(vs) : PrintT(ToJson(vs[k]))
Spec == Init /\ [][Next]_vars
=============================================================================
