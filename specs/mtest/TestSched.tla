------------------------------ MODULE TestSched ------------------------------
(***************************************************************************)
(* `meson test` as a scheduler (property C12).                              *)
(*                                                                         *)
(* Rule book, from docs/markdown/Unit-tests.md, docs/yaml/functions/       *)
(* test.yaml + benchmark.yaml and the 0.64 release note on --maxfail:      *)
(*   - tests are started in list order (priority order), at most J at a    *)
(*     time; a test declared `is_parallel: false` runs while no other test *)
(*     is running;                                                         *)
(*   - with --repeat R the list is run R times (iteration 1, then 2, ..);  *)
(*   - a run is classified from its exit status (0 OK, 77 SKIP, 99 ERROR,  *)
(*     other FAIL; should_fail turns OK/FAIL into UNEXPECTEDPASS/          *)
(*     EXPECTEDFAIL only; exceeding the time limit gives TIMEOUT and the   *)
(*     test is killed);                                                    *)
(*   - --maxfail M: once M tests are marked as failing all pending tests   *)
(*     are cancelled and tests in progress interrupted;                    *)
(*   - the totals are the tally of the classifications and the exit status *)
(*     is non-zero iff some run failed, errored, timed out, unexpectedly   *)
(*     passed (or was interrupted).                                        *)
(*                                                                         *)
(* The state machine is shaped like the runner so that traces bind         *)
(* tightly: a main loop that spawns one runner task per (test, iteration)  *)
(* in list order with a barrier before and after a non-parallel test, a    *)
(* FIFO semaphore of J slots, Start / Timeout (kill) / Finish per runner.  *)
(* Where the documentation leaves a choice the machine is                  *)
(* non-deterministic (see MayCut, MayStop, Vanish).                        *)
(*                                                                         *)
(* All parameters of an instance live in the never-changing variable       *)
(* `cfg`, so that one TLC run covers many instances (model checking: every *)
(* small instance; trace validation: one instance per recorded run).       *)
(***************************************************************************)
EXTENDS Integers, Sequences, FiniteSets

\* ---------------------------------------------------------------------------
\* Classification of one run (documented rule)

Classes == {"OK", "SKIP", "ERROR", "FAIL", "EXPECTEDFAIL", "UNEXPECTEDPASS", "TIMEOUT", "INTERRUPT"}

\* exit: exit status as the harness sees it (negative: killed by that signal)
\* sf: should_fail / expected_fail ; to: the time limit passed before the test ended
Classify(exit, sf, to) ==
    IF to THEN "TIMEOUT"
    ELSE IF exit = 0 THEN (IF sf THEN "UNEXPECTEDPASS" ELSE "OK")
    ELSE IF exit = 77 THEN "SKIP"
    ELSE IF exit = 99 THEN "ERROR"
    ELSE IF sf THEN "EXPECTEDFAIL" ELSE "FAIL"

\* "failed, errored, timed out or unexpectedly passed" (+ interrupted by the harness itself)
Bad(c) == c \in {"FAIL", "ERROR", "TIMEOUT", "UNEXPECTEDPASS", "INTERRUPT"}
\* what `--maxfail` certainly counts as "failing"
Failing(c) == c \in {"FAIL", "ERROR", "INTERRUPT"}

\* time limit: declared seconds (<= 0: none), --timeout-multiplier in 1/1000 (-1: not given, <= 0: limits off)
\* result in milliseconds, -1 = no limit
LimitMs(declared, mult) ==
    IF declared <= 0 THEN -1
    ELSE IF mult = -1 THEN declared * 1000
    ELSE IF mult <= 0 THEN -1
    ELSE declared * mult
TimesOut(durMs, limitMs) == limitMs >= 0 /\ durMs > limitMs

\* printed totals: Ok / Expected Fail / Fail / Unexpected Pass / Skipped / Timeout
ZeroTally == [ok |-> 0, xfail |-> 0, fail |-> 0, upass |-> 0, skip |-> 0, timeout |-> 0]
Tallied(t, c) ==
    CASE c = "OK" -> [t EXCEPT !.ok = @ + 1]
      [] c = "EXPECTEDFAIL" -> [t EXCEPT !.xfail = @ + 1]
      [] c \in {"FAIL", "ERROR", "INTERRUPT"} -> [t EXCEPT !.fail = @ + 1]
      [] c = "UNEXPECTEDPASS" -> [t EXCEPT !.upass = @ + 1]
      [] c = "SKIP" -> [t EXCEPT !.skip = @ + 1]
      [] c = "TIMEOUT" -> [t EXCEPT !.timeout = @ + 1]
RECURSIVE TallyOf(_)
TallyOf(cs) == IF cs = <<>> THEN ZeroTally ELSE Tallied(TallyOf(SubSeq(cs, 1, Len(cs) - 1)), cs[Len(cs)])
NBad(t) == t.fail + t.upass + t.timeout
ExitOf(t) == IF NBad(t) > 0 THEN 1 ELSE 0

\* ---------------------------------------------------------------------------
\* Instance:  cfg = [N, R, J, M, run]
\*   N tests per iteration, R iterations, J requested jobs, M = --maxfail (0: off)
\*   run[r] for runner r in 1..N*R (list order, iteration after iteration):
\*       [par, sf, exit, to]
Min2(a, b) == IF a <= b THEN a ELSE b

VARIABLES cfg,      \* the instance (never changes)
          main,     \* main loop: [k |-> runner to spawn next, ph |-> "spawn" | "post" | "final" | "done"]
          rs,       \* runner status: "new" | "waiting" | "running" | "killing" | "intr" | "done" | "skipped" | "cancelled" | "gone"
          starts,   \* runners in the order they were started (history)
          results,  \* <<[r, c]>> in the order results were processed (= order of testlog.json lines)
          tally,    \* the counters behind the printed totals
          cut,      \* --maxfail has cancelled the run
          stopped   \* a failure under --repeat has stopped the launching of further tests

svars == <<cfg, main, rs, starts, results, tally, cut, stopped>>

NR == cfg.N * cfg.R
Runners == 1..NR
Jeff == Min2(cfg.J, NR)                     \* no more job slots than runners
Par(r) == cfg.run[r].par /\ Jeff > 1        \* with a single slot every test is run serially
InFlight == {r \in Runners : rs[r] \in {"running", "killing", "intr"}}
Spawned == {r \in Runners : rs[r] # "new"}
Finished(r) == rs[r] \in {"done", "skipped", "cancelled", "gone"}
AllSpawnedFinished == \A r \in Spawned : Finished(r)
Waiting == {r \in Runners : rs[r] = "waiting"}
AtHead(r) == r \in Waiting /\ \A q \in Waiting : r <= q      \* FIFO semaphore
SlotFree == Cardinality(InFlight) < Jeff

\* documented choice points --------------------------------------------------
\* --maxfail: "after M tests are marked as failing": certainly when M runs FAILed/ERRORed,
\* possibly already when M runs were bad in the wider sense (timeout, unexpected pass).
MustCut(t, c) == cfg.M > 0 /\ t.fail >= cfg.M /\ Bad(c)
MayCut(t, c) == cfg.M > 0 /\ NBad(t) >= cfg.M /\ Bad(c)
\* --repeat: after a bad result no further tests need to be launched
MayStop == cfg.R > 1 /\ NBad(tally) > 0

TypeOK ==
    /\ main.k \in 1..(NR + 1) /\ main.ph \in {"spawn", "post", "final", "done"}
    /\ rs \in [Runners -> {"new", "waiting", "running", "killing", "intr", "done", "skipped", "cancelled", "gone"}]
    /\ cut \in BOOLEAN /\ stopped \in BOOLEAN
    /\ \A i \in 1..Len(results) : results[i].r \in Runners /\ results[i].c \in Classes

InitFor(c) ==
    /\ cfg = c
    /\ main = [k |-> 1, ph |-> "spawn"]
    /\ rs = [r \in 1..(c.N * c.R) |-> "new"]
    /\ starts = <<>>
    /\ results = <<>>
    /\ tally = ZeroTally
    /\ cut = FALSE
    /\ stopped = FALSE

\* ---- main loop ---------------------------------------------------------------
\* where the loop goes after runner k has been dealt with
Advance(k) ==
    \/ /\ k < NR
       /\ main' = [k |-> k + 1, ph |-> "spawn"]
       /\ UNCHANGED stopped
    \/ /\ k = NR
       /\ main' = [k |-> k + 1, ph |-> "final"]
       /\ UNCHANGED stopped
    \/ /\ k < NR /\ MayStop                     \* leave the loop early
       /\ main' = [k |-> k + 1, ph |-> "final"]
       /\ stopped' = TRUE

Spawn ==
    /\ main.ph = "spawn"
    /\ LET k == main.k IN
         /\ Par(k) \/ AllSpawnedFinished         \* barrier before a non-parallel test
         /\ rs' = [rs EXCEPT ![k] = "waiting"]
         /\ IF Par(k) THEN Advance(k)
            ELSE main' = [main EXCEPT !.ph = "post"] /\ UNCHANGED stopped
    /\ UNCHANGED <<cfg, starts, results, tally, cut>>

Post ==                                          \* barrier after a non-parallel test
    /\ main.ph = "post"
    /\ Finished(main.k)
    /\ Advance(main.k)
    /\ UNCHANGED <<cfg, rs, starts, results, tally, cut>>

Final ==
    /\ main.ph = "final"
    /\ AllSpawnedFinished
    /\ main' = [main EXCEPT !.ph = "done"]
    /\ UNCHANGED <<cfg, rs, starts, results, tally, cut, stopped>>

\* ---- runner tasks -------------------------------------------------------------
Start(r) ==
    /\ AtHead(r) /\ SlotFree
    /\ ~cut /\ ~stopped                          \* once the run is cut / stopped nothing more is launched
    /\ rs' = [rs EXCEPT ![r] = "running"]
    /\ starts' = Append(starts, r)
    /\ UNCHANGED <<cfg, main, results, tally, cut, stopped>>

Skip(r) ==                                       \* got a slot but the run is over: return without running
    /\ AtHead(r) /\ SlotFree
    /\ cut \/ MayStop
    /\ rs' = [rs EXCEPT ![r] = "skipped"]
    /\ stopped' = (stopped \/ ~cut)
    /\ UNCHANGED <<cfg, main, starts, results, tally, cut>>

Timeout(r) ==                                    \* the limit passes: the test is killed
    /\ rs[r] = "running" /\ cfg.run[r].to
    /\ rs' = [rs EXCEPT ![r] = "killing"]
    /\ UNCHANGED <<cfg, main, starts, results, tally, cut, stopped>>

\* result c of runner r is processed; maybe the run is cut
Record(r, c) ==
    LET t == Tallied(tally, c) IN
    /\ results' = Append(results, [r |-> r, c |-> c])
    /\ tally' = t
    /\ \/ /\ cut \/ ~MustCut(t, c)                 \* no (new) cut
          /\ UNCHANGED cut
          /\ rs' = [rs EXCEPT ![r] = "done"]
       \/ /\ ~cut /\ MayCut(t, c)                    \* cancel everything pending, interrupt what runs
          /\ cut' = TRUE
          /\ rs' = [q \in Runners |-> IF q = r THEN "done"
                                      ELSE IF rs[q] = "waiting" THEN "cancelled"
                                      ELSE IF rs[q] \in {"running", "killing"} THEN "intr"
                                      ELSE rs[q]]

ClassOf(r) == Classify(cfg.run[r].exit, cfg.run[r].sf, cfg.run[r].to)

Finish(r) ==
    /\ \/ rs[r] = "running" /\ ~cfg.run[r].to
       \/ rs[r] = "killing"
    /\ Record(r, ClassOf(r))
    /\ UNCHANGED <<cfg, main, starts, stopped>>

FinishIntr(r) ==                                 \* an interrupted test is reported as INTERRUPT ...
    /\ rs[r] = "intr"
    /\ Record(r, "INTERRUPT")
    /\ UNCHANGED <<cfg, main, starts, stopped>>

Vanish(r) ==                                     \* ... or not at all (cancelled before it was registered)
    /\ rs[r] = "intr"
    /\ rs' = [rs EXCEPT ![r] = "gone"]
    /\ UNCHANGED <<cfg, main, starts, results, tally, cut, stopped>>

Terminated == main.ph = "done" /\ UNCHANGED svars

MainStep == Spawn \/ Post \/ Final
RunnerStep(r) == Start(r) \/ Skip(r) \/ Timeout(r) \/ Finish(r) \/ FinishIntr(r) \/ Vanish(r)
SchedNext == MainStep \/ (\E r \in Runners : RunnerStep(r)) \/ Terminated

\* ---------------------------------------------------------------------------
\* The laws of property C12 (checked by TLC on every small instance)

NoDup(s) == \A i, j \in 1..Len(s) : i # j => s[i] # s[j]
ResultRunners == {results[i].r : i \in 1..Len(results)}
StartedSet == {starts[i] : i \in 1..Len(starts)}

AtMostOnce == NoDup(starts) /\ NoDup([i \in 1..Len(results) |-> results[i].r])
StartsInListOrder == \A i, j \in 1..Len(starts) : i < j => starts[i] < starts[j]
JobBound == Cardinality(InFlight) <= cfg.J
SerialAlone == \A r \in InFlight : ~cfg.run[r].par => InFlight = {r}
ResultsOnlyOfStarted == ResultRunners \subseteq StartedSet
ResultsTruthful == \A i \in 1..Len(results) :
                       results[i].c = "INTERRUPT" \/ results[i].c = ClassOf(results[i].r)
InterruptOnlyAfterCut == (\E i \in 1..Len(results) : results[i].c = "INTERRUPT") => cut
TalliesEqualClassification == tally = TallyOf([i \in 1..Len(results) |-> results[i].c])
ExactlyOnceWhenNotCut ==
    (main.ph = "done" /\ ~cut /\ ~stopped) =>
        /\ StartedSet = Runners /\ ResultRunners = Runners
        /\ \A r \in Runners : rs[r] = "done"
NotCutWithoutCause ==
    /\ cut => cfg.M > 0 /\ NBad(tally) >= cfg.M
    /\ stopped => cfg.R > 1 /\ NBad(tally) > 0
CutWhenMaxfailReached ==
    (cfg.M > 0 /\ Cardinality({i \in 1..Len(results) : results[i].c \in {"FAIL", "ERROR"}}) >= cfg.M) => cut
ExitNonZeroIffBad ==
    main.ph = "done" => (ExitOf(tally) # 0 <=> \E i \in 1..Len(results) : Bad(results[i].c))
AllAccountedWhenDone == main.ph = "done" => \A r \in Runners : Finished(r) \/ (stopped /\ rs[r] = "new")
\* action properties
NothingStartsAfterCut == (cut \/ stopped) => starts' = starts
\* every step makes progress (the state graph is acyclic => with deadlock freedom the run terminates)
Rank(s) == CASE s = "new" -> 0 [] s = "waiting" -> 1 [] s = "running" -> 2 [] s = "killing" -> 3
             [] s = "intr" -> 4 [] OTHER -> 5
RECURSIVE SumRank(_)
SumRank(n) == IF n = 0 THEN 0 ELSE Rank(rs[n]) + SumRank(n - 1)
Measure == SumRank(NR) + 2 * main.k + (CASE main.ph = "spawn" -> 0 [] main.ph = "post" -> 1
                                          [] main.ph = "final" -> 1 [] main.ph = "done" -> 2)
=============================================================================
