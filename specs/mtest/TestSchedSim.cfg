SPECIFICATION SimSpec
CHECK_DEADLOCK FALSE
