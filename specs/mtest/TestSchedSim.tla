---------------------------- MODULE TestSchedSim ----------------------------
(* Behaviours of TestSched with the sequence of runner events kept in a      *)
(* history variable; used with `tlc -simulate` to obtain schedules (spec ->   *)
(* code): each finished behaviour is printed once as JSON [cfg, hist].        *)
(* The instances to simulate are read from IOEnv.SIM_FILE (a JSON array of   *)
(* cfg records [N, R, J, M, run]).                                           *)
EXTENDS TestSched, TLC, Json, IOUtils

VARIABLES hist, emitted
simvars == <<svars, hist, emitted>>

SimCfgs == JsonDeserialize(IOEnv.SIM_FILE)
SimInit == (\E i \in 1..Len(SimCfgs) : InitFor(SimCfgs[i])) /\ hist = <<>> /\ emitted = FALSE

Ev(k, r) == [k |-> k, r |-> r]
SimNext ==
    \/ /\ MainStep /\ UNCHANGED <<hist, emitted>>
    \/ /\ UNCHANGED emitted
       /\ \E r \in Runners :
            \/ Start(r) /\ hist' = Append(hist, Ev("S", r))
            \/ Skip(r) /\ hist' = Append(hist, Ev("X", r))
            \/ Timeout(r) /\ hist' = Append(hist, Ev("T", r))
            \/ Finish(r) /\ hist' = Append(hist, Ev("F", r))
            \/ FinishIntr(r) /\ hist' = Append(hist, Ev("I", r))
            \/ Vanish(r) /\ hist' = Append(hist, Ev("V", r))
    \/ /\ main.ph = "done" /\ ~emitted
       /\ emitted' = TRUE
       /\ UNCHANGED <<svars, hist>>
       /\ PrintT(ToJson([cfg |-> cfg, hist |-> hist, cut |-> cut, stopped |-> stopped]))
SimSpec == SimInit /\ [][SimNext]_simvars
=============================================================================
