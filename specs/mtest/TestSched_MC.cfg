SPECIFICATION Spec
CONSTANTS
  Shapes = {31, 22}
  Kinds = {"ok", "fail", "upass", "timeout", "skip"}
  Js = {1, 2, 3}
  Ms = {0, 1, 2}
  Flaky = TRUE
INVARIANTS
  TypeOK
  AtMostOnce
  StartsInListOrder
  JobBound
  SerialAlone
  ResultsOnlyOfStarted
  ResultsTruthful
  InterruptOnlyAfterCut
  TalliesEqualClassification
  ExactlyOnceWhenNotCut
  NotCutWithoutCause
  CutWhenMaxfailReached
  ExitNonZeroIffBad
  AllAccountedWhenDone
PROPERTIES
  Progress
  NoStartAfterCut
  CfgConstant
