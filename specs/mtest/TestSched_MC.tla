---------------------------- MODULE TestSched_MC ----------------------------
(* Model: every instance of the given shapes (N tests x R iterations) over  *)
(* the given test kinds, job counts and --maxfail values; TLC explores all   *)
(* interleavings of the main loop and the runner tasks of each instance.     *)
EXTENDS TestSched, TLC

CONSTANTS Shapes,   \* set of shapes 10*N + R (N tests, R iterations)
          Kinds,    \* subset of KindNames
          Js, Ms,   \* sets of job counts / maxfail values
          Flaky     \* TRUE: later iterations of a test may end differently from the first

KindNames == {"ok", "fail", "upass", "xfail", "skip", "skipsf", "error", "errorsf", "timeout", "timeoutsf", "sig"}
KindRec(k) ==
    CASE k = "ok"        -> [sf |-> FALSE, exit |-> 0,  to |-> FALSE]
      [] k = "fail"      -> [sf |-> FALSE, exit |-> 1,  to |-> FALSE]
      [] k = "sig"       -> [sf |-> FALSE, exit |-> -9, to |-> FALSE]
      [] k = "upass"     -> [sf |-> TRUE,  exit |-> 0,  to |-> FALSE]
      [] k = "xfail"     -> [sf |-> TRUE,  exit |-> 1,  to |-> FALSE]
      [] k = "skip"      -> [sf |-> FALSE, exit |-> 77, to |-> FALSE]
      [] k = "skipsf"    -> [sf |-> TRUE,  exit |-> 77, to |-> FALSE]
      [] k = "error"     -> [sf |-> FALSE, exit |-> 99, to |-> FALSE]
      [] k = "errorsf"   -> [sf |-> TRUE,  exit |-> 99, to |-> FALSE]
      [] k = "timeout"   -> [sf |-> FALSE, exit |-> 0,  to |-> TRUE]
      [] k = "timeoutsf" -> [sf |-> TRUE,  exit |-> 1,  to |-> TRUE]

ASSUME Kinds \subseteq KindNames

RunRec(par, k) == [par |-> par, sf |-> KindRec(k).sf, exit |-> KindRec(k).exit, to |-> KindRec(k).to]

\* kinds a later iteration may take: same should_fail flag (a static attribute of the test)
Later(k) == IF Flaky THEN {k2 \in Kinds : KindRec(k2).sf = KindRec(k).sf} ELSE {k}

Base(N, r) == ((r - 1) % N) + 1               \* the test of runner r

\* one instance: static attributes and first-iteration outcome per test, outcomes of later iterations
Config(N, R, j, m, first, later) ==
    [N |-> N, R |-> R, J |-> j, M |-> m,
     run |-> [r \in 1..(N * R) |-> IF r <= N THEN RunRec(first[r][1], first[r][2])
                                    ELSE RunRec(first[Base(N, r)][1], later[r])]]

Init == \E sh \in Shapes, j \in Js, m \in Ms :
          LET N == sh \div 10
              R == sh % 10
          IN \E first \in [1..N -> BOOLEAN \X Kinds] :
               \E later \in [(N + 1)..(N * R) -> Kinds] :
                  /\ \A r \in (N + 1)..(N * R) : later[r] \in Later(first[Base(N, r)][2])
                  /\ InitFor(Config(N, R, j, m, first, later))
Next == SchedNext
Spec == Init /\ [][Next]_svars

Progress == [][main.ph = "done" \/ Measure' > Measure]_svars
NoStartAfterCut == [][NothingStartsAfterCut]_svars
CfgConstant == [][cfg' = cfg]_svars

\* the classification rule as a table over every exit status (function-level law, independent of scheduling)
ClassifyLaws ==
    /\ \A e \in -64..255, sf \in BOOLEAN :
         /\ Classify(e, sf, TRUE) = "TIMEOUT"
         /\ Classify(e, sf, FALSE) =
              (IF e = 77 THEN "SKIP" ELSE IF e = 99 THEN "ERROR"
               ELSE IF e = 0 THEN (IF sf THEN "UNEXPECTEDPASS" ELSE "OK")
               ELSE (IF sf THEN "EXPECTEDFAIL" ELSE "FAIL"))
         /\ Classify(e, sf, FALSE) \in Classes
    /\ \A c \in Classes : Bad(c) <=> c \notin {"OK", "SKIP", "EXPECTEDFAIL"}
    /\ \A c \in Classes : NBad(Tallied(ZeroTally, c)) = (IF Bad(c) THEN 1 ELSE 0)
    /\ LimitMs(30, -1) = 30000 /\ LimitMs(0, -1) = -1 /\ LimitMs(-5, 2000) = -1
    /\ LimitMs(2, 500) = 1000 /\ LimitMs(2, 0) = -1 /\ LimitMs(2, -1000) = -1
    /\ TimesOut(8000, 300) /\ ~TimesOut(200, 30000) /\ ~TimesOut(8000, -1)
ASSUME ClassifyLaws

=============================================================================
