------------------------------ MODULE TestSelect ------------------------------
(***************************************************************************)
(* Which tests `meson test` runs, and in which order (property C12):        *)
(*   - the list is ordered by priority, higher first (order among equal     *)
(*     priorities is not specified);                                        *)
(*   - `--suite S` (repeatable: union) keeps the tests in a named suite,    *)
(*     `--no-suite S` drops them and wins over --suite; a selector is       *)
(*     `project:suite`, `:suite` (any project), `suite` or `project`;       *)
(*   - `--slice i/n` splits the selected list into n slices; i = 1..n       *)
(*     partition it.                                                        *)
(* A test is [name, prj, prio, suites]; a selector [a, b, colon] stands for *)
(* the text `a:b` (colon = TRUE) or `a` (colon = FALSE).                    *)
(***************************************************************************)
EXTENDS Integers, Sequences, FiniteSets

Labels(t) == {t.suites[i] : i \in 1..Len(t.suites)}

Matches(t, s) ==
    IF s.colon /\ s.a # "" /\ s.b # "" THEN s.a = t.prj /\ s.b \in Labels(t)   \* project:suite
    ELSE IF s.colon /\ s.a = "" THEN s.b \in Labels(t)                        \* :suite  (any project)
    ELSE s.a = t.prj \/ s.a \in Labels(t)                                    \* name / name:  (project or suite)

MatchesAny(t, sels) == \E i \in 1..Len(sels) : Matches(t, sels[i])
Wanted(t, inc, exc) == ~MatchesAny(t, exc) /\ (inc = <<>> \/ MatchesAny(t, inc))

RECURSIVE Filter(_, _, _)
Filter(tests, inc, exc) ==
    IF tests = <<>> THEN <<>>
    ELSE LET rest == Filter(Tail(tests), inc, exc)
         IN IF Wanted(Head(tests), inc, exc) THEN <<Head(tests)>> \o rest ELSE rest

\* round-robin slicing (one way to meet the partition law; defined for 1 <= i <= n <= Len(list))
Slice(list, i, n) == [j \in 1..((Len(list) - i) \div n + 1) |-> list[i + (j - 1) * n]]

\* ---- laws ---------------------------------------------------------------
Elems(s) == {s[i] : i \in 1..Len(s)}
NoDupSeq(s) == \A i, j \in 1..Len(s) : i # j => s[i] # s[j]
\* s is a subsequence of t (both without duplicates): same relative order
IsSubseqOf(s, t) ==
    /\ Elems(s) \subseteq Elems(t)
    /\ NoDupSeq(s)
    /\ \A i, j \in 1..Len(s) : i < j =>
          \E a, b \in 1..Len(t) : a < b /\ t[a] = s[i] /\ t[b] = s[j]
\* `parts` (a sequence of sequences) partitions `whole`
Partitions(parts, whole) ==
    /\ \A p \in 1..Len(parts) : IsSubseqOf(parts[p], whole)
    /\ \A p, q \in 1..Len(parts) : p # q => Elems(parts[p]) \cap Elems(parts[q]) = {}
    /\ UNION {Elems(parts[p]) : p \in 1..Len(parts)} = Elems(whole)
PriorityOrdered(tests) == \A i, j \in 1..Len(tests) : i < j => tests[i].prio >= tests[j].prio
=============================================================================
