------------------------------ MODULE TestSelect ------------------------------
(***************************************************************************)
(* Which tests `meson test` runs, and in which order (property C12):        *)
(*   - the list is ordered by priority, higher first (order among equal     *)
(*     priorities is not specified);                                        *)
(*   - `--suite S` (repeatable: union) keeps the tests in a named suite,    *)
(*     `--no-suite S` drops them and wins over --suite; a selector is       *)
(*     `project:suite`, `:suite` (any project), `suite` or `project`;       *)
(*   - positional test names (`meson test A D`, `meson test proj:`,          *)
(*     `meson test proj:name`, wildcards in both parts: "foo*" "bar*:")     *)
(*     keep, of the tests left by the suite options, those matched by ANY   *)
(*     of the arguments - each test once, list order preserved;             *)
(*   - `--slice i/n` splits the selected list into n slices; i = 1..n       *)
(*     partition it.                                                        *)
(* A test is [name, prj, prio, suites, nc, pc] (nc / pc: name and project   *)
(* as sequences of one-character strings, for pattern matching); a selector *)
(* [a, b, colon] stands for the text `a:b` (colon = TRUE) or `a` (colon =   *)
(* FALSE); a name argument is the sequence of its characters.               *)
(***************************************************************************)
EXTENDS Integers, Sequences, FiniteSets

Labels(t) == {t.suites[i] : i \in 1..Len(t.suites)}

Matches(t, s) ==
    IF s.colon /\ s.a # "" /\ s.b # "" THEN s.a = t.prj /\ s.b \in Labels(t)   \* project:suite
    ELSE IF s.colon /\ s.a = "" THEN s.b \in Labels(t)                        \* :suite  (any project)
    ELSE s.a = t.prj \/ s.a \in Labels(t)                                    \* name / name:  (project or suite)

MatchesAny(t, sels) == \E i \in 1..Len(sels) : Matches(t, sels[i])
Wanted(t, inc, exc) == ~MatchesAny(t, exc) /\ (inc = <<>> \/ MatchesAny(t, inc))

RECURSIVE Filter(_, _, _)
Filter(tests, inc, exc) ==
    IF tests = <<>> THEN <<>>
    ELSE LET rest == Filter(Tail(tests), inc, exc)
         IN IF Wanted(Head(tests), inc, exc) THEN <<Head(tests)>> \o rest ELSE rest

\* ---- positional test-name arguments ----------------------------------------
\* shell-style pattern: `*` any run of characters, `?` one character, anything else itself
RECURSIVE Glob(_, _)
Glob(p, s) ==
    IF p = <<>> THEN s = <<>>
    ELSE IF Head(p) = "*" THEN Glob(Tail(p), s) \/ (s # <<>> /\ Glob(p, Tail(s)))
    ELSE s # <<>> /\ (Head(p) = "?" \/ Head(p) = Head(s)) /\ Glob(Tail(p), Tail(s))

\* `name` = any project; `proj:` = every test of proj; `proj:name`; an empty part is a wildcard
ColonAt(a) == IF \E i \in 1..Len(a) : a[i] = ":"
              THEN CHOOSE i \in 1..Len(a) : a[i] = ":" /\ \A j \in 1..(i - 1) : a[j] # ":"
              ELSE 0
PrjPat(a) == LET c == ColonAt(a) IN IF c <= 1 THEN <<"*">> ELSE SubSeq(a, 1, c - 1)
NamePat(a) == LET c == ColonAt(a) IN
              IF c = 0 THEN (IF a = <<>> THEN <<"*">> ELSE a)
              ELSE IF c = Len(a) THEN <<"*">> ELSE SubSeq(a, c + 1, Len(a))
ArgMatches(t, a) == Glob(PrjPat(a), t.pc) /\ Glob(NamePat(a), t.nc)
ArgsWant(t, args) == args = <<>> \/ \E i \in 1..Len(args) : ArgMatches(t, args[i])

RECURSIVE ByArgs(_, _)
ByArgs(tests, args) ==
    IF tests = <<>> THEN <<>>
    ELSE LET rest == ByArgs(Tail(tests), args)
         IN IF ArgsWant(Head(tests), args) THEN <<Head(tests)>> \o rest ELSE rest
\* an argument that matches none of the candidate tests (the command may refuse to run: the
\* documentation does not say; it may not run anything else instead)
Unmatched(tests, args) == \E i \in 1..Len(args) : \A j \in 1..Len(tests) : ~ArgMatches(tests[j], args[i])

\* the whole selection before slicing
Selected(tests, inc, exc, args) == ByArgs(Filter(tests, inc, exc), args)

\* round-robin slicing (one way to meet the partition law; defined for 1 <= i <= n <= Len(list))
Slice(list, i, n) == [j \in 1..((Len(list) - i) \div n + 1) |-> list[i + (j - 1) * n]]

\* ---- laws ---------------------------------------------------------------
Elems(s) == {s[i] : i \in 1..Len(s)}
NoDupSeq(s) == \A i, j \in 1..Len(s) : i # j => s[i] # s[j]
\* s is a subsequence of t (both without duplicates): same relative order
IsSubseqOf(s, t) ==
    /\ Elems(s) \subseteq Elems(t)
    /\ NoDupSeq(s)
    /\ \A i, j \in 1..Len(s) : i < j =>
          \E a, b \in 1..Len(t) : a < b /\ t[a] = s[i] /\ t[b] = s[j]
\* `parts` (a sequence of sequences) partitions `whole`
Partitions(parts, whole) ==
    /\ \A p \in 1..Len(parts) : IsSubseqOf(parts[p], whole)
    /\ \A p, q \in 1..Len(parts) : p # q => Elems(parts[p]) \cap Elems(parts[q]) = {}
    /\ UNION {Elems(parts[p]) : p \in 1..Len(parts)} = Elems(whole)
PriorityOrdered(tests) == \A i, j \in 1..Len(tests) : i < j => tests[i].prio >= tests[j].prio
=============================================================================
