SPECIFICATION Spec
CONSTANTS MaxN = 3
INVARIANTS
  EachSelectedOnce
  ExactlyTheMatched
  ArgsAreUnion
  RepeatedArgsIdempotent
  ArgOrderIrrelevant
  NoArgsKeepsAll
  UnmatchedMeansSmaller
CHECK_DEADLOCK FALSE
