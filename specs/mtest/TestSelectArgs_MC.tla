-------------------------- MODULE TestSelectArgs_MC --------------------------
(* Positional test-name arguments: every list of up to MaxN tests named over {a, b} (1-2 characters)   *)
(* in projects p / q, every list of up to two arguments over a pattern alphabet: each selected test     *)
(* once, order kept, union over the arguments, repeated / overlapping arguments change nothing.        *)
EXTENDS TestSelect, TLC
CONSTANTS MaxN

NameSet == {<<"a">>, <<"b">>, <<"a", "a">>, <<"a", "b">>, <<"b", "a">>}
PrjSet == {<<"p">>, <<"q">>}
ArgSet == {<<"a">>, <<"a", "b">>, <<"a", "*">>, <<"*", "a">>, <<"?">>, <<"*">>, <<"p", ":">>, <<"q", ":", "a">>,
           <<"p", ":", "a", "*">>, <<"*", ":", "b">>, <<":", "a">>, <<"z">>, <<"?", "?", "?">>, <<"p", "*", ":", "?", "b">>}
ArgLists == {<<>>} \cup {<<x>> : x \in ArgSet} \cup {<<x, y>> : x, y \in ArgSet}

VARIABLES tests, args, chosen
vars == <<tests, args, chosen>>
Mk(n, f) == [i \in 1..n |-> [name |-> i, prj |-> f[i][1][1], prio |-> 0, suites |-> <<>>, pc |-> f[i][1], nc |-> f[i][2]]]
Init == /\ \E n \in 0..MaxN : \E f \in [1..n -> PrjSet \X NameSet] : tests = Mk(n, f)
        /\ args = <<>> /\ chosen = FALSE
Next == ~chosen /\ chosen' = TRUE /\ args' \in ArgLists /\ UNCHANGED tests
Spec == Init /\ [][Next]_vars

S0 == Selected(tests, <<>>, <<>>, args)
EachSelectedOnce == NoDupSeq(S0) /\ IsSubseqOf(S0, tests)
ExactlyTheMatched == \A i \in 1..Len(tests) : (tests[i] \in Elems(S0)) <=> ArgsWant(tests[i], args)
ArgsAreUnion == Len(args) = 2 => Elems(S0) = Elems(ByArgs(tests, <<args[1]>>)) \cup Elems(ByArgs(tests, <<args[2]>>))
RepeatedArgsIdempotent == ByArgs(tests, args \o args) = S0
ArgOrderIrrelevant == Len(args) = 2 => ByArgs(tests, <<args[2], args[1]>>) = S0
NoArgsKeepsAll == args = <<>> => S0 = tests
UnmatchedMeansSmaller == (Unmatched(tests, args) /\ Len(args) = 1) => S0 = <<>>
GlobLaws ==
    /\ Glob(<<"*">>, <<>>) /\ Glob(<<"*">>, <<"a", "b">>) /\ ~Glob(<<"?">>, <<>>) /\ Glob(<<"?">>, <<"x">>)
    /\ Glob(<<"a", "*">>, <<"a">>) /\ Glob(<<"a", "*">>, <<"a", "l", "p">>) /\ ~Glob(<<"a", "*">>, <<"b", "a">>)
    /\ Glob(<<"a", "l">>, <<"a", "l">>) /\ ~Glob(<<"a", "l">>, <<"a", "l", "p">>) /\ Glob(<<"*", "a", "*">>, <<"b", "a", "c">>)
    /\ PrjPat(<<"a", "b">>) = <<"*">> /\ NamePat(<<"a", "b">>) = <<"a", "b">>
    /\ PrjPat(<<"p", ":">>) = <<"p">> /\ NamePat(<<"p", ":">>) = <<"*">>
    /\ PrjPat(<<"p", ":", "x">>) = <<"p">> /\ NamePat(<<"p", ":", "x">>) = <<"x">>
    /\ PrjPat(<<":", "x">>) = <<"*">> /\ NamePat(<<":", "x">>) = <<"x">>
ASSUME GlobLaws
=============================================================================
