SPECIFICATION Spec
CONSTANTS MaxN = 3
INVARIANTS
  SelectionIsSubsequence
  SelectionExact
  ExcludeWins
  IncludeIsUnion
  NoFilterKeepsAll
  SlicesPartition
  SlicesBalanced
CHECK_DEADLOCK FALSE
