---------------------------- MODULE TestSelect_MC ----------------------------
(* Every list of up to MaxN tests with suites over {"a","b"} in projects "p"/"q", every pair of       *)
(* --suite / --no-suite lists of up to one/two selectors: the selection laws and the slice partition. *)
EXTENDS TestSelect, TLC
CONSTANTS MaxN

Prjs == {"p", "q"}
SuiteSets == {<<>>, <<"a">>, <<"b">>, <<"a", "b">>}
Sel(a, b, colon) == [a |-> a, b |-> b, colon |-> colon]
Selectors == {Sel("a", "", FALSE), Sel("p", "", FALSE), Sel("p", "", TRUE), Sel("p", "a", TRUE), Sel("q", "b", TRUE),
              Sel("", "b", TRUE), Sel("zz", "", FALSE)}
SelLists == {<<>>} \cup {<<s>> : s \in Selectors} \cup {<<s, u>> : s, u \in Selectors}

VARIABLES tests, inc, exc, chosen
vars == <<tests, inc, exc, chosen>>

Mk(n, f) == [i \in 1..n |-> [name |-> i, prj |-> f[i][1], prio |-> 0, suites |-> f[i][2]]]
\* the selectors are chosen in a step (not in Init) so that all TLC workers share the enumeration
Init == /\ \E n \in 0..MaxN : \E f \in [1..n -> Prjs \X SuiteSets] : tests = Mk(n, f)
        /\ inc = <<>> /\ exc = <<>> /\ chosen = FALSE
Next == /\ ~chosen /\ chosen' = TRUE
        /\ inc' \in SelLists
        /\ exc' \in {<<>>} \cup {<<s>> : s \in Selectors}
        /\ UNCHANGED tests
Spec == Init /\ [][Next]_vars

Sel0 == Filter(tests, inc, exc)
SelectionIsSubsequence == IsSubseqOf(Sel0, tests)
SelectionExact == \A i \in 1..Len(tests) : (tests[i] \in Elems(Sel0)) <=> Wanted(tests[i], inc, exc)
ExcludeWins == \A t \in Elems(Sel0) : ~MatchesAny(t, exc)
IncludeIsUnion ==
    Len(inc) = 2 => Elems(Sel0) = Elems(Filter(tests, <<inc[1]>>, exc)) \cup Elems(Filter(tests, <<inc[2]>>, exc))
NoFilterKeepsAll == (inc = <<>> /\ exc = <<>>) => Sel0 = tests
SlicesPartition ==
    \A n \in 1..Len(Sel0) : Partitions([i \in 1..n |-> Slice(Sel0, i, n)], Sel0)
SlicesBalanced ==
    \A n \in 1..Len(Sel0) : \A i, j \in 1..n : Len(Slice(Sel0, i, n)) - Len(Slice(Sel0, j, n)) \in {-1, 0, 1}
SelectorForms ==
    LET t == [name |-> 1, prj |-> "p", prio |-> 0, suites |-> <<"a">>]
        u == [name |-> 2, prj |-> "q", prio |-> 0, suites |-> <<>>]
    IN /\ Matches(t, Sel("p", "a", TRUE)) /\ ~Matches(t, Sel("q", "a", TRUE)) /\ ~Matches(t, Sel("p", "b", TRUE))
       /\ Matches(t, Sel("", "a", TRUE)) /\ ~Matches(u, Sel("", "a", TRUE))
       /\ Matches(t, Sel("a", "", FALSE)) /\ Matches(t, Sel("p", "", FALSE)) /\ Matches(u, Sel("q", "", TRUE))
       /\ ~Matches(u, Sel("a", "", FALSE)) /\ ~Matches(t, Sel("zz", "", FALSE))
ASSUME SelectorForms
=============================================================================
