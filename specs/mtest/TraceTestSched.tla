--------------------------- MODULE TraceTestSched ---------------------------
(***************************************************************************)
(* Trace validation for C12 (code -> spec).                                 *)
(*                                                                         *)
(* One case = one execution of the real `meson test` (CLI run, or the real  *)
(* scheduling coroutine under a virtual-time loop):                        *)
(*   N, R, J, M    tests per iteration, --repeat, --num-processes, --maxfail*)
(*   mult          --timeout-multiplier in 1/1000 (-1: not given)           *)
(*   run[r]        per runner (list order, iteration after iteration):     *)
(*                 par, sf, exit (what the test program was told to do),   *)
(*                 decl (declared timeout, s), dur (its sleep, ms)         *)
(*   ev            what the test programs logged themselves, in the order  *)
(*                 of the O_APPEND log: [k |-> "S" | "E", r]               *)
(*                 ("E": ended or was told to terminate)                    *)
(*   rec           meson-logs/testlog.json in file order: [r, res, rc]      *)
(*   tally, rc     the printed totals and the exit status of `meson test`  *)
(*   exact         durations are exact (virtual time) rather than real time *)
(*                                                                         *)
(* The case is accepted iff SOME behaviour of TestSched for that instance   *)
(* is compatible with it: the interval a test program observes for itself   *)
(* lies inside the interval in which its runner is in flight (Start ..      *)
(* Finish), results are processed in the order of the log with the class    *)
(* the spec computes, and at the end the spec's tallies and exit status are *)
(* the printed ones.  Start / Skip / Timeout / Vanish and the main loop are *)
(* not observed; TLC searches over them.                                    *)
(***************************************************************************)
EXTENDS TestSched, TLC, Json, IOUtils

Cases == JsonDeserialize(IOEnv.TRACE_FILE)
Diag == IOEnv.DIAG = "1"

VARIABLES ci,    \* which case
          ei,    \* next child event
          ri,    \* next result record
          cs,    \* what the test program of runner r has logged: "none" | "started" | "ended"
          fin    \* verdict printed
tvars == <<ci, ei, ri, cs, fin>>
vars == <<svars, tvars>>

C == Cases[ci]

CfgOf(c) ==
    [N |-> c.N, R |-> c.R, J |-> c.J, M |-> c.M,
     run |-> [r \in 1..Len(c.run) |->
                [par |-> c.run[r].par, sf |-> c.run[r].sf, exit |-> c.run[r].exit,
                 to |-> TimesOut(c.run[r].dur, LimitMs(c.run[r].decl, c.mult))]]]

Init == \E i \in 1..Len(Cases) :
          /\ ci = i
          /\ InitFor(CfgOf(Cases[i]))
          /\ ei = 1 /\ ri = 1
          /\ cs = [r \in 1..Len(Cases[i].run) |-> "none"]
          /\ fin = FALSE

Progressed == ~Diag \/ PrintT(ToJson([id |-> C.id, clause |-> "progress", ei |-> ei', ri |-> ri']))

ChildStart ==
    /\ ei <= Len(C.ev) /\ C.ev[ei].k = "S"
    /\ LET r == C.ev[ei].r IN
         /\ r \in InFlight                      \* a test program runs only while its runner is in flight
         /\ cs[r] = "none"                      \* ... and only once
         /\ cs' = [cs EXCEPT ![r] = "started"]
    /\ ei' = ei + 1
    /\ UNCHANGED <<svars, ci, ri, fin>>
    /\ Progressed

ChildEnd ==
    /\ ei <= Len(C.ev) /\ C.ev[ei].k = "E"
    /\ LET r == C.ev[ei].r IN
         /\ r \in InFlight
         /\ cs[r] = "started"
         /\ cs' = [cs EXCEPT ![r] = "ended"]
    /\ ei' = ei + 1
    /\ UNCHANGED <<svars, ci, ri, fin>>
    /\ Progressed

Result ==
    /\ ri <= Len(C.rec)
    /\ LET o == C.rec[ri]
           r == o.r
       IN /\ r \in Runners
          /\ \/ /\ Finish(r)
                /\ o.res = ClassOf(r)
                \* a test that was not killed has logged its end and its status is reported as it was
                /\ cfg.run[r].to \/ (cs[r] = "ended" /\ o.rc = cfg.run[r].exit)
             \/ /\ FinishIntr(r)
                /\ o.res = "INTERRUPT"
    /\ ri' = ri + 1
    /\ UNCHANGED <<ci, ei, cs, fin>>
    /\ Progressed

Hidden ==
    /\ \/ MainStep
       \/ \E r \in Runners : Start(r) \/ Skip(r) \/ Timeout(r) \/ Vanish(r)
    /\ UNCHANGED tvars

Verdict ==
    /\ ~fin
    /\ ei > Len(C.ev) /\ ri > Len(C.rec) /\ main.ph = "done"
    /\ fin' = TRUE
    /\ UNCHANGED <<svars, ci, ei, ri, cs>>
    /\ LET clause == IF tally # C.tally THEN "TalliesEqualClassification"
                     ELSE IF ExitOf(tally) # C.rc THEN "ExitNonZeroIffBad"
                     ELSE "ok"
       IN PrintT(ToJson([id |-> C.id, clause |-> clause, expected |-> [tally |-> tally, rc |-> ExitOf(tally)],
                         got |-> [tally |-> C.tally, rc |-> C.rc]]))

Next == ChildStart \/ ChildEnd \/ Result \/ Hidden \/ Verdict
Spec == Init /\ [][Next]_vars

\* ---------------------------------------------------------------------------
\* Naming the clause of a rejected case (no behaviour found): laws that are closed under shrinking
\* the intervals can be evaluated on the child-observed events directly.  Only runners whose end was
\* logged count as open.
EvIdx(c, k, r) == {i \in 1..Len(c.ev) : c.ev[i].k = k /\ c.ev[i].r = r}
OpenAt(c, i) == {r \in 1..Len(c.run) :
                    /\ \E a \in EvIdx(c, "S", r) : a <= i
                    /\ \E b \in EvIdx(c, "E", r) : b > i}
Hint(c) ==
    LET g == CfgOf(c)
        cls(r) == Classify(g.run[r].exit, g.run[r].sf, g.run[r].to)
        recs(r) == {i \in 1..Len(c.rec) : c.rec[i].r = r}
        runners == 1..Len(c.run)
        bad == \E i \in 1..Len(c.rec) : Bad(c.rec[i].res)
    IN IF ~c.exact /\ \E r \in runners :
              LET lim == LimitMs(c.run[r].decl, c.mult) IN lim >= 0 /\ (c.run[r].dur - lim) \in -5000..5000
            THEN "RacyInput"       \* the harness must not generate such runs for real-time executions
       ELSE IF \E i \in 1..Len(c.ev) : c.ev[i].r \notin runners
            THEN "UnselectedTestRan"
       ELSE IF \E r \in runners : Cardinality(EvIdx(c, "S", r)) > 1 \/ Cardinality(recs(r)) > 1
            THEN "AtMostOnce"
       ELSE IF \E i \in 1..Len(c.rec) : c.rec[i].r \notin runners
            THEN "UnknownTestInLog"
       ELSE IF \E i \in 1..Len(c.rec) : c.rec[i].res # "INTERRUPT" /\ c.rec[i].res # cls(c.rec[i].r)
            THEN "Classification"
       ELSE IF \E i \in 1..Len(c.ev) : \E r \in OpenAt(c, i) : ~g.run[r].par /\ OpenAt(c, i) # {r}
            THEN "SerialAlone"
       ELSE IF \E i \in 1..Len(c.ev) : Cardinality(OpenAt(c, i)) > c.J
            THEN "JobBound"
       ELSE IF \E i \in 1..Len(c.rec) : LET o == c.rec[i] IN
                    o.res # "INTERRUPT" /\ ~g.run[o.r].to /\ o.rc # g.run[o.r].exit
            THEN "ExitStatusReported"
       ELSE IF (~bad \/ (c.M = 0 /\ c.R = 1)) /\ \E r \in runners : recs(r) = {} \/ EvIdx(c, "S", r) = {}
            THEN "ExactlyOnceWhenNotCut"
       ELSE IF c.M > 0 /\ \E i \in 1..Len(c.rec) :
                    /\ c.rec[i].res # "INTERRUPT"
                    /\ Cardinality({j \in 1..(i - 1) : c.rec[j].res \in {"FAIL", "ERROR"}}) >= c.M
            THEN "CutWhenMaxfailReached"
       ELSE IF \E i \in 1..Len(c.rec) : c.rec[i].res = "INTERRUPT" /\ c.M = 0
            THEN "InterruptOnlyAfterCut"
       ELSE "NoBehaviour"

\* second formulation used for the diagnosis run: one state per case, prints the hint
HintInit == ci \in 1..Len(Cases) /\ fin = FALSE /\ ei = 0 /\ ri = 0 /\ cs = <<>>
            /\ InitFor(CfgOf(Cases[ci]))
HintNext == ~fin /\ fin' = TRUE /\ UNCHANGED <<svars, ci, ei, ri, cs>>
            /\ PrintT(ToJson([id |-> C.id, clause |-> "hint", hint |-> Hint(C)]))
HintSpec == HintInit /\ [][HintNext]_vars
=============================================================================
