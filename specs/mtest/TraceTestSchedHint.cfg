SPECIFICATION HintSpec
CHECK_DEADLOCK FALSE
