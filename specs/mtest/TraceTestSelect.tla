--------------------------- MODULE TraceTestSelect ---------------------------
(***************************************************************************)
(* Trace validation of test selection (C12, code -> spec).  One case = one  *)
(* configured project (or one fabricated test list) queried several times:  *)
(*   defs     the tests as defined: [name, prj, prio, suites, nc, pc]       *)
(*   base     the names listed by `meson test --list` without any filter    *)
(*   queries  [inc, exc, args, n, out]: selectors given with --suite /      *)
(*            --no-suite, positional test-name arguments (characters),      *)
(*            n = 0: no --slice, out = <<names listed>>;                    *)
(*            n > 0: out[i] = names listed with --slice i/n, i = 1..n       *)
(* Accepted iff base is a priority-ordered permutation of defs, every       *)
(* unsliced listing is TestSelect!Selected of base (each test once), and    *)
(* the n listings of a sliced query partition that selection (any partition *)
(* is allowed).  When a name argument matches none of the candidate tests   *)
(* the command may instead refuse and list nothing.                         *)
(***************************************************************************)
EXTENDS TestSelect, TLC, Json, IOUtils

Cases == JsonDeserialize(IOEnv.TRACE_FILE)
VARIABLES i, done
vars == <<i, done>>

Names(ts) == [j \in 1..Len(ts) |-> ts[j].name]
DefOf(c, nm) == CHOOSE d \in Elems(c.defs) : d.name = nm

AllEmpty(out) == \A p \in 1..Len(out) : out[p] = <<>>
BadQuery(c, baseTests) ==
    {q \in 1..Len(c.queries) :
        LET Q == c.queries[q]
            cand == Filter(baseTests, Q.inc, Q.exc)
            want == Names(ByArgs(cand, Q.args))
            refused == Unmatched(cand, Q.args) /\ AllEmpty(Q.out)
        IN IF Q.n = 0 THEN ~(Q.out = <<want>> \/ refused)
           ELSE ~((Len(Q.out) = Q.n /\ Partitions(Q.out, want)) \/ refused)}

Judge(c) ==
    LET okBase == /\ NoDupSeq(c.base) /\ NoDupSeq(Names(c.defs))
                  /\ Elems(c.base) = Elems(Names(c.defs))
    IN IF ~okBase THEN [id |-> c.id, clause |-> "ListIsAllTests", query |-> 0, expected |-> <<>>]
       ELSE LET baseTests == [j \in 1..Len(c.base) |-> DefOf(c, c.base[j])]
                bad == BadQuery(c, baseTests)
            IN IF ~PriorityOrdered(baseTests)
                    THEN [id |-> c.id, clause |-> "PriorityOrder", query |-> 0, expected |-> <<>>]
               ELSE IF bad # {}
                    THEN LET q == CHOOSE q \in bad : \A p \in bad : q <= p
                             Q == c.queries[q]
                         IN [id |-> c.id,
                             clause |-> IF Q.n > 0 THEN "SlicesPartition"
                                        ELSE IF Q.args # <<>> THEN "NameArgumentsSelectEachOnce" ELSE "SuiteSelection",
                             query |-> q, expected |-> Names(Selected(baseTests, Q.inc, Q.exc, Q.args))]
               ELSE [id |-> c.id, clause |-> "ok", query |-> 0, expected |-> <<>>]

Init == i \in 1..Len(Cases) /\ done = FALSE
Next == /\ ~done
        /\ done' = TRUE
        /\ i' = i
        /\ LET v == Judge(Cases[i]) IN v.clause = "ok" \/ PrintT(ToJson(v))
Spec == Init /\ [][Next]_vars
=============================================================================
