----------------------------- MODULE ArgFidelity -----------------------------
(***************************************************************************)
(* C03 - commands receive exactly the arguments the build definition        *)
(* specifies.                                                               *)
(*                                                                          *)
(* Expected(args, pos, mode, tmpl) is the argv the statement prescribes     *)
(* for the argument strings `args' given in command position `pos':         *)
(* the strings themselves - same code points, same count, same order -      *)
(* apart from the four documented rewrites:                                 *)
(*   R1  @TEMPLATE@ placeholders are substituted (pos = "custom");          *)
(*   R2  backslashes in custom commands (custom_target / run_target /       *)
(*       generator, which share one command evaluator) become `/';          *)
(*   R3  an element that is exactly `&&' separates commands wherever a      *)
(*       shell runs the command line (mode = "shell"); where no shell is    *)
(*       involved (response file, pickled wrapper, meson test) it can only  *)
(*       be the argument it is;                                             *)
(*   R4  backslashes inside a per-target -D / /D compile argument are        *)
(*       doubled (pos = "compile_target"), so that a C string literal        *)
(*       receives them literally.                                            *)
(*                                                                          *)
(* Observed(...) is what the decoders of NinjaText / Quoting make of the    *)
(* text meson wrote: build statement + rule -> command line (Expand) ->     *)
(* commands and words (ShSplit) -> the argv of the process that finally     *)
(* runs: directly, after `env NAME=VALUE...', behind                        *)
(* `meson --internal exe [--capture F] [--feed F] -- argv...', out of a      *)
(* pickled ExecutableSerialisation (`--unpickle F', F projected by the      *)
(* harness), or spliced from a response file (`@F' with F = $rspfile,       *)
(* RspSplit of $rspfile_content).                                           *)
(***************************************************************************)
EXTENDS Quoting, FiniteSets

\* the marker that stands for "next command" in a flattened list of commands (no text contains -1)
SEP == <<-1>>
AndAnd == <<AMP, AMP>>

\* ---- R1: template substitution --------------------------------------------------
\* tmpl: sequence of <<key, values>>, key a text like @INPUT@, values a sequence of texts.
IsPrefixAt(s, i, key) == i + Len(key) - 1 <= Len(s) /\ SubSeq(s, i, i + Len(key) - 1) = key
RECURSIVE ReplaceAll(_, _, _, _)
ReplaceAll(s, i, key, val) ==
    IF i > Len(s) THEN <<>>
    ELSE IF IsPrefixAt(s, i, key) THEN val \o ReplaceAll(s, i + Len(key), key, val)
    ELSE <<s[i]>> \o ReplaceAll(s, i + 1, key, val)
RECURSIVE SubstEmbedded(_, _, _)
SubstEmbedded(a, tmpl, k) ==
    IF k > Len(tmpl) THEN a
    ELSE SubstEmbedded(IF Len(tmpl[k][2]) = 1 THEN ReplaceAll(a, 1, tmpl[k][1], tmpl[k][2][1]) ELSE a, tmpl, k + 1)
\* an element that IS a list-valued placeholder (@INPUT@, @OUTPUT@) is replaced by the whole list
SubstArg(a, tmpl) ==
    IF \E k \in 1..Len(tmpl) : tmpl[k][1] = a
    THEN tmpl[CHOOSE k \in 1..Len(tmpl) : tmpl[k][1] = a][2]
    ELSE <<SubstEmbedded(a, tmpl, 1)>>
RECURSIVE SubstAll(_, _, _)
SubstAll(args, tmpl, k) == IF k > Len(args) THEN <<>> ELSE SubstArg(args[k], tmpl) \o SubstAll(args, tmpl, k + 1)

\* ---- R2, R4 ------------------------------------------------------------------------
SlashForBackslash(a) == [k \in 1..Len(a) |-> IF a[k] = BSL THEN SLASH ELSE a[k]]
IsDefine(a) == Len(a) >= 2 /\ a[2] = 68 /\ (a[1] = MINUS \/ a[1] = SLASH)      \* -D... or /D...
Rewrite(a, pos) ==
    IF pos = "custom" THEN SlashForBackslash(a)
    ELSE IF pos = "compile_target" /\ IsDefine(a) THEN DoubleBS(a)
    ELSE a

Positions == {"compile_target", "compile", "link", "custom", "test"}
Modes == {"shell", "noshell"}

\* ---- Expected ---------------------------------------------------------------------------
\* flattened: the commands of the prescribed command line, joined by SEP
Expected(args, pos, mode, tmpl) ==
    LET sub == IF pos = "custom" THEN SubstAll(args, tmpl, 1) ELSE args
    IN [k \in 1..Len(sub) |-> IF mode = "shell" /\ sub[k] = AndAnd THEN SEP ELSE Rewrite(sub[k], pos)]

\* the same as a sequence of commands (used by the model)
RECURSIVE SplitAtSep(_, _, _, _)
SplitAtSep(flat, k, cur, cmds) ==
    IF k > Len(flat) THEN Append(cmds, cur)
    ELSE IF flat[k] = SEP THEN SplitAtSep(flat, k + 1, <<>>, Append(cmds, cur))
    ELSE SplitAtSep(flat, k + 1, Append(cur, flat[k]), cmds)
ExpectedCommands(args, pos, mode, tmpl) == SplitAtSep(Expected(args, pos, mode, tmpl), 1, <<>>, <<>>)

\* ---- from a shell command to the argv of the process that finally runs ----------------------
TxtInternal == <<45, 45, 105, 110, 116, 101, 114, 110, 97, 108>>          \* --internal
TxtExe == <<101, 120, 101>>                                               \* exe
TxtUnpickle == <<45, 45, 117, 110, 112, 105, 99, 107, 108, 101>>          \* --unpickle
TxtCapture == <<45, 45, 99, 97, 112, 116, 117, 114, 101>>                 \* --capture
TxtFeed == <<45, 45, 102, 101, 101, 100>>                                 \* --feed
TxtDashDash == <<45, 45>>                                                 \* --
TxtEnv == <<101, 110, 118>>                                               \* env

Fin(via, argv, env) == [err |-> "", via |-> via, argv |-> argv, env |-> env]
FinBad(m) == [err |-> m, via |-> "", argv |-> <<>>, env |-> <<>>]

HasEq(w) == \E k \in 1..Len(w) : w[k] = EQ
EqPos(w) == CHOOSE k \in 1..Len(w) : w[k] = EQ /\ \A m \in 1..(k - 1) : w[m] # EQ
AsPair(w) == <<SubSeq(w, 1, EqPos(w) - 1), SubSeq(w, EqPos(w) + 1, Len(w))>>
RECURSIVE EnvEnd(_, _)
\* `env NAME=VALUE... utility args': index of the utility
EnvEnd(w, k) == IF k <= Len(w) /\ HasEq(w[k]) THEN EnvEnd(w, k + 1) ELSE k

InternalExeAt(w) == {k \in 1..(Len(w) - 2) : w[k] = TxtInternal /\ w[k + 1] = TxtExe}

\* options of `meson --internal exe' in front of `--': pairs --capture F / --feed F
RECURSIVE WrapOptsOk(_, _, _)
WrapOptsOk(w, k, d) == IF k = d THEN TRUE
                       ELSE IF k + 1 < d /\ (w[k] = TxtCapture \/ w[k] = TxtFeed) THEN WrapOptsOk(w, k + 2, d)
                       ELSE FALSE

\* pickles: sequence of [path, argv, env] (unpickled ExecutableSerialisation files, projected by the harness)
\* rspfile / rspcontent: expanded $rspfile and $rspfile_content of the edge (<<>> when the rule has none)
Final(w, pickles, rspfile, rspcontent) ==
    IF InternalExeAt(w) # {}
    THEN LET k == CHOOSE x \in InternalExeAt(w) : \A y \in InternalExeAt(w) : x <= y IN
         IF w[k + 2] = TxtUnpickle
         THEN IF Len(w) # k + 3 THEN FinBad("UnpickleArguments")
              ELSE IF ~\E p \in 1..Len(pickles) : pickles[p].path = w[k + 3] THEN FinBad("PickleNotFound")
              ELSE LET p == CHOOSE p \in 1..Len(pickles) : pickles[p].path = w[k + 3]
                   IN Fin("pickle", pickles[p].argv, pickles[p].env)
         ELSE IF ~\E d \in (k + 2)..Len(w) : w[d] = TxtDashDash THEN FinBad("WrapperWithoutDashDash")
         ELSE LET d == CHOOSE d \in (k + 2)..Len(w) : w[d] = TxtDashDash /\ \A m \in (k + 2)..(d - 1) : w[m] # TxtDashDash
              IN IF ~WrapOptsOk(w, k + 2, d) THEN FinBad("WrapperOptions")
                 ELSE Fin("exewrap", SubSeq(w, d + 1, Len(w)), <<>>)
    ELSE IF w[1] = TxtEnv /\ Len(w) >= 2
    THEN LET u == EnvEnd(w, 2) IN
         IF u > Len(w) THEN FinBad("EnvWithoutCommand")
         ELSE Fin("env", SubSeq(w, u, Len(w)), [k \in 1..(u - 2) |-> AsPair(w[k + 1])])
    ELSE IF rspfile # <<>> /\ \E k \in 1..Len(w) : w[k] = <<AT>> \o rspfile
    THEN LET k == CHOOSE k \in 1..Len(w) : w[k] = <<AT>> \o rspfile
             r == RspSplit(rspcontent)
         IN IF r.err # "" THEN FinBad("ResponseFileSyntax")
            ELSE Fin("rsp", SubSeq(w, 1, k - 1) \o r.args \o SubSeq(w, k + 1, Len(w)), <<>>)
    ELSE Fin("direct", w, <<>>)

\* ---- comparison helpers ---------------------------------------------------------------
RECURSIVE FlattenCmds(_, _)
FlattenCmds(fins, k) == IF k > Len(fins) THEN <<>>
                        ELSE IF k = Len(fins) THEN fins[k].argv
                        ELSE fins[k].argv \o <<SEP>> \o FlattenCmds(fins, k + 1)

Occurrences(flat, x) == {k \in 1..Len(flat) : flat[k] = x}
FirstDiff(a, b) ==
    LET n == IF Len(a) < Len(b) THEN Len(a) ELSE Len(b) IN
    IF \E k \in 1..n : a[k] # b[k] THEN CHOOSE k \in 1..n : a[k] # b[k] /\ \A m \in 1..(k - 1) : a[m] = b[m]
    ELSE IF Len(a) # Len(b) THEN n + 1 ELSE 0
At(a, k) == IF k >= 1 /\ k <= Len(a) THEN a[k] ELSE <<-2>>

EnvHas(env, pair) == \E k \in 1..Len(env) : env[k] = pair
EnvValue(env, name) == IF \E k \in 1..Len(env) : env[k][1] = name
                       THEN env[CHOOSE k \in 1..Len(env) : env[k][1] = name /\ \A m \in (k + 1)..Len(env) : env[m][1] # name][2]
                       ELSE <<-2>>

\* ---- environment values: a command position of its own ----------------------------------------
(***************************************************************************)
(* What a build definition says about the environment of a command         *)
(* (test / benchmark / custom_target / run_target / generator.process      *)
(* `env:', meson.add_devenv, add_test_setup) is a sequence of entries, in   *)
(* the order it says them:                                                  *)
(*   [form |-> "pair", op, name, values, sep]                               *)
(*       a dictionary entry {'NAME': 'V'} / {'NAME': ['V1', 'V2']} or a      *)
(*       method call env.set / append / prepend('NAME', 'V1', 'V2',         *)
(*       separator: sep);                                                   *)
(*   [form |-> "string", op, name |-> <<>>, values |-> <<text>>, sep]       *)
(*       the text 'NAME=VALUE', on its own or as an element of a list.      *)
(* op is "set" (the env: keyword, environment(x), env.set), "append" or    *)
(* "prepend" (env.append / env.prepend, environment(x, method: ..)).       *)
(* Every spelling denotes the same thing - a name and a value - and the    *)
(* VALUE is an argument string like any other: it arrives unchanged.        *)
(*   E1  the string form is split at the FIRST `=' only: NAME is what       *)
(*       precedes it, VALUE is everything after it, exactly (blanks at      *)
(*       either end, further `=', quotes, newlines included);               *)
(*   E2  several values are joined with the separator and nothing else;     *)
(*   E3  "set" replaces; "append" / "prepend" put the joined values after  *)
(*       / before the value the variable has at that point (from the        *)
(*       environment meson's runner itself was started in - `ambient' -     *)
(*       or from an earlier entry) with the separator in between; the       *)
(*       joined values alone if it has none.                                *)
(* An environment is a sequence of <<name, value>>; the last pair of a      *)
(* name counts (EnvValue).                                                  *)
(***************************************************************************)
EnvOps == {"set", "append", "prepend"}
RECURSIVE JoinWith(_, _, _)
JoinWith(vals, sep, k) == IF k > Len(vals) THEN <<>>
                          ELSE IF k = Len(vals) THEN vals[k]
                          ELSE vals[k] \o sep \o JoinWith(vals, sep, k + 1)
EntryWellFormed(e) == /\ e.op \in EnvOps
                      /\ IF e.form = "string" THEN Len(e.values) = 1 /\ HasEq(e.values[1]) ELSE Len(e.values) >= 1
\* E1, E2: the name and the value an entry denotes
EntryName(e) == IF e.form = "string" THEN AsPair(e.values[1])[1] ELSE e.name
EntryValue(e) == IF e.form = "string" THEN AsPair(e.values[1])[2] ELSE JoinWith(e.values, e.sep, 1)
\* E3
EnvStep(env, e) ==
    LET n == EntryName(e)
        v == EntryValue(e)
        cur == EnvValue(env, n)
    IN Append(env, <<n, IF e.op = "set" \/ cur = <<-2>> THEN v
                        ELSE IF e.op = "append" THEN cur \o e.sep \o v
                        ELSE v \o e.sep \o cur>>)
RECURSIVE EnvFold(_, _, _)
EnvFold(env, spec, k) == IF k > Len(spec) THEN env ELSE EnvFold(EnvStep(env, spec[k]), spec, k + 1)
\* the environment the process must see (as far as the names of spec and ambient go)
ExpectedEnv(spec, ambient) == EnvFold(ambient, spec, 1)
\* the names a specification talks about, in order of first mention, each with its final value
RECURSIVE SpecNames(_, _, _)
SpecNames(spec, k, acc) ==
    IF k > Len(spec) THEN acc
    ELSE LET n == EntryName(spec[k]) IN
         SpecNames(spec, k + 1, IF \E m \in 1..Len(acc) : acc[m] = n THEN acc ELSE Append(acc, n))
WantedEnv(spec, ambient) ==
    LET names == SpecNames(spec, 1, <<>>)
        full == ExpectedEnv(spec, ambient)
    IN [k \in 1..Len(names) |-> <<names[k], EnvValue(full, names[k])>>]
=============================================================================
