SPECIFICATION Spec
CONSTANTS MaxLen = 4
INVARIANT ShellRoundTrip
INVARIANT NinjaRoundTrip
INVARIANT NinjaPathRoundTrip
INVARIANT DirectRoundTrip
INVARIANT RspRoundTrip
INVARIANT RspViaNinjaRoundTrip
INVARIANT PairRoundTrip
INVARIANT AndAndSeparates
INVARIANT EnvAssignRoundTrip
INVARIANT EnvStringSplitsAtFirstEqOnly
INVARIANT EnvSpellingsAgree
INVARIANT EnvValueExact
INVARIANT EnvJoin
INVARIANT EnvAlgebra
INVARIANT EnvStringThroughEnvWord
INVARIANT NoTextDenotesNewline
INVARIANT ShellCarriesNewline
INVARIANT NoSilentMeta
INVARIANT ExpectedIsIdentityElsewhere
INVARIANT CustomLosesBackslashOnly
INVARIANT DefineReachesCLiteral
INVARIANT AndAndSplitsOnlyInShell
INVARIANT TemplateSubstitution
CHECK_DEADLOCK FALSE
POSTCONDITION EmitAlphabet
