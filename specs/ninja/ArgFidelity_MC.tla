---------------------------- MODULE ArgFidelity_MC ----------------------------
(***************************************************************************)
(* Model: the rule book of C03 checked against itself.  Every text over    *)
(* the code-point alphabet                                                  *)
(*    a  space  $  :  '  "  \  #  ;  *  &  |  newline  e-acute              *)
(* up to MaxLen code points is one state.  For each of them the specified   *)
(* encoders followed by the decoders must give the text back               *)
(* (Decode(Encode(s)) = s), for every layering the backend uses:            *)
(*    shell word;  ninja value;  ninja value holding a shell word;          *)
(*    response-file word;  ninja value holding a response-file word;        *)
(*    two words;  words around `&&';  env assignment.                       *)
(* Environment values are a command position of their own: the laws E1-E3   *)
(* of ArgFidelity (string form split at the first `=' only, values joined   *)
(* by the separator only, set / append / prepend against the ambient       *)
(* value) are checked for every text as VALUE, every spelling must denote   *)
(* the same environment, and the two examples of the reference manual are   *)
(* ASSUMEd.                                                                 *)
(* The model also pins which texts cannot travel through build.ninja at     *)
(* all (those containing a newline: no Ninja text denotes one) and must     *)
(* therefore go through the pickled wrapper, and the algebra of Expected.   *)
(***************************************************************************)
EXTENDS ArgFidelity, TLC, Json, IOUtils

CONSTANTS MaxLen
Alphabet == <<97, SP, DOLLAR, COLON, SQ, DQ, BSL, HASH, SEMI, STAR, AMP, PIPE, NL, 233>>
Chars == {Alphabet[k] : k \in 1..Len(Alphabet)}
Short == {<<>>} \cup {<<c>> : c \in Chars}

VARIABLE s
Init == s = <<>>
Next == Len(s) < MaxLen /\ \E c \in Chars : s' = Append(s, c)
Spec == Init /\ [][Next]_s

OneWord(r, w) == r.err = "" /\ r.cmds = <<<<w>>>>
HasNL(t) == ~Encodable(t)

\* ---- decode(encode(s)) = s ---------------------------------------------------------------
ShellRoundTrip == OneWord(ShSplit(ShQuote(s)), s)
NinjaRoundTrip == Encodable(s) => Unescape(NinjaQuote(s)) = Ok(s)
NinjaPathRoundTrip == Encodable(s) => /\ Unescape(NinjaQuotePath(s)) = Ok(s)
                                      /\ (s # <<>> => OnePath(NinjaQuotePath(s)))
DirectRoundTrip ==
    Encodable(s) => LET u == Unescape(NinjaQuote(ShQuote(s))) IN u.err = "" /\ OneWord(ShSplit(u.t), s)
RspRoundTrip == RspSplit(RspQuote(s)) = [err |-> "", args |-> <<s>>]
RspViaNinjaRoundTrip ==
    Encodable(s) => LET u == Unescape(NinjaQuote(RspQuote(s))) IN u.err = "" /\ RspSplit(u.t) = [err |-> "", args |-> <<s>>]
\* two adjacent words stay two words, in this order
PairRoundTrip ==
    \A t \in Short :
        /\ LET r == ShSplit(ShQuote(s) \o <<SP>> \o ShQuote(t)) IN r.err = "" /\ r.cmds = <<<<s, t>>>>
        /\ LET r == ShSplit(ShQuote(t) \o <<SP>> \o ShQuote(s)) IN r.err = "" /\ r.cmds = <<<<t, s>>>>
        /\ RspSplit(RspQuote(s) \o <<SP>> \o RspQuote(t)) = [err |-> "", args |-> <<s, t>>]
\* a bare && separates commands; a quoted one is the argument it is
AndAndSeparates ==
    /\ LET r == ShSplit(ShQuote(s) \o <<SP, AMP, AMP, SP>> \o ShQuote(s)) IN r.err = "" /\ r.cmds = <<<<s>>, <<s>>>>
    /\ OneWord(ShSplit(ShQuote(AndAnd)), AndAnd)
\* `env NAME=VALUE cmd': the assignment word carries the value
EnvAssignRoundTrip ==
    LET name == <<67, 48, 51>>
        w == name \o <<EQ>> \o s
        r == ShSplit(<<101, 110, 118, SP>> \o ShQuote(w) \o <<SP, 97>>)
    IN /\ r.err = ""
       /\ LET f == Final(r.cmds[1], <<>>, <<>>, <<>>) IN f.err = "" /\ f.via = "env" /\ f.argv = <<<<97>>>> /\ f.env = <<<<name, s>>>>

\* ---- environment values (E1-E3) ----------------------------------------------------------------------
EName == <<67, 48, 51>>                                                   \* C03
Col == <<COLON>>
StrE(op, t, sep) == [form |-> "string", op |-> op, name |-> <<>>, values |-> <<t>>, sep |-> sep]
PairE(op, n, vals, sep) == [form |-> "pair", op |-> op, name |-> n, values |-> vals, sep |-> sep]
Assign(v) == EName \o <<EQ>> \o v
\* E1: 'NAME=VALUE' is split at the first `=' only; the value - which may itself contain `=' - is kept exactly
EnvStringSplitsAtFirstEqOnly ==
    \A t \in Short :
        LET v == s \o <<EQ>> \o t
        IN /\ EntryWellFormed(StrE("set", Assign(s), Col))
           /\ EntryName(StrE("set", Assign(s), Col)) = EName /\ EntryValue(StrE("set", Assign(s), Col)) = s
           /\ EntryName(StrE("set", Assign(v), Col)) = EName /\ EntryValue(StrE("set", Assign(v), Col)) = v
           /\ EntryValue(StrE("set", Assign(<<EQ>> \o s), Col)) = <<EQ>> \o s
\* every spelling of the same name and value denotes the same environment, whatever the operation and the ambient value
EnvSpellingsAgree ==
    \A op \in EnvOps : \A amb \in {<<>>, <<<<EName, <<98>>>>>>} :
        /\ ExpectedEnv(<<StrE(op, Assign(s), Col)>>, amb) = ExpectedEnv(<<PairE(op, EName, <<s>>, Col)>>, amb)
        /\ WantedEnv(<<StrE(op, Assign(s), Col), StrE(op, <<68, EQ>> \o s, Col)>>, amb)
             = WantedEnv(<<PairE(op, EName, <<s>>, Col), PairE(op, <<68>>, <<s>>, Col)>>, amb)
\* the value is an argument string like any other: it arrives unchanged (same code points, same length)
EnvValueExact ==
    /\ WantedEnv(<<PairE("set", EName, <<s>>, Col)>>, <<>>) = <<<<EName, s>>>>
    /\ WantedEnv(<<StrE("set", Assign(s), Col)>>, <<>>) = <<<<EName, s>>>>
    /\ \A op \in EnvOps : WantedEnv(<<StrE(op, Assign(s), <<SEMI>>)>>, <<>>) = <<<<EName, s>>>>
\* E2: several values are joined with the separator and nothing else; a single value never sees the separator
Seps == {<<>>, <<COLON>>, <<SEMI>>, <<SP>>, <<NL>>, <<EQ>>, <<COMMA, SP>>}
EnvJoin ==
    \A t \in Short : \A u \in Seps :
        /\ EntryValue(PairE("set", EName, <<s, t>>, u)) = s \o u \o t
        /\ EntryValue(PairE("set", EName, <<t, s, t>>, u)) = t \o u \o s \o u \o t
        /\ EntryValue(PairE("set", EName, <<s>>, u)) = s
\* E3: set replaces, append / prepend extend what is there (ambient or earlier entry), later entries see earlier ones
EnvAlgebra ==
    \A t \in Short :
        LET amb == <<<<EName, t>>>>
            W(spec, a) == WantedEnv(spec, a)
        IN /\ W(<<PairE("set", EName, <<s>>, Col)>>, amb) = <<<<EName, s>>>>
           /\ W(<<PairE("append", EName, <<s>>, Col)>>, amb) = <<<<EName, t \o Col \o s>>>>
           /\ W(<<PairE("prepend", EName, <<s>>, Col)>>, amb) = <<<<EName, s \o Col \o t>>>>
           /\ W(<<PairE("append", EName, <<s>>, Col)>>, <<>>) = <<<<EName, s>>>>
           /\ W(<<PairE("prepend", EName, <<s>>, Col)>>, <<>>) = <<<<EName, s>>>>
           /\ W(<<PairE("set", EName, <<t>>, Col), PairE("append", EName, <<s>>, <<SEMI>>)>>, <<>>) = <<<<EName, t \o <<SEMI>> \o s>>>>
           /\ W(<<PairE("append", EName, <<t>>, Col), PairE("set", EName, <<s>>, Col)>>, amb) = <<<<EName, s>>>>
           /\ W(<<PairE("set", <<68>>, <<t>>, Col), StrE("prepend", Assign(s), Col)>>, <<>>) = <<<<<<68>>, t>>, <<EName, s>>>>
\* the example of the reference manual: MY_PATH will be '0:1:2:3'
ASSUME LET n == <<77>>
       IN WantedEnv(<<PairE("set", n, <<<<49>>>>, Col), PairE("append", n, <<<<50>>>>, Col), PairE("append", n, <<<<51>>>>, Col),
                      PairE("prepend", n, <<<<48>>>>, Col)>>, <<>>) = <<<<n, <<48, COLON, 49, COLON, 50, COLON, 51>>>>>>
\* ... and `env.append('FOO', 'BAR', 'BAZ', separator: ';')' gives BOB;BAR;BAZ if FOO was BOB and BAR;BAZ if it was not defined
ASSUME LET n == <<70>>
           e == PairE("append", n, <<<<66, 65, 82>>, <<66, 65, 90>>>>, <<SEMI>>)
       IN /\ WantedEnv(<<e>>, <<<<n, <<66, 79, 66>>>>>>) = <<<<n, <<66, 79, 66, SEMI, 66, 65, 82, SEMI, 66, 65, 90>>>>>>
          /\ WantedEnv(<<e>>, <<>>) = <<<<n, <<66, 65, 82, SEMI, 66, 65, 90>>>>>>
\* a value given in the string form travels through the `env NAME=VALUE cmd' word unchanged, `=' inside included
EnvStringThroughEnvWord ==
    \A t \in Short :
        LET v == s \o <<EQ>> \o t
            e == StrE("set", Assign(v), Col)
            r == ShSplit(<<101, 110, 118, SP>> \o ShQuote(EntryName(e) \o <<EQ>> \o EntryValue(e)) \o <<SP, 97>>)
        IN /\ r.err = ""
           /\ LET f == Final(r.cmds[1], <<>>, <<>>, <<>>) IN f.err = "" /\ f.via = "env" /\ f.env = WantedEnv(<<e>>, <<>>)

\* ---- which texts need the pickled wrapper ----------------------------------------------------
\* s read as a *Ninja text*: whatever it decodes to, the result never contains a newline - so a newline
\* cannot be carried by build.ninja and a command containing one must be serialised
NoTextDenotesNewline == LET u == Unescape(s) IN u.err = "" => Encodable(u.t)
\* ... and the shell layer is not the obstacle: a quoted newline survives the shell
ShellCarriesNewline == HasNL(s) => OneWord(ShSplit(ShQuote(s)), s)
\* a raw text with an unquoted metacharacter is never silently accepted as the same single word
NoSilentMeta == (\E k \in 1..Len(s) : ShMeta(s[k]) \/ s[k] \in {SQ, DQ, BSL, SP}) => ~OneWord(ShSplit(s), s)

\* ---- the algebra of Expected ---------------------------------------------------------------------
NoT == <<>>
ExpectedIsIdentityElsewhere ==
    /\ Expected(<<s>>, "test", "noshell", NoT) = <<s>>
    /\ Expected(<<s>>, "link", "noshell", NoT) = <<s>>
    /\ Expected(<<s>>, "compile", "noshell", NoT) = <<s>>
    /\ (~IsDefine(s) => Expected(<<s>>, "compile_target", "noshell", NoT) = <<s>>)
    /\ (s # AndAnd => Expected(<<s>>, "link", "shell", NoT) = <<s>>)
CustomLosesBackslashOnly ==
    LET e == Expected(<<s>>, "custom", "noshell", NoT)[1] IN
    /\ Len(e) = Len(s)
    /\ \A k \in 1..Len(s) : e[k] = (IF s[k] = BSL THEN SLASH ELSE s[k])
DefineReachesCLiteral ==
    LET d == <<MINUS, 68>> \o s
        e == Expected(<<d>>, "compile_target", "shell", NoT)[1]
    IN CLiteral(e, 1) = d /\ Expected(<<d>>, "compile", "shell", NoT) = <<d>>
AndAndSplitsOnlyInShell ==
    /\ (s # AndAnd => ExpectedCommands(<<s, AndAnd, s>>, "link", "shell", NoT) = <<<<s>>, <<s>>>>)
    /\ ExpectedCommands(<<AndAnd>>, "link", "shell", NoT) = <<<<>>, <<>>>>
    /\ ExpectedCommands(<<s, AndAnd, s>>, "link", "noshell", NoT) = <<<<s, AndAnd, s>>>>
TemplateSubstitution ==
    LET key == <<AT, 79, AT>>
        t == <<<<key, <<s>>>>>>
    IN /\ Expected(<<<<97>> \o key \o <<97>>>>, "custom", "noshell", t) = <<SlashForBackslash(<<97>> \o s \o <<97>>)>>
       /\ Expected(<<key>>, "custom", "noshell", <<<<key, <<s, s>>>>>>) = <<SlashForBackslash(s), SlashForBackslash(s)>>

\* the model's input space is exported so that the implementation harness enumerates exactly it
EmitAlphabet == TLCGet("stats").diameter >= 0 /\ JsonSerialize("alphabet.json", Alphabet)
=============================================================================
