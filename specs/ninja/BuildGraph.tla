------------------------------ MODULE BuildGraph ------------------------------
(***************************************************************************)
(* The rule book for a Ninja build graph (C04, reused by C05/C15).         *)
(*                                                                         *)
(* Written from the Ninja manual ("Build statements", "The phony rule",    *)
(* "Build dependencies": explicit, implicit `|` and order-only `||`        *)
(* inputs; explicit and implicit `|` outputs; "Pools"; "Default target     *)
(* statements") and from the property statement.                           *)
(*                                                                         *)
(* A manifest M is a record (the projection made by harness/ninja_ref.py): *)
(*   rules     : Seq(STRING)   names of the declared rules                  *)
(*   dup_rules : Seq(STRING)   rule names declared more than once           *)
(*   pools     : Seq(STRING)   declared pools (incl. the built-in console)  *)
(*   edges     : Seq([rule, ins, imp, ord, outs, iouts])                     *)
(*   edge_pools: Seq(STRING)   pool binding of every edge ("" = none)       *)
(*   defaults  : Seq(STRING)   paths of `default` statements                *)
(*   errors    : Seq(STRING)   lexical / syntactic errors of the reader     *)
(* Exists is the set of paths present after configuration.                 *)
(***************************************************************************)
EXTENDS Naturals, Sequences, FiniteSets

Rng(s) == {s[i] : i \in DOMAIN s}

EdgeIds(M) == DOMAIN M.edges
ExplicitIns(M, e) == Rng(M.edges[e].ins)
Ins(M, e)  == Rng(M.edges[e].ins) \cup Rng(M.edges[e].imp) \cup Rng(M.edges[e].ord)
Outs(M, e) == Rng(M.edges[e].outs) \cup Rng(M.edges[e].iouts)
OutSeq(M, e) == M.edges[e].outs \o M.edges[e].iouts
AllOutputs(M) == UNION {Outs(M, e) : e \in EdgeIds(M)}
AllInputs(M)  == UNION {Ins(M, e) : e \in EdgeIds(M)}
Producers(M, p) == {e \in EdgeIds(M) : p \in Outs(M, e)}
OutsOf(M, E) == UNION {Outs(M, e) : e \in E}

(* ---- static well-formedness ------------------------------------------ *)

\* "every build statement uses a defined rule" (phony is built in); a rule may be declared once
UndefinedRuleEdges(M) == {e \in EdgeIds(M) : M.edges[e].rule # "phony" /\ M.edges[e].rule \notin Rng(M.rules)}
RulesDefined(M) == UndefinedRuleEdges(M) = {} /\ M.dup_rules = <<>>

\* a pool named by an edge must be declared
UndefinedPoolEdges(M) == {e \in DOMAIN M.edge_pools : M.edge_pools[e] # "" /\ M.edge_pools[e] \notin Rng(M.pools)}
PoolsDefined(M) == UndefinedPoolEdges(M) = {}

\* every statement needs an output
HasOutputs(M) == \A e \in EdgeIds(M) : Len(OutSeq(M, e)) > 0

\* "no path is produced by two statements": counted over explicit AND implicit outputs; listing one path
\* twice in a single statement is a duplicate as well (Ninja: "multiple rules generate X")
RECURSIVE SumLen(_, _)
SumLen(M, n) == IF n = 0 THEN 0 ELSE Len(OutSeq(M, n)) + SumLen(M, n - 1)
UniqueProducer(M) == SumLen(M, Len(M.edges)) = Cardinality(AllOutputs(M))
\* for reports only (quadratic)
DupInEdge(M, e) == {p \in Outs(M, e) : Cardinality({k \in DOMAIN OutSeq(M, e) : OutSeq(M, e)[k] = p}) > 1}
DuplicateOutputs(M) == {p \in AllOutputs(M) : Cardinality(Producers(M, p)) > 1}
                         \cup UNION {DupInEdge(M, e) : e \in EdgeIds(M)}
\* does a duplicated path involve an implicit output somewhere?
DupInvolvesImplicit(M, p) == \E e \in EdgeIds(M) : p \in Rng(M.edges[e].iouts)

\* "every explicit, implicit or order-only input either exists after configuration or is the output of
\* another statement"
Dangling(M, Exists) == AllInputs(M) \ (Exists \cup AllOutputs(M))
Closed(M, Exists) == Dangling(M, Exists) = {}

\* default statements must name known paths (Ninja: "unknown target")
UnknownDefaults(M) == Rng(M.defaults) \ (AllOutputs(M) \cup AllInputs(M))
DefaultsKnown(M) == UnknownDefaults(M) = {}

(* ---- the dependency relation, declaratively --------------------------- *)

DependsOn(M) == {pr \in EdgeIds(M) \X EdgeIds(M) : Ins(M, pr[1]) \cap Outs(M, pr[2]) # {}}
RECURSIVE TC(_)
TC(R) == LET R2 == R \cup {<<pr[1][1], pr[2][2]>> : pr \in {q \in R \X R : q[1][2] = q[2][1]}}
         IN IF R2 = R THEN R ELSE TC(R2)
Acyclic(M) == LET C == TC(DependsOn(M)) IN \A e \in EdgeIds(M) : <<e, e>> \notin C

(* ---- the behavioural form: ninja's scheduling rule -------------------- *)

\* An edge may run when every input exists or has been built.
Ready(M, Exists, built, e) == e \notin built /\ Ins(M, e) \subseteq (Exists \cup OutsOf(M, built))
Enabled(M, Exists, built) == {e \in EdgeIds(M) : Ready(M, Exists, built, e)}
\* the greedy maximal run (all ready edges at once, repeated): because Ready is monotone in `built`
\* every maximal schedule ends in this set (checked by BuildGraph_MC for all small graphs)
RECURSIVE RunFrom(_, _, _)
RunFrom(M, Exists, built) ==
    LET new == Enabled(M, Exists, built)
    IN IF new = {} THEN built ELSE RunFrom(M, Exists, built \cup new)
FixRun(M, Exists) == RunFrom(M, Exists, {})
Buildable(M, Exists) == FixRun(M, Exists) = EdgeIds(M)
Stuck(M, Exists) == EdgeIds(M) \ FixRun(M, Exists)

(* ---- reachability ------------------------------------------------------ *)

\* edges needed to bring the paths `roots` up to date
RECURSIVE ReachEdges(_, _, _)
ReachEdges(M, paths, seen) ==
    LET es == {e \in EdgeIds(M) \ seen : Outs(M, e) \cap paths # {}}
    IN IF es = {} THEN seen
       ELSE ReachEdges(M, UNION {Ins(M, e) : e \in es}, seen \cup es)
\* every path that is (re)built when `root` is requested: outputs of the needed edges
ReachPaths(M, roots) == OutsOf(M, ReachEdges(M, roots, {})) \cup roots

WellFormed(M, Exists) ==
    /\ M.errors = <<>>
    /\ RulesDefined(M) /\ PoolsDefined(M) /\ HasOutputs(M)
    /\ UniqueProducer(M)
    /\ Closed(M, Exists)
    /\ Buildable(M, Exists)
    /\ DefaultsKnown(M)
=============================================================================
