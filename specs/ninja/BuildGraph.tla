------------------------------ MODULE BuildGraph ------------------------------
(***************************************************************************)
(* The rule book for a Ninja build graph (C04, reused by C05/C15).         *)
(*                                                                         *)
(* Written from the Ninja manual ("Build statements", "The phony rule",    *)
(* "Build dependencies": explicit, implicit `|` and order-only `||`        *)
(* inputs; explicit and implicit `|` outputs; "Pools"; "Default target     *)
(* statements") and from the property statement.                           *)
(*                                                                         *)
(* A manifest M is a record (the projection made by harness/ninja_ref.py): *)
(*   rules     : Seq(STRING)   names of the declared rules                  *)
(*   dup_rules : Seq(STRING)   rule names declared more than once           *)
(*   pools     : Seq(STRING)   declared pools (incl. the built-in console)  *)
(*   edges     : Seq([rule, ins, imp, ord, outs, iouts])                     *)
(*   edge_pools: Seq(STRING)   pool binding of every edge ("" = none)       *)
(*   edge_rsp  : Seq([file, content, used : BOOLEAN, cmdlen, rsplen : Nat]) *)
(*               response-file view of every edge (optional field): are      *)
(*               `rspfile` / `rspfile_content` bound for the statement (in    *)
(*               its build block or its rule), does the expanded command name *)
(*               the response file, length of the expanded command and of the *)
(*               expanded rspfile_content                                     *)
(*   defaults  : Seq(STRING)   paths of `default` statements                *)
(*   errors    : Seq(STRING)   lexical / syntactic errors of the reader     *)
(*   edge_meta : Seq([deps, depfile : STRING, generator, restat : BOOLEAN]) *)
(*               the special rule variables of every edge, expanded         *)
(*               (optional field)                                            *)
(*   rule_meta : Seq([name, deps, depfile, restat, generator, pool,         *)
(*               description : STRING]) unexpanded rule-level values         *)
(*               (optional field, used by RuleFlavours)                      *)
(*   pool_depths: Seq(Nat)     depth of every declared pool (optional)       *)
(* Exists is the set of paths present after configuration.                 *)
(***************************************************************************)
EXTENDS Naturals, Sequences, FiniteSets

Rng(s) == {s[i] : i \in DOMAIN s}

EdgeIds(M) == DOMAIN M.edges
ExplicitIns(M, e) == Rng(M.edges[e].ins)
Ins(M, e)  == Rng(M.edges[e].ins) \cup Rng(M.edges[e].imp) \cup Rng(M.edges[e].ord)
Outs(M, e) == Rng(M.edges[e].outs) \cup Rng(M.edges[e].iouts)
OutSeq(M, e) == M.edges[e].outs \o M.edges[e].iouts
AllOutputs(M) == UNION {Outs(M, e) : e \in EdgeIds(M)}
AllInputs(M)  == UNION {Ins(M, e) : e \in EdgeIds(M)}
Producers(M, p) == {e \in EdgeIds(M) : p \in Outs(M, e)}
OutsOf(M, E) == UNION {Outs(M, e) : e \in E}

(* ---- static well-formedness ------------------------------------------ *)

\* "every build statement uses a defined rule" (phony is built in); a rule may be declared once
UndefinedRuleEdges(M) == {e \in EdgeIds(M) : M.edges[e].rule # "phony" /\ M.edges[e].rule \notin Rng(M.rules)}
RulesDefined(M) == UndefinedRuleEdges(M) = {} /\ M.dup_rules = <<>>

\* a pool named by an edge must be declared
UndefinedPoolEdges(M) == {e \in DOMAIN M.edge_pools : M.edge_pools[e] # "" /\ M.edge_pools[e] \notin Rng(M.pools)}
PoolsDefined(M) == UndefinedPoolEdges(M) = {}

\* "Rule variables", rspfile / rspfile_content: "if present (both), Ninja will use a response file for the
\* given command" - a statement for which one of them is bound binds the other one too; and the command
\* has to name the file (manual: `command = link.exe ... @$out.rsp`), else the arguments moved into the
\* file are lost.  (M.edge_rsp is read through an accessor: graphs built without it keep their meaning.)
EdgeRsp(M) == IF "edge_rsp" \in DOMAIN M THEN M.edge_rsp ELSE <<>>
UsesRspFile(M, e) == e \in DOMAIN EdgeRsp(M) /\ EdgeRsp(M)[e].file
HalfBoundRspEdges(M) == {e \in DOMAIN EdgeRsp(M) : EdgeRsp(M)[e].file # EdgeRsp(M)[e].content}
RspBound(M) == HalfBoundRspEdges(M) = {}
UnusedRspEdges(M) == {e \in DOMAIN EdgeRsp(M) : EdgeRsp(M)[e].file /\ ~EdgeRsp(M)[e].used}
RspUsed(M) == UnusedRspEdges(M) = {}

\* "Rule variables", deps: "if present, must be one of gcc or msvc"; with deps = gcc the dependencies are read
\* from the depfile the command writes (ninja: "edge with deps=gcc but no depfile makes no sense").  A depfile
\* belongs to one statement: ninja reads it - and with deps deletes it - when that statement's command finished.
EdgeMeta(M) == IF "edge_meta" \in DOMAIN M THEN M.edge_meta ELSE <<>>
BadDepsEdges(M) == {e \in DOMAIN EdgeMeta(M) : EdgeMeta(M)[e].deps \notin {"", "gcc", "msvc"}}
NoDepfileEdges(M) == {e \in DOMAIN EdgeMeta(M) : EdgeMeta(M)[e].deps = "gcc" /\ EdgeMeta(M)[e].depfile = ""}
DepsConsistent(M) == BadDepsEdges(M) = {} /\ NoDepfileEdges(M) = {}
SharedDepfiles(M) == {EdgeMeta(M)[e].depfile : e \in {x \in DOMAIN EdgeMeta(M) :
                         EdgeMeta(M)[x].depfile # "" /\ \E y \in DOMAIN EdgeMeta(M) : y # x /\ EdgeMeta(M)[y].depfile = EdgeMeta(M)[x].depfile}}
DepfilesUnique(M) == SharedDepfiles(M) = {}
\* "generator: if present, specifies that this rule is used to re-invoke the generator program.  Files built using
\* generator rules ... will not be rebuilt if the command line changes; and ... are not cleaned by default": the
\* statement(s) producing the manifest itself must be of that sort, or `ninja -t clean` removes the manifest
ManifestEdges(M, manifest) == {e \in EdgeIds(M) : manifest \in Outs(M, e)}
NonGeneratorManifestEdges(M, manifest) ==
    {e \in ManifestEdges(M, manifest) : e \in DOMAIN EdgeMeta(M) /\ ~EdgeMeta(M)[e].generator}
RegenIsGenerator(M, manifest) == NonGeneratorManifestEdges(M, manifest) = {}
\* "Pools": a pool is declared with its depth
PoolDeclared(M, name) == name \in Rng(M.pools)
PoolDepth(M, name) ==
    IF "pool_depths" \in DOMAIN M /\ PoolDeclared(M, name)
    THEN M.pool_depths[CHOOSE k \in DOMAIN M.pools : M.pools[k] = name] ELSE 0

\* every statement needs an output
HasOutputs(M) == \A e \in EdgeIds(M) : Len(OutSeq(M, e)) > 0

\* "no path is produced by two statements": counted over explicit AND implicit outputs; listing one path
\* twice in a single statement is a duplicate as well (Ninja: "multiple rules generate X")
RECURSIVE SumLen(_, _)
SumLen(M, n) == IF n = 0 THEN 0 ELSE Len(OutSeq(M, n)) + SumLen(M, n - 1)
UniqueProducer(M) == SumLen(M, Len(M.edges)) = Cardinality(AllOutputs(M))
\* for reports only (quadratic)
DupInEdge(M, e) == {p \in Outs(M, e) : Cardinality({k \in DOMAIN OutSeq(M, e) : OutSeq(M, e)[k] = p}) > 1}
DuplicateOutputs(M) == {p \in AllOutputs(M) : Cardinality(Producers(M, p)) > 1}
                         \cup UNION {DupInEdge(M, e) : e \in EdgeIds(M)}
\* does a duplicated path involve an implicit output somewhere?
DupInvolvesImplicit(M, p) == \E e \in EdgeIds(M) : p \in Rng(M.edges[e].iouts)

\* "every explicit, implicit or order-only input either exists after configuration or is the output of
\* another statement"
Dangling(M, Exists) == AllInputs(M) \ (Exists \cup AllOutputs(M))
Closed(M, Exists) == Dangling(M, Exists) = {}

\* default statements must name known paths (Ninja: "unknown target")
UnknownDefaults(M) == Rng(M.defaults) \ (AllOutputs(M) \cup AllInputs(M))
DefaultsKnown(M) == UnknownDefaults(M) = {}

(* ---- the dependency relation, declaratively --------------------------- *)

DependsOn(M) == {pr \in EdgeIds(M) \X EdgeIds(M) : Ins(M, pr[1]) \cap Outs(M, pr[2]) # {}}
RECURSIVE TC(_)
TC(R) == LET R2 == R \cup {<<pr[1][1], pr[2][2]>> : pr \in {q \in R \X R : q[1][2] = q[2][1]}}
         IN IF R2 = R THEN R ELSE TC(R2)
Acyclic(M) == LET C == TC(DependsOn(M)) IN \A e \in EdgeIds(M) : <<e, e>> \notin C

(* ---- the behavioural form: ninja's scheduling rule -------------------- *)

\* An edge may run when every input exists or has been built.
Ready(M, Exists, built, e) == e \notin built /\ Ins(M, e) \subseteq (Exists \cup OutsOf(M, built))
Enabled(M, Exists, built) == {e \in EdgeIds(M) : Ready(M, Exists, built, e)}
\* the greedy maximal run (all ready edges at once, repeated): because Ready is monotone in `built`
\* every maximal schedule ends in this set (checked by BuildGraph_MC for all small graphs)
RECURSIVE RunFrom(_, _, _)
RunFrom(M, Exists, built) ==
    LET new == Enabled(M, Exists, built)
    IN IF new = {} THEN built ELSE RunFrom(M, Exists, built \cup new)
FixRun(M, Exists) == RunFrom(M, Exists, {})
Buildable(M, Exists) == FixRun(M, Exists) = EdgeIds(M)
Stuck(M, Exists) == EdgeIds(M) \ FixRun(M, Exists)

(* ---- reachability ------------------------------------------------------ *)

\* edges needed to bring the paths `roots` up to date
RECURSIVE ReachEdges(_, _, _)
ReachEdges(M, paths, seen) ==
    LET es == {e \in EdgeIds(M) \ seen : Outs(M, e) \cap paths # {}}
    IN IF es = {} THEN seen
       ELSE ReachEdges(M, UNION {Ins(M, e) : e \in es}, seen \cup es)
\* every path that is (re)built when `root` is requested: outputs of the needed edges
ReachPaths(M, roots) == OutsOf(M, ReachEdges(M, roots, {})) \cup roots

WellFormed(M, Exists) ==
    /\ M.errors = <<>>
    /\ RulesDefined(M) /\ PoolsDefined(M) /\ HasOutputs(M)
    /\ RspBound(M) /\ RspUsed(M)
    /\ DepsConsistent(M)
    /\ UniqueProducer(M)
    /\ Closed(M, Exists)
    /\ Buildable(M, Exists)
    /\ DefaultsKnown(M)
=============================================================================
