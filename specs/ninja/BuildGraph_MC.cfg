SPECIFICATION Spec
CONSTANTS NE = 2
 MaxIns = 2
INVARIANT Confluent
INVARIANT DeadlockMeansDone
INVARIANT UniqueProducerMeaning
INVARIANT DuplicatesNamed
INVARIANT ReachClosed
CHECK_DEADLOCK FALSE
POSTCONDITION EmitFamily
