----------------------------- MODULE BuildGraph_MC -----------------------------
(***************************************************************************)
(* Model: every manifest with at most NE edges over a four-path alphabet   *)
(* ("s" exists after configuration, "a" "b" "c" do not) is scheduled by    *)
(* the Run(e) state machine in every possible order.                       *)
(*  - every deadlocked state (no edge can run) has built exactly           *)
(*    FixRun(M): the greedy fixpoint used on real manifests is THE result  *)
(*    of every schedule (confluence);                                      *)
(*  - with unique producers, every deadlocked state has all edges built    *)
(*    iff the manifest is Closed and Acyclic (behavioural form = the       *)
(*    declarative invariants of the statement);                            *)
(*  - ReachPaths is closed under "needs".                                  *)
(* The graph family is exported for the writer-level binding of C04.       *)
(***************************************************************************)
EXTENDS BuildGraph, TLC, Json, IOUtils, SequencesExt
CONSTANTS NE, MaxIns

Built == {"a", "b", "c"}
Paths == {"s"} \cup Built
Exists == {"s"}
InSeqs == {<<>>} \cup {<<p>> : p \in Paths} \cup
          (IF MaxIns >= 2 THEN {<<p, q>> : p \in Paths, q \in Paths \ {"s"}} ELSE {})
\* one explicit output, optionally one implicit output (which may repeat the explicit one)
EdgeShapes == [rule : {"R"}, ins : InSeqs, imp : {<<>>}, ord : {<<>>},
               outs : {<<p>> : p \in Built}, iouts : {<<>>} \cup {<<p>> : p \in Built}]
Manifest(es) == [rules |-> <<"R">>, dup_rules |-> <<>>, pools |-> <<"console">>, edges |-> es,
                 edge_pools |-> [i \in DOMAIN es |-> ""], defaults |-> <<>>, errors |-> <<>>]
\* (parameterised on purpose: TLC evaluates zero-arity constant definitions eagerly, and a UNION of
\* tens of thousands of records is quadratic there)
GraphsOfSize(n) == {Manifest(es) : es \in [1..n -> EdgeShapes]}

VARIABLES M, built
vars == <<M, built>>
Init == \E n \in 1..NE : \E es \in [1..n -> EdgeShapes] : M = Manifest(es) /\ built = {}
Run(e) == /\ Ready(M, Exists, built, e)
          /\ built' = built \cup {e}
          /\ UNCHANGED M
Next == \E e \in EdgeIds(M) : Run(e)
Spec == Init /\ [][Next]_vars

Deadlocked == Enabled(M, Exists, built) = {}
\* the fixpoint bounds every schedule, and every maximal schedule reaches it
Confluent == built \subseteq FixRun(M, Exists) /\ (Deadlocked => built = FixRun(M, Exists))
\* behavioural form of Closed + Acyclic
DeadlockMeansDone ==
    (Deadlocked /\ UniqueProducer(M)) =>
        ((built = EdgeIds(M)) <=> (Closed(M, Exists) /\ Acyclic(M)))
\* counting formulation of UniqueProducer = the pairwise one
UniqueProducerMeaning ==
    UniqueProducer(M) <=> (/\ \A e1, e2 \in EdgeIds(M) : e1 # e2 => Outs(M, e1) \cap Outs(M, e2) = {}
                           /\ \A e \in EdgeIds(M) : DupInEdge(M, e) = {})
DuplicatesNamed == UniqueProducer(M) <=> DuplicateOutputs(M) = {}
\* reachability contains the root's producers and is closed under inputs
ReachClosed ==
    \A p \in Built :
        LET R == ReachEdges(M, {p}, {})
        IN /\ Producers(M, p) \subseteq R
           /\ \A e \in R : \A q \in Ins(M, e) : Producers(M, q) \subseteq R

RECURSIVE GraphSeq(_)
GraphSeq(n) == IF n = 0 THEN <<>> ELSE GraphSeq(n - 1) \o SetToSeq(GraphsOfSize(n))
EmitFamily == TLCGet("stats").diameter >= 0 /\ JsonSerialize("graphs.json", GraphSeq(NE))
=============================================================================
