SPECIFICATION Spec
CONSTANTS NE = 3
 WithProbes = FALSE
 WithSrc = TRUE
 Hand = 0
INVARIANT TypeOK
INVARIANT DeclImpliesBehavioural
INVARIANT BehaviouralImpliesDecl
INVARIANT CompleteIsConfluent
INVARIANT IncompleteShows
INVARIANT EndsInFixpoint
INVARIANT CompiledFormAgrees
CHECK_DEADLOCK FALSE
