---------------------------- MODULE BuildSched_MC ----------------------------
(***************************************************************************)
(* Model for C05.  Two families of instances, every one scheduled by the   *)
(* Run(e) state machine in EVERY possible order (every linear extension,   *)
(* every prefix-closed set of statements):                                 *)
(*                                                                         *)
(* Hand = 0: every graph of NE statements in which statement k produces    *)
(*   path k of <<"a","b","c">>, declares any subset of {"s"} + the other   *)
(*   paths as inputs (statement 1 explicit, 2 implicit, 3 order-only) and  *)
(*   was observed to read / probe any subset of the other paths (WithSrc:  *)
(*   the existing source "s" may be declared; WithProbes: failed probes    *)
(*   are part of the observations).  On this                               *)
(*   family TLC proves that the behavioural laws (state invariants over    *)
(*   all schedules) and the declarative laws (ancestor closure) coincide,  *)
(*   and that complete graphs are confluent.                               *)
(*                                                                         *)
(* Hand = k > 0: hand-written graphs shaped like real meson output, each   *)
(*   with a deliberately missing edge (or its repaired twin): the vacuity  *)
(*   guard - the harness requires TLC to report the named invariant as     *)
(*   violated on the broken ones and nothing on the repaired ones.         *)
(***************************************************************************)
EXTENDS BuildSched, TLC, SequencesExt
CONSTANTS NE, WithProbes, WithSrc, Hand

OutOf(k) == <<"a", "b", "c">>[k]
Gen == {OutOf(k) : k \in 1..NE}
Others(k) == Gen \ {OutOf(k)}

Edge(rule, ins, imp, ord, outs) == [rule |-> rule, ins |-> ins, imp |-> imp, ord |-> ord, outs |-> outs, iouts |-> <<>>]
Manifest(es) == [rules |-> <<"R">>, dup_rules |-> <<>>, pools |-> <<"console">>, edges |-> es,
                 edge_pools |-> [i \in DOMAIN es |-> ""], defaults |-> <<>>, errors |-> <<>>]
NoSeqs(es) == [i \in DOMAIN es |-> <<>>]

\* ---- the exhaustive family ------------------------------------------------
\* obs[k][p]: 0 = statement k does not touch p, 1 = reads it, 2 = looks for it and does not find it
ObsVals == IF WithProbes THEN {0, 1, 2} ELSE {0, 1}
ObsAt(o, p) == IF p \in DOMAIN o THEN o[p] ELSE 0
FamEdge(k, ins) ==
    LET s == SetToSeq(ins)
    IN Edge("R", IF k = 1 THEN s ELSE <<>>, IF k = 2 THEN s ELSE <<>>, IF k = 3 THEN s ELSE <<>>, <<OutOf(k)>>)
FamG(ins, obs) ==
    LET es == [k \in 1..NE |-> FamEdge(k, ins[k])]
    IN [M |-> Manifest(es), exists |-> <<"s">>,
        needs  |-> [k \in 1..NE |-> SetToSeq({p \in Others(k) : ObsAt(obs[k], p) = 1})],
        probes |-> [k \in 1..NE |-> SetToSeq({p \in Others(k) : ObsAt(obs[k], p) = 2})],
        writes |-> [k \in 1..NE |-> <<OutOf(k)>>],
        aux |-> NoSeqs(es)]

\* ---- hand-written graphs ----------------------------------------------------
\* 1/2: a compile that includes a generated header without / with the order-only dependency
HeaderG(withDep) ==
    LET es == << Edge("CUSTOM_COMMAND", <<"../src/h.in">>, <<"../src/gen.sh">>, <<>>, <<"gen.h">>),
                 Edge("c_COMPILER", <<"../src/main.c">>, <<>>, IF withDep THEN <<"gen.h">> ELSE <<>>, <<"e.p/main.c.o">>),
                 Edge("c_COMPILER", <<"../src/util.c">>, <<>>, <<>>, <<"e.p/util.c.o">>),
                 Edge("c_LINKER", <<"e.p/main.c.o", "e.p/util.c.o">>, <<>>, <<>>, <<"e">>),
                 Edge("phony", <<"e">>, <<>>, <<>>, <<"all">>) >>
    IN [M |-> Manifest(es), exists |-> <<"../src/h.in", "../src/gen.sh", "../src/main.c", "../src/util.c">>,
        needs |-> << <<"../src/h.in", "../src/gen.sh">>, <<"../src/main.c", "gen.h">>, <<"../src/util.c">>,
                     <<"e.p/main.c.o", "e.p/util.c.o">>, <<>> >>,
        probes |-> << <<>>, <<"e.p/gen.h">>, <<>>, <<>>, <<>> >>,
        writes |-> << <<"gen.h">>, <<"e.p/main.c.o", "e.p/main.c.o.d">>, <<"e.p/util.c.o", "e.p/util.c.o.d">>, <<"e">>, <<>> >>,
        aux |-> << <<>>, <<"e.p/main.c.o.d">>, <<"e.p/util.c.o.d">>, <<>>, <<>> >>]
\* 3/4: a custom-target chain whose second step reads the first one's output without / with `depends:`
ChainG(withDep) ==
    LET es == << Edge("CUSTOM_COMMAND", <<"../src/a.in">>, <<>>, <<>>, <<"a.txt">>),
                 Edge("CUSTOM_COMMAND", <<"../src/b.in">>, IF withDep THEN <<"a.txt">> ELSE <<>>, <<>>, <<"b.txt">>),
                 Edge("CUSTOM_COMMAND", <<"b.txt">>, <<>>, <<>>, <<"c.txt">>) >>
    IN [M |-> Manifest(es), exists |-> <<"../src/a.in", "../src/b.in">>,
        needs |-> << <<"../src/a.in">>, <<"../src/b.in", "a.txt">>, <<"b.txt">> >>,
        probes |-> NoSeqs(es), writes |-> << <<"a.txt">>, <<"b.txt">>, <<"c.txt">> >>, aux |-> NoSeqs(es)]
\* 5/6: an executable linked against a static library without / with the library as implicit input
LinkG(withDep) ==
    LET es == << Edge("c_COMPILER", <<"../src/lib.c">>, <<>>, <<>>, <<"libs.a.p/lib.c.o">>),
                 Edge("STATIC_LINKER", <<"libs.a.p/lib.c.o">>, <<>>, <<>>, <<"libs.a">>),
                 Edge("c_COMPILER", <<"../src/main.c">>, <<>>, <<>>, <<"e.p/main.c.o">>),
                 Edge("c_LINKER", <<"e.p/main.c.o">>, IF withDep THEN <<"libs.a">> ELSE <<>>, <<>>, <<"e">>) >>
    IN [M |-> Manifest(es), exists |-> <<"../src/lib.c", "../src/main.c">>,
        needs |-> << <<"../src/lib.c">>, <<"libs.a.p/lib.c.o">>, <<"../src/main.c">>, <<"e.p/main.c.o", "libs.a", "libs.a.p/lib.c.o">> >>,
        probes |-> NoSeqs(es),
        writes |-> << <<"libs.a.p/lib.c.o">>, <<"libs.a">>, <<"e.p/main.c.o">>, <<"e">> >>, aux |-> NoSeqs(es)]
\* 7: a step that uses an optional generated file when it happens to be there (found absent in the observed run)
ProbeG ==
    LET es == << Edge("CUSTOM_COMMAND", <<"../src/a.in">>, <<>>, <<>>, <<"out.txt">>),
                 Edge("CUSTOM_COMMAND", <<"../src/o.in">>, <<>>, <<>>, <<"opt.cfg">>) >>
    IN [M |-> Manifest(es), exists |-> <<"../src/a.in", "../src/o.in">>,
        needs |-> << <<"../src/a.in">>, <<"../src/o.in">> >>, probes |-> << <<"opt.cfg">>, <<>> >>,
        writes |-> << <<"out.txt">>, <<"opt.cfg">> >>, aux |-> NoSeqs(es)]
\* 8: a step that leaves a file behind that the manifest does not declare
WriteG ==
    LET es == << Edge("CUSTOM_COMMAND", <<"../src/a.in">>, <<>>, <<>>, <<"out.txt">>) >>
    IN [M |-> Manifest(es), exists |-> <<"../src/a.in">>, needs |-> << <<"../src/a.in">> >>, probes |-> NoSeqs(es),
        writes |-> << <<"out.txt", "side.log">> >>, aux |-> NoSeqs(es)]

\* 9/10: a generator step whose driver script EXECUTES a plugin the project builds; the plugin is known to the
\* build definition only through `depends:` (as the find_program() result an override maps to the executable):
\* without / with the implicit input on the generator step
PluginG(withDep) ==
    LET es == << Edge("c_COMPILER", <<"../src/plug.c">>, <<>>, <<>>, <<"plug.p/plug.c.o">>),
                 Edge("c_LINKER", <<"plug.p/plug.c.o">>, <<>>, <<>>, <<"plug">>),
                 Edge("CUSTOM_COMMAND", <<"../src/msg.def">>,
                      IF withDep THEN <<"../src/driver.sh", "plug">> ELSE <<"../src/driver.sh">>, <<>>, <<"app.p/msg.c">>),
                 Edge("c_COMPILER", <<"app.p/msg.c">>, <<>>, <<>>, <<"app.p/msg.c.o">>),
                 Edge("c_LINKER", <<"app.p/msg.c.o">>, <<>>, <<>>, <<"app">>),
                 Edge("phony", <<"plug", "app">>, <<>>, <<>>, <<"all">>) >>
    IN [M |-> Manifest(es), exists |-> <<"../src/plug.c", "../src/msg.def", "../src/driver.sh">>,
        needs |-> << <<"../src/plug.c">>, <<"plug.p/plug.c.o">>, <<"../src/msg.def", "../src/driver.sh", "plug">>,
                     <<"app.p/msg.c">>, <<"app.p/msg.c.o">>, <<>> >>,
        probes |-> NoSeqs(es),
        writes |-> << <<"plug.p/plug.c.o">>, <<"plug">>, <<"app.p/msg.c">>, <<"app.p/msg.c.o">>, <<"app">>, <<>> >>,
        aux |-> NoSeqs(es)]
\* 11/12: `ninja test`: the step that runs the tests executes an executable that is not built by default and reads
\* generated data named in test(depends:); both reach it only through the phony meson-test-prereq (the data is
\* missing from it / listed in it)
TestG(withDep) ==
    LET es == << Edge("c_COMPILER", <<"../src/t.c">>, <<>>, <<>>, <<"t.p/t.c.o">>),
                 Edge("c_LINKER", <<"t.p/t.c.o">>, <<>>, <<>>, <<"t">>),
                 Edge("CUSTOM_COMMAND", <<"../src/d.in">>, <<>>, <<>>, <<"data.txt">>),
                 Edge("phony", <<>>, <<>>, <<>>, <<"all">>),
                 Edge("phony", IF withDep THEN <<"t", "data.txt">> ELSE <<"t">>, <<>>, <<>>, <<"meson-test-prereq">>),
                 Edge("CUSTOM_COMMAND", <<"all", "meson-test-prereq">>, <<>>, <<>>, <<"meson-internal__test">>) >>
    IN [M |-> Manifest(es), exists |-> <<"../src/t.c", "../src/d.in">>,
        needs |-> << <<"../src/t.c">>, <<"t.p/t.c.o">>, <<"../src/d.in">>, <<>>, <<>>, <<"t", "data.txt">> >>,
        probes |-> NoSeqs(es),
        writes |-> << <<"t.p/t.c.o">>, <<"t">>, <<"data.txt">>, <<>>, <<>>, <<"meson-logs/testlog.txt">> >>,
        aux |-> << <<>>, <<>>, <<>>, <<>>, <<>>, <<"meson-logs/testlog.txt">> >>]

HandG(k) == CASE k = 1 -> HeaderG(FALSE) [] k = 2 -> HeaderG(TRUE)
              [] k = 3 -> ChainG(FALSE)  [] k = 4 -> ChainG(TRUE)
              [] k = 5 -> LinkG(FALSE)   [] k = 6 -> LinkG(TRUE)
              [] k = 7 -> ProbeG         [] k = 8 -> WriteG
              [] k = 9 -> PluginG(FALSE) [] k = 10 -> PluginG(TRUE)
              [] k = 11 -> TestG(FALSE)  [] k = 12 -> TestG(TRUE)

\* ---- the state machine ------------------------------------------------------
VARIABLES G, built, view
vars == <<G, built, view>>

\* (the choices are enumerated per statement, without a filter: TLC generates exactly the family)
InChoices(k) == IF k <= NE THEN SUBSET ((IF WithSrc THEN {"s"} ELSE {}) \cup Others(k)) ELSE {{}}
ObsChoices(k) == IF k <= NE THEN [Others(k) -> ObsVals] ELSE {<<>>}
Init == /\ IF Hand = 0
           THEN \E i1 \in InChoices(1), i2 \in InChoices(2), i3 \in InChoices(3),
                   o1 \in ObsChoices(1), o2 \in ObsChoices(2), o3 \in ObsChoices(3) :
                    G = FamG(<<i1, i2, i3>>, <<o1, o2, o3>>)
           ELSE G = HandG(Hand)
        /\ built = {}
        /\ view = EmptyView(G)
Run(e) == /\ RunStep(G, built, view, e, built', view')
          /\ UNCHANGED G
Next == \E e \in EdgeIds(G.M) : Run(e)
Spec == Init /\ [][Next]_vars

\* ---- the laws as invariants over all schedules -------------------------------
InvHermetic == Hermetic(G, built)
InvStableProbes == StableProbes(G, built)
InvNoUndeclaredWrite == NoUndeclaredWrite(G)
InvConfluent == Confluent(G, built, view)

\* ---- theorems about the rule book (exhaustive family) ------------------------
\* declarative => behavioural, in every reachable state
DeclImpliesBehavioural ==
    /\ HermeticDecl(G) => Hermetic(G, built)
    /\ StableDecl(G) => StableProbes(G, built)
\* behavioural => declarative: the witness state (ancestors only) is a reachable state of the machine,
\* every reached state is a downset, and the ancestors-only state is the worst case for every statement
BehaviouralImpliesDecl ==
    /\ WitnessReachable(G)
    /\ ReachedIsDownset(G, built)
    /\ WorstCaseIsAncestors(G, built)
\* a dependency-complete graph is confluent: every maximal schedule runs every runnable statement and
\* every statement sees exactly what the observed run saw
CompleteIsConfluent ==
    (HermeticDecl(G) /\ StableDecl(G) /\ Buildable(G.M, X(G))) => Confluent(G, built, view)
\* and an incomplete one is not: the schedule that runs a statement right after its ancestors gives it a
\* different view (checked where that schedule ends: the statement's view is frozen once it has run)
IncompleteShows ==
    \A e \in built : (built = (AncEdges(G, e) \cup {e}) /\ (MissingAtAncestors(G, e) # {})) => view[e] # RefView(G, e)
\* every schedule stays inside the greedy fixpoint and ends in it (BuildGraph's confluence, with views)
EndsInFixpoint == built \subseteq Runs(G) /\ (Deadlocked(G, built) => built = Runs(G))
\* the statement-number form used on real graphs is the same machine (unique producers)
CompiledFormAgrees == UniqueProducer(G.M) => FormsAgree(G, built, view)
TypeOK == built \subseteq EdgeIds(G.M) /\ DOMAIN view = EdgeIds(G.M)
=============================================================================
