---------------------------- MODULE IntroConsistent ----------------------------
(***************************************************************************)
(* C15: the consistency relation between the introspection files           *)
(* (docs/markdown/IDE-integration.md) and the build that was generated.    *)
(*                                                                         *)
(* Views (projections made by harness/intro_views.py; paths inside the     *)
(* build directory are relative to it, exactly as in the manifest M):      *)
(*  targets   intro-targets.json: id, name, type, sp, bbd, installed,      *)
(*            filenames, srcs, gens, unity, has_compile, defined_in        *)
(*  M         build.ninja read by ninja_ref                                *)
(*  tests / benchmarks          intro-tests.json / intro-benchmarks.json   *)
(*  tests_dat / benchmarks_dat  meson_test_setup.dat / ..benchmark..dat    *)
(*  runs      argv + environment observed by tests really run              *)
(*  options   intro-buildoptions.json (name, type, text)                   *)
(*  messages  get_option() values echoed by message() at configure time    *)
(*  plan / installed            intro-install_plan.json / intro-installed  *)
(*  dat       meson-private/install.dat (what `meson install` reads)       *)
(*  tree      files found under DESTDIR after a real `meson install`       *)
(*  bsfiles   intro-buildsystem_files.json; regen_inputs: inputs of the    *)
(*            build.ninja regeneration statement                           *)
(*  requests  the names `meson test <selection>` asked the backend to      *)
(*            build (argv of the ninja stand-in), per selection            *)
(*  dat_links / dat_empty  symbolic links and empty directories of         *)
(*            install.dat (no introspection file lists empty directories)  *)
(* Every clause returns the set of offending items (empty = holds).        *)
(***************************************************************************)
EXTENDS IntroRules, TLC

SeqToSet(s) == Rng(s)
FileTypes == {"executable", "static library", "shared library", "shared module", "custom", "jar"}
LinkTypes == {"executable", "static library", "shared library", "shared module"}

(* ---- targets vs manifest ------------------------------------------------ *)

NonPhony(M) == {e \in EdgeIds(M) : M.edges[e].rule # "phony"}
ProducersOf(M, paths) == {e \in NonPhony(M) : Outs(M, e) \cap paths # {}}
AllFilenames(c) == UNION {SeqToSet(c.targets[t].filenames) : t \in {u \in DOMAIN c.targets : c.targets[u].type \in FileTypes}}

\* every file a target claims is produced by a (non-phony) statement of build.ninja
FilenamesNotProduced(c, t) == SeqToSet(t.filenames) \ OutsOf(c.M, NonPhony(c.M))
\* ... and those statements produce exactly the files the target claims (explicit outputs)
ExplicitOutsOf(M, ES) == UNION {SeqToSet(M.edges[e].outs) : e \in ES}
FilenamesNotExact(c, t) ==
    LET P == ProducersOf(c.M, SeqToSet(t.filenames))
    IN (ExplicitOutsOf(c.M, P) \ SeqToSet(t.filenames)) \cup (SeqToSet(t.filenames) \ ExplicitOutsOf(c.M, P))

\* the compile statements of a linked target: statements running a compiler the introspection names (flag
\* `cc` of the edge: its command line starts with a "compiler" command of intro-targets.json), other than
\* producers of some target's file, whose outputs the target's link statement takes as explicit input
LinkStmts(c, t) == ProducersOf(c.M, SeqToSet(t.filenames))
CompileEdgesOf(c, t) ==
    LET objs == UNION {ExplicitIns(c.M, e) : e \in LinkStmts(c, t)}
    IN {e \in NonPhony(c.M) : c.M.edges[e].cc /\ Outs(c.M, e) \cap objs # {} /\ Outs(c.M, e) \cap AllFilenames(c) = {}}
Consumed(c, t) == UNION {ExplicitIns(c.M, e) : e \in CompileEdgesOf(c, t)}
AllListed(c) == UNION {SeqToSet(c.targets[u].srcs) \cup SeqToSet(c.targets[u].gens) \cup SeqToSet(c.targets[u].unity)
                         : u \in DOMAIN c.targets}
\* (a) what a target lists as sources / generated sources is what its compile statements consume (with unity
\* builds the unity files are the generated sources; `unity_sources` are the files merged into them)
ListedNotConsumed(c, t) ==
    IF t.type \notin LinkTypes \/ ~t.has_compile THEN {}
    ELSE (SeqToSet(t.srcs) \cup SeqToSet(t.gens)) \ Consumed(c, t)
\* (b) what its compile statements consume is listed (by it, or - shared objects - by another target)
ConsumedNotListed(c, t) ==
    IF t.type \notin LinkTypes \/ ~t.has_compile THEN {} ELSE Consumed(c, t) \ AllListed(c)
\* (c) `sources` are never build products; `generated_sources` are build products or files written into the
\* build directory at configure time (unity files)
InBuildDir(path) == ~IsAbs(path) /\ ~(Len(path) >= 3 /\ SubSeq(path, 1, 3) = "../") /\ path # ".."
Misclassified(c, t) ==
    IF t.type \notin LinkTypes THEN {}
    ELSE (SeqToSet(t.srcs) \cap OutsOf(c.M, NonPhony(c.M)))
         \cup {g \in SeqToSet(t.gens) : g \notin AllOutputs(c.M) /\ ~InBuildDir(g)}
\* a custom target lists as sources exactly the explicit inputs of its statement
CustomSourcesWrong(c, t) ==
    IF t.type # "custom" \/ ~t.has_compile THEN {}
    ELSE LET ins == UNION {ExplicitIns(c.M, e) : e \in ProducersOf(c.M, SeqToSet(t.filenames))}
             listed == SeqToSet(t.srcs) \cup SeqToSet(t.gens)
         IN (ins \ listed) \cup (listed \ ins)

\* build_by_default as introspected <=> the target is listed by the `all` statement of build.ninja
AllInputsDirect(M) == UNION {ExplicitIns(M, e) : e \in {x \in EdgeIds(M) : "all" \in SeqToSet(M.edges[x].outs)}}
BbdNotAll(c, t) == IF t.bbd = (SeqToSet(t.filenames) \cap AllInputsDirect(c.M) # {}) THEN {} ELSE {t.id}

(* ---- both directions: link / archive statements vs introspected files -------- *)
\* the link and archive statements of the manifest (rules `<lang>_LINKER`, `STATIC_LINKER`, and their response
\* file variants): every file they produce is the `filename` of an introspected target
LinkStmtsOf(M) == {e \in NonPhony(M) : HasSub(M.edges[e].rule, "LINKER")}
LinkOutputsUnclaimed(c) == ExplicitOutsOf(c.M, LinkStmtsOf(c.M)) \ AllFilenames(c)
\* what `meson test <tests>` asks the backend to build (mtest: the `filename`s of the targets the selected tests
\* depend on, or the aggregate meson-test-prereq / meson-benchmark-prereq) are outputs of the manifest ...
Requests(c) == IF "requests" \in DOMAIN c THEN c.requests ELSE <<>>
RequestsUnknown(c) == UNION {SeqToSet(Requests(c)[k].asked) : k \in DOMAIN Requests(c)} \ AllOutputs(c.M)
\* ... and cover every file of every target a selected test depends on
TargetById(c, id) == {c.targets[t] : t \in {u \in DOMAIN c.targets : c.targets[u].id = id}}
DependsFilesOf(c, names) ==
    UNION {UNION {SeqToSet(t.filenames) : t \in UNION {TargetById(c, d) : d \in SeqToSet(c.tests[k].depends)}}
             : k \in {j \in DOMAIN c.tests : c.tests[j].name \in names}}
RequestsIncomplete(c) ==
    UNION {LET r == Requests(c)[k]
           IN IF {"meson-test-prereq", "meson-benchmark-prereq"} \cap SeqToSet(r.asked) # {} THEN {}
              ELSE DependsFilesOf(c, SeqToSet(r.sel)) \ SeqToSet(r.asked)
             : k \in DOMAIN Requests(c)}

(* ---- targets vs the abstract project ------------------------------------ *)
\* files the generator model owes for the targets of p (IntroRules: every naming keyword), each file set
\* listed by exactly one introspected target; a both-library is two introspected targets
IntroFiles(c) == {SeqToSet(c.targets[t].filenames) : t \in {u \in DOMAIN c.targets : c.targets[u].type \in FileTypes}}
BuildableIdx(p) == {j \in Targets(p) : ~IsRunLike(p.targets[j])}
ModelFileSets(p) == UNION {UNION NamedChoices(p, p.targets[i]) : i \in BuildableIdx(p)}
TargetsVsModel(c) ==
    {UNION (CHOOSE alt \in NamedChoices(c.p, c.p.targets[i]) : TRUE)
        : i \in {j \in BuildableIdx(c.p) : ~\E alt \in NamedChoices(c.p, c.p.targets[j]) : alt \subseteq IntroFiles(c)}}
    \cup (IntroFiles(c) \ ModelFileSets(c.p))
\* build_by_default as introspected = as the model derives it
\* (the manual is silent on `install: true` together with `build_by_default: false` on a build target)
BbdDefinite(t) == ~(IsBuild(t) /\ t.bbd = "false" /\ t.install)
BbdWrong(c) ==
    {i \in Targets(c.p) : ~IsRunLike(c.p.targets[i]) /\ BbdDefinite(c.p.targets[i]) /\
        \E t \in DOMAIN c.targets : /\ c.targets[t].type \in FileTypes
                                    /\ SeqToSet(c.targets[t].filenames) \subseteq AllNamedPaths(c.p, c.p.targets[i])
                                    /\ c.targets[t].filenames # <<>>
                                    /\ c.targets[t].bbd # DefaultBuilt(c.p.targets[i])}

(* ---- tests --------------------------------------------------------------- *)

TestFields == <<"name", "cmd", "env", "suite", "depends", "workdir", "timeout", "is_parallel", "priority", "protocol",
                "extra_paths">>
FieldDiffers(a, b) ==
    {f \in SeqToSet(TestFields) :
        CASE f = "name" -> a.name # b.name
          [] f = "cmd" -> a.cmd # b.cmd
          [] f = "env" -> a.env # b.env
          [] f = "suite" -> a.suite # b.suite
          [] f = "depends" -> a.depends # b.depends
          [] f = "workdir" -> a.workdir # b.workdir
          [] f = "timeout" -> a.timeout # b.timeout
          [] f = "is_parallel" -> a.is_parallel # b.is_parallel
          [] f = "priority" -> a.priority # b.priority
          [] f = "protocol" -> a.protocol # b.protocol
          [] f = "extra_paths" -> a.extra_paths # b.extra_paths}
\* intro-tests.json lists the same tests, in the same order, with the same data as the file `meson test` loads
TestsDiffer(intro, dat) ==
    IF Len(intro) # Len(dat) THEN {"<count>"}
    ELSE UNION {{intro[k].name \o ":" \o f : f \in FieldDiffers(intro[k], dat[k])} : k \in DOMAIN intro}
\* depends name introspected targets
UnknownDepends(c, tests) ==
    UNION {SeqToSet(tests[k].depends) : k \in DOMAIN tests} \ {c.targets[t].id : t \in DOMAIN c.targets}
\* a test that was really run got the introspected command line and (at least) the introspected environment
EnvOf(r) == {<<r.env[k][1], r.env[k][2]>> : k \in DOMAIN r.env}
RunKey(x) == IF Len(x.cmd) >= 2 THEN x.cmd[2] ELSE ""
RunsDiffer(c) ==
    UNION {LET x == c.tests[k]
               rs == {j \in DOMAIN c.runs : c.runs[j].key = RunKey(x)}
           IN IF rs = {} THEN {x.name \o ":not-run"}
              ELSE UNION {(IF c.runs[j].argv # Tail(x.cmd) THEN {x.name \o ":argv"} ELSE {})
                          \cup (IF EnvOf(x) \subseteq EnvOf(c.runs[j]) THEN {} ELSE {x.name \o ":env"}) : j \in rs}
             : k \in DOMAIN c.tests}
\* what the build definition asked for is what is introspected (tests written by projgen)
\* a target passed as test argument expands to one argument per output file
RECURSIVE NFiles(_, _)
NFiles(p, refs) == IF refs = <<>> THEN 0
                   ELSE (IF p.targets[Head(refs)].kind = "custom" THEN Len(p.targets[Head(refs)].outs) ELSE 1) + NFiles(p, Tail(refs))
ModelTestWrong(c, x, intro) ==
    LET cands == {k \in DOMAIN intro : intro[k].name = x.name}
    IN IF cands = {} THEN {x.name \o ":missing"}
       ELSE LET i == CHOOSE k \in cands : TRUE
                want == {<<x.env[k][1], x.env[k][2]>> : k \in DOMAIN x.env}
                suites == IF x.suite = <<>> THEN {} ELSE {(IF x.sp = "" THEN c.p.name ELSE x.sp) \o ":" \o x.suite[k] : k \in DOMAIN x.suite}
                nargs == Len(x.sargs)
                cmd == intro[i].cmd
            IN (IF want \subseteq EnvOf(intro[i]) THEN {} ELSE {x.name \o ":env"})
               \cup (IF suites \subseteq SeqToSet(intro[i].suite) THEN {} ELSE {x.name \o ":suite"})
               \cup (IF Len(cmd) >= nargs /\ SubSeq(cmd, Len(cmd) - nargs + 1, Len(cmd)) = x.sargs THEN {} ELSE {x.name \o ":args"})
               \cup (IF Len(cmd) = 1 + NFiles(c.p, x.args) + nargs THEN {} ELSE {x.name \o ":argc"})
ModelTestsWrong(c) ==
    UNION {ModelTestWrong(c, c.p.tests[k], IF c.p.tests[k].bench THEN c.benchmarks ELSE c.tests) : k \in DOMAIN c.p.tests}
    \cup (IF Len(c.tests) + Len(c.benchmarks) = Len(c.p.tests) THEN {} ELSE {"<count>"})

(* ---- options ------------------------------------------------------------- *)

OptionText(c, name) ==
    LET ks == {k \in DOMAIN c.options : c.options[k].name = name}
    IN IF ks = {} THEN "<absent>" ELSE c.options[CHOOSE k \in ks : TRUE].text
\* the value get_option(name) returned in (sub)project sp: the per-subproject entry `sp:name` if there is
\* one, else the global entry
Reported(c, m) ==
    IF m.sp # "" /\ OptionText(c, m.sp \o ":" \o m.name) # "<absent>" THEN OptionText(c, m.sp \o ":" \o m.name)
    ELSE OptionText(c, m.name)
\* the kind of disagreement (part of the verdict, so that different defects keep different signatures)
POptions(p) == IF "options" \in DOMAIN p THEN p.options ELSE <<>>
IsYielding(c, m) == \E k \in DOMAIN POptions(c.p) : POptions(c.p)[k].name = m.name /\ POptions(c.p)[k].sp = m.sp
                                                   /\ "yield" \in DOMAIN POptions(c.p)[k] /\ POptions(c.p)[k].yield
OptCategory(c, m) ==
    IF m.sp = "" THEN "value-differs"
    ELSE IF OptionText(c, m.sp \o ":" \o m.name) = "<absent>" THEN "value-in-subproject-not-listed"
    ELSE IF IsYielding(c, m) THEN "yielding-option-listed-with-its-own-value"
    ELSE "subproject-option-value-differs"
OptionsDiffer(c) == {OptCategory(c, m) \o "|" \o m.sp \o ":" \o m.name \o "=" \o m.text \o "/" \o Reported(c, m)
                       : m \in {mm \in {c.messages[k] : k \in DOMAIN c.messages} : Reported(c, mm) # mm.text}}

(* ---- install ------------------------------------------------------------- *)

PlanSet(c) == {<<c.plan[k].src, c.plan[k].dest, c.plan[k].tag, c.plan[k].sp>> : k \in DOMAIN c.plan}
DatSet(c) == {<<c.dat[k].src, c.dat[k].name, c.dat[k].tag, c.dat[k].sp>> : k \in DOMAIN c.dat}
\* the plan names exactly the items install.dat holds, with the destination name and tag `meson install` uses
PlanVsDat(c) == {x[1] : x \in (PlanSet(c) \ DatSet(c)) \cup (DatSet(c) \ PlanSet(c))}
InstalledSet(c) == {<<c.installed[k][1], c.installed[k][2]>> : k \in DOMAIN c.installed}
DatDestSet(c) == {<<c.dat[k].src, c.dat[k].dest>> : k \in DOMAIN c.dat}
IsFileEntry(x) == ~(Len(x[1]) >= 6 /\ SubSeq(x[1], 1, 6) = "@name/")
InstalledVsDat(c) == {x[1] : x \in ({y \in InstalledSet(c) : IsFileEntry(y)} \ DatDestSet(c))
                                    \cup (DatDestSet(c) \ InstalledSet(c))}
\* placeholder destinations resolve, with the introspected directory options, to the installed location
DirValue(c, name) ==
    LET ks == {k \in DOMAIN c.dirs : c.dirs[k][1] = name}
    IN IF ks = {} THEN "<unknown>" ELSE c.dirs[CHOOSE k \in ks : TRUE][2]
DirFun(c) == [n \in {c.dirs[k][1] : k \in DOMAIN c.dirs} |-> DirValue(c, n)]
\* (IntroRules.ResolvedV: {placeholder} -> value of the directory option, relative to the prefix)
Resolved(c, e) == ResolvedV(DirFun(c), e)
PlanVsInstalled(c) ==
    {c.plan[k].src : k \in {j \in DOMAIN c.plan : c.plan[j].ph \in KnownPlaceholders \cup {""} /\
                               <<c.plan[j].src, Resolved(c, c.plan[j])>> \notin InstalledSet(c)}}
\* after a real `meson install --destdir D` the tree under D is exactly what intro-installed.json promises
DirFiles(c, src) == LET ks == {k \in DOMAIN c.dir_listing : c.dir_listing[k][1] = src}
                    IN IF ks = {} THEN {} ELSE SeqToSet(c.dir_listing[CHOOSE k \in ks : TRUE][2])
IsDirEntry(c, src) == \E k \in DOMAIN c.dat : c.dat[k].src = src /\ c.dat[k].isdir
\* symbolic links are listed by intro-installed.json under their name; empty directories are in no introspection
\* file (the property does not ask for them): they are taken from install.dat so that the comparison stays exact
DatLinks(c) == IF "dat_links" \in DOMAIN c THEN SeqToSet(c.dat_links) ELSE {}
DatEmpty(c) == IF "dat_empty" \in DOMAIN c THEN {d \o "/" : d \in SeqToSet(c.dat_empty)} ELSE {}
ExpectedTree(c) ==
    UNION {IF IsDirEntry(c, x[1]) THEN {PJoin(x[2], f) : f \in DirFiles(c, x[1])} ELSE {x[2]}
             : x \in {y \in InstalledSet(c) : IsFileEntry(y)}}
    \cup {x[2] : x \in {y \in InstalledSet(c) : ~IsFileEntry(y)}}
    \cup DatEmpty(c)
TreeVsInstalled(c) ==
    IF ~c.did_install THEN {} ELSE (ExpectedTree(c) \ SeqToSet(c.tree)) \cup (SeqToSet(c.tree) \ ExpectedTree(c))
\* the symbolic links intro-installed.json names are those `meson install` creates
LinksVsDat(c) == LET listed == {x[2] : x \in {y \in InstalledSet(c) : ~IsFileEntry(y)}}
                 IN (listed \ DatLinks(c)) \cup (DatLinks(c) \ listed)
\* `install_filename` of an installed target: the absolute location of each of its files (and of the aliases
\* installed with it) - the locations intro-installed.json gives, and for each planned file the resolved
\* destination of the plan
InstalledDests(c) == {x[2] : x \in InstalledSet(c)}
InstallFilenamesWrong(c) ==
    UNION {LET t == c.targets[u]
               given == SeqToSet(t.install_filenames) \ {""}
               owed == {Resolved(c, c.plan[k]) : k \in {j \in DOMAIN c.plan : c.plan[j].section = "targets"
                                                         /\ c.plan[j].src \in SeqToSet(t.filenames)
                                                         /\ c.plan[j].ph \in KnownPlaceholders \cup {""}}}
           IN (given \ InstalledDests(c)) \cup (owed \ given)
             : u \in {v \in DOMAIN c.targets : c.targets[v].installed /\ c.targets[v].type \in FileTypes}}
\* installed flag of a target <=> its files are in the plan
InstalledFlagWrong(c) ==
    {c.targets[t].id : t \in {u \in DOMAIN c.targets :
        c.targets[u].type \in FileTypes /\
        (c.targets[u].installed # (\E k \in DOMAIN c.plan : c.plan[k].section = "targets" /\ c.plan[k].src \in SeqToSet(c.targets[u].filenames)))}}
\* items the build definition installs (projgen's install_data / install_headers / install_man), with the
\* documented default directories and tags
ModelInstallItems(p) ==
    UNION {LET it == p.installs[k]
               srcdir == Join("../src", Join(SpDir(it.sp), it.subdir))
               base == CASE it.kind = "data" -> (IF it.install_dir # "" THEN it.install_dir ELSE "{datadir}/" \o (IF it.sp = "" THEN p.name ELSE it.sp))
                         [] it.kind = "headers" -> (IF it.install_dir # "" THEN it.install_dir ELSE Join("{includedir}", IHsub(it)))
                         \* "{mandir}/{locale}/man{num}/foo.1" (install_man.yaml); every page of one rule has the same section here
                         [] it.kind = "man" -> (IF it.install_dir # "" THEN it.install_dir
                                                ELSE Join(Join("{mandir}", ILocale(it)), "man" \o Ext(it.files[1])))
                         [] OTHER -> ""
               tag == IF it.tag # "" THEN it.tag ELSE CASE it.kind = "headers" -> "devel" [] it.kind = "man" -> "man" [] OTHER -> ""
           \* (the spelling of an expression-located directory in the plan is left open: see InstallTreeVsModel)
           IN IF it.kind \notin {"data", "headers", "man"} \/ it.rename # <<>> \/ IDir(it).how # "none" THEN {}
              \* preserve_path keeps the directory part of the source below the install directory
              ELSE {<<Join(srcdir, it.files[f]),
                      Join(base, IF it.preserve THEN it.files[f] ELSE Base(StripLocale(it.files[f], ILocale(it)))), tag, it.sp>>
                      : f \in DOMAIN it.files}
             : k \in DOMAIN p.installs}
\* install_subdir(dir, install_dir: D [, strip_directory: true]): the directory lands in D/<dir> (in D itself when
\* stripped); a plain relative D is shown below {prefix}, an option-derived D keeps its placeholder
ModelSubdirItems(p) ==
    UNION {LET it == p.installs[k]
               srcdir == Join("../src", Join(SpDir(it.sp), it.subdir))
               d == IF it.install_dir = "" THEN "share/sd" ELSE it.install_dir
               base == IF IsAbs(d) \/ (Len(d) >= 1 /\ SubSeq(d, 1, 1) = "{") THEN d ELSE "{prefix}/" \o d
           IN IF it.kind # "subdir" \/ IDir(it).how # "none" THEN {}
              \* the directory may be spelled with a trailing slash ('docs/'): it is still the directory docs
              ELSE LET dn == IF EndsWith(it.files[1], "/") THEN DropSuffix(it.files[1], 1) ELSE it.files[1]
                   IN {<<Join(srcdir, dn), IF it.strip THEN base ELSE Join(base, dn)>>}
             : k \in DOMAIN p.installs}
ModelSubdirMissing(c) ==
    {x[1] \o " -> " \o x[2] : x \in ModelSubdirItems(c.p) \ {<<c.plan[k].src, c.plan[k].dest>> : k \in DOMAIN c.plan}}
\* where the plan says an item goes (placeholders resolved) is where the files really landed
PlanVsTree(c) ==
    IF ~c.did_install THEN {}
    ELSE UNION {LET e == c.plan[k]
                    want == IF IsDirEntry(c, e.src) THEN {PJoin(Resolved(c, e), f) : f \in DirFiles(c, e.src)}
                            ELSE {Resolved(c, e)}
                IN want \ SeqToSet(c.tree)
                  : k \in {j \in DOMAIN c.plan : c.plan[j].ph \in KnownPlaceholders \cup {""}}}
ModelInstallMissing(c) == {x[1] \o " -> " \o x[2] \o " [" \o x[3] \o "]" : x \in ModelInstallItems(c.p) \ PlanSet(c)}
\* ... and, the other way round, everything that landed is promised by the plan (a symbolic link or an empty
\* directory: by install.dat - the plan has no section for them)
PlanPaths(c) ==
    UNION {LET e == c.plan[k]
           IN IF IsDirEntry(c, e.src) THEN {PJoin(Resolved(c, e), f) : f \in DirFiles(c, e.src)} ELSE {Resolved(c, e)}
             : k \in {j \in DOMAIN c.plan : c.plan[j].ph \in KnownPlaceholders \cup {""}}}
PlanFullyKnown(c) == \A k \in DOMAIN c.plan : c.plan[k].ph \in KnownPlaceholders \cup {""}
TreeVsPlan(c) ==
    IF ~c.did_install \/ ~PlanFullyKnown(c) THEN {}
    ELSE SeqToSet(c.tree) \ (PlanPaths(c) \cup DatLinks(c) \cup DatEmpty(c))
\* the tree the build definition owes (IntroRules.ModelTreeMust / May: every install rule kind, every spelling of
\* the directory, evaluated with the introspected option values) is the tree `meson install` creates
InstallTreeVsModel(c) ==
    IF ~c.did_install \/ ~PModelTree(c.p) THEN {}
    ELSE (ModelTreeMust(c.p, DirFun(c)) \ SeqToSet(c.tree)) \cup (SeqToSet(c.tree) \ ModelTreeMay(c.p, DirFun(c)))
\* ... and the one the plan promises (placeholders resolved through intro-buildoptions.json)
InstallPlanVsModel(c) ==
    IF ~PModelTree(c.p) \/ ~PlanFullyKnown(c) THEN {}
    ELSE LET links == {x[2] : x \in {y \in InstalledSet(c) : ~IsFileEntry(y)}}
             promised == PlanPaths(c) \cup links \cup DatEmpty(c)
         IN (ModelTreeMust(c.p, DirFun(c)) \ promised) \cup (promised \ ModelTreeMay(c.p, DirFun(c)))

(* ---- build system files -------------------------------------------------- *)

BsSet(c) == SeqToSet(c.bsfiles)
BsNotRegen(c) == IF ~c.has_ninja THEN {} ELSE (BsSet(c) \ SeqToSet(c.regen_inputs)) \cup (SeqToSet(c.regen_inputs) \ BsSet(c))
DefinedInMissing(c) == {c.targets[t].defined_in : t \in DOMAIN c.targets} \ BsSet(c)
\* what the abstract project makes meson read: the meson.build of the root, of every directory entered, of
\* every subproject; option files; inputs of configure_file()
RECURSIVE DirPrefixes(_)
DirPrefixes(d) == IF d = "" THEN {}
               ELSE LET idx == {k \in 1..Len(d) : SubSeq(d, k, k) = "/"}
                    IN {d} \cup (IF idx = {} THEN {} ELSE DirPrefixes(SubSeq(d, 1, (CHOOSE k \in idx : \A m \in idx : m <= k) - 1)))
DirsEntered(p) ==
    LET locs == {<<x.sp, x.subdir>> : x \in {p.targets[i] : i \in DOMAIN p.targets}}
                \cup {<<p.conf[i].sp, p.conf[i].subdir>> : i \in DOMAIN p.conf}
                \cup {<<p.installs[i].sp, p.installs[i].subdir>> : i \in DOMAIN p.installs}
        sps == {l[1] : l \in locs} \cup {p.tests[i].sp : i \in DOMAIN p.tests} \cup {p.options[i].sp : i \in DOMAIN p.options}
    IN {""} \cup {SpDir(sp) : sp \in sps}
       \cup UNION {{Join(SpDir(l[1]), d) : d \in DirPrefixes(l[2])} : l \in locs}
ModelBuildFiles(p) ==
    {Join(d, "meson.build") : d \in DirsEntered(p)}
    \cup {Join(SpDir(p.options[i].sp), "meson.options") : i \in DOMAIN p.options}
    \cup {Join(Join(SpDir(p.conf[i].sp), p.conf[i].subdir), "conf" \o ToString(i) \o ".in") : i \in DOMAIN p.conf}
    \* (an installed configure_file(): kind "conf" of p.installs, its input is <output>.in)
    \cup {Join(Join(SpDir(p.installs[i].sp), p.installs[i].subdir), p.installs[i].files[1] \o ".in")
            : i \in {j \in DOMAIN p.installs : p.installs[j].kind = "conf"}}
\* "lists exactly the build-definition files that were read": the meson.build / meson.options / meson_options.txt
\* files below the source directory that meson opened while configuring (observed with strace on an identical
\* second configuration, whose own intro-buildsystem_files.json is compared), both directions; files of other
\* names (inputs of configure_file()) are only required to be files that exist
IsBuildDef(f) == Base(f) \in {"meson.build", "meson.options", "meson_options.txt"}
BsVsRead(c) ==
    IF ~("did_trace" \in DOMAIN c) \/ ~c.did_trace THEN {}
    ELSE (SeqToSet(c.read_files) \ SeqToSet(c.read_bsfiles)) \cup ({f \in SeqToSet(c.read_bsfiles) : IsBuildDef(f)} \ SeqToSet(c.read_files))
BsVsModel(c) == (BsSet(c) \ ModelBuildFiles(c.p)) \cup (ModelBuildFiles(c.p) \ BsSet(c))
=============================================================================
