SPECIFICATION Spec
CONSTANTS Layouts = {"mirror", "flat"}
 Deflibs = {"shared", "both", "static"}
 LocSet = "all"
 Behavioural = "none"
INVARIANT IntroRelationHoldsOnModel
INVARIANT DroppedSourceNoticed
CHECK_DEADLOCK FALSE
POSTCONDITION EmitFamily
