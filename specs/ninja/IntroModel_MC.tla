----------------------------- MODULE IntroModel_MC -----------------------------
(***************************************************************************)
(* Model check for C15: for every abstract project of the bounded family   *)
(* (ProjectModel_MC) the target views the generator model owes - one       *)
(* introspected target per output file set, with the sources and generated *)
(* sources of the abstract target - satisfy the consistency relation of    *)
(* IntroConsistent against the model's own build graph.  This shows the    *)
(* relation is satisfiable by a faithful generator and pins its meaning    *)
(* (both-libraries are two targets, the static half has no compile block;  *)
(* generator outputs are generated sources; custom targets list inputs).   *)
(***************************************************************************)
EXTENDS ProjectModel_MC, IntroConsistent

TypeName(kind, ty) == CASE kind = "exe" -> "executable"
                        [] kind = "custom" -> "custom"
                        [] ty = "static" -> "static library"
                        [] OTHER -> "shared library"
MT(q, i, ty, compile) ==
    LET t == q.targets[i]
    IN [id |-> ToString(i) \o ty, name |-> t.name, type |-> TypeName(t.kind, ty), sp |-> t.sp, bbd |-> DefaultBuilt(t),
        installed |-> t.install,
        filenames |-> IF t.kind = "custom" THEN [k \in DOMAIN t.outs |-> Join(OutDir(q, t), t.outs[k])]
                      ELSE IF t.kind = "exe" THEN <<Join(OutDir(q, t), t.name)>>
                      ELSE <<Join(OutDir(q, t), LibFile(t.name, ty))>>,
        \* unity build: the unity files are the (generated) sources that are compiled, the originals are `unity`
        srcs |-> IF ~compile \/ IsUnity(q, t) THEN <<>>
                 ELSE IF t.kind = "custom" THEN <<Src(t, "input")>> ELSE [k \in DOMAIN t.srcs |-> Src(t, t.srcs[k])],
        gens |-> IF compile /\ IsUnity(q, t) THEN SetToSeq(UnitySrcs(q, t))
                 ELSE IF compile /\ IsBuild(t) THEN SetToSeq(GenC(q, t) \cup GenListC(q, t)) ELSE <<>>,
        unity |-> IF compile /\ IsUnity(q, t) THEN [k \in DOMAIN t.srcs |-> Src(t, t.srcs[k])] ELSE <<>>, has_compile |-> compile, defined_in |-> Join(Loc(t), "meson.build"), depends |-> <<>>]
ModelTargets(q) ==
    UNION {LET t == q.targets[i]
           IN IF IsRunLike(t) THEN {}
              ELSE IF t.kind \in {"exe", "custom"} THEN {MT(q, i, "", TRUE)}
              ELSE {MT(q, i, ty, ty = "shared" \/ LibTypes(q, t) = {"static"}) : ty \in LibTypes(q, t)}
             : i \in Targets(q)}
ModelCase(q) ==
    LET g == ModelGraph(q)
        gc == [g EXCEPT !.edges = [k \in DOMAIN g.edges |-> g.edges[k] @@ [cc |-> g.edges[k].rule = "c_COMPILER"]]]
    IN [id |-> "model", p |-> q, M |-> gc, targets |-> SetToSeq(ModelTargets(q))]

IntroRelationHoldsOnModel ==
    (started /\ built = {} /\ ~Collides(p)) =>
        LET c == ModelCase(p)
            ts == {c.targets[k] : k \in DOMAIN c.targets}
        IN /\ \A t \in ts : /\ FilenamesNotProduced(c, t) = {}
                            /\ FilenamesNotExact(c, t) = {}
                            /\ ListedNotConsumed(c, t) = {}
                            /\ ConsumedNotListed(c, t) = {}
                            /\ Misclassified(c, t) = {}
                            /\ CustomSourcesWrong(c, t) = {}
           /\ TargetsVsModel(c) = {}
           /\ BbdWrong(c) = {}
\* the relation is not vacuous: dropping a source from a compiled target's view is noticed
DroppedSourceNoticed ==
    (started /\ built = {} /\ ~Collides(p)) =>
        LET c == ModelCase(p)
        IN \A k \in DOMAIN c.targets :
              (c.targets[k].type \in LinkTypes /\ c.targets[k].has_compile /\ c.targets[k].srcs # <<>>)
              => LET c2 == [c EXCEPT !.targets[k].srcs = Tail(@)]
                 IN ConsumedNotListed(c2, c2.targets[k]) # {}
=============================================================================
