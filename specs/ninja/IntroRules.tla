------------------------------- MODULE IntroRules -------------------------------
(***************************************************************************)
(* C15 rule book, part 2: what the build definition says about             *)
(*  (a) the FILE NAME of a build target, for every naming keyword          *)
(*      (docs/yaml/functions/_build_target_base.yaml name_prefix /         *)
(*      name_suffix, shared_library.yaml version / soversion /             *)
(*      darwin_versions, shared_module.yaml, executable.yaml               *)
(*      export_dynamic / implib) on the platform under test (Linux, gcc);  *)
(*  (b) the DIRECTORY an install rule puts its files in, for every way to  *)
(*      spell the directory (default, literal relative / absolute string,  *)
(*      get_option('<dir option>'), `/` and join_paths() on it,            *)
(*      get_option('prefix') + '...' ) - Installing.md, install_man.yaml,  *)
(*      install_headers.yaml, install_data.yaml, install_subdir.yaml,      *)
(*      install_emptydir.yaml, install_symlink.yaml, custom_target.yaml    *)
(*      (install_dir: one per output, `false` = not installed),            *)
(*      configure_file.yaml, Builtin-options.md "Directories".             *)
(*                                                                         *)
(* New fields of an abstract target (read through accessors; a project     *)
(* without them keeps its meaning):                                        *)
(*   npre, nsuf : "<unset>" | "<[]>" (the documented spelling of "default")*)
(*                | the literal string;  ver, sover : "" | the string;     *)
(*   idir : directory expression of install_dir: ; idirs : one expression  *)
(*   per output of a custom target (how = "false": that output is not      *)
(*   installed).                                                           *)
(* A directory expression is [how, parts]: how = "none" (keyword absent),  *)
(* "slash" (parts joined with `/`), "join" (join_paths(...)), "false";     *)
(* parts = Seq([k, v]) with k = "lit" (string), "opt" (get_option(v)),     *)
(* "cat" (`+ 'v'`, plain string concatenation).                            *)
(***************************************************************************)
EXTENDS ProjectModel

IsAbs(path) == Len(path) >= 1 /\ SubSeq(path, 1, 1) = "/"
\* the `/` operator of the language and join_paths(): an absolute right operand replaces the left one
PJoin(a, b) == IF IsAbs(b) THEN b ELSE IF b = "" THEN a ELSE IF a = "" THEN b
               ELSE IF EndsWith(a, "/") THEN a \o b ELSE a \o "/" \o b
HasSub(s, sub) == \E k \in 1..(Len(s) - Len(sub) + 1) : SubSeq(s, k, k + Len(sub) - 1) = sub

(* ---- (a) file names -------------------------------------------------------- *)

TPre(t) == IF "npre" \in DOMAIN t THEN t.npre ELSE "<unset>"
TSuf(t) == IF "nsuf" \in DOMAIN t THEN t.nsuf ELSE "<unset>"
TVer(t) == IF "ver" \in DOMAIN t THEN t.ver ELSE ""
TSover(t) == IF "sover" \in DOMAIN t THEN t.sover ELSE ""
\* "Set this to `[]`, or omit the keyword argument for the default behaviour"
KwDefault(x) == x \in {"<unset>", "<[]>"}

\* the files ("halves") a build target consists of: one, or two for a both-library
Halves(p, t) == CASE t.kind = "exe" -> {"exe"}
                  [] t.kind = "module" -> {"module"}
                  [] OTHER -> LibTypes(p, t)
DefPre(h) == IF h = "exe" THEN "" ELSE "lib"
DefSuf(h) == CASE h = "exe" -> "" [] h = "static" -> "a" [] OTHER -> "so"
\* name_prefix: "... overriding the default (only used for libraries)": for a library the given prefix is
\* used; for an executable the manual leaves open whether the keyword has an effect - both are accepted
PreChoices(t, h) == IF KwDefault(TPre(t)) THEN {DefPre(h)}
                    ELSE IF h = "exe" THEN {TPre(t), ""} ELSE {TPre(t)}
SufOf(t, h) == IF KwDefault(TSuf(t)) THEN DefSuf(h) ELSE TSuf(t)
\* version: "used to set the shared library version in the filename, such as libfoo.so.1.1.0 ... If this is
\* not specified, soversion is used instead"; shared modules and static libraries carry no version
VerPart(t, h) == IF h # "shared" THEN ""
                 ELSE IF TVer(t) # "" THEN "." \o TVer(t)
                 ELSE IF TSover(t) # "" THEN "." \o TSover(t) ELSE ""
StemName(pre, t, h) == pre \o t.name \o (IF SufOf(t, h) = "" THEN "" ELSE "." \o SufOf(t, h))
HalfNames(t, h) == {StemName(pre, t, h) \o VerPart(t, h) : pre \in PreChoices(t, h)}
\* soversion: "If this is not specified, the first part of version is used instead"
FirstPart(v) == LET dots == {k \in 1..Len(v) : SubSeq(v, k, k) = "."}
                IN IF dots = {} THEN v ELSE SubSeq(v, 1, (CHOOSE k \in dots : \A m \in dots : k <= m) - 1)
ESover(t) == IF TSover(t) # "" THEN TSover(t) ELSE IF TVer(t) # "" THEN FirstPart(TVer(t)) ELSE ""
\* "one of the aliases of the Linux shared library would be libfoo.so.4": the unversioned name and the
\* soversion name are aliases (symbolic links) of the real file, never outputs of a build statement
HalfAliases(t, h) ==
    IF h # "shared" \/ ESover(t) = "" THEN {}
    ELSE LET stem == StemName(CHOOSE pre \in PreChoices(t, h) : TRUE, t, h)
         IN ({stem \o "." \o ESover(t), stem}) \ HalfNames(t, h)
\* (the manual describes aliases for the `so` suffix only)
AliasesDefinite(t, h) == SufOf(t, h) = "so"

\* the alternatives for the introspected file sets of one abstract target: each alternative is the set of
\* file sets (one per introspected target: a both-library is two targets) the target owes
NamedChoices(p, t) ==
    IF IsRunLike(t) THEN {{}}
    ELSE IF t.kind = "custom" THEN {{OutPaths(p, t)}}
    ELSE IF t.kind = "exe" THEN {{{Join(OutDir(p, t), n)}} : n \in HalfNames(t, "exe")}
    ELSE {{{Join(OutDir(p, t), CHOOSE n \in HalfNames(t, h) : TRUE)} : h \in Halves(p, t)}}
AllNamedPaths(p, t) == UNION UNION NamedChoices(p, t)

(* ---- (b) install directories ---------------------------------------------- *)

NoDir == [how |-> "none", parts |-> <<>>]
TIdir(t) == IF "idir" \in DOMAIN t THEN t.idir ELSE NoDir
TIdirs(t) == IF "idirs" \in DOMAIN t THEN t.idirs ELSE <<>>
IDir(it) == IF "dir" \in DOMAIN it THEN it.dir ELSE NoDir
ILocale(it) == IF "locale" \in DOMAIN it THEN it.locale ELSE ""
IHsub(it) == IF "hsub" \in DOMAIN it THEN it.hsub ELSE ""
Lit(s) == [k |-> "lit", v |-> s]
Opt(s) == [k |-> "opt", v |-> s]
Cat(s) == [k |-> "cat", v |-> s]
Slash(parts) == [how |-> "slash", parts |-> parts]

\* value of a directory expression under an option valuation `vals` (a function option name -> value)
OptVal(vals, name) == IF name \in DOMAIN vals THEN vals[name] ELSE "<unknown>"
RECURSIVE EvalParts(_, _, _)
EvalParts(parts, vals, acc) ==
    IF parts = <<>> THEN acc
    ELSE LET h == Head(parts)
             s == IF h.k = "opt" THEN OptVal(vals, h.v) ELSE h.v
         IN EvalParts(Tail(parts), vals, IF h.k = "cat" THEN acc \o s ELSE PJoin(acc, s))
EvalDir(e, vals) == EvalParts(e.parts, vals, "")
\* "install_dir ... relative to the prefix"; an absolute directory is used as it is
AbsDir(e, vals) == PJoin(OptVal(vals, "prefix"), EvalDir(e, vals))

\* "destination is the destination path using placeholders for the base directories" (IDE-integration.md):
\* {X} stands for the value of directory option X, itself relative to the prefix
PlaceholderDir(ph) ==
    CASE ph \in {"libdir_shared", "libdir_static", "moduledir_shared"} -> "libdir"
      [] ph = "prefix" -> ""
      [] OTHER -> ph
KnownPlaceholders == {"prefix", "bindir", "libdir", "libdir_shared", "libdir_static", "moduledir_shared", "datadir", "jardir",
                      "includedir", "mandir", "libexecdir", "localedir", "sbindir", "sysconfdir", "localstatedir",
                      "sharedstatedir", "infodir", "licensedir"}
\* e = [ph, rest, dest]: dest is the whole destination string, ph its leading placeholder ("" = none)
ResolvedV(vals, e) ==
    IF e.ph = "" THEN PJoin(OptVal(vals, "prefix"), e.dest)
    ELSE IF PlaceholderDir(e.ph) = "" THEN PJoin(OptVal(vals, "prefix"), e.rest)
    \* (jar files go to "{datadir}/java": Installing.md / jar.yaml have no option of their own for it)
    ELSE IF e.ph = "jardir" THEN PJoin(PJoin(PJoin(OptVal(vals, "prefix"), OptVal(vals, "datadir")), "java"), e.rest)
    ELSE PJoin(PJoin(OptVal(vals, "prefix"), OptVal(vals, PlaceholderDir(e.ph))), e.rest)
\* the placeholder spelling of an expression that starts with an option and is extended with `/` only
HasPlaceholderForm(e) == e.parts # <<>> /\ e.parts[1].k = "opt" /\ \A k \in DOMAIN e.parts : e.parts[k].k # "cat"
PlaceholderForm(e, vals) ==
    LET rest == EvalParts(Tail(e.parts), vals, "")
    IN [ph |-> e.parts[1].v, rest |-> rest, dest |-> PJoin("{" \o e.parts[1].v \o "}", rest)]

(* ---- the tree `meson install` owes for an abstract project ------------------ *)

Ext(f) == LET dots == {k \in 1..Len(f) : SubSeq(f, k, k) = "."}
          IN IF dots = {} THEN "" ELSE SubSeq(f, (CHOOSE k \in dots : \A m \in dots : m <= k) + 1, Len(f))
\* install_man(locale:): "foo.fr.1 with a locale of fr, such that {mandir}/{locale}/man{num}/foo.1 becomes the
\* installed file"
StripLocale(f, loc) ==
    IF loc = "" THEN f
    ELSE LET pat == "." \o loc
             at == {k \in 1..(Len(f) - Len(pat) + 1) : SubSeq(f, k, k + Len(pat) - 1) = pat}
         IN IF at = {} THEN f
            ELSE LET k == CHOOSE x \in at : \A y \in at : x <= y
                 IN SubSeq(f, 1, k - 1) \o SubSeq(f, k + Len(pat), Len(f))
ProjName(p, sp) == IF sp = "" THEN p.name ELSE sp
\* install_dir given as the string projgen expects in the plan: "{option}/rest" stands for get_option('option') / 'rest'
LegacyDir(vals, s) ==
    IF SubSeq(s, 1, 1) # "{" THEN s
    ELSE LET close == CHOOSE k \in 1..Len(s) : SubSeq(s, k, k) = "}" /\ \A m \in 1..(k - 1) : SubSeq(s, m, m) # "}"
             name == SubSeq(s, 2, close - 1)
             rest == IF Len(s) > close + 1 THEN SubSeq(s, close + 2, Len(s)) ELSE ""
         IN PJoin(IF name = "prefix" THEN "" ELSE OptVal(vals, name), rest)
\* the directory of an install rule, relative to the prefix or absolute
RuleDir(p, vals, it) ==
    LET e == IDir(it)
    IN IF e.how # "none" THEN EvalDir(e, vals)
       ELSE IF it.install_dir # "" THEN LegacyDir(vals, it.install_dir)
       ELSE CASE it.kind = "data" -> PJoin(OptVal(vals, "datadir"), ProjName(p, it.sp))
              [] it.kind = "headers" -> PJoin(OptVal(vals, "includedir"), IHsub(it))
              [] it.kind = "subdir" -> "share/sd"      \* (projgen writes these two when no directory is given)
              [] it.kind = "symlink" -> "share/ln"
              [] it.kind = "conf" -> "share/cf"
              [] OTHER -> ""
ManDir(p, vals, it, f) ==
    IF IDir(it).how # "none" THEN EvalDir(IDir(it), vals)
    ELSE IF it.install_dir # "" THEN LegacyDir(vals, it.install_dir)
    ELSE PJoin(PJoin(OptVal(vals, "mandir"), ILocale(it)), "man" \o Ext(f))
DirName(s) == IF EndsWith(s, "/") THEN DropSuffix(s, 1) ELSE s
ItemPaths(p, vals, it) ==
    LET pre == OptVal(vals, "prefix")
        d == PJoin(pre, RuleDir(p, vals, it))
    IN CASE it.kind = "man" -> {PJoin(PJoin(pre, ManDir(p, vals, it, it.files[f])), Base(StripLocale(it.files[f], ILocale(it))))
                                  : f \in DOMAIN it.files}
         [] it.kind \in {"data", "headers"} ->
              {PJoin(d, IF it.rename # <<>> THEN it.rename[f] ELSE IF it.preserve THEN it.files[f] ELSE Base(it.files[f]))
                 : f \in DOMAIN it.files}
         [] it.kind = "subdir" ->
              {PJoin(IF it.strip THEN d ELSE PJoin(d, Base(DirName(it.files[1]))), it.files[f]) : f \in 2..Len(it.files)}
         [] it.kind = "emptydir" ->
              IF IDir(it).how # "none" THEN {PJoin(pre, EvalDir(IDir(it), vals)) \o "/"}
              ELSE {PJoin(pre, it.files[f]) \o "/" : f \in DOMAIN it.files}
         [] it.kind = "symlink" -> {PJoin(d, it.files[1])}
         [] it.kind = "conf" -> {PJoin(d, it.files[1])}
         [] OTHER -> {}
\* installed targets: "executables in bindir, libraries in libdir" (Installing.md) unless install_dir: says otherwise
TargetDir(vals, t, h) ==
    IF TIdir(t).how # "none" THEN EvalDir(TIdir(t), vals)
    ELSE OptVal(vals, IF h = "exe" THEN "bindir" ELSE "libdir")
CustomDirs(t) ==   \* the directory expression of output k of an installed custom target
    [k \in DOMAIN t.outs |->
        IF TIdirs(t) = <<>> THEN Slash(<<Lit("share/ct")>>)   \* (projgen's default for installed custom targets)
        ELSE IF Len(TIdirs(t)) = 1 THEN TIdirs(t)[1] ELSE TIdirs(t)[k]]
TargetMust(p, vals, t) ==
    LET pre == OptVal(vals, "prefix")
    IN IF ~t.install \/ IsRunLike(t) THEN {}
       ELSE IF t.kind = "custom"
       THEN {PJoin(PJoin(pre, EvalDir(CustomDirs(t)[k], vals)), t.outs[k]) : k \in {j \in DOMAIN t.outs : CustomDirs(t)[j].how # "false"}}
       ELSE UNION {LET d == PJoin(pre, TargetDir(vals, t, h))
                   IN (IF Cardinality(HalfNames(t, h)) = 1 THEN {PJoin(d, n) : n \in HalfNames(t, h)} ELSE {})
                      \cup (IF AliasesDefinite(t, h) THEN {PJoin(d, a) : a \in HalfAliases(t, h)} ELSE {})
                     : h \in Halves(p, t)}
TargetMay(p, vals, t) ==
    LET pre == OptVal(vals, "prefix")
    IN IF ~t.install \/ IsRunLike(t) \/ t.kind = "custom" THEN {}
       ELSE UNION {LET d == PJoin(pre, TargetDir(vals, t, h))
                   IN {PJoin(d, n) : n \in HalfNames(t, h) \cup HalfAliases(t, h)} : h \in Halves(p, t)}
PModelTree(p) == "model_tree" \in DOMAIN p /\ p.model_tree
ModelTreeMust(p, vals) ==
    UNION {ItemPaths(p, vals, p.installs[k]) : k \in DOMAIN p.installs}
    \cup UNION {TargetMust(p, vals, p.targets[i]) : i \in DOMAIN p.targets}
ModelTreeMay(p, vals) == ModelTreeMust(p, vals) \cup UNION {TargetMay(p, vals, p.targets[i]) : i \in DOMAIN p.targets}
=============================================================================
