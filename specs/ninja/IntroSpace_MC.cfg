SPECIFICATION Spec
CONSTANTS Rots = {0, 1, 2, 3, 4, 5}
INVARIANT DefaultNamingAgrees
INVARIANT EmptyListIsDefault
INVARIANT VersionLaw
INVARIANT RelationOnFaithfulView
INVARIANT RelationNoticesOtherName
INVARIANT PlaceholderResolutionCoherent
INVARIANT AbsoluteIgnoresPrefix
INVARIANT LibdirPlaceholders
INVARIANT InstallProjectWellFormed
INVARIANT NamingProjectWellFormed
CHECK_DEADLOCK FALSE
POSTCONDITION Export
