----------------------------- MODULE IntroSpace_MC -----------------------------
(***************************************************************************)
(* Model check for C15, part 2 (IntroRules): the bounded SPACE of          *)
(*  - naming rows: every build target kind x name_prefix form x            *)
(*    name_suffix form x version x soversion (plus the keywords that must  *)
(*    not change a name on this platform: darwin_versions, export_dynamic, *)
(*    implib), and                                                         *)
(*  - install rows: every install rule kind x every spelling of the        *)
(*    directory x main project / subproject, under several option          *)
(*    valuations (relative / absolute directory options, odd prefix).      *)
(* TLC checks the laws of the rule book on every row, assembles the rows   *)
(* into abstract projects (every row at a rotating location: root,         *)
(* subdirectory, subproject; with / without build_subdir; installed or     *)
(* not), checks that these projects are well formed (no two rows share a   *)
(* file or a destination) and exports them for binding (A).                *)
(***************************************************************************)
EXTENDS IntroConsistent, Json, IOUtils
CONSTANTS Rots           \* rotations of the row -> location assignment that are exported

(* ---- naming rows ----------------------------------------------------------- *)
PreVals == {"<unset>", "<[]>", "", "pre-"}
SufVals == {"<unset>", "<[]>", "sfx"}
VerVals == {"", "1.2.3"}
SoverVals == {"", "4"}
NRow(kind, npre, nsuf, ver, sover, also) == [kind |-> kind, npre |-> npre, nsuf |-> nsuf, ver |-> ver, sover |-> sover, also |-> also]
NamingRows ==
    {NRow(k, a, b, "", "", "") : k \in {"exe", "static", "module"}, a \in PreVals, b \in SufVals}
    \cup {NRow("shared", a, b, v, s, "") : a \in PreVals, b \in SufVals, v \in VerVals, s \in SoverVals}
    \* (a both-library with one name_suffix for both halves is not generated: the manual is silent on it)
    \cup {NRow(k, a, b, v, s, "") : k \in {"both", "lib"}, a \in PreVals, b \in {"<unset>", "<[]>"}, v \in VerVals, s \in SoverVals}
    \* keywords that do not change a file name on this platform
    \cup {NRow("shared", "<unset>", "<unset>", v, "", "darwin_versions") : v \in VerVals}
    \cup {NRow("exe", a, "<unset>", "", "", x) : a \in {"<unset>", "pre-"}, x \in {"export_dynamic", "implib"}}

Locs3 == <<[subdir |-> "", sp |-> ""], [subdir |-> "sub", sp |-> ""], [subdir |-> "", sp |-> "sp1"]>>
NT(row, k, rot) ==
    LET loc == Locs3[((k + rot) % 3) + 1]
        nm == "n" \o ToString(k)
    IN [kind |-> row.kind, name |-> nm, subdir |-> loc.subdir, sp |-> loc.sp, srcs |-> <<nm \o ".c">>, gen |-> <<>>, genidx |-> <<>>,
        genlist |-> <<>>, link |-> <<>>, bbd |-> IF (k + rot) % 7 = 0 THEN "false" ELSE "unset",
        install |-> (k + rot) % 4 = 0, outs |-> <<>>, deps |-> <<>>, objs |-> <<>>,
        bsub |-> IF ((k + rot) \div 3) % 2 = 0 THEN "" ELSE "bin",
        npre |-> row.npre, nsuf |-> row.nsuf, ver |-> row.ver, sover |-> row.sover, also |-> row.also,
        idir |-> NoDir, idirs |-> <<>>]
RowSeq == SetToSeq(NamingRows)
NRows == Len(RowSeq)
NTest(name, exe, depends) ==
    [name |-> name, exe |-> exe, depends |-> depends, args |-> <<>>, sargs |-> <<>>, bench |-> FALSE, suite |-> <<>>,
     env |-> <<>>, sp |-> "", script |-> ""]
NamingProject(layout, deflib, rot) ==
    LET raw == [k \in 1..NRows |-> NT(RowSeq[k], k, rot)]
        ids == [k \in 1..NRows |-> k]
        InSp(k) == raw[k].sp # ""
        InRoot(k) == raw[k].sp = "" /\ raw[k].subdir = ""
        InSub(k) == raw[k].sp = "" /\ raw[k].subdir # ""
        order == SelectSeq(ids, InSp) \o SelectSeq(ids, InRoot) \o SelectSeq(ids, InSub)
        ts == [j \in 1..NRows |-> raw[order[j]]]
        exes == {j \in 1..NRows : ts[j].kind = "exe"}
        \* every executable is a test that depends on two other rows (so that `meson test <selection>` has to ask
        \* for their files by the introspected name)
        tests == [i \in 1..Cardinality(exes) |->
                    LET j == CHOOSE x \in exes : Cardinality({y \in exes : y < x}) = i - 1
                    IN NTest("t" \o ToString(j), j, <<(j % NRows) + 1, ((j + 5) % NRows) + 1>>)]
    IN [name |-> "naming", lang |-> "c", layout |-> layout, deflib |-> deflib, targets |-> ts, tests |-> tests,
        unity |-> "off", unity_size |-> 4, conf |-> <<>>, options |-> <<>>, installs |-> <<>>, model_tree |-> TRUE]

\* the view of a row a faithful generator owes: a compile statement, a link / archive statement per half, one
\* introspected target per half
RowCase(p, t, names) ==   \* names: half -> file name
    LET hs == SetToSeq(Halves(p, t))
        obj == Join(OutDir(p, t), t.name \o ".p/" \o t.name \o ".c.o")
        cc == [rule |-> "c_COMPILER", ins |-> <<"../src/" \o t.name \o ".c">>, imp |-> <<>>, ord |-> <<>>, outs |-> <<obj>>,
               iouts |-> <<>>, cc |-> TRUE]
        ln(h) == [rule |-> IF h = "static" THEN "STATIC_LINKER" ELSE "c_LINKER", ins |-> <<obj>>, imp |-> <<>>, ord |-> <<>>,
                  outs |-> <<Join(OutDir(p, t), names[h])>>, iouts |-> <<>>, cc |-> FALSE]
        es == <<cc>> \o [k \in DOMAIN hs |-> ln(hs[k])]
    IN [id |-> "row", p |-> p,
        M |-> [rules |-> <<"c_COMPILER", "c_LINKER", "STATIC_LINKER">>, dup_rules |-> <<>>, pools |-> <<>>, edges |-> es,
               edge_pools |-> [k \in DOMAIN es |-> ""], defaults |-> <<>>, errors |-> <<>>],
        targets |-> [k \in DOMAIN hs |->
            [id |-> t.name \o "@" \o hs[k], name |-> t.name, type |-> "executable", sp |-> t.sp, bbd |-> TRUE, installed |-> FALSE,
             filenames |-> <<Join(OutDir(p, t), names[hs[k]])>>, srcs |-> IF k = 1 THEN <<"../src/" \o t.name \o ".c">> ELSE <<>>,
             gens |-> <<>>, unity |-> <<>>, has_compile |-> k = 1, defined_in |-> "meson.build", depends |-> <<>>]]]

(* ---- install rows ---------------------------------------------------------- *)
DirOpts == <<"datadir", "libdir", "includedir", "mandir", "bindir", "sysconfdir", "libexecdir", "localedir", "sbindir">>
OptFor(k) == DirOpts[(k % Len(DirOpts)) + 1]
Spellings == {"default", "rel", "abs", "opt", "optsub", "prefcat", "join", "prefopt", "optcat"}
\* the directory expression of spelling s for row k (k keeps all destinations apart)
DirExpr(s, k) ==
    LET n == ToString(k)
    IN CASE s = "default" -> NoDir
         [] s = "rel" -> Slash(<<Lit("share/r" \o n)>>)
         [] s = "abs" -> Slash(<<Lit("/abs/a" \o n)>>)
         [] s = "opt" -> Slash(<<Opt(OptFor(k))>>)
         [] s = "optsub" -> Slash(<<Opt(OptFor(k)), Lit("s" \o n)>>)
         [] s = "prefcat" -> Slash(<<Opt("prefix"), Cat("/pc" \o n)>>)
         [] s = "join" -> [how |-> "join", parts |-> <<Opt(OptFor(k)), Lit("j" \o n)>>]
         [] s = "prefopt" -> Slash(<<Opt("prefix"), Opt(OptFor(k)), Lit("po" \o n)>>)
         [] s = "optcat" -> Slash(<<Opt(OptFor(k)), Cat("/oc" \o n)>>)
RuleKinds == {"man", "manloc", "headers", "hsub", "hpres", "data", "drename", "dpres", "subdir", "sstrip", "emptydir",
              "symlink", "conf", "exe", "shared", "static", "c1", "cmulti", "cper", "cfalse"}
\* rules with a documented default directory; the others require the directory
HasDefault(rk) == rk \in {"man", "manloc", "headers", "hsub", "hpres", "data", "dpres", "exe", "shared", "static"}
RowOK(rk, s) ==
    /\ (s = "default" => HasDefault(rk))
    /\ (rk = "hsub" => s = "default")                \* install_headers(subdir:) is "incompatible with install_dir"
    /\ (rk = "emptydir" => s \notin {"opt"})          \* (a whole option directory is never empty here)
IRow(rk, s, sp) == [rk |-> rk, s |-> s, sp |-> sp]
InstallRows == {r \in [rk : RuleKinds, s : Spellings, sp : {"", "sp1"}] : RowOK(r.rk, r.s)}
IRowSeq == SetToSeq(InstallRows)
NIRows == Len(IRowSeq)
IsTargetRow(r) == r.rk \in {"exe", "shared", "static", "c1", "cmulti", "cper", "cfalse"}
Item(kind, sp, files, dir) ==
    [kind |-> kind, subdir |-> "", sp |-> sp, files |-> files, install_dir |-> "", tag |-> "", rename |-> <<>>, strip |-> FALSE,
     preserve |-> FALSE, dir |-> dir, locale |-> "", hsub |-> ""]
ItemOf(r, k) ==
    LET n == ToString(k)
        d == DirExpr(r.s, k)
    IN CASE r.rk = "man" -> Item("man", r.sp, <<"m" \o n \o ".1", "m" \o n \o "b.1">>, d)
         [] r.rk = "manloc" -> [Item("man", r.sp, <<"l" \o n \o ".fr.2">>, d) EXCEPT !.locale = "fr"]
         [] r.rk = "headers" -> Item("headers", r.sp, <<"h" \o n \o ".h">>, d)
         [] r.rk = "hsub" -> [Item("headers", r.sp, <<"hs" \o n \o ".h">>, d) EXCEPT !.hsub = "inc" \o n]
         [] r.rk = "hpres" -> [Item("headers", r.sp, <<"hp" \o n \o ".h", "one/hp" \o n \o ".h", "one/two/hp" \o n \o ".h">>, d)
                                 EXCEPT !.preserve = TRUE]
         [] r.rk = "data" -> Item("data", r.sp, <<"d" \o n \o ".txt", "d" \o n \o " b.dat">>, d)
         [] r.rk = "drename" -> [Item("data", r.sp, <<"dr" \o n \o ".txt">>, d) EXCEPT !.rename = <<"renamed" \o n \o ".dat">>]
         [] r.rk = "dpres" -> [Item("data", r.sp, <<"dp" \o n \o ".txt", "one/dp" \o n \o ".txt">>, d) EXCEPT !.preserve = TRUE]
         [] r.rk = "subdir" -> Item("subdir", r.sp, <<"sd" \o n, "f" \o n \o ".txt", "sub/g" \o n \o ".txt">>, d)
         [] r.rk = "sstrip" -> [Item("subdir", r.sp, <<"ss" \o n \o "/", "fs" \o n \o ".txt", "sub" \o n \o "/gs.txt">>, d) EXCEPT !.strip = TRUE]
         [] r.rk = "emptydir" -> Item("emptydir", r.sp, <<"empty" \o n>>,
                                      \* the directory itself is the argument: <spelled directory> / 'empty<n>'
                                      IF d.how = "none" THEN d ELSE [d EXCEPT !.parts = @ \o <<Lit("empty" \o n)>>])
         [] r.rk = "symlink" -> Item("symlink", r.sp, <<"ln" \o n, "../target" \o n>>, d)
         [] r.rk = "conf" -> Item("conf", r.sp, <<"cf" \o n \o ".out">>, d)
IT(r, k) ==
    LET n == ToString(k)
        d == DirExpr(r.s, k)
        d2 == IF d.how = "none" THEN d ELSE [d EXCEPT !.parts = @ \o <<Lit("second")>>]
        base == [kind |-> "custom", name |-> "ct" \o n, subdir |-> "", sp |-> r.sp, srcs |-> <<>>, gen |-> <<>>, genidx |-> <<>>,
                 genlist |-> <<>>, link |-> <<>>, bbd |-> "unset", install |-> TRUE, outs |-> <<>>, deps |-> <<>>, objs |-> <<>>,
                 bsub |-> "", npre |-> "<unset>", nsuf |-> "<unset>", ver |-> "", sover |-> "", also |-> "", idir |-> NoDir,
                 idirs |-> <<>>]
    IN CASE r.rk = "exe" -> [base EXCEPT !.kind = "exe", !.name = "ie" \o n, !.srcs = <<"ie" \o n \o ".c">>, !.idir = d]
         [] r.rk = "shared" -> [base EXCEPT !.kind = "shared", !.name = "ih" \o n, !.srcs = <<"ih" \o n \o ".c">>, !.idir = d,
                                           !.ver = "2.5.0"]
         [] r.rk = "static" -> [base EXCEPT !.kind = "static", !.name = "ia" \o n, !.srcs = <<"ia" \o n \o ".c">>, !.idir = d]
         [] r.rk = "c1" -> [base EXCEPT !.outs = <<"c" \o n \o ".txt">>, !.idirs = <<d>>]
         [] r.rk = "cmulti" -> [base EXCEPT !.outs = <<"cm" \o n \o "a.txt", "cm" \o n \o "b.txt">>, !.idirs = <<d>>]
         [] r.rk = "cper" -> [base EXCEPT !.outs = <<"cp" \o n \o "a.txt", "cp" \o n \o "b.txt">>, !.idirs = <<d, d2>>]
         [] r.rk = "cfalse" -> [base EXCEPT !.outs = <<"cx" \o n \o "a.txt", "cx" \o n \o "b.txt">>,
                                            !.idirs = <<d, [how |-> "false", parts |-> <<>>]>>]
InstallProject ==
    LET ids == [k \in 1..NIRows |-> k]
        TSp(k) == IsTargetRow(IRowSeq[k]) /\ IRowSeq[k].sp # ""
        TMain(k) == IsTargetRow(IRowSeq[k]) /\ IRowSeq[k].sp = ""
        NotT(k) == ~IsTargetRow(IRowSeq[k])
        torder == SelectSeq(ids, TSp) \o SelectSeq(ids, TMain)
        iorder == SelectSeq(ids, NotT)
    IN [name |-> "inst", lang |-> "c", layout |-> "mirror", deflib |-> "shared",
        targets |-> [j \in DOMAIN torder |-> IT(IRowSeq[torder[j]], torder[j])], tests |-> <<>>,
        unity |-> "off", unity_size |-> 4, conf |-> <<>>, options |-> <<>>,
        installs |-> [j \in DOMAIN iorder |-> ItemOf(IRowSeq[iorder[j]], iorder[j])], model_tree |-> TRUE]

\* option valuations the laws are checked under (the binding configures the real project with some of them)
V(prefix, datadir, libdir, includedir, mandir, sysconfdir) ==
    [prefix |-> prefix, datadir |-> datadir, libdir |-> libdir, includedir |-> includedir, mandir |-> mandir,
     bindir |-> "bin", sysconfdir |-> sysconfdir, libexecdir |-> "libexec", localedir |-> "share/locale", sbindir |-> "sbin"]
Valuations == {V("/usr/local", "share", "lib/x86_64-linux-gnu", "include", "share/man", "etc"),
               V("/usr/zz", "share/dd", "/usr/zz/abs/lib", "include", "share/man", "/etc"),
               V("/opt/p q", "share", "lib", "inc/x", "man", "etc")}

(* ---- state space: one state per row (x valuation) ----------------------------- *)
VARIABLES what, nrow, irow, val
vars == <<what, nrow, irow, val>>
AnyNRow == CHOOSE r \in NamingRows : TRUE
AnyIRow == CHOOSE r \in InstallRows : TRUE
AnyVal == CHOOSE v \in Valuations : TRUE
Init == \/ what = "naming" /\ nrow \in NamingRows /\ irow = AnyIRow /\ val = AnyVal
        \/ what = "install" /\ irow \in InstallRows /\ nrow = AnyNRow /\ val \in Valuations
        \/ what = "projects" /\ irow = AnyIRow /\ nrow = AnyNRow /\ val \in Valuations
Next == UNCHANGED vars
Spec == Init /\ [][Next]_vars

P1(deflib) == [name |-> "row", lang |-> "c", layout |-> "mirror", deflib |-> deflib, targets |-> <<>>, tests |-> <<>>]
RowT == NT(nrow, 1, 0)
DefaultsOf(t) == [t EXCEPT !.npre = "<unset>", !.nsuf = "<unset>", !.ver = "", !.sover = ""]

\* with every naming keyword at its default the names are those of the reference manual's plain rule (ProjectModel)
DefaultNamingAgrees ==
    what = "naming" =>
        \A dl \in {"shared", "static", "both"} :
            UNION UNION NamedChoices(P1(dl), DefaultsOf(RowT)) = FilePaths(P1(dl), DefaultsOf(RowT))
\* `[]` is the documented spelling of "the default"
EmptyListIsDefault ==
    what = "naming" =>
        LET u(x) == IF x = "<[]>" THEN "<unset>" ELSE x
        IN \A dl \in {"shared", "static", "both"} :
             NamedChoices(P1(dl), RowT) = NamedChoices(P1(dl), [RowT EXCEPT !.npre = u(@), !.nsuf = u(@)])
StartsWithS(s, pre) == Len(s) >= Len(pre) /\ SubSeq(s, 1, Len(pre)) = pre
\* version / soversion only extend the name of the shared half; the aliases are other names than the real file,
\* there are at most two of them, and the unversioned name is one of them whenever the file carries a version
VersionLaw ==
    what = "naming" =>
        \A dl \in {"shared", "static", "both"} : \A h \in Halves(P1(dl), RowT) :
            LET t == RowT
                plain == HalfNames([t EXCEPT !.ver = "", !.sover = ""], h)
            IN /\ (h # "shared" => HalfNames(t, h) = plain /\ HalfAliases(t, h) = {})
               /\ \A n \in HalfNames(t, h) : \E q \in plain : StartsWithS(n, q)
               /\ HalfAliases(t, h) \cap HalfNames(t, h) = {}
               /\ Cardinality(HalfAliases(t, h)) <= 2
               /\ (h = "shared" /\ VerPart(t, h) # "" => plain \subseteq HalfAliases(t, h))
               /\ (h = "shared" /\ t.ver = "" /\ t.sover = "" => HalfAliases(t, h) = {} /\ HalfNames(t, h) = plain)
               \* "libfoo.so.1.1.0"; "If this is not specified, soversion is used instead"
               /\ (h = "shared" /\ t.ver # "" => \A n \in HalfNames(t, h) : EndsWith(n, "." \o t.ver))
               /\ (h = "shared" /\ t.ver = "" /\ t.sover # "" => \A n \in HalfNames(t, h) : EndsWith(n, "." \o t.sover))
\* the relation holds on the view a faithful generator produces for the row, whichever permitted name it uses ...
NameFuns(p, t) == [Halves(p, t) -> UNION {HalfNames(t, h) : h \in Halves(p, t)}]
FaithfulFuns(p, t) == {f \in NameFuns(p, t) : \A h \in Halves(p, t) : f[h] \in HalfNames(t, h)}
RelationOnFaithfulView ==
    what = "naming" =>
        \A dl \in {"shared", "both"} : \A f \in FaithfulFuns(P1(dl), RowT) :
            LET p == [P1(dl) EXCEPT !.targets = <<RowT>>]
                c == RowCase(p, RowT, f)
            IN /\ \A k \in DOMAIN c.targets : FilenamesNotProduced(c, c.targets[k]) = {} /\ FilenamesNotExact(c, c.targets[k]) = {}
               /\ LinkOutputsUnclaimed(c) = {}
               /\ TargetsVsModel(c) = {}
\* ... and is not vacuous: an introspection that names a file differently from the link statement (without the
\* prefix, without the version, with the default suffix) is reported in BOTH directions
Perturbed(t, h, n) == {t.name \o (IF SufOf(t, h) = "" THEN "" ELSE "." \o SufOf(t, h)) \o VerPart(t, h),
                       StemName(CHOOSE x \in PreChoices(t, h) : TRUE, t, h),
                       n \o ".x"} \ {n}
RelationNoticesOtherName ==
    what = "naming" =>
        \A dl \in {"shared", "both"} : \A f \in FaithfulFuns(P1(dl), RowT) :
            LET p == [P1(dl) EXCEPT !.targets = <<RowT>>]
                c == RowCase(p, RowT, f)
            IN \A k \in DOMAIN c.targets :
                 LET h == SetToSeq(Halves(p, RowT))[k]
                 IN \A other \in Perturbed(RowT, h, f[h]) :
                      LET c2 == [c EXCEPT !.targets[k].filenames = <<Join(OutDir(p, RowT), other)>>]
                      IN /\ FilenamesNotProduced(c2, c2.targets[k]) # {}
                         /\ LinkOutputsUnclaimed(c2) # {}

\* install: the placeholder spelling of a directory ("{datadir}/x") resolves, for every valuation (relative and
\* absolute option values), to the directory the expression evaluates to
PlaceholderResolutionCoherent ==
    what = "install" =>
        \A k \in 0..8 :
            LET e == DirExpr(irow.s, k)
            IN HasPlaceholderForm(e) => ResolvedV(val, PlaceholderForm(e, val)) = AbsDir(e, val)
\* the placeholders of the default target directories stand for libdir ("{libdir_shared}/libsomelib.so")
LibdirPlaceholders ==
    what = "install" =>
        \A ph \in {"libdir_shared", "libdir_static", "moduledir_shared", "libdir"} :
            ResolvedV(val, [ph |-> ph, rest |-> "x/y.so", dest |-> "{" \o ph \o "}/x/y.so"])
                = AbsDir(Slash(<<Opt("libdir"), Lit("x/y.so")>>), val)
\* an absolute directory ignores the prefix; a relative one lies below it
AbsoluteIgnoresPrefix ==
    what = "install" =>
        LET e == DirExpr(irow.s, 3)
        IN e.how # "none" =>
             IF IsAbs(EvalDir(e, val)) THEN AbsDir(e, val) = EvalDir(e, val)
             ELSE AbsDir(e, val) = val.prefix \o "/" \o EvalDir(e, val)
\* the assembled projects are well formed: no two rows share a destination (under every valuation) or a file
RECURSIVE SumCard(_, _)
SumCard(f, n) == IF n = 0 THEN 0 ELSE Cardinality(f[n]) + SumCard(f, n - 1)
InstallProjectWellFormed ==
    what = "projects" =>
        LET p == InstallProject
            per == [k \in DOMAIN p.installs |-> ItemPaths(p, val, p.installs[k])]
            pert == [i \in DOMAIN p.targets |-> TargetMust(p, val, p.targets[i])]
        IN /\ SumCard(per, Len(per)) + SumCard(pert, Len(pert)) = Cardinality(ModelTreeMust(p, val))
           /\ ModelTreeMust(p, val) = ModelTreeMay(p, val)
           /\ \A x \in ModelTreeMust(p, val) : IsAbs(x)
NamingProjectWellFormed ==
    (what = "projects" /\ val = AnyVal) =>
        \A l \in {"mirror", "flat"} : \A dl \in {"shared", "static", "both"} : \A rot \in Rots :
            LET p == NamingProject(l, dl, rot)
            IN /\ \A i, j \in DOMAIN p.targets : i < j => AllNamedPaths(p, p.targets[i]) \cap AllNamedPaths(p, p.targets[j]) = {}
               \* realizable for projgen: subproject targets first, one run per directory, test references in range
               /\ \A i, j \in DOMAIN p.targets : (i < j /\ p.targets[j].sp # "") => p.targets[i].sp # ""
               /\ \A k \in DOMAIN p.tests : p.targets[p.tests[k].exe].kind = "exe"
                                           /\ \A d \in Rng(p.tests[k].depends) : d \in DOMAIN p.targets

Export == TLCGet("stats").diameter >= 0 /\
          JsonSerialize("space.json",
              [naming |-> LET xs == SetToSeq({<<l, dl, rot>> : l \in {"mirror", "flat"}, dl \in {"shared", "static", "both"}, rot \in Rots})
                          IN [i \in DOMAIN xs |-> [layout |-> xs[i][1], deflib |-> xs[i][2], rot |-> xs[i][3],
                                                   p |-> NamingProject(xs[i][1], xs[i][2], xs[i][3])]],
               install |-> InstallProject,
               valuations |-> SetToSeq(Valuations),
               counts |-> [naming_rows |-> NRows, install_rows |-> NIRows]])
=============================================================================
