------------------------------ MODULE ManifestParts ------------------------------
(***************************************************************************)
(* The conditional parts of the manifest meson generates (C04).            *)
(*                                                                         *)
(* Sources: Running-Meson.md / Commands.md / Unit-tests.md / Installing.md *)
(* (the targets every build directory offers: all, clean, test, benchmark, *)
(* install, uninstall, dist, reconfigure; `ninja test` / `ninja install`   *)
(* build what they need first), Builtin-options.md (backend_max_links:     *)
(* "Maximum number of linker processes to run or 0 for no limit";          *)
(* b_coverage), Code-formatting.md ("When clang-format is installed and a  *)
(* .clang-format file is found at the main project's root source           *)
(* directory, Meson automatically adds a clang-format target";             *)
(* clang-format-check), Release-notes-for-0.52.0 (clang-tidy: installed    *)
(* and `.clang-tidy` in the source root), Release-notes 1.7 (clang-tidy-fix*)
(* needs clang-apply-replacements too), howtox.md (scan-build: "Install    *)
(* scan-build program, then ... ninja scan-build"), Ninja manual ("Pools", *)
(* "Rule variables": generator, deps, depfile).                            *)
(*                                                                         *)
(* cfg, the configuration a manifest was written under:                    *)
(*   max_links : Nat         backend_max_links                             *)
(*   coverage  : BOOLEAN     b_coverage                                    *)
(*   tools     : Seq(STRING) of "clang-format" "clang-tidy"                *)
(*               "clang-apply-replacements" "scan-build" found on PATH     *)
(*   dotfiles  : Seq(STRING) of "clang-format" "clang-tidy": the           *)
(*               `.clang-<x>` files present in the source root             *)
(*   tools_known : BOOLEAN   FALSE: tools / dotfiles were not controlled   *)
(*   options_known : BOOLEAN FALSE: max_links / coverage are not known     *)
(*   linkers, compilers : Seq(STRING) rule kinds that link / compile       *)
(*   depstyle  : "gcc" | "msvc"  how the compilers report header deps      *)
(***************************************************************************)
EXTENDS RuleFlavours

ManifestName == "build.ninja"
StandardTargets == {"all", "clean", "test", "benchmark", "install", "uninstall", "dist", "reconfigure", ManifestName}
MissingStandard(M) == StandardTargets \ AllOutputs(M)

\* `ninja test` / `ninja benchmark` first build what the tests run and depend on, `ninja install` what is built
\* by default
CommandNeeds == {<<"test", "meson-test-prereq">>, <<"benchmark", "meson-benchmark-prereq">>, <<"install", "all">>}
UnreachedNeeds(M) == {pr \in CommandNeeds : pr[2] \notin ReachPaths(M, {pr[1]})}

\* the manifest regenerates itself through a generator rule; exactly one statement produces it
RegenWrong(M) == IF Cardinality(ManifestEdges(M, ManifestName)) # 1 THEN {"producers"}
                 ELSE IF ~RegenIsGenerator(M, ManifestName) THEN {"generator"} ELSE {}

\* backend_max_links = N > 0: a pool of depth N, and every link statement runs in it; 0: no limit, no statement
\* is put into such a pool
LinkPool == "link_pool"
LinkStmts(M, cfg) == {e \in EdgeIds(M) : BaseName(M.edges[e].rule) \in Rng(cfg.linkers)}
LinkPoolWrong(M, cfg) ==
    IF ~cfg.options_known THEN {}
    ELSE IF cfg.max_links > 0
    THEN (IF LinkStmts(M, cfg) # {} /\ ~(PoolDeclared(M, LinkPool) /\ PoolDepth(M, LinkPool) = cfg.max_links)
          THEN {LinkPool} ELSE {})
         \cup {M.edges[e].rule : e \in {x \in LinkStmts(M, cfg) : M.edge_pools[x] # LinkPool}}
    ELSE {M.edges[e].rule : e \in {x \in EdgeIds(M) : M.edge_pools[x] = LinkPool}}

\* b_coverage: the cleaners of the coverage data exist exactly then, and `clean` runs them
CoverageCleaners == {"clean-gcda", "clean-gcno"}
CleanIns(M) == UNION {Ins(M, e) : e \in ReachEdges(M, {"clean"}, {})}
CoverageWrong(M, cfg) ==
    IF ~cfg.options_known THEN {}
    ELSE IF cfg.coverage THEN (CoverageCleaners \ AllOutputs(M)) \cup (CoverageCleaners \ CleanIns(M))
    ELSE CoverageCleaners \cap (AllOutputs(M) \cup AllInputs(M))

\* tool targets exist exactly when the tool is installed (and configured by its dot file)
Has(seq, x) == x \in Rng(seq)
ToolTargets(cfg) ==
    (IF Has(cfg.tools, "clang-format") /\ Has(cfg.dotfiles, "clang-format") THEN {"clang-format", "clang-format-check"} ELSE {})
    \cup (IF Has(cfg.tools, "clang-tidy") /\ Has(cfg.dotfiles, "clang-tidy")
          THEN {"clang-tidy"} \cup (IF Has(cfg.tools, "clang-apply-replacements") THEN {"clang-tidy-fix"} ELSE {})
          ELSE {})
    \cup (IF Has(cfg.tools, "scan-build") THEN {"scan-build"} ELSE {})
AllToolTargets == {"clang-format", "clang-format-check", "clang-tidy", "clang-tidy-fix", "scan-build"}
ToolTargetsWrong(M, cfg) ==
    IF ~cfg.tools_known THEN {}
    ELSE (ToolTargets(cfg) \ AllOutputs(M)) \cup ((AllToolTargets \ ToolTargets(cfg)) \cap AllOutputs(M))

\* every compile statement tracks header dependencies the way its compiler reports them
CompileStmts(M, cfg) == {e \in DOMAIN EdgeMeta(M) : e \in EdgeIds(M) /\ BaseName(M.edges[e].rule) \in Rng(cfg.compilers)}
CompilerDepsWrong(M, cfg) ==
    {M.edges[e].rule : e \in {x \in CompileStmts(M, cfg) :
        \/ EdgeMeta(M)[x].deps # cfg.depstyle
        \/ (cfg.depstyle = "gcc") # (EdgeMeta(M)[x].depfile # "")}}

PartsWellFormed(M, cfg) ==
    /\ MissingStandard(M) = {} /\ UnreachedNeeds(M) = {} /\ RegenWrong(M) = {}
    /\ LinkPoolWrong(M, cfg) = {} /\ CoverageWrong(M, cfg) = {} /\ ToolTargetsWrong(M, cfg) = {}
    /\ CompilerDepsWrong(M, cfg) = {} /\ DepsConsistent(M) /\ DepfilesUnique(M) /\ FlavoursAgree(M)

(* ---- generator model: the parts a correct writer adds for cfg -------------- *)
\* (one compile statement, one link statement, the standard targets; names only - enough to check that the
\*  laws above are satisfiable together for every cfg and that each of them is tight)
PE(rule, ins, imp, outs) == [rule |-> rule, ins |-> ins, imp |-> imp, ord |-> <<>>, outs |-> outs, iouts |-> <<>>]
Cmd(name, imp) == <<PE("phony", <<"meson-internal__" \o name>>, <<>>, <<name>>),
                    PE("CUSTOM_COMMAND", <<"PHONY">>, imp, <<"meson-internal__" \o name>>)>>
RECURSIVE Cmds(_)
Cmds(names) == IF names = <<>> THEN <<>> ELSE Cmd(Head(names), <<>>) \o Cmds(Tail(names))
PartsEdges(cfg) ==
    <<PE("c_COMPILER", <<"@src/m.c">>, <<>>, <<"m.p/m.c.o">>), PE("c_LINKER", <<"m.p/m.c.o">>, <<>>, <<"m">>),
      PE("phony", <<"m">>, <<>>, <<"all">>), PE("phony", <<>>, <<>>, <<"meson-test-prereq">>),
      PE("phony", <<>>, <<>>, <<"meson-benchmark-prereq">>), PE("phony", <<>>, <<>>, <<"PHONY">>),
      PE("REGENERATE_BUILD", <<"@src/meson.build">>, <<>>, <<ManifestName>>),
      PE("REGENERATE_BUILD", <<"PHONY">>, <<>>, <<"reconfigure">>)>>
    \o Cmd("test", <<"all", "meson-test-prereq">>) \o Cmd("benchmark", <<"all", "meson-benchmark-prereq">>)
    \o Cmd("install", <<"all">>) \o Cmd("uninstall", <<>>) \o Cmd("dist", <<>>)
    \o Cmd("clean", <<"clean-ctlist">> \o (IF cfg.coverage THEN SetToSeq(CoverageCleaners) ELSE <<>>))
    \o Cmds(<<"clean-ctlist">> \o (IF cfg.coverage THEN SetToSeq(CoverageCleaners) ELSE <<>>) \o SetToSeq(ToolTargets(cfg)))
PartsRules == <<"c_COMPILER", "c_LINKER", "CUSTOM_COMMAND", "REGENERATE_BUILD">>
PartsManifest(cfg) ==
    LET es == PartsEdges(cfg)
        isLink(e) == es[e].rule = "c_LINKER"
    IN [rules |-> PartsRules, dup_rules |-> <<>>,
        pools |-> <<"console">> \o (IF cfg.max_links > 0 THEN <<LinkPool>> ELSE <<>>),
        pool_depths |-> <<1>> \o (IF cfg.max_links > 0 THEN <<cfg.max_links>> ELSE <<>>),
        edges |-> es,
        edge_pools |-> [e \in DOMAIN es |-> IF isLink(e) /\ cfg.max_links > 0 THEN LinkPool ELSE ""],
        edge_rsp |-> [e \in DOMAIN es |-> [file |-> FALSE, content |-> FALSE, used |-> FALSE, cmdlen |-> 1, rsplen |-> 0]],
        edge_meta |-> [e \in DOMAIN es |->
            [deps |-> IF es[e].rule = "c_COMPILER" THEN cfg.depstyle ELSE "",
             depfile |-> IF es[e].rule = "c_COMPILER" /\ cfg.depstyle = "gcc" THEN es[e].outs[1] \o ".d" ELSE "",
             generator |-> es[e].rule = "REGENERATE_BUILD", restat |-> FALSE]],
        rule_meta |-> [k \in DOMAIN PartsRules |->
            [name |-> PartsRules[k], deps |-> "", depfile |-> "", restat |-> "", generator |-> "", pool |-> "", description |-> ""]],
        defaults |-> <<"all">>, errors |-> <<>>]
PartsExists == {"@src/m.c", "@src/meson.build"}
=============================================================================
