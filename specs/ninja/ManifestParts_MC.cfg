SPECIFICATION Spec
CONSTANTS MaxLinks = 2
INVARIANT ModelSatisfies
INVARIANT Discriminating
INVARIANT NoDotFileNoTarget
CHECK_DEADLOCK FALSE
POSTCONDITION EmitFamily
