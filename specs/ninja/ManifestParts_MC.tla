---------------------------- MODULE ManifestParts_MC ----------------------------
(***************************************************************************)
(* Model: every configuration cfg of the conditional parts                 *)
(* (backend_max_links 0..2, b_coverage, every set of installed tools,      *)
(* every set of dot files, gcc / msvc dependency style).                   *)
(*  - ModelSatisfies: the manifest the generator model writes for cfg      *)
(*    satisfies every law of ManifestParts and is WellFormed (closed: the  *)
(*    cleaners `clean` depends on are written, ...);                       *)
(*  - Discriminating: the laws are tight - the manifest written for a      *)
(*    neighbouring configuration (one option / tool / dot file changed) is *)
(*    accepted for cfg only if it is the same manifest;                    *)
(*  - the configurations are exported for the binding of C04.              *)
(***************************************************************************)
EXTENDS ManifestParts, TLC, Json, IOUtils
CONSTANTS MaxLinks

Tools == {"clang-format", "clang-tidy", "clang-apply-replacements", "scan-build"}
DotFiles == {"clang-format", "clang-tidy"}
Cfg(n, cov, ts, ds, st) ==
    [max_links |-> n, coverage |-> cov, tools |-> SetToSeq(ts), dotfiles |-> SetToSeq(ds), tools_known |-> TRUE, options_known |-> TRUE,
     linkers |-> <<"c_LINKER", "STATIC_LINKER">>, compilers |-> <<"c_COMPILER">>, depstyle |-> st]
Cfgs == {Cfg(n, cov, ts, ds, st) : n \in 0..MaxLinks, cov \in BOOLEAN, ts \in SUBSET Tools, ds \in SUBSET DotFiles,
                                   st \in {"gcc", "msvc"}}

VARIABLES cfg
Init == cfg \in Cfgs
Next == UNCHANGED cfg
Spec == Init /\ [][Next]_cfg

Toggle(S, x) == IF x \in S THEN S \ {x} ELSE S \cup {x}
Neighbours(c) ==
    {Cfg(n, c.coverage, Rng(c.tools), Rng(c.dotfiles), c.depstyle) : n \in (0..MaxLinks) \ {c.max_links}}
    \cup {Cfg(c.max_links, ~c.coverage, Rng(c.tools), Rng(c.dotfiles), c.depstyle)}
    \cup {Cfg(c.max_links, c.coverage, Toggle(Rng(c.tools), t), Rng(c.dotfiles), c.depstyle) : t \in Tools}
    \cup {Cfg(c.max_links, c.coverage, Rng(c.tools), Toggle(Rng(c.dotfiles), d), c.depstyle) : d \in DotFiles}
    \cup {Cfg(c.max_links, c.coverage, Rng(c.tools), Rng(c.dotfiles), IF c.depstyle = "gcc" THEN "msvc" ELSE "gcc")}

ModelSatisfies == LET M == PartsManifest(cfg) IN PartsWellFormed(M, cfg) /\ WellFormed(M, PartsExists)
Discriminating ==
    \A c2 \in Neighbours(cfg) :
        PartsWellFormed(PartsManifest(c2), cfg) => PartsManifest(c2) = PartsManifest(cfg)
\* the tool targets depend on the tools and dot files exactly as documented: no dot file, no clang target
NoDotFileNoTarget == cfg.dotfiles = <<>> => ToolTargets(cfg) \subseteq {"scan-build"}

EmitFamily == TLCGet("stats").diameter >= 0 /\ JsonSerialize("parts_family.json", SetToSeq(Cfgs))
=============================================================================
