------------------------------ MODULE NinjaText ------------------------------
(***************************************************************************)
(* The text layer of a Ninja manifest, written from the Ninja manual        *)
(* ("Lexical syntax", "Variables", "Evaluation and scoping", "Rule          *)
(* variables") - the first decoder that stands between what meson writes    *)
(* into build.ninja and the command line a process is started with.         *)
(*                                                                          *)
(* Text is a sequence of Unicode code points (Seq(Nat)); TLC strings are    *)
(* atomic, so nothing here is a TLA+ string except clause names.            *)
(*                                                                          *)
(*   $$  -> $      $<space> -> space      $: -> :                           *)
(*   $<newline> -> nothing, and the leading blanks of the next line are     *)
(*                 skipped (line continuation: a newline can NOT be         *)
(*                 written in a Ninja value - see NoTextDenotesNewline)     *)
(*   $name   (name = [a-zA-Z0-9_-]+)    ${name} (name = [a-zA-Z0-9_.-]+)    *)
(*   any other $x is a syntax error; a bare newline ends a declaration and  *)
(*   therefore cannot occur inside one value.                               *)
(*                                                                          *)
(* Scoping (manual, "Evaluation and scoping"):                              *)
(*   - top-level bindings are expanded immediately, in file order;          *)
(*   - bindings of a build block are expanded immediately, in the scope of  *)
(*     the file;                                                            *)
(*   - bindings of a rule block are expanded late, once per build           *)
(*     statement, with the lookup order  $in/$out/$in_newline  >  build     *)
(*     block  >  rule block  >  file;  an undefined variable is empty.      *)
(*   - $in / $out are the explicit inputs / outputs, each quoted for the    *)
(*     shell, joined by blanks ($in_newline: by newlines).                  *)
(***************************************************************************)
EXTENDS Integers, Sequences

\* ---- code points --------------------------------------------------------
TAB == 9      NL == 10     VT == 11     FF == 12     CR == 13    SP == 32
BANG == 33    DQ == 34     HASH == 35   DOLLAR == 36 AMP == 38   SQ == 39
LPAR == 40    RPAR == 41   STAR == 42   PLUS == 43   COMMA == 44 MINUS == 45
DOT == 46     SLASH == 47  COLON == 58  SEMI == 59   LT == 60    EQ == 61
GT == 62      QMARK == 63  AT == 64     LBRACK == 91 BSL == 92   USCORE == 95
BTICK == 96   LBRACE == 123 PIPE == 124 RBRACE == 125 TILDE == 126

IsAlnum(c) == (c >= 97 /\ c <= 122) \/ (c >= 65 /\ c <= 90) \/ (c >= 48 /\ c <= 57)
IsSimpleVarChar(c) == IsAlnum(c) \/ c = USCORE \/ c = MINUS
IsBraceVarChar(c) == IsSimpleVarChar(c) \/ c = DOT

\* ---- results --------------------------------------------------------------
\* every decoder returns [err, at, t]: err = "" means success; `at' is the index of the offending
\* code point, `t' the decoded text
Ok(t) == [err |-> "", at |-> 0, t |-> t]
Bad(m, i) == [err |-> m, at |-> i, t |-> <<>>]

RECURSIVE Cat(_, _, _)
\* concatenation of a sequence of texts with a separator text
Cat(ts, sep, k) == IF k > Len(ts) THEN <<>>
                   ELSE IF k = Len(ts) THEN ts[k]
                   ELSE ts[k] \o sep \o Cat(ts, sep, k + 1)
Join(ts, sep) == Cat(ts, sep, 1)

\* ---- lexing a $-escaped value into literal and variable parts --------------
Lit(t) == [var |-> FALSE, t |-> t]
Var(n) == [var |-> TRUE, t |-> n]

RECURSIVE NameEnd(_, _, _)
\* index of the first code point at or after i that does not belong to a variable name
NameEnd(s, i, brace) ==
    IF i <= Len(s) /\ (IF brace THEN IsBraceVarChar(s[i]) ELSE IsSimpleVarChar(s[i]))
    THEN NameEnd(s, i + 1, brace) ELSE i

RECURSIVE SkipBlanks(_, _)
SkipBlanks(s, i) == IF i <= Len(s) /\ s[i] = SP THEN SkipBlanks(s, i + 1) ELSE i

\* first index >= i whose code point is in S (Len(s) + 1 if there is none); written with CHOOSE so that TLC
\* scans iteratively instead of recursing once per code point
NextIn(s, i, S) == CHOOSE j \in i..(Len(s) + 1) : (j = Len(s) + 1 \/ s[j] \in S) /\ \A k \in i..(j - 1) : s[k] \notin S

RECURSIVE Lex(_, _, _)
\* Lex(s, i, parts): [err, at, parts]; one step per `$', the literal runs in between are taken whole
Lex(s, i, parts) ==
    LET j == NextIn(s, i, {DOLLAR, NL})
        ps == IF j > i THEN Append(parts, Lit(SubSeq(s, i, j - 1))) ELSE parts
    IN
    IF j > Len(s) THEN [err |-> "", at |-> 0, parts |-> ps]
    ELSE IF s[j] = NL THEN [err |-> "BareNewline", at |-> j, parts |-> <<>>]
    ELSE IF j = Len(s) THEN [err |-> "DollarAtEnd", at |-> j, parts |-> <<>>]
    ELSE LET n == s[j + 1] IN
         IF n = DOLLAR \/ n = SP \/ n = COLON THEN Lex(s, j + 2, Append(ps, Lit(<<n>>)))
         ELSE IF n = NL THEN Lex(s, SkipBlanks(s, j + 2), ps)
         ELSE IF n = CR /\ j + 2 <= Len(s) /\ s[j + 2] = NL THEN Lex(s, SkipBlanks(s, j + 3), ps)
         ELSE IF n = LBRACE
              THEN LET e == NameEnd(s, j + 2, TRUE) IN
                   IF e > j + 2 /\ e <= Len(s) /\ s[e] = RBRACE
                   THEN Lex(s, e + 1, Append(ps, Var(SubSeq(s, j + 2, e - 1))))
                   ELSE [err |-> "BadBraceVariable", at |-> j, parts |-> <<>>]
         ELSE LET e == NameEnd(s, j + 1, FALSE) IN
              IF e > j + 1
              THEN Lex(s, e, Append(ps, Var(SubSeq(s, j + 1, e - 1))))
              ELSE [err |-> "BadDollarEscape", at |-> j, parts |-> <<>>]

LexText(s) == Lex(s, 1, <<>>)

\* a text without variable references: plain $-unescaping
RECURSIVE CatPartsAcc(_, _, _)
CatPartsAcc(parts, k, acc) == IF k > Len(parts) THEN acc ELSE CatPartsAcc(parts, k + 1, acc \o parts[k].t)
CatParts(parts, k) == CatPartsAcc(parts, k, <<>>)

Unescape(s) ==
    LET l == LexText(s) IN
    IF l.err # "" THEN Bad(l.err, l.at)
    ELSE IF \E k \in 1..Len(l.parts) : l.parts[k].var THEN Bad("VariableReference", 0)
    ELSE Ok(CatParts(l.parts, 1))

\* ---- how $in / $out quote one path for a POSIX shell --------------------------
PathSafeChar(c) == IsAlnum(c) \/ c = USCORE \/ c = PLUS \/ c = MINUS \/ c = DOT \/ c = SLASH
RECURSIVE SqBody(_, _)
SqBody(p, k) == IF k > Len(p) THEN <<>>
                ELSE IF p[k] = SQ THEN <<SQ, BSL, SQ, SQ>> \o SqBody(p, k + 1)
                ELSE <<p[k]>> \o SqBody(p, k + 1)
ShellEscapePath(p) == IF \A k \in 1..Len(p) : PathSafeChar(p[k]) THEN p ELSE <<SQ>> \o SqBody(p, 1) \o <<SQ>>
EscapedPaths(ps) == [k \in 1..Len(ps) |-> ShellEscapePath(ps[k])]

\* ---- scopes ---------------------------------------------------------------
\* a binding table is a sequence of <<name, text>>; the LAST binding of a name wins
Bound(tbl, n) == \E k \in 1..Len(tbl) : tbl[k][1] = n
ValueOf(tbl, n) == tbl[CHOOSE k \in 1..Len(tbl) : tbl[k][1] = n /\ \A m \in (k + 1)..Len(tbl) : tbl[m][1] # n][2]

NameIn == <<105, 110>>                                           \* "in"
NameOut == <<111, 117, 116>>                                     \* "out"
NameInNewline == <<105, 110, 95, 110, 101, 119, 108, 105, 110, 101>>  \* "in_newline"

RECURSIVE EvalFlatAcc(_, _, _, _)
\* expansion against one flat table (file scope): unknown names are empty
EvalFlatAcc(parts, k, tbl, acc) ==
    IF k > Len(parts) THEN acc
    ELSE EvalFlatAcc(parts, k + 1, tbl,
                     acc \o (IF ~parts[k].var THEN parts[k].t
                             ELSE IF Bound(tbl, parts[k].t) THEN ValueOf(tbl, parts[k].t) ELSE <<>>))
EvalFlat(parts, k, tbl) == EvalFlatAcc(parts, k, tbl, <<>>)

RECURSIVE FileScope(_, _, _)
\* top-level `name = value' lines, expanded immediately in file order; raw = <<name, rawtext>>...
\* returns [err, at, tbl]
FileScope(raw, k, tbl) ==
    IF k > Len(raw) THEN [err |-> "", at |-> 0, tbl |-> tbl]
    ELSE LET l == LexText(raw[k][2]) IN
         IF l.err # "" THEN [err |-> l.err, at |-> l.at, tbl |-> <<>>]
         ELSE FileScope(raw, k + 1, Append(tbl, <<raw[k][1], EvalFlat(l.parts, 1, tbl)>>))

RECURSIVE BlockScope(_, _, _, _)
\* the indented bindings of a build block: each expanded immediately in the scope of the file
BlockScope(raw, k, file, tbl) ==
    IF k > Len(raw) THEN [err |-> "", at |-> 0, tbl |-> tbl]
    ELSE LET l == LexText(raw[k][2]) IN
         IF l.err # "" THEN [err |-> l.err, at |-> l.at, tbl |-> <<>>]
         ELSE BlockScope(raw, k + 1, file, Append(tbl, <<raw[k][1], EvalFlat(l.parts, 1, file)>>))

\* an edge as the evaluator sees it:
\*   ins, outs : explicit inputs / outputs (decoded paths)
\*   block     : expanded build-block bindings,  rule : raw rule-block bindings,  file : expanded file scope
RECURSIVE EvalRule(_, _, _, _, _), RuleVar(_, _, _)
\* late expansion of a rule-block text for one edge; `stack' = rule variables being expanded (cycle guard)
EvalRule(parts, k, e, stack, acc) ==
    IF k > Len(parts) THEN Ok(acc)
    ELSE LET head == IF ~parts[k].var THEN Ok(parts[k].t) ELSE RuleVar(parts[k].t, e, stack) IN
         IF head.err # "" THEN head ELSE EvalRule(parts, k + 1, e, stack, acc \o head.t)

RuleVar(n, e, stack) ==
    IF n = NameIn THEN Ok(Join(EscapedPaths(e.ins), <<SP>>))
    ELSE IF n = NameInNewline THEN Ok(Join(EscapedPaths(e.ins), <<NL>>))
    ELSE IF n = NameOut THEN Ok(Join(EscapedPaths(e.outs), <<SP>>))
    ELSE IF Bound(e.block, n) THEN Ok(ValueOf(e.block, n))
    ELSE IF Bound(e.rule, n)
         THEN IF \E k \in 1..Len(stack) : stack[k] = n THEN Bad("VariableCycle", 0)
              ELSE LET l == LexText(ValueOf(e.rule, n)) IN
                   IF l.err # "" THEN Bad(l.err, l.at) ELSE EvalRule(l.parts, 1, e, Append(stack, n), <<>>)
    ELSE IF Bound(e.file, n) THEN Ok(ValueOf(e.file, n))
    ELSE Ok(<<>>)

\* Expand(edge, name): the value of variable `name' for a build statement given as raw text:
\*   edge = [ins, outs, block (raw), rule (raw), globals (raw)]
Expand(edge, n) ==
    LET f == FileScope(edge.globals, 1, <<>>) IN
    IF f.err # "" THEN Bad(f.err, f.at)
    ELSE LET b == BlockScope(edge.block, 1, f.tbl, <<>>) IN
         IF b.err # "" THEN Bad(b.err, b.at)
         ELSE RuleVar(n, [ins |-> edge.ins, outs |-> edge.outs, block |-> b.tbl, rule |-> edge.rule, file |-> f.tbl], <<>>)

\* ---- the specified encoder (what a correct writer may emit for a value) --------------------
RECURSIVE NinjaQuoteFrom(_, _, _)
NinjaQuoteFrom(s, k, path) ==
    IF k > Len(s) THEN <<>>
    ELSE (IF s[k] = DOLLAR \/ s[k] = SP \/ (path /\ s[k] = COLON) THEN <<DOLLAR, s[k]>> ELSE <<s[k]>>)
         \o NinjaQuoteFrom(s, k + 1, path)
\* defined for texts without a newline only (Encodable)
NinjaQuote(s) == NinjaQuoteFrom(s, 1, FALSE)
NinjaQuotePath(s) == NinjaQuoteFrom(s, 1, TRUE)
Encodable(s) == \A k \in 1..Len(s) : s[k] # NL

\* a path written on a build line ends at an unescaped blank, ':', '|' or newline: the whole text is ONE path
\* iff none of them occurs bare
RECURSIVE OnePathFrom(_, _)
OnePathFrom(s, i) ==
    IF i > Len(s) THEN TRUE
    ELSE IF s[i] = DOLLAR THEN OnePathFrom(s, i + 2)
    ELSE IF s[i] = SP \/ s[i] = COLON \/ s[i] = NL THEN FALSE
    ELSE OnePathFrom(s, i + 1)
OnePath(s) == s # <<>> /\ OnePathFrom(s, 1)
=============================================================================
