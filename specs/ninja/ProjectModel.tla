------------------------------ MODULE ProjectModel ------------------------------
(***************************************************************************)
(* Generator model for C04 / C15: abstract project -> what the generated   *)
(* build must contain.  Written from the reference manual                  *)
(* (docs/yaml/functions: executable, library, both_libraries,              *)
(* custom_target, run_target, alias_target, test, benchmark: naming        *)
(* `lib<name>.a` / `lib<name>.so` / `<name>`, `build_by_default`,          *)
(* `install` defaulting `build_by_default` of custom targets, `depends:`), *)
(* Builtin-options.md (layout, default_library, default_both_libraries)    *)
(* and Release-notes-for-0.46.0 ("multiple targets with the same name ...  *)
(* can not be built with the flat layout").                                *)
(*                                                                         *)
(* An abstract project p (see harness/projgen.py for the JSON form):       *)
(*   layout, deflib, targets : Seq([kind, name, subdir, sp, srcs, gen,     *)
(*   genlist, link, bbd, install, outs, deps]), tests : Seq([name, exe,    *)
(*   depends, args, bench, script, ...]).  References are 1-based indices  *)
(*   of earlier targets.                                                   *)
(***************************************************************************)
EXTENDS BuildGraph, SequencesExt, TLC

Join(a, b) == IF a = "" THEN b ELSE IF b = "" THEN a ELSE a \o "/" \o b
SpDir(sp) == IF sp = "" THEN "" ELSE "subprojects/" \o sp
Loc(t) == Join(SpDir(t.sp), t.subdir)
EndsWith(s, suf) == Len(s) >= Len(suf) /\ SubSeq(s, Len(s) - Len(suf) + 1, Len(s)) = suf
DropSuffix(s, n) == SubSeq(s, 1, Len(s) - n)

BuildKinds == {"exe", "static", "shared", "both", "lib", "module"}   \* module: shared_module()
IsBuild(t) == t.kind \in BuildKinds
IsRunLike(t) == t.kind \in {"run", "alias"}
IsBuildable(t) == IsBuild(t) \/ t.kind = "custom"

\* run_target / alias_target produce no file, only a top-level name
\* build_subdir: (build targets and custom targets, _build_target_base.yaml): a directory below the target's output
\* directory; read through an accessor so that abstract projects without the field keep their meaning
TBsub(t) == IF "bsub" \in DOMAIN t THEN t.bsub ELSE ""
OutDir(p, t) == IF IsRunLike(t) THEN ""
                ELSE Join(IF p.layout = "flat" THEN "meson-out" ELSE Loc(t), TBsub(t))

LibTypes(p, t) ==
    CASE t.kind = "static" -> {"static"}
      [] t.kind = "shared" -> {"shared"}
      [] t.kind = "module" -> {"shared"}
      [] t.kind = "both"   -> {"shared", "static"}
      [] t.kind = "lib"    -> (IF p.deflib = "both" THEN {"shared", "static"} ELSE {p.deflib})
      [] OTHER -> {}
LibFile(name, ty) == IF ty = "static" THEN "lib" \o name \o ".a" ELSE "lib" \o name \o ".so"

\* the ninja name of a run / alias target; inside a subproject it is qualified (the manual is silent on the
\* form; `<subproject>@@<name>` is what `meson compile <subproject>@@<name>` addresses)
RunName(t) == IF t.sp = "" THEN t.name ELSE t.sp \o "@@" \o t.name
FileNames(p, t) ==
    CASE t.kind = "exe" -> {t.name}
      [] t.kind = "custom" -> Rng(t.outs)
      [] IsRunLike(t) -> {RunName(t)}
      [] OTHER -> {LibFile(t.name, ty) : ty \in LibTypes(p, t)}
OutPaths(p, t) == {Join(OutDir(p, t), f) : f \in FileNames(p, t)}
\* the files of a target as intro-targets.json lists them (run-like targets have no file)
FilePaths(p, t) == IF IsRunLike(t) THEN {} ELSE OutPaths(p, t)

\* what a reference to a target (link_with, depends, test args) needs: a both-library stands for its
\* default (shared) half - Builtin-options.md, default_both_libraries = shared
RefOuts(p, t) ==
    IF IsRunLike(t) THEN OutPaths(p, t)
    ELSE IF Cardinality(LibTypes(p, t)) = 2 THEN {Join(OutDir(p, t), LibFile(t.name, "shared"))}
    ELSE OutPaths(p, t)

(* ---- collisions --------------------------------------------------------- *)

\* names every generated manifest defines itself (ninja targets documented in Running-Meson.md /
\* Commands.md: all, test, benchmark, install, uninstall, clean, dist, reconfigure)
ReservedTop == {"all", "test", "benchmark", "install", "uninstall", "clean", "dist", "reconfigure",
                "build.ninja", "PHONY"}
Targets(p) == DOMAIN p.targets
CollidingPairs(p) == {pr \in Targets(p) \X Targets(p) :
                        pr[1] < pr[2] /\ OutPaths(p, p.targets[pr[1]]) \cap OutPaths(p, p.targets[pr[2]]) # {}}
CollidesReserved(p) == {i \in Targets(p) : OutPaths(p, p.targets[i]) \cap ReservedTop # {}}
Collides(p) == CollidingPairs(p) # {} \/ CollidesReserved(p) # {}
\* meson may refuse more than the statement demands: a reserved name in the root directory whatever
\* the layout, and two targets of the same kind family with the same name in one directory
SameSlot(t, u) == t.name = u.name /\ Loc(t) = Loc(u) /\
                  (t.kind = u.kind \/ ({t.kind, u.kind} \subseteq {"static", "shared", "both", "lib"}))
MayReject(p) == \/ Collides(p)
                \/ \E i \in Targets(p) : p.targets[i].name \in ReservedTop
                \/ \E i, j \in Targets(p) : i < j /\ SameSlot(p.targets[i], p.targets[j])

(* ---- expectations on the generated manifest ---------------------------- *)

\* build_by_default: true for build targets; custom targets: false unless set, defaulting to `install`
DefaultBuilt(t) ==
    CASE IsBuild(t) -> t.bbd # "false"
      [] t.kind = "custom" -> (t.bbd = "true" \/ (t.bbd = "unset" /\ t.install))
      [] OTHER -> FALSE
ExpectAll(p) == UNION {FilePaths(p, p.targets[i]) : i \in {j \in Targets(p) : DefaultBuilt(p.targets[j])}}
TestRefs(x) == (IF x.exe = 0 THEN {} ELSE {x.exe}) \cup Rng(x.depends) \cup Rng(x.args)
ExpectTests(p, bench) ==
    UNION {UNION {RefOuts(p, p.targets[r]) : r \in TestRefs(p.tests[k])} :
             k \in {j \in DOMAIN p.tests : p.tests[j].bench = bench}}

(* ---- the model's own build graph ---------------------------------------- *)
\* (a simplified picture of what a backend has to emit; TLC checks that the rule book is coherent:
\*  Collides(p) <=> the graph has a path with two producers, and collision-free projects give closed,
\*  acyclic graphs in which the expectations are reachable)

Src(t, f) == "@src/" \o Join(Loc(t), f)
MainFile(p, t) == IF t.kind = "exe" THEN t.name
                  ELSE LibFile(t.name, IF "shared" \in LibTypes(p, t) THEN "shared" ELSE "static")
Priv(p, t) == Join(OutDir(p, t), MainFile(p, t) \o ".p")
GenC(p, t) == UNION {{o \in OutPaths(p, p.targets[g]) : EndsWith(o, ".c")} : g \in Rng(t.gen)}
GenH(p, t) == UNION {{o \in OutPaths(p, p.targets[g]) : ~EndsWith(o, ".c")} : g \in Rng(t.gen)}
GenListC(p, t) == {Join(Priv(p, t), DropSuffix(g, 3) \o ".c") : g \in Rng(t.genlist)}
E(rule, ins, imp, ord, outs) == [rule |-> rule, ins |-> ins, imp |-> imp, ord |-> ord, outs |-> outs, iouts |-> <<>>]
Base(path) == LET idx == {k \in 1..Len(path) : SubSeq(path, k, k) = "/"} IN
              IF idx = {} THEN path ELSE SubSeq(path, (CHOOSE k \in idx : \A m \in idx : m <= k) + 1, Len(path))

(* unity builds (Unity-builds.md, Builtin-options.md unity / unity_size): the C sources of a target are merged,
   in order, into unity files of `unity_size` sources each - ceil(n / unity_size) files - and only those are
   compiled; a consumer of the target's objects (extract_all_objects(), the static half of a both-library)
   links exactly the objects of those unity files.  `unity=subprojects` applies to subproject targets only. *)
\* (fields added later are read through accessors so that abstract projects without them keep their meaning)
PUnity(p) == IF "unity" \in DOMAIN p THEN p.unity ELSE "off"
PUnitySize(p) == IF "unity_size" \in DOMAIN p THEN p.unity_size ELSE 4
TObjs(t) == IF "objs" \in DOMAIN t THEN t.objs ELSE <<>>
IsUnity(p, t) == IsBuild(t) /\ (PUnity(p) = "on" \/ (PUnity(p) = "subprojects" /\ t.sp # ""))
CSources(p, t) == {Src(t, s) : s \in Rng(t.srcs)} \cup GenC(p, t) \cup GenListC(p, t)
UnityChunks(n, size) == (n + size - 1) \div size
NUnity(p, t) == UnityChunks(Cardinality(CSources(p, t)), PUnitySize(p))
UnitySrc(p, t, k) == Join(Priv(p, t), t.name \o "-unity" \o ToString(k) \o ".c")
UnitySrcs(p, t) == {UnitySrc(p, t, k) : k \in 0..(NUnity(p, t) - 1)}
GeneratorEdges(p, t) ==
    {E("CUSTOM_COMMAND", <<Src(t, g)>>, <<"@tool">>, <<>>, <<Join(Priv(p, t), DropSuffix(g, 3) \o ".c")>>)
            : g \in Rng(t.genlist)}
CompileEdges(p, t) ==
    IF IsUnity(p, t)
    THEN {E("c_COMPILER", <<u>>, <<>>, SetToSeq(GenH(p, t) \cup GenC(p, t) \cup GenListC(p, t)),
            <<Join(Priv(p, t), "meson-generated_" \o Base(u) \o ".o")>>) : u \in UnitySrcs(p, t)}
         \cup GeneratorEdges(p, t)
    ELSE
    {E("c_COMPILER", <<Src(t, s)>>, <<>>, SetToSeq(GenH(p, t)), <<Join(Priv(p, t), s \o ".o")>>) : s \in Rng(t.srcs)}
    \cup {E("c_COMPILER", <<c>>, <<>>, SetToSeq(GenH(p, t)), <<Join(Priv(p, t), "meson-generated_" \o Base(c) \o ".o")>>)
            : c \in GenC(p, t) \cup GenListC(p, t)}
    \cup GeneratorEdges(p, t)
Objects(p, t) == UNION {Rng(e.outs) : e \in {x \in CompileEdges(p, t) : x.rule = "c_COMPILER"}}
\* objects a target links: its own and those extracted from other targets (objects: t.extract_all_objects())
LinkObjects(p, t) == Objects(p, t) \cup UNION {Objects(p, p.targets[o]) : o \in Rng(TObjs(t))}
LinkEdges(p, t) ==
    IF t.kind = "exe"
    THEN {E("c_LINKER", SetToSeq(LinkObjects(p, t)), SetToSeq(UNION {RefOuts(p, p.targets[l]) : l \in Rng(t.link)}), <<>>,
            <<Join(OutDir(p, t), t.name)>>)}
    ELSE {E(IF ty = "static" THEN "STATIC_LINKER" ELSE "c_LINKER", SetToSeq(LinkObjects(p, t)),
            SetToSeq(UNION {RefOuts(p, p.targets[l]) : l \in Rng(t.link)}), <<>>,
            <<Join(OutDir(p, t), LibFile(t.name, ty))>>) : ty \in LibTypes(p, t)}
DepOuts(p, t) == UNION {RefOuts(p, p.targets[d]) : d \in Rng(t.deps)}
TargetEdges(p, t) ==
    CASE IsBuild(t) -> CompileEdges(p, t) \cup LinkEdges(p, t)
      [] t.kind = "custom" -> {E("CUSTOM_COMMAND", <<Src(t, "input")>> \o SetToSeq(UNION {RefOuts(p, p.targets[g]) : g \in Rng(t.gen)}),
                                 <<"@tool">> \o SetToSeq(DepOuts(p, t)), <<>>,
                                 [k \in DOMAIN t.outs |-> Join(OutDir(p, t), t.outs[k])])}
      [] t.kind = "run" -> {E("phony", <<"meson-internal__" \o RunName(t)>>, <<>>, <<>>, <<RunName(t)>>),
                            E("CUSTOM_COMMAND", <<>>, <<"@tool">> \o SetToSeq(DepOuts(p, t)), <<>>,
                              <<"meson-internal__" \o RunName(t)>>)}
      [] t.kind = "alias" -> {E("phony", SetToSeq(DepOuts(p, t)), <<>>, <<>>, <<RunName(t)>>)}
First(S) == IF S = {} THEN {} ELSE {CHOOSE x \in S : TRUE}
Aggregates(p) ==
    {E("phony", SetToSeq(ExpectAll(p)), <<>>, <<>>, <<"all">>),
     E("phony", SetToSeq(ExpectTests(p, FALSE)), <<>>, <<>>, <<"meson-test-prereq">>),
     E("phony", SetToSeq(ExpectTests(p, TRUE)), <<>>, <<>>, <<"meson-benchmark-prereq">>),
     E("phony", <<>>, <<>>, <<>>, <<"PHONY">>),
     E("phony", <<"meson-internal__test">>, <<>>, <<>>, <<"test">>),
     E("CUSTOM_COMMAND", <<"all", "meson-test-prereq", "PHONY">>, <<>>, <<>>, <<"meson-internal__test">>),
     E("phony", <<"meson-internal__clean">>, <<>>, <<>>, <<"clean">>),
     E("CUSTOM_COMMAND", <<"PHONY">>, <<>>, <<>>, <<"meson-internal__clean">>)}
\* a multiset of edges would be needed to keep two identical edges apart; tagging each target's edges with
\* its index does that
EdgeSeqOf(p, i) == SetToSeq(TargetEdges(p, p.targets[i]))
RECURSIVE EdgesUpTo(_, _)
EdgesUpTo(p, n) == IF n = 0 THEN <<>> ELSE EdgesUpTo(p, n - 1) \o EdgeSeqOf(p, n)
ModelGraph(p) ==
    LET es == EdgesUpTo(p, Len(p.targets)) \o SetToSeq(Aggregates(p))
    IN [rules |-> <<"c_COMPILER", "c_LINKER", "STATIC_LINKER", "CUSTOM_COMMAND">>, dup_rules |-> <<>>,
        pools |-> <<"console">>, edges |-> es, edge_pools |-> [k \in DOMAIN es |-> ""],
        defaults |-> <<"all">>, errors |-> <<>>]
ModelExists(p) ==
    {"@tool"} \cup UNION {IF IsUnity(p, p.targets[i]) THEN UnitySrcs(p, p.targets[i]) ELSE {} : i \in Targets(p)}
    \cup UNION {{Src(p.targets[i], s) : s \in Rng(p.targets[i].srcs) \cup Rng(p.targets[i].genlist) \cup {"input"}}
                          : i \in Targets(p)}

(* ---- unity obligations on a real manifest M ------------------------------ *)
\* (stated for targets whose sources are plain files only; the unity file names `<private dir>/<name>-unityK.c`
\*  are what the backend writes at configure time)
PlainOnly(t) == t.gen = <<>> /\ t.genlist = <<>>
StartsWith(str, pre) == Len(str) >= Len(pre) /\ SubSeq(str, 1, Len(pre)) = pre
UnityTargets(p) == {i \in Targets(p) : IsUnity(p, p.targets[i]) /\ PlainOnly(p.targets[i]) /\ p.targets[i].srcs # <<>>}
\* exactly ceil(n / unity_size) unity files are compiled: every one of them, and not one more
UnityFilesWrong(p, M) ==
    UNION {LET t == p.targets[i]
           IN (UnitySrcs(p, t) \ AllInputs(M))
              \cup ({UnitySrc(p, t, NUnity(p, t))} \cap AllInputs(M)) : i \in UnityTargets(p)}
\* objects of a target as the manifest has them: outputs of the statements compiling its unity files
UnityObjectsIn(p, M, t) == UNION {Outs(M, e) : e \in {x \in EdgeIds(M) : ExplicitIns(M, x) \cap UnitySrcs(p, t) # {}}}
\* the statements producing the files of target c take, from the private directory of provider t, exactly
\* the unity objects of t
ExtractionWrong(p, M, c, t) ==
    LET stmts == {e \in EdgeIds(M) : Outs(M, e) \cap FilePaths(p, c) # {} /\ M.edges[e].rule # "phony"}
        taken(e) == {q \in ExplicitIns(M, e) : StartsWith(q, Priv(p, t) \o "/")}
    IN UNION {(taken(e) \ UnityObjectsIn(p, M, t)) \cup (UnityObjectsIn(p, M, t) \ taken(e)) : e \in stmts}
UnityExtractionWrong(p, M) ==
    UNION {UNION {ExtractionWrong(p, M, p.targets[c], p.targets[i]) : c \in {x \in Targets(p) : i \in Rng(TObjs(p.targets[x]))}}
             : i \in UnityTargets(p)}
    \* a both-library: every link statement of the target (shared and static half) takes its unity objects
    \cup UNION {ExtractionWrong(p, M, p.targets[i], p.targets[i]) : i \in UnityTargets(p)}

=============================================================================
