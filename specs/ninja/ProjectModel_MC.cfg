SPECIFICATION Spec
CONSTANTS Layouts = {"mirror", "flat"}
 Deflibs = {"shared", "both", "static"}
 LocSet = "all"
 Behavioural = "some"
INVARIANT CollisionRuleCoherent
INVARIANT ModelGraphWellFormed
INVARIANT NoStuckSchedule
INVARIANT ExpectAllIsSelective
INVARIANT FlatRule
INVARIANT UnityLaw
CHECK_DEADLOCK FALSE
POSTCONDITION EmitFamily
