---------------------------- MODULE ProjectModel_MC ----------------------------
(***************************************************************************)
(* Model: the bounded family of abstract projects (two interacting         *)
(* targets, optional test) under every layout / default_library.           *)
(*   F1 "collision family": both targets want the name foo (or a custom    *)
(*      target output named like an executable / library), in the same or  *)
(*      different directories / subproject; plus reserved names.           *)
(*   F2 "reachability family": a provider and a consumer with every        *)
(*      build_by_default / install combination, the natural dependency,    *)
(*      and a test / benchmark with depends: and target arguments.         *)
(* For every project TLC checks that the rule book is coherent            *)
(* (Collides <=> the model's own graph has a doubly produced path; a       *)
(* collision-free project yields a well-formed graph in which the          *)
(* expectations are reachable) and runs the Run(e) state machine on the    *)
(* model graph (every deadlocked state has all edges built).               *)
(* The family with its expectations is exported for binding (A).           *)
(***************************************************************************)
EXTENDS ProjectModel, TLC, Json, IOUtils
CONSTANTS Layouts, Deflibs, LocSet, Behavioural
\* provider locations <<subdir, subproject>> of F2
Locs == IF LocSet = "small" THEN {<<"sub", "">>, <<"", "sp1">>} ELSE {<<"", "">>, <<"sub", "">>, <<"", "sp1">>}

T(kind, name, subdir, sp, srcs, gen, link, bbd, install, outs, deps) ==
    [kind |-> kind, name |-> name, subdir |-> subdir, sp |-> sp, srcs |-> srcs, gen |-> gen, genlist |-> <<>>,
     link |-> link, bbd |-> bbd, install |-> install, outs |-> outs, deps |-> deps, objs |-> <<>>]
NoTest == <<>>
P(layout, deflib, ts, tests) == [name |-> "fam", lang |-> "c", layout |-> layout, deflib |-> deflib, targets |-> ts,
                                 tests |-> tests, unity |-> "off", unity_size |-> 4]
Plain(kind, name, subdir, sp, i) ==
    T(kind, name, subdir, sp, IF kind \in BuildKinds THEN <<"t" \o ToString(i) \o ".c">> ELSE <<>>, <<>>, <<>>,
      "unset", FALSE, <<>>, <<>>)
Custom(i, subdir, sp, outs) == T("custom", "c" \o ToString(i), subdir, sp, <<>>, <<>>, <<>>, "unset", FALSE, outs, <<>>)

(* ---- F1 ---- *)
KindsC == {"exe", "static", "shared", "lib", "both", "run"}
CustomOutsC == {<<"foo">>, <<"libfoo.a">>, <<"libfoo.so">>, <<"gen.c", "foo">>}
ShapesC(i, subdirs, sps) ==
    {Plain(k, "foo", d, s, i) : k \in KindsC, d \in subdirs, s \in sps}
    \cup {Custom(i, d, s, o) : d \in subdirs, s \in sps, o \in CustomOutsC}
ReservedShapes == {Plain("exe", "clean", "", "", 1), Plain("exe", "clean", "sub", "", 1), Plain("run", "clean", "sub", "", 1),
                   Custom(1, "", "", <<"clean">>), Custom(1, "sub", "", <<"clean">>), Plain("static", "clean", "", "", 1)}
F1 == {P(l, dl, <<a, b>>, NoTest) : l \in Layouts, dl \in Deflibs,
                                    a \in ShapesC(1, {"", "sub"}, {"", "sp1"}), b \in ShapesC(2, {"", "sub"}, {""})}
      \cup {P(l, "shared", <<a, Plain("exe", "bar", "", "", 2)>>, NoTest) : l \in Layouts, a \in ReservedShapes}

(* ---- F2 ---- *)
BbdInstall == {<<"unset", FALSE>>, <<"unset", TRUE>>, <<"true", FALSE>>, <<"false", FALSE>>, <<"false", TRUE>>}
Providers ==
    {T(k, "foo", loc[1], loc[2], <<"t1.c">>, <<>>, <<>>, bi[1], bi[2], <<>>, <<>>)
        : k \in {"static", "lib", "both", "exe"}, loc \in Locs, bi \in BbdInstall}
    \cup {T("custom", "c1", loc[1], loc[2], <<>>, <<>>, <<>>, bi[1], bi[2], o, <<>>)
        : loc \in Locs, bi \in BbdInstall, o \in {<<"gen.c", "gen.h">>, <<"out.txt">>}}
\* run targets as providers: only an alias can depend on them (in the main project or next to them)
RunProviders == {T("run", "foo", loc[1], loc[2], <<>>, <<>>, <<>>, "unset", FALSE, <<>>, <<>>)
                   : loc \in {<<"", "">>, <<"sub", "">>, <<"", "sp1">>, <<"sub", "sp1">>}}
AliasOf(a) == {T("alias", "bar", "", s, <<>>, <<>>, <<>>, "unset", FALSE, <<>>, <<1>>) : s \in {"", a.sp}}
F3 == UNION {{P(l, "shared", <<a, b>>, NoTest) : l \in Layouts, b \in AliasOf(a)} : a \in RunProviders}
IsLib(t) == t.kind \in {"static", "shared", "both", "lib"}
IsCGen(t) == t.kind = "custom" /\ \E k \in DOMAIN t.outs : EndsWith(t.outs[k], ".c")
\* the consumer uses the provider in the natural way (rel) or ignores it
Consumers(a, rel) ==
    {T(k, "bar", "", "", <<"t2.c">>, IF rel /\ IsCGen(a) THEN <<1>> ELSE <<>>, IF rel /\ IsLib(a) THEN <<1>> ELSE <<>>,
       b, FALSE, <<>>, <<>>) : k \in {"exe", "shared"}, b \in {"unset", "false"}}
    \cup {T("custom", "c2", "", "", <<>>, <<>>, <<>>, b, FALSE, <<"out2.txt">>, IF rel THEN <<1>> ELSE <<>>)
            : b \in {"unset", "true"}}
    \cup {T("run", "bar", "", "", <<>>, <<>>, <<>>, "unset", FALSE, <<>>, IF rel THEN <<1>> ELSE <<>>)}
    \cup (IF rel THEN {T("alias", "bar", "", "", <<>>, <<>>, <<>>, "unset", FALSE, <<>>, <<1>>)} ELSE {})
Test(name, exe, depends, args, bench) ==
    [name |-> name, exe |-> exe, depends |-> depends, args |-> args, sargs |-> <<>>, bench |-> bench, suite |-> <<>>,
     env |-> <<>>, sp |-> "", script |-> ""]
\* a test on the first executable, depending on / taking as argument the other target when that is possible
TestsFor(a, b) ==
    LET exes == {i \in {1, 2} : <<a, b>>[i].kind = "exe"}
    IN {NoTest} \cup
       (IF exes = {} THEN {}
        ELSE LET e == CHOOSE i \in exes : \A j \in exes : i <= j
                 o == 3 - e
                 ot == <<a, b>>[o]
             IN {<<Test("t", e, IF IsBuildable(ot) THEN <<o>> ELSE <<>>, IF ot.kind = "custom" THEN <<o>> ELSE <<>>, bn)>>
                   : bn \in BOOLEAN})
\* F4: two DIFFERENT targets with the SAME NAME, neither built by default, both prerequisites of tests: in two
\* directories, in a subproject and the main project, an executable and a (two-output) custom target
NB(kind, subdir, sp, i, outs) ==
    T(kind, "foo", subdir, sp, IF kind = "exe" THEN <<"t" \o ToString(i) \o ".c">> ELSE <<>>, <<>>, <<>>, "false", FALSE, outs, <<>>)
SameNamePairs == {<<NB("exe", "sub", "", 1, <<>>), NB("exe", "", "", 2, <<>>)>>,
                  <<NB("exe", "", "sp1", 1, <<>>), NB("exe", "", "", 2, <<>>)>>,
                  <<NB("exe", "", "", 1, <<>>), NB("custom", "", "", 2, <<"foo.dat", "foo2.dat">>)>>,
                  <<NB("exe", "sub", "", 1, <<>>), NB("custom", "", "", 2, <<"foo.dat", "foo2.dat">>)>>}
SameNameTests(pr, bn) ==
    {<<Test("t1", 1, <<2>>, <<>>, bn)>>, <<Test("t1", 1, <<>>, <<2>>, bn)>>, <<Test("t1", 1, <<>>, <<>>, bn), Test("t2", 1, <<2>>, <<>>, bn)>>}
    \cup (IF pr[2].kind = "exe" THEN {<<Test("t1", 1, <<>>, <<>>, bn), Test("t2", 2, <<>>, <<>>, bn)>>} ELSE {})
F4 == UNION {UNION {{P(l, "shared", pr, x) : l \in Layouts} : x \in SameNameTests(pr, bn)} : <<pr, bn>> \in SameNamePairs \X BOOLEAN}
\* F5: unity builds with object extraction around the chunk boundaries: n = 1 .. 2*size+1 sources, unity_size 2
\* and 4; the objects are consumed by the static half of a both-library or by extract_all_objects(); unity=on in
\* the main project and unity=subprojects with the provider in a subproject
USrcs(n) == [k \in 1..n |-> "u" \o ToString(k) \o ".c"]
UProvider(kind, n, sp) == [T(kind, "foo", "", sp, USrcs(n), <<>>, <<>>, "unset", FALSE, <<>>, <<>>) EXCEPT !.objs = <<>>]
UConsumer(sp) == [T("static", "bar", "", sp, <<"t2.c">>, <<>>, <<>>, "unset", FALSE, <<>>, <<>>) EXCEPT !.objs = <<1>>]
F5 == UNION {{[P(l, "shared", <<UProvider(k, n, us[2]), UConsumer(us[2])>>, NoTest) EXCEPT !.unity = us[1], !.unity_size = size]
                : l \in Layouts, k \in {"both", "static"}, n \in 1..(2 * size + 1),
                  us \in {<<"on", "">>, <<"subprojects", "sp1">>}} : size \in {2, 4}}
F2 == UNION {UNION {UNION {{P(l, dl, <<a, b>>, x) : l \in Layouts, dl \in Deflibs \ {"static"}} : x \in TestsFor(a, b)}
                      : b \in Consumers(a, rel)} : <<a, rel>> \in Providers \X BOOLEAN}

Expectations(p) ==
    [collides |-> Collides(p), may_reject |-> MayReject(p), all |-> SetToSeq(ExpectAll(p)),
     test |-> SetToSeq(ExpectTests(p, FALSE)), bench |-> SetToSeq(ExpectTests(p, TRUE)),
     files |-> [i \in Targets(p) |-> SetToSeq(FilePaths(p, p.targets[i]))]]

\* `started`: TLC evaluates invariants of initial states in its single main thread; the (costly) laws are
\* therefore stated for the state after the Start step, which the workers generate in parallel
VARIABLES fam, p, built, started
vars == <<fam, p, built, started>>
Init == /\ \/ fam = "F1" /\ p \in F1
           \/ fam = "F2" /\ p \in F2 \cup F3 \cup F4 \cup F5
        /\ built = {}
        /\ started = FALSE
Start == ~started /\ started' = TRUE /\ UNCHANGED <<fam, p, built>>
G == ModelGraph(p)
X == ModelExists(p)
\* which projects get the full Run(e) exploration (all schedules): "none", "some" (F2, mirror, both, with a
\* test, provider with default build_by_default / install), "mirror" (all of F2 under layout=mirror)
Explored == CASE Behavioural = "none" -> FALSE
              [] Behavioural = "some" -> fam = "F2" /\ p.layout = "mirror" /\ p.deflib = "both" /\ p.tests # <<>>
                                         /\ ~p.tests[1].bench /\ p.targets[1].bbd = "unset" /\ ~p.targets[1].install
              [] Behavioural = "mirror" -> fam = "F2" /\ p.layout = "mirror"
              [] OTHER -> TRUE
Run(e) == /\ Explored /\ started
          /\ Ready(G, X, built, e)
          /\ built' = built \cup {e}
          /\ UNCHANGED <<fam, p, started>>
Next == Start \/ \E e \in EdgeIds(G) : Run(e)
Spec == Init /\ [][Next]_vars

\* the declarative collision rule is exactly "some path has two producers" in the model's graph
CollisionRuleCoherent == (started /\ built = {}) => (Collides(p) <=> ~UniqueProducer(G))
\* collision-free projects give well-formed graphs with the expectations reachable
ModelGraphWellFormed ==
    (started /\ built = {} /\ ~Collides(p)) =>
        /\ WellFormed(G, X)   \* includes Buildable = Closed /\ Acyclic (BuildGraph_MC proves the equivalence)
        /\ ExpectAll(p) \subseteq ReachPaths(G, {"all"})
        /\ ExpectTests(p, FALSE) \subseteq ReachPaths(G, {"meson-test-prereq"})
        /\ ExpectTests(p, TRUE) \subseteq ReachPaths(G, {"meson-benchmark-prereq"})
        /\ ExpectTests(p, FALSE) \subseteq ReachPaths(G, {"test"})
\* behavioural form: no schedule of a collision-free project gets stuck before everything is built
NoStuckSchedule == (started /\ ~Collides(p) /\ Enabled(G, X, built) = {}) => built = EdgeIds(G)
\* a target that is not built by default and that nothing default needs stays out of `all` in the model
\* (sanity of ExpectAll: it is not simply "everything")
ExpectAllIsSelective ==
    (started /\ built = {} /\ ~Collides(p)) => \A i \in Targets(p) : (~DefaultBuilt(p.targets[i]) /\ IsBuildable(p.targets[i])
                                         /\ \A j \in Targets(p) : i \notin Rng(p.targets[j].link) \cup Rng(p.targets[j].gen)
                                                                             \cup Rng(p.targets[j].deps))
                                        => FilePaths(p, p.targets[i]) \cap ExpectAll(p) = {}
\* flat layout: same file name in two directories collides; mirror: it does not
FlatRule == (started /\ built = {}) =>
    \A i, j \in Targets(p) :
        (i < j /\ ~IsRunLike(p.targets[i]) /\ ~IsRunLike(p.targets[j])
         /\ FileNames(p, p.targets[i]) \cap FileNames(p, p.targets[j]) # {})
        => (<<i, j>> \in CollidingPairs(p) <=> (p.layout = "flat" \/ Loc(p.targets[i]) = Loc(p.targets[j])))

\* the rule book on its own graph: a unity target has ceil(n/size) objects and a consumer links exactly those
UnityLaw ==
    (started /\ built = {} /\ ~Collides(p)) =>
        /\ \A i \in UnityTargets(p) :
              /\ Cardinality(Objects(p, p.targets[i])) = UnityChunks(Len(p.targets[i].srcs), p.unity_size)
              /\ (Len(p.targets[i].srcs) <= p.unity_size => Cardinality(Objects(p, p.targets[i])) = 1)
        /\ UnityFilesWrong(p, G) = {}
        /\ UnityExtractionWrong(p, G) = {}

WithX(q) == [q EXCEPT !.name = "fam"] @@ [x |-> Expectations(q)]
EmitFamily == TLCGet("stats").diameter >= 0 /\
              LET s1 == SetToSeq(F1)
                  s2 == SetToSeq(F2)
                  s3 == SetToSeq(F3)
                  s4 == SetToSeq(F4)
                  s5 == SetToSeq(F5)
              IN JsonSerialize("family.json", [f1 |-> [i \in DOMAIN s1 |-> WithX(s1[i])],
                                               f2 |-> [i \in DOMAIN s2 |-> WithX(s2[i])],
                                               f3 |-> [i \in DOMAIN s3 |-> WithX(s3[i])],
                                               f4 |-> [i \in DOMAIN s4 |-> WithX(s4[i])],
                                               f5 |-> [i \in DOMAIN s5 |-> WithX(s5[i])]])
=============================================================================
