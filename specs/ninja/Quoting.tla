------------------------------- MODULE Quoting -------------------------------
(***************************************************************************)
(* The decoders between a command line and an argv:                        *)
(*                                                                          *)
(*  ShSplit   - how a POSIX shell (`/bin/sh -c TEXT', the way ninja starts  *)
(*              every command) turns TEXT into commands and words: POSIX    *)
(*              XCU 2.2 Quoting (backslash, single quotes, double quotes)   *)
(*              and 2.6.5 field splitting on unquoted blanks.  The text     *)
(*              meson emits must not rely on any expansion, so an UNQUOTED  *)
(*              metacharacter  $ ` ; & | < > * ? [ ( ) # ~ newline  is      *)
(*              reported as a fault instead of being interpreted.  The one  *)
(*              operator that is interpreted is `&&' (AND list): it ends a  *)
(*              command and starts the next one.                            *)
(*  RspSplit  - how gcc (libiberty `buildargv', used by `expandargv' for    *)
(*              `@file') splits the content of a response file: blanks      *)
(*              separate, ' and " quote, and a backslash ALWAYS protects    *)
(*              the next character - also inside single quotes.             *)
(*  the specified encoders ShQuote / RspQuote (what a correct writer may    *)
(*  emit), used by the model to prove Decode(Encode(s)) = s.                *)
(***************************************************************************)
EXTENDS NinjaText

\* ---- POSIX shell ---------------------------------------------------------------
ShBlank(c) == c = SP \/ c = TAB
ShMeta(c) == c \in {DOLLAR, BTICK, SEMI, AMP, PIPE, LT, GT, STAR, QMARK, LBRACK, LPAR, RPAR, HASH, TILDE, NL}
\* inside double quotes a backslash keeps its meaning only before these
DqEscapable(c) == c \in {DOLLAR, BTICK, DQ, BSL, NL}

ShOk(cmds) == [err |-> "", ch |-> 0, at |-> 0, cmds |-> cmds]
ShBad(m, c, i) == [err |-> m, ch |-> c, at |-> i, cmds |-> <<>>]

\* cur = word being collected; has = a word has been started (so that '' is a word); words = words of the
\* command being collected; cmds = finished commands.  One step per token / quoted run, the runs of ordinary
\* characters are taken whole (NextIn scans iteratively).
EndWord(cur, has, words) == IF has THEN Append(words, cur) ELSE words
ShSpecial == {SP, TAB, SQ, DQ, BSL, DOLLAR, BTICK, SEMI, AMP, PIPE, LT, GT, STAR, QMARK, LBRACK, LPAR, RPAR, HASH, TILDE, NL}

RECURSIVE ShDq(_, _, _)
\* inside double quotes from index i: [err, ch, at, next, cur]
ShDq(s, i, cur) ==
    LET j == NextIn(s, i, {DQ, BSL, DOLLAR, BTICK})
        run == cur \o SubSeq(s, i, j - 1)
    IN IF j > Len(s) THEN [err |-> "UnterminatedQuote", ch |-> DQ, at |-> j, next |-> j, cur |-> <<>>]
       ELSE IF s[j] = DQ THEN [err |-> "", ch |-> 0, at |-> 0, next |-> j + 1, cur |-> run]
       ELSE IF s[j] = BSL
            THEN IF j = Len(s) THEN [err |-> "UnterminatedQuote", ch |-> DQ, at |-> j, next |-> j, cur |-> <<>>]
                 ELSE IF s[j + 1] = NL THEN ShDq(s, j + 2, run)
                 ELSE IF DqEscapable(s[j + 1]) THEN ShDq(s, j + 2, Append(run, s[j + 1]))
                 ELSE ShDq(s, j + 1, Append(run, BSL))
       ELSE [err |-> "ExpansionInDoubleQuotes", ch |-> s[j], at |-> j, next |-> j, cur |-> <<>>]

RECURSIVE Sh(_, _, _, _, _, _)
Sh(s, i, cur, has, words, cmds) ==
    IF i > Len(s)
    THEN LET w == EndWord(cur, has, words) IN
         IF w = <<>> THEN (IF cmds = <<>> THEN ShOk(<<>>) ELSE ShBad("EmptyCommand", AMP, i))
         ELSE ShOk(Append(cmds, w))
    ELSE LET c == s[i] IN
         IF ShBlank(c) THEN Sh(s, i + 1, <<>>, FALSE, EndWord(cur, has, words), cmds)
         ELSE IF c = SQ
              THEN LET j == NextIn(s, i + 1, {SQ}) IN
                   IF j > Len(s) THEN ShBad("UnterminatedQuote", SQ, i)
                   ELSE Sh(s, j + 1, cur \o SubSeq(s, i + 1, j - 1), TRUE, words, cmds)
         ELSE IF c = DQ
              THEN LET d == ShDq(s, i + 1, cur) IN
                   IF d.err # "" THEN ShBad(d.err, d.ch, d.at) ELSE Sh(s, d.next, d.cur, TRUE, words, cmds)
         ELSE IF c = BSL
              THEN IF i = Len(s) THEN ShBad("TrailingBackslash", BSL, i)
                   ELSE IF s[i + 1] = NL THEN Sh(s, i + 2, cur, has, words, cmds)
                   ELSE Sh(s, i + 2, Append(cur, s[i + 1]), TRUE, words, cmds)
         ELSE IF c = AMP /\ i < Len(s) /\ s[i + 1] = AMP
              THEN LET w == EndWord(cur, has, words) IN
                   IF w = <<>> THEN ShBad("EmptyCommand", AMP, i)
                   ELSE Sh(s, i + 2, <<>>, FALSE, <<>>, Append(cmds, w))
         ELSE IF ShMeta(c) THEN ShBad("UnquotedMetacharacter", c, i)
         ELSE LET j == NextIn(s, i, ShSpecial) IN Sh(s, j, cur \o SubSeq(s, i, j - 1), TRUE, words, cmds)

\* ShSplit(text) = [err, ch, at, cmds]: cmds is a sequence of commands, each a non-empty sequence of words
ShSplit(s) == Sh(s, 1, <<>>, FALSE, <<>>, <<>>)

\* ---- gcc response file (libiberty buildargv) -----------------------------------
RspBlank(c) == c \in {SP, TAB, NL, VT, FF, CR}

RspBlanks == {SP, TAB, NL, VT, FF, CR}
RECURSIVE Rsp(_, _, _, _, _, _)
\* q in {"n", "sq", "dq"}: the quote we are inside of
Rsp(s, i, q, cur, has, args) ==
    IF i > Len(s) THEN [err |-> IF q # "n" THEN "UnterminatedQuote" ELSE "", args |-> EndWord(cur, has, args)]
    ELSE LET c == s[i] IN
    IF c = BSL THEN IF i = Len(s) THEN [err |-> "UnterminatedQuote", args |-> EndWord(cur, TRUE, args)]
                    ELSE Rsp(s, i + 2, q, Append(cur, s[i + 1]), TRUE, args)
    ELSE IF q = "n" /\ RspBlank(c) THEN Rsp(s, i + 1, "n", <<>>, FALSE, EndWord(cur, has, args))
    ELSE IF q = "sq" THEN (IF c = SQ THEN Rsp(s, i + 1, "n", cur, TRUE, args)
                           ELSE LET j == NextIn(s, i, {SQ, BSL}) IN Rsp(s, j, "sq", cur \o SubSeq(s, i, j - 1), TRUE, args))
    ELSE IF q = "dq" THEN (IF c = DQ THEN Rsp(s, i + 1, "n", cur, TRUE, args)
                           ELSE LET j == NextIn(s, i, {DQ, BSL}) IN Rsp(s, j, "dq", cur \o SubSeq(s, i, j - 1), TRUE, args))
    ELSE IF c = SQ THEN Rsp(s, i + 1, "sq", cur, TRUE, args)
    ELSE IF c = DQ THEN Rsp(s, i + 1, "dq", cur, TRUE, args)
    ELSE LET j == NextIn(s, i, RspBlanks \cup {SQ, DQ, BSL}) IN Rsp(s, j, "n", cur \o SubSeq(s, i, j - 1), TRUE, args)

\* RspSplit(text) = [err, args]
RspSplit(s) == Rsp(s, 1, "n", <<>>, FALSE, <<>>)

\* ---- the specified encoders --------------------------------------------------------
\* one word for the shell: left alone when it consists of characters no shell gives a meaning to, otherwise
\* wrapped in single quotes, a single quote being written  '"'"'  (POSIX: nothing is special inside '...')
ShSafeChar(c) == IsAlnum(c) \/ c \in {USCORE, AT, 37, PLUS, EQ, COLON, COMMA, DOT, SLASH, MINUS}
RECURSIVE SqWrap(_, _)
SqWrap(s, k) == IF k > Len(s) THEN <<>>
                ELSE IF s[k] = SQ THEN <<SQ, DQ, SQ, DQ, SQ>> \o SqWrap(s, k + 1)
                ELSE <<s[k]>> \o SqWrap(s, k + 1)
ShQuote(s) == IF s # <<>> /\ \A k \in 1..Len(s) : ShSafeChar(s[k]) THEN s ELSE <<SQ>> \o SqWrap(s, 1) \o <<SQ>>

RECURSIVE DoubleBackslashes(_, _)
DoubleBackslashes(s, k) == IF k > Len(s) THEN <<>>
                           ELSE IF s[k] = BSL THEN <<BSL, BSL>> \o DoubleBackslashes(s, k + 1)
                           ELSE <<s[k]>> \o DoubleBackslashes(s, k + 1)
DoubleBS(s) == DoubleBackslashes(s, 1)
\* one word for a gcc response file: backslashes doubled (they protect everywhere), then quoted like a shell word
RspQuote(s) == ShQuote(DoubleBS(s))

\* what a C compiler's string-literal / macro lexer makes of the doubled form: \\ -> \
RECURSIVE CLiteral(_, _)
CLiteral(s, k) == IF k > Len(s) THEN <<>>
                  ELSE IF s[k] = BSL /\ k < Len(s) /\ s[k + 1] = BSL THEN <<BSL>> \o CLiteral(s, k + 2)
                  ELSE <<s[k]>> \o CLiteral(s, k + 1)
=============================================================================
