------------------------------ MODULE RuleFlavours ------------------------------
(***************************************************************************)
(* Rule book for rules that exist in two flavours (C04).                   *)
(*                                                                         *)
(* Sources: Ninja manual, "Rule variables" (rspfile, rspfile_content: "if  *)
(* present (both), Ninja will use a response file for the given command";  *)
(* the command names the file: `@$out.rsp`), "Build statements" (a build   *)
(* statement names a declared rule); Release-notes-for-0.55.0 ("Response   *)
(* files enabled on Linux, reined in on Windows ... using them on both     *)
(* platforms, but only when needed to avoid command line length limits");  *)
(* mesonlib.get_rsp_threshold ("estimate of the commandline size in bytes  *)
(* above which a response file should be used.  May be overridden ... by   *)
(* setting environment variable MESON_RSP_THRESHOLD").                     *)
(*                                                                         *)
(* A rule KIND (compile rule of a language, linker rule, static linker,    *)
(* any other) whose tool accepts response files exists in two FLAVOURS:    *)
(* the plain one `R` (all arguments on the command line) and the           *)
(* response-file one `R_RSP` (arguments in `rspfile_content`, the command  *)
(* refers to `rspfile`).  Every build statement chooses its flavour BY     *)
(* ITSELF, from the length of its own command line against the threshold.  *)
(* The manifest therefore has to declare, per kind, every flavour some     *)
(* statement uses - none, one, the other, or both (the mixed case).        *)
(*                                                                         *)
(* Two formulations of what is declared: the declarative one (the set of   *)
(* rule names the statements name) and the operational one (the writer     *)
(* counts, per kind, the statements of either flavour while they are       *)
(* queued and declares a flavour iff its count is positive);               *)
(* RuleFlavours_MC proves them equal for every queue.                      *)
(***************************************************************************)
EXTENDS BuildGraph, SequencesExt

RspSuffix == "_RSP"
IsRspName(n) == Len(n) >= Len(RspSuffix) /\ SubSeq(n, Len(n) - Len(RspSuffix) + 1, Len(n)) = RspSuffix
BaseName(n) == IF IsRspName(n) THEN SubSeq(n, 1, Len(n) - Len(RspSuffix)) ELSE n
FlavourName(base, rsp) == IF rsp THEN base \o RspSuffix ELSE base

(* ---- abstract statements ------------------------------------------------ *)
\* st = [kind |-> base rule name, len |-> length of the command line with all arguments on it]
\* rspable = the kinds whose tool accepts response files; T = the threshold
NeedsRsp(st, rspable, T) == st.kind \in rspable /\ st.len >= T
StmtRule(st, rspable, T) == FlavourName(st.kind, NeedsRsp(st, rspable, T))
\* declarative: exactly the names some statement uses must be declared (declaring more is harmless)
NeededRules(stmts, rspable, T) == {StmtRule(stmts[i], rspable, T) : i \in DOMAIN stmts}
\* both flavours of one kind in use
MixedKinds(stmts, rspable, T) ==
    {k \in rspable : {k, FlavourName(k, TRUE)} \subseteq NeededRules(stmts, rspable, T)}

\* operational: reference counts per (kind, flavour), as a function of the queue
RefCount(stmts, rspable, T, k, rsp) ==
    Cardinality({i \in DOMAIN stmts : stmts[i].kind = k /\ NeedsRsp(stmts[i], rspable, T) = rsp})
CountedRules(stmts, rspable, T, kinds) ==
    {FlavourName(kf[1], kf[2]) : kf \in {x \in kinds \X BOOLEAN : RefCount(stmts, rspable, T, x[1], x[2]) > 0}}

\* the manifest a correct writer produces (statement i produces o<i> from nothing; `extra` = flavours declared
\* although unused - permitted)
\* (in the model the kind "A" is a compiler with gcc-style dependency output, the other kinds have none)
KindDeps(k) == IF k = "A" THEN "gcc" ELSE ""
StmtEdge(st, i, rspable, T) ==
    [rule |-> StmtRule(st, rspable, T), ins |-> <<>>, imp |-> <<>>, ord |-> <<>>,
     outs |-> <<"o" \o ToString(i)>>, iouts |-> <<>>]
StmtRsp(st, rspable, T) ==
    LET r == NeedsRsp(st, rspable, T)
    IN [file |-> r, content |-> r, used |-> r, cmdlen |-> IF r THEN 0 ELSE st.len, rsplen |-> IF r THEN st.len ELSE 0]
Emit(stmts, rspable, T, declared) ==
    [rules |-> SetToSeq(declared), dup_rules |-> <<>>, pools |-> <<"console">>,
     edges |-> [i \in DOMAIN stmts |-> StmtEdge(stmts[i], i, rspable, T)],
     edge_pools |-> [i \in DOMAIN stmts |-> ""],
     edge_rsp |-> [i \in DOMAIN stmts |-> StmtRsp(stmts[i], rspable, T)],
     edge_meta |-> [i \in DOMAIN stmts |-> [deps |-> KindDeps(stmts[i].kind),
                                            depfile |-> IF KindDeps(stmts[i].kind) = "" THEN "" ELSE "o" \o ToString(i) \o ".d",
                                            generator |-> FALSE, restat |-> FALSE]],
     rule_meta |-> LET ds == SetToSeq(declared)
                   IN [k \in DOMAIN ds |-> [name |-> ds[k], deps |-> KindDeps(BaseName(ds[k])),
                                            depfile |-> IF KindDeps(BaseName(ds[k])) = "" THEN "" ELSE "${out}.d",
                                            restat |-> "", generator |-> "", pool |-> "", description |-> BaseName(ds[k])]],
     defaults |-> <<>>, errors |-> <<>>]

(* ---- laws on a manifest M as read back ---------------------------------- *)
RuleEdges(M) == {e \in DOMAIN EdgeRsp(M) : e \in EdgeIds(M) /\ M.edges[e].rule # "phony"}
\* length of the command line had every argument been left on it (for a response-file statement: what stayed on
\* the command line plus what went into the file)
PlainLen(M, e) == EdgeRsp(M)[e].cmdlen + EdgeRsp(M)[e].rsplen
\* the `_RSP` flavour is the one with a response file - the plain flavour has none
MisboundFlavourEdges(M) == {e \in RuleEdges(M) : IsRspName(M.edges[e].rule) # EdgeRsp(M)[e].file}
FlavourBinds(M) == MisboundFlavourEdges(M) = {}
\* "only when needed": a statement of an rsp-capable kind uses the response file iff its command line reaches
\* the threshold.  The writer works with an estimate of the length, so the law is stated with a band
\* [lo, hi): below lo the plain flavour, from hi on the response-file flavour, in between either.
WrongFlavourEdges(M, rspable, lo, hi) ==
    {e \in RuleEdges(M) : /\ BaseName(M.edges[e].rule) \in rspable
                          /\ IF EdgeRsp(M)[e].file THEN PlainLen(M, e) < lo ELSE PlainLen(M, e) >= hi}
FlavourChoice(M, rspable, lo, hi) == WrongFlavourEdges(M, rspable, lo, hi) = {}
\* a kind whose tool does not accept response files never gets one
UncapableRspEdges(M, rspable) == {e \in RuleEdges(M) : EdgeRsp(M)[e].file /\ BaseName(M.edges[e].rule) \notin rspable}
\* rule kinds of which both flavours are in use (coverage of the mixed case)
MixedIn(M) == {BaseName(M.edges[e].rule) : e \in {x \in RuleEdges(M) : IsRspName(M.edges[x].rule)}}
              \cap {M.edges[e].rule : e \in RuleEdges(M)}

\* the two flavours of a kind differ in how the arguments reach the tool and in nothing else: dependency
\* tracking (deps, depfile), restat, generator, pool and description are those of the kind
RuleMeta(M) == IF "rule_meta" \in DOMAIN M THEN M.rule_meta ELSE <<>>
KindVars(r) == [deps |-> r.deps, depfile |-> r.depfile, restat |-> r.restat, generator |-> r.generator,
                pool |-> r.pool, description |-> r.description]
DisagreeingKinds(M) ==
    {BaseName(r.name) : r \in {x \in Rng(RuleMeta(M)) :
        IsRspName(x.name) /\ \E y \in Rng(RuleMeta(M)) : y.name = BaseName(x.name) /\ KindVars(y) # KindVars(x)}}
FlavoursAgree(M) == DisagreeingKinds(M) = {}

FlavoursWellFormed(M, rspable, lo, hi) ==
    /\ RulesDefined(M) /\ RspBound(M) /\ RspUsed(M)
    /\ FlavourBinds(M) /\ FlavourChoice(M, rspable, lo, hi) /\ FlavoursAgree(M)
=============================================================================
