SPECIFICATION Spec
CONSTANTS MaxStmts = 3
 MaxLen = 2
INVARIANT CountsAgree
INVARIANT WrittenWellFormed
INVARIANT Tight
INVARIANT MixedSeen
INVARIANT AgreeIsTight
INVARIANT UncapableStaysPlain
CHECK_DEADLOCK FALSE
POSTCONDITION EmitFamily
