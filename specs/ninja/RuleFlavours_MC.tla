---------------------------- MODULE RuleFlavours_MC ----------------------------
(***************************************************************************)
(* Model: the manifest writer as a machine.  Statements of three rule      *)
(* kinds ("A", "C" accept response files, "B" does not) with command-line  *)
(* lengths 0..MaxLen are queued one by one; the writer keeps a reference   *)
(* count per (kind, flavour); Write declares the flavours with a positive  *)
(* count (plus, nondeterministically, unused ones) and emits the           *)
(* statements.  Every queue of <= MaxStmts statements under every          *)
(* threshold 0..MaxLen+1 is explored, so all four situations of a kind     *)
(* occur: unused, plain only, response-file only, MIXED.                   *)
(*  - CountsAgree: the counters equal the declarative reference counts and *)
(*    the flavours they select are exactly the names the statements use;   *)
(*  - WrittenWellFormed: the written manifest satisfies RulesDefined,      *)
(*    RspBound, RspUsed, FlavourBinds, FlavourChoice (band [T, T));        *)
(*  - Tight: leaving out any one needed flavour breaks RulesDefined - in   *)
(*    particular, in the mixed case both flavours are indispensable;       *)
(*  - MixedSeen: the coverage operator on the manifest names exactly the   *)
(*    mixed kinds of the queue;                                            *)
(*  - AgreeIsTight: FlavoursAgree notices a flavour whose dependency       *)
(*    tracking differs from its sibling's.                                 *)
(* The family of (queue, threshold) pairs is exported for the writer-level *)
(* binding of C04.                                                         *)
(***************************************************************************)
EXTENDS RuleFlavours, TLC, Json, IOUtils
CONSTANTS MaxStmts, MaxLen

Kinds == {"A", "B", "C"}
Rspable == {"A", "C"}
Lens == 0..MaxLen
Thresholds == 0..(MaxLen + 1)
StmtShapes == [kind : Kinds, len : Lens]
AllFlavours == {FlavourName(k, FALSE) : k \in Kinds} \cup {FlavourName(k, TRUE) : k \in Rspable}

VARIABLES stmts, T, refs, written, M
vars == <<stmts, T, refs, written, M>>

NoManifest == Emit(<<>>, Rspable, 0, {})
Init == /\ stmts = <<>> /\ T \in Thresholds
        /\ refs = [kf \in Kinds \X BOOLEAN |-> 0]
        /\ written = FALSE /\ M = NoManifest
AddStmt(st) ==
    /\ ~written /\ Len(stmts) < MaxStmts
    /\ stmts' = Append(stmts, st)
    /\ refs' = [refs EXCEPT ![<<st.kind, NeedsRsp(st, Rspable, T)>>] = @ + 1]
    /\ UNCHANGED <<T, written, M>>
Counted == {FlavourName(kf[1], kf[2]) : kf \in {x \in Kinds \X BOOLEAN : refs[x] > 0}}
Write(extra) ==
    /\ ~written /\ stmts # <<>>
    /\ written' = TRUE
    /\ M' = Emit(stmts, Rspable, T, Counted \cup extra)
    /\ UNCHANGED <<stmts, T, refs>>
Next == (\E st \in StmtShapes : AddStmt(st)) \/ (\E extra \in SUBSET (AllFlavours \ Counted) : Write(extra))
Spec == Init /\ [][Next]_vars

Needed == NeededRules(stmts, Rspable, T)
CountsAgree ==
    /\ \A kf \in Kinds \X BOOLEAN : refs[kf] = RefCount(stmts, Rspable, T, kf[1], kf[2])
    /\ Counted = Needed
    /\ Counted = CountedRules(stmts, Rspable, T, Kinds)
WrittenWellFormed ==
    written => /\ FlavoursWellFormed(M, Rspable, T, T)
               /\ DepsConsistent(M) /\ DepfilesUnique(M)
               /\ UncapableRspEdges(M, Rspable) = {}
               /\ \A i \in DOMAIN stmts : M.edges[i].rule = StmtRule(stmts[i], Rspable, T)
Without(r) == [M EXCEPT !.rules = SelectSeq(@, LAMBDA x : x # r)]
Tight == written => \A r \in Needed : ~RulesDefined(Without(r))
MixedSeen == written => /\ MixedIn(M) = MixedKinds(stmts, Rspable, T)
                        /\ \A k \in MixedIn(M) : {k, FlavourName(k, TRUE)} \subseteq Rng(M.rules)
\* the flavours of a kind agree on everything but the argument passing - and the law sees a flavour that lost
\* its dependency tracking
Spoil(r) == [M EXCEPT !.rule_meta = [k \in DOMAIN @ |-> IF @[k].name = r THEN [@[k] EXCEPT !.deps = "none"] ELSE @[k]]]
AgreeIsTight == written => \A k \in MixedIn(M) : ~FlavoursAgree(Spoil(FlavourName(k, TRUE)))
\* a kind that cannot use response files is plain whatever the threshold
UncapableStaysPlain == \A i \in DOMAIN stmts : stmts[i].kind \notin Rspable => ~NeedsRsp(stmts[i], Rspable, T)

Queues == UNION {[1..n -> StmtShapes] : n \in 1..MaxStmts}
Family == {[stmts |-> q, T |-> t, rspable |-> SetToSeq(Rspable),
            rules |-> [i \in DOMAIN q |-> StmtRule(q[i], Rspable, t)],
            mixed |-> MixedKinds(q, Rspable, t) # {}] : q \in Queues, t \in Thresholds}
EmitFamily == /\ TLCGet("stats").diameter >= 0
              /\ \E f \in Family : f.mixed
              /\ \E f \in Family : ~f.mixed
              /\ JsonSerialize("rsp_family.json", SetToSeq(Family))
=============================================================================
