-------------------------- MODULE TraceArgFidelity --------------------------
(***************************************************************************)
(* Trace validation for C03.  One case = one thing the real meson code     *)
(* emitted, projected to data (texts are code-point sequences):            *)
(*                                                                          *)
(* kind "fn"    outputs of the real quoting functions for the inputs `ss':  *)
(*              outs = <<[f, r, t]...>>, f the function, r = 1 iff it       *)
(*              raised, t its output.  The spec DECODES t and must get ss   *)
(*              back.                                                       *)
(* kind "edge"  one build statement of a real build.ninja (or of the real  *)
(*              manifest writer) as raw text: ins, outs, block (raw         *)
(*              bindings), rule (raw bindings), globals; what the build     *)
(*              definition said: pos, args (bracket = 1: args[1] and the    *)
(*              last element are unique sentinel arguments that delimit     *)
(*              the user's arguments inside a longer compiler command       *)
(*              line), envspec + ambient (below), tmpl; pickles (unpickled  *)
(*              ExecutableSerialisation files of the build directory);      *)
(*              cmd_ref / rsp_ref (has_ref = 1): the expansion computed by  *)
(*              the independent reader harness/ninja_ref.py;                *)
(*              real (has_real = 1): argv+environment recorded by a dumper  *)
(*              when the expanded command line was run by the real          *)
(*              /bin/sh -c (one record per process, in order).              *)
(* kind "test"  one test() of a real meson_test_setup.dat: obs = [argv,     *)
(*              env] as unpickled; real: one record per execution by a real *)
(*              `meson test --repeat N' (runs = N).                         *)
(*              Both kinds carry envspec (what the build definition said    *)
(*              about the environment, entries of ArgFidelity!ExpectedEnv,  *)
(*              in every spelling) and ambient (the C03V* variables the     *)
(*              harness put in the environment the command / `meson test'   *)
(*              was started in); the names the entries talk about must have *)
(*              the values E1-E3 prescribe, in the serialised form and in   *)
(*              the process.                                                *)
(* kind "envfn" the real convertor of the `env:' keyword / environment() /  *)
(*              meson.add_devenv and the real env.set/append/prepend on     *)
(*              envspec: obs0 / obs = the environment the resulting object  *)
(*              yields over the empty / the ambient environment.            *)
(* kind "devenv" what all meson.add_devenv() calls of a project said      *)
(*              (envspec) and the record of ONE command run by the real     *)
(*              `meson devenv' (args are command-line words of the harness, *)
(*              not a position of the property).                            *)
(* kind "ran"   a command meson itself runs: run_command() and             *)
(*              add_postconf_script while it configures (via "configure"),  *)
(*              add_install_script from `meson install' (via "install");    *)
(*              args incl. the program, real as for tests.                  *)
(* kind "rspreal" a response-file text and the arguments the real gcc driver    *)
(*              read from it (validates RspSplit).                          *)
(* kind "refused"  a project that only differs from an accepted one by the  *)
(*              argument strings and that `meson setup' refused.            *)
(*                                                                          *)
(* Clauses starting with "Model" say that two *environment models*          *)
(* (TLA+ decoders vs ninja_ref / real sh / real gcc) disagree: the harness  *)
(* reports them as machinery failure, never as a violation.                 *)
(***************************************************************************)
EXTENDS ArgFidelity, TLC, Json, IOUtils

Cases == JsonDeserialize(IOEnv.TRACE_FILE)

VARIABLES i, done
vars == <<i, done>>

V(c, clause, f, k, ch, exp, got) ==
    [id |-> c.id, clause |-> clause, f |-> f, k |-> k, ch |-> ch, exp |-> exp, got |-> got]
OkV(c) == V(c, "ok", "", 0, 0, <<>>, <<>>)

\* ---- level 1: functions -------------------------------------------------------------------
AnyNL(ss) == \E k \in 1..Len(ss) : ~Encodable(ss[k])
ShWords(t) == LET r == ShSplit(t) IN IF r.err # "" THEN [err |-> r.err, ch |-> r.ch, w |-> <<>>]
                                     ELSE IF Len(r.cmds) > 1 THEN [err |-> "SplitIntoCommands", ch |-> AMP, w |-> <<>>]
                                     ELSE [err |-> "", ch |-> 0, w |-> IF r.cmds = <<>> THEN <<>> ELSE r.cmds[1]]
\* decode the output of function f; returns [err, ch, w] with w the recovered argument list
DecodeFn(f, t) ==
    IF f \in {"ninja_quote", "ninja_quote_build", "quoter_notshell"}
    THEN LET u == Unescape(t) IN [err |-> u.err, ch |-> 0, w |-> <<u.t>>]
    ELSE IF f \in {"quote_arg", "join_args", "quoter_notninja"} THEN ShWords(t)
    ELSE IF f = "gcc_rsp_quote" THEN LET r == RspSplit(t) IN [err |-> r.err, ch |-> 0, w |-> r.args]
    ELSE IF f \in {"quoter_both", "var_write"}
         THEN LET u == Unescape(t) IN IF u.err # "" THEN [err |-> u.err, ch |-> 0, w |-> <<>>] ELSE ShWords(u.t)
    ELSE IF f \in {"quoter_both_rsp", "var_write_rsp"}
         THEN LET u == Unescape(t) IN IF u.err # "" THEN [err |-> u.err, ch |-> 0, w |-> <<>>]
                                      ELSE LET r == RspSplit(u.t) IN [err |-> r.err, ch |-> 0, w |-> r.args]
    ELSE IF f = "quoter_none" THEN [err |-> "", ch |-> 0, w |-> <<t>>]
    ELSE [err |-> "UnknownFunction", ch |-> 0, w |-> <<>>]
ThroughNinja(f) == f \in {"ninja_quote", "ninja_quote_build", "quoter_notshell", "quoter_both", "quoter_both_rsp",
                          "var_write", "var_write_rsp"}

JudgeOut(c, o) ==
    IF ThroughNinja(o.f) /\ AnyNL(c.ss)
    THEN IF o.r = 1 THEN OkV(c) ELSE V(c, "NewlineNotRefused", o.f, 0, NL, c.ss, <<o.t>>)
    ELSE IF o.r = 1 THEN V(c, "RefusedWithoutCause", o.f, 0, 0, c.ss, <<>>)
    ELSE LET d == DecodeFn(o.f, o.t) IN
         IF d.err # "" THEN V(c, "DecodeFault:" \o d.err, o.f, 0, d.ch, c.ss, <<o.t>>)
         ELSE IF d.w # c.ss THEN V(c, "RoundTrip", o.f, FirstDiff(c.ss, d.w), 0, c.ss, d.w)
         ELSE IF o.f = "ninja_quote_build" /\ c.ss[1] # <<>> /\ ~(\E k \in 1..Len(c.ss[1]) : c.ss[1][k] = PIPE)
                 /\ ~OnePath(o.t)
              THEN V(c, "PathSplits", o.f, 0, 0, c.ss, <<o.t>>)
         ELSE OkV(c)

RECURSIVE JudgeOuts(_, _)
JudgeOuts(c, k) == IF k > Len(c.outs) THEN OkV(c)
                   ELSE LET v == JudgeOut(c, c.outs[k]) IN IF v.clause # "ok" THEN v ELSE JudgeOuts(c, k + 1)

\* ---- level 2 / 3: build statements ---------------------------------------------------------------
NameCommand == <<99, 111, 109, 109, 97, 110, 100>>
NameRspfile == <<114, 115, 112, 102, 105, 108, 101>>
NameRspContent == <<114, 115, 112, 102, 105, 108, 101, 95, 99, 111, 110, 116, 101, 110, 116>>

Finals(cmds, c, rf, rc) == [k \in 1..Len(cmds) |-> Final(cmds[k], c.pickles, rf, rc)]

\* the slice of the observed flat argv that belongs to the user's arguments
Slice(c, flat) ==
    IF c.bracket = 0 THEN [err |-> "", t |-> flat]
    ELSE LET b == c.args[1]
             e == c.args[Len(c.args)]
         IN IF Cardinality(Occurrences(flat, b)) # 1 \/ Cardinality(Occurrences(flat, e)) # 1
            THEN [err |-> "SentinelLost", t |-> flat]
            ELSE LET x == CHOOSE k \in Occurrences(flat, b) : TRUE
                     y == CHOOSE k \in Occurrences(flat, e) : TRUE
                 IN IF x > y THEN [err |-> "SentinelOrder", t |-> flat] ELSE [err |-> "", t |-> SubSeq(flat, x, y)]

RECURSIVE EnvMissing(_, _, _)
\* index of the first expected NAME=VALUE that the observed environment does not set to that value (0 = none)
EnvMissing(want, have, k) ==
    IF k > Len(want) THEN 0
    ELSE IF EnvValue(have, want[k][1]) # want[k][2] THEN k ELSE EnvMissing(want, have, k + 1)

RECURSIVE RealDiff(_, _, _)
\* first process whose recorded argv differs from the model's (0 = none)
RealDiff(fins, real, k) ==
    IF k > Len(fins) THEN 0
    ELSE IF fins[k].argv # real[k].argv THEN k ELSE RealDiff(fins, real, k + 1)

EnvSpecOk(c) == \A k \in 1..Len(c.envspec) : EntryWellFormed(c.envspec[k])

JudgeFinals(c, fins, pos) ==
    LET via == fins[1].via
        mode == IF Len(fins) = 1 /\ via \in {"pickle", "rsp", "test"} THEN "noshell" ELSE "shell"
        flat == FlattenCmds(fins, 1)
        sl == Slice(c, flat)
        exp == Expected(c.args, pos, mode, c.tmpl)
        \* what the build definition prescribes for the names it mentions: in the serialised form (nothing
        \* ambient) and in the process (started in the ambient environment)
        want0 == WantedEnv(c.envspec, <<>>)
        wantA == WantedEnv(c.envspec, c.ambient)
        \* level 3: where only the environment (sh, env, gcc) stands between the text and the process, a
        \* disagreement with the recorded argv means the MODEL of the environment is wrong; where meson's own
        \* run-time code is in the path (meson --internal exe, the pickled wrapper, meson test) it is meson that
        \* did not hand over the argv it was given
        rt == \E k \in 1..Len(fins) : fins[k].via \in {"exewrap", "pickle", "test"}
        pre == IF rt THEN "Runtime" ELSE "ModelShell:"
        \* without meson's run-time code the process sees the ambient environment overridden by the NAME=VALUE
        \* words of `env'
        shown == c.ambient \o fins[1].env
    IN IF ~EnvSpecOk(c) THEN V(c, "ModelEnvSpec", via, 0, 0, <<>>, <<>>)
       ELSE IF c.has_real = 1 /\ Len(c.real) # Len(fins)
       THEN V(c, pre \o "ProcessCount", via, Len(c.real), 0, flat, <<>>)
       ELSE IF c.has_real = 1 /\ RealDiff(fins, c.real, 1) # 0
       THEN LET k == RealDiff(fins, c.real, 1)
                d == FirstDiff(fins[k].argv, c.real[k].argv)
            IN V(c, pre \o "Argv", via, d, 0, <<At(fins[k].argv, d)>>, <<At(c.real[k].argv, d)>>)
       ELSE IF c.has_real = 1 /\ ~rt /\ \E k \in 1..Len(want0) : EnvValue(shown, want0[k][1]) # EnvValue(c.real[1].env, want0[k][1])
       THEN LET k == CHOOSE k \in 1..Len(want0) : EnvValue(shown, want0[k][1]) # EnvValue(c.real[1].env, want0[k][1])
            IN V(c, "ModelShell:Env", via, k, 0, <<EnvValue(shown, want0[k][1])>>, <<EnvValue(c.real[1].env, want0[k][1])>>)
       ELSE IF sl.err # "" THEN V(c, sl.err, via, 0, 0, exp, flat)
       ELSE LET d == FirstDiff(exp, sl.t) IN
            IF d # 0 THEN V(c, IF Len(exp) = Len(sl.t) THEN "ArgvDiffers" ELSE "ArgCount", via, d, 0,
                            <<At(exp, d)>>, <<At(sl.t, d)>>)
            ELSE LET w == IF rt THEN want0 ELSE wantA
                     h == IF rt THEN fins[1].env ELSE shown
                     m == EnvMissing(w, h, 1)
                 IN
                 IF m # 0 THEN V(c, "EnvDiffers", via, m, 0, <<w[m][2]>>, <<EnvValue(h, w[m][1])>>)
                 ELSE IF c.has_real = 1 /\ rt /\ EnvMissing(wantA, c.real[1].env, 1) # 0
                 THEN LET r == EnvMissing(wantA, c.real[1].env, 1)
                      IN V(c, "RuntimeEnv", via, r, 0, <<wantA[r][2]>>, <<EnvValue(c.real[1].env, wantA[r][1])>>)
                 ELSE OkV(c)

JudgeEdge(c) ==
    LET edge == [ins |-> c.ins, outs |-> c.outs, block |-> c.block, rule |-> c.rule, globals |-> c.globals]
        cl == Expand(edge, NameCommand)
    IN IF cl.err # "" THEN V(c, "NinjaSyntax:" \o cl.err, "", cl.at, 0, <<>>, <<>>)
       ELSE IF c.has_ref = 1 /\ cl.t # c.cmd_ref THEN V(c, "ModelNinja:Command", "", FirstDiff(cl.t, c.cmd_ref), 0, <<cl.t>>, <<c.cmd_ref>>)
       ELSE LET rf == Expand(edge, NameRspfile)
                rc == Expand(edge, NameRspContent)
            IN IF rf.err # "" \/ rc.err # "" THEN V(c, "NinjaSyntax:" \o rf.err \o rc.err, "rsp", 0, 0, <<>>, <<>>)
               ELSE IF c.has_ref = 1 /\ rc.t # c.rsp_ref THEN V(c, "ModelNinja:RspContent", "", FirstDiff(rc.t, c.rsp_ref), 0, <<rc.t>>, <<c.rsp_ref>>)
               ELSE LET sh == ShSplit(cl.t) IN
                    IF sh.err # "" THEN V(c, "ShellFault:" \o sh.err, "", sh.at, sh.ch, <<>>, <<cl.t>>)
                    ELSE IF sh.cmds = <<>> THEN V(c, "EmptyCommandLine", "", 0, 0, <<>>, <<>>)
                    ELSE LET fins == Finals(sh.cmds, c, rf.t, rc.t) IN
                         IF \E k \in 1..Len(fins) : fins[k].err # ""
                         THEN LET k == CHOOSE k \in 1..Len(fins) : fins[k].err # "" IN
                              V(c, "Wrapper:" \o fins[k].err, "", k, 0, <<>>, sh.cmds[k])
                         ELSE JudgeFinals(c, fins, c.pos)

\* the spec's response-file reader against the real gcc driver (cc1's argv recorded through -wrapper)
JudgeRspReal(c) ==
    LET r == RspSplit(c.text) IN
    IF r.err # "" THEN V(c, "ModelRsp:Syntax", "gcc", 0, 0, <<>>, <<c.text>>)
    ELSE IF r.args # c.real THEN V(c, "ModelRsp:Argv", "gcc", FirstDiff(r.args, c.real), 0, r.args, c.real)
    ELSE OkV(c)

\* A test is executed c.runs times by the real `meson test' (--repeat: one runner per iteration, all built from
\* the same un-pickled TestSerialisation): EVERY execution must have received the serialised argv and the
\* environment the build definition prescribes over the ambient one.
RECURSIVE BadRun(_, _, _)
BadRun(c, f, k) ==
    IF k > Len(c.real) THEN 0
    ELSE IF c.real[k].argv # f.argv THEN k ELSE BadRun(c, f, k + 1)
RECURSIVE BadEnvRun(_, _, _)
BadEnvRun(c, want, k) ==
    IF k > Len(c.real) THEN 0
    ELSE IF EnvMissing(want, c.real[k].env, 1) # 0 THEN k ELSE BadEnvRun(c, want, k + 1)
JudgeTest(c) ==
    LET f == Fin("test", c.obs.argv, c.obs.env) IN
    IF c.has_real = 1 /\ Len(c.real) # c.runs
    THEN V(c, "RuntimeProcessCount", "test", Len(c.real), 0, <<>>, <<>>)
    ELSE IF c.has_real = 1 /\ BadRun(c, f, 1) # 0
    THEN LET k == BadRun(c, f, 1)
             d == FirstDiff(f.argv, c.real[k].argv)
         IN V(c, IF Len(f.argv) = Len(c.real[k].argv) THEN "RuntimeArgv" ELSE "RuntimeArgCount", "test", d, k,
              <<At(f.argv, d)>>, <<At(c.real[k].argv, d)>>)
    ELSE LET v == JudgeFinals([c EXCEPT !.has_real = 0], <<f>>, "test") IN
         IF v.clause # "ok" THEN v
         ELSE LET want == WantedEnv(c.envspec, c.ambient) IN
              IF c.has_real = 1 /\ BadEnvRun(c, want, 1) # 0
              THEN LET k == BadEnvRun(c, want, 1)
                       m == EnvMissing(want, c.real[k].env, 1)
                   IN V(c, "RuntimeEnv", "test", m, k, <<want[m][2]>>, <<EnvValue(c.real[k].env, want[m][1])>>)
              ELSE OkV(c)

\* the developer environment: one command run by the real `meson devenv' must see what all meson.add_devenv()
\* calls of the project say, in their order, over the ambient environment
JudgeDevenv(c) ==
    IF ~EnvSpecOk(c) THEN V(c, "ModelEnvSpec", "devenv", 0, 0, <<>>, <<>>)
    ELSE IF c.has_real = 0 THEN OkV(c)
    ELSE IF Len(c.real) # 1 THEN V(c, "RuntimeProcessCount", "devenv", Len(c.real), 0, <<>>, <<>>)
    ELSE IF c.real[1].argv # c.args
    THEN LET d == FirstDiff(c.args, c.real[1].argv) IN
         V(c, "ModelDevenv:Argv", "devenv", d, 0, <<At(c.args, d)>>, <<At(c.real[1].argv, d)>>)
    ELSE LET want == WantedEnv(c.envspec, c.ambient)
             m == EnvMissing(want, c.real[1].env, 1)
         IN IF m # 0 THEN V(c, "RuntimeEnv", "devenv", m, 0, <<want[m][2]>>, <<EnvValue(c.real[1].env, want[m][1])>>)
            ELSE OkV(c)

\* a command meson itself runs - run_command() and postconf scripts while it configures, install scripts from
\* `meson install': no shell, no template, no rewrite; every execution (c.runs of them) gets the argv the build
\* definition gave and the environment it prescribes over the ambient one
RECURSIVE BadRanRun(_, _, _, _)
BadRanRun(c, exp, want, k) ==
    IF k > Len(c.real) THEN 0
    ELSE IF c.real[k].argv # exp \/ EnvMissing(want, c.real[k].env, 1) # 0 THEN k ELSE BadRanRun(c, exp, want, k + 1)
JudgeRan(c) ==
    LET exp == Expected(c.args, c.pos, "noshell", <<>>)
        want == WantedEnv(c.envspec, c.ambient)
    IN IF ~EnvSpecOk(c) THEN V(c, "ModelEnvSpec", c.via, 0, 0, <<>>, <<>>)
       ELSE IF c.has_real = 0 THEN OkV(c)
       ELSE IF Len(c.real) # c.runs THEN V(c, "RuntimeProcessCount", c.via, Len(c.real), 0, <<>>, <<>>)
       ELSE LET k == BadRanRun(c, exp, want, 1) IN
            IF k = 0 THEN OkV(c)
            ELSE IF c.real[k].argv # exp
            THEN LET d == FirstDiff(exp, c.real[k].argv) IN
                 V(c, IF Len(exp) = Len(c.real[k].argv) THEN "RuntimeArgv" ELSE "RuntimeArgCount", c.via, d, k,
                   <<At(exp, d)>>, <<At(c.real[k].argv, d)>>)
            ELSE LET m == EnvMissing(want, c.real[k].env, 1) IN
                 V(c, "RuntimeEnv", c.via, m, k, <<want[m][2]>>, <<EnvValue(c.real[k].env, want[m][1])>>)

\* the real convertor / environment object on one specification, without a build directory
JudgeEnvFn(c) ==
    IF ~EnvSpecOk(c) THEN V(c, "ModelEnvSpec", c.f, 0, 0, <<>>, <<>>)
    ELSE IF c.r = 1 THEN V(c, "EnvRefused", c.f, 0, 0, <<>>, <<>>)
    ELSE LET want0 == WantedEnv(c.envspec, <<>>)
             wantA == WantedEnv(c.envspec, c.ambient)
             m0 == EnvMissing(want0, c.obs0, 1)
             mA == EnvMissing(wantA, c.obs, 1)
         IN IF m0 # 0 THEN V(c, "EnvDiffers", c.f, m0, 0, <<want0[m0][2]>>, <<EnvValue(c.obs0, want0[m0][1])>>)
            ELSE IF mA # 0 THEN V(c, "EnvDiffers", c.f, mA, 1, <<wantA[mA][2]>>, <<EnvValue(c.obs, wantA[mA][1])>>)
            ELSE IF Len(c.obs0) # Len(want0) THEN V(c, "EnvNames", c.f, Len(c.obs0), 0, <<>>, <<>>)
            ELSE OkV(c)

Judge(c) ==
    IF c.kind = "fn" THEN JudgeOuts(c, 1)
    ELSE IF c.kind = "edge" THEN JudgeEdge(c)
    ELSE IF c.kind = "test" THEN JudgeTest(c)
    ELSE IF c.kind = "envfn" THEN JudgeEnvFn(c)
    ELSE IF c.kind = "devenv" THEN JudgeDevenv(c)
    ELSE IF c.kind = "ran" THEN JudgeRan(c)
    ELSE IF c.kind = "rspreal" THEN JudgeRspReal(c)
    ELSE IF c.kind = "refused" THEN V(c, "ConfigureRefused", "", 0, 0, <<>>, <<>>)
    ELSE V(c, "UnknownKind", "", 0, 0, <<>>, <<>>)

Init == i \in 1..Len(Cases) /\ done = FALSE
Next == /\ ~done
        /\ done' = TRUE
        /\ i' = i
        /\ LET v == Judge(Cases[i]) IN v.clause = "ok" \/ PrintT(ToJson(v))
Spec == Init /\ [][Next]_vars
=============================================================================
