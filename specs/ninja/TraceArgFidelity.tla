-------------------------- MODULE TraceArgFidelity --------------------------
(***************************************************************************)
(* Trace validation for C03.  One case = one thing the real meson code     *)
(* emitted, projected to data (texts are code-point sequences):            *)
(*                                                                          *)
(* kind "fn"    outputs of the real quoting functions for the inputs `ss':  *)
(*              outs = <<[f, r, t]...>>, f the function, r = 1 iff it       *)
(*              raised, t its output.  The spec DECODES t and must get ss   *)
(*              back.                                                       *)
(* kind "edge"  one build statement of a real build.ninja (or of the real  *)
(*              manifest writer) as raw text: ins, outs, block (raw         *)
(*              bindings), rule (raw bindings), globals; what the build     *)
(*              definition said: pos, args (bracket = 1: args[1] and the    *)
(*              last element are unique sentinel arguments that delimit     *)
(*              the user's arguments inside a longer compiler command       *)
(*              line), env (NAME/VALUE pairs), tmpl; pickles (unpickled     *)
(*              ExecutableSerialisation files of the build directory);      *)
(*              cmd_ref / rsp_ref (has_ref = 1): the expansion computed by  *)
(*              the independent reader harness/ninja_ref.py;                *)
(*              real (has_real = 1): argv+environment recorded by a dumper  *)
(*              when the expanded command line was run by the real          *)
(*              /bin/sh -c (one record per process, in order).              *)
(* kind "test"  one test() of a real meson_test_setup.dat: obs = [argv,     *)
(*              env] as unpickled; real: one record per execution by a real *)
(*              `meson test --repeat N' (runs = N).                         *)
(* kind "rspreal" a response-file text and the arguments the real gcc driver    *)
(*              read from it (validates RspSplit).                          *)
(* kind "refused"  a project that only differs from an accepted one by the  *)
(*              argument strings and that `meson setup' refused.            *)
(*                                                                          *)
(* Clauses starting with "Model" say that two *environment models*          *)
(* (TLA+ decoders vs ninja_ref / real sh / real gcc) disagree: the harness  *)
(* reports them as machinery failure, never as a violation.                 *)
(***************************************************************************)
EXTENDS ArgFidelity, TLC, Json, IOUtils

Cases == JsonDeserialize(IOEnv.TRACE_FILE)

VARIABLES i, done
vars == <<i, done>>

V(c, clause, f, k, ch, exp, got) ==
    [id |-> c.id, clause |-> clause, f |-> f, k |-> k, ch |-> ch, exp |-> exp, got |-> got]
OkV(c) == V(c, "ok", "", 0, 0, <<>>, <<>>)

\* ---- level 1: functions -------------------------------------------------------------------
AnyNL(ss) == \E k \in 1..Len(ss) : ~Encodable(ss[k])
ShWords(t) == LET r == ShSplit(t) IN IF r.err # "" THEN [err |-> r.err, ch |-> r.ch, w |-> <<>>]
                                     ELSE IF Len(r.cmds) > 1 THEN [err |-> "SplitIntoCommands", ch |-> AMP, w |-> <<>>]
                                     ELSE [err |-> "", ch |-> 0, w |-> IF r.cmds = <<>> THEN <<>> ELSE r.cmds[1]]
\* decode the output of function f; returns [err, ch, w] with w the recovered argument list
DecodeFn(f, t) ==
    IF f \in {"ninja_quote", "ninja_quote_build", "quoter_notshell"}
    THEN LET u == Unescape(t) IN [err |-> u.err, ch |-> 0, w |-> <<u.t>>]
    ELSE IF f \in {"quote_arg", "join_args", "quoter_notninja"} THEN ShWords(t)
    ELSE IF f = "gcc_rsp_quote" THEN LET r == RspSplit(t) IN [err |-> r.err, ch |-> 0, w |-> r.args]
    ELSE IF f \in {"quoter_both", "var_write"}
         THEN LET u == Unescape(t) IN IF u.err # "" THEN [err |-> u.err, ch |-> 0, w |-> <<>>] ELSE ShWords(u.t)
    ELSE IF f \in {"quoter_both_rsp", "var_write_rsp"}
         THEN LET u == Unescape(t) IN IF u.err # "" THEN [err |-> u.err, ch |-> 0, w |-> <<>>]
                                      ELSE LET r == RspSplit(u.t) IN [err |-> r.err, ch |-> 0, w |-> r.args]
    ELSE IF f = "quoter_none" THEN [err |-> "", ch |-> 0, w |-> <<t>>]
    ELSE [err |-> "UnknownFunction", ch |-> 0, w |-> <<>>]
ThroughNinja(f) == f \in {"ninja_quote", "ninja_quote_build", "quoter_notshell", "quoter_both", "quoter_both_rsp",
                          "var_write", "var_write_rsp"}

JudgeOut(c, o) ==
    IF ThroughNinja(o.f) /\ AnyNL(c.ss)
    THEN IF o.r = 1 THEN OkV(c) ELSE V(c, "NewlineNotRefused", o.f, 0, NL, c.ss, <<o.t>>)
    ELSE IF o.r = 1 THEN V(c, "RefusedWithoutCause", o.f, 0, 0, c.ss, <<>>)
    ELSE LET d == DecodeFn(o.f, o.t) IN
         IF d.err # "" THEN V(c, "DecodeFault:" \o d.err, o.f, 0, d.ch, c.ss, <<o.t>>)
         ELSE IF d.w # c.ss THEN V(c, "RoundTrip", o.f, FirstDiff(c.ss, d.w), 0, c.ss, d.w)
         ELSE IF o.f = "ninja_quote_build" /\ c.ss[1] # <<>> /\ ~(\E k \in 1..Len(c.ss[1]) : c.ss[1][k] = PIPE)
                 /\ ~OnePath(o.t)
              THEN V(c, "PathSplits", o.f, 0, 0, c.ss, <<o.t>>)
         ELSE OkV(c)

RECURSIVE JudgeOuts(_, _)
JudgeOuts(c, k) == IF k > Len(c.outs) THEN OkV(c)
                   ELSE LET v == JudgeOut(c, c.outs[k]) IN IF v.clause # "ok" THEN v ELSE JudgeOuts(c, k + 1)

\* ---- level 2 / 3: build statements ---------------------------------------------------------------
NameCommand == <<99, 111, 109, 109, 97, 110, 100>>
NameRspfile == <<114, 115, 112, 102, 105, 108, 101>>
NameRspContent == <<114, 115, 112, 102, 105, 108, 101, 95, 99, 111, 110, 116, 101, 110, 116>>

Finals(cmds, c, rf, rc) == [k \in 1..Len(cmds) |-> Final(cmds[k], c.pickles, rf, rc)]

\* the slice of the observed flat argv that belongs to the user's arguments
Slice(c, flat) ==
    IF c.bracket = 0 THEN [err |-> "", t |-> flat]
    ELSE LET b == c.args[1]
             e == c.args[Len(c.args)]
         IN IF Cardinality(Occurrences(flat, b)) # 1 \/ Cardinality(Occurrences(flat, e)) # 1
            THEN [err |-> "SentinelLost", t |-> flat]
            ELSE LET x == CHOOSE k \in Occurrences(flat, b) : TRUE
                     y == CHOOSE k \in Occurrences(flat, e) : TRUE
                 IN IF x > y THEN [err |-> "SentinelOrder", t |-> flat] ELSE [err |-> "", t |-> SubSeq(flat, x, y)]

RECURSIVE EnvMissing(_, _, _)
\* index of the first expected NAME=VALUE that the observed environment does not set to that value (0 = none)
EnvMissing(want, have, k) ==
    IF k > Len(want) THEN 0
    ELSE IF EnvValue(have, want[k][1]) # want[k][2] THEN k ELSE EnvMissing(want, have, k + 1)

RECURSIVE RealDiff(_, _, _)
\* first process whose recorded argv differs from the model's (0 = none)
RealDiff(fins, real, k) ==
    IF k > Len(fins) THEN 0
    ELSE IF fins[k].argv # real[k].argv THEN k ELSE RealDiff(fins, real, k + 1)

JudgeFinals(c, fins, pos) ==
    LET via == fins[1].via
        mode == IF Len(fins) = 1 /\ via \in {"pickle", "rsp", "test"} THEN "noshell" ELSE "shell"
        flat == FlattenCmds(fins, 1)
        sl == Slice(c, flat)
        exp == Expected(c.args, pos, mode, c.tmpl)
        \* level 3: where only the environment (sh, env, gcc) stands between the text and the process, a
        \* disagreement with the recorded argv means the MODEL of the environment is wrong; where meson's own
        \* run-time code is in the path (meson --internal exe, the pickled wrapper, meson test) it is meson that
        \* did not hand over the argv it was given
        rt == \E k \in 1..Len(fins) : fins[k].via \in {"exewrap", "pickle", "test"}
        pre == IF rt THEN "Runtime" ELSE "ModelShell:"
    IN IF c.has_real = 1 /\ Len(c.real) # Len(fins)
       THEN V(c, pre \o "ProcessCount", via, Len(c.real), 0, flat, <<>>)
       ELSE IF c.has_real = 1 /\ RealDiff(fins, c.real, 1) # 0
       THEN LET k == RealDiff(fins, c.real, 1)
                d == FirstDiff(fins[k].argv, c.real[k].argv)
            IN V(c, pre \o "Argv", via, d, 0, <<At(fins[k].argv, d)>>, <<At(c.real[k].argv, d)>>)
       ELSE IF c.has_real = 1 /\ \E k \in 1..Len(c.env) : EnvValue(fins[1].env, c.env[k][1]) # EnvValue(c.real[1].env, c.env[k][1])
       THEN LET k == CHOOSE k \in 1..Len(c.env) : EnvValue(fins[1].env, c.env[k][1]) # EnvValue(c.real[1].env, c.env[k][1])
            IN V(c, pre \o "Env", via, k, 0, <<EnvValue(fins[1].env, c.env[k][1])>>, <<EnvValue(c.real[1].env, c.env[k][1])>>)
       ELSE IF sl.err # "" THEN V(c, sl.err, via, 0, 0, exp, flat)
       ELSE LET d == FirstDiff(exp, sl.t) IN
            IF d # 0 THEN V(c, IF Len(exp) = Len(sl.t) THEN "ArgvDiffers" ELSE "ArgCount", via, d, 0,
                            <<At(exp, d)>>, <<At(sl.t, d)>>)
            ELSE LET m == EnvMissing(c.env, fins[1].env, 1) IN
                 IF m # 0 THEN V(c, "EnvDiffers", via, m, 0, <<c.env[m][2]>>, <<EnvValue(fins[1].env, c.env[m][1])>>)
                 ELSE OkV(c)

JudgeEdge(c) ==
    LET edge == [ins |-> c.ins, outs |-> c.outs, block |-> c.block, rule |-> c.rule, globals |-> c.globals]
        cl == Expand(edge, NameCommand)
    IN IF cl.err # "" THEN V(c, "NinjaSyntax:" \o cl.err, "", cl.at, 0, <<>>, <<>>)
       ELSE IF c.has_ref = 1 /\ cl.t # c.cmd_ref THEN V(c, "ModelNinja:Command", "", FirstDiff(cl.t, c.cmd_ref), 0, <<cl.t>>, <<c.cmd_ref>>)
       ELSE LET rf == Expand(edge, NameRspfile)
                rc == Expand(edge, NameRspContent)
            IN IF rf.err # "" \/ rc.err # "" THEN V(c, "NinjaSyntax:" \o rf.err \o rc.err, "rsp", 0, 0, <<>>, <<>>)
               ELSE IF c.has_ref = 1 /\ rc.t # c.rsp_ref THEN V(c, "ModelNinja:RspContent", "", FirstDiff(rc.t, c.rsp_ref), 0, <<rc.t>>, <<c.rsp_ref>>)
               ELSE LET sh == ShSplit(cl.t) IN
                    IF sh.err # "" THEN V(c, "ShellFault:" \o sh.err, "", sh.at, sh.ch, <<>>, <<cl.t>>)
                    ELSE IF sh.cmds = <<>> THEN V(c, "EmptyCommandLine", "", 0, 0, <<>>, <<>>)
                    ELSE LET fins == Finals(sh.cmds, c, rf.t, rc.t) IN
                         IF \E k \in 1..Len(fins) : fins[k].err # ""
                         THEN LET k == CHOOSE k \in 1..Len(fins) : fins[k].err # "" IN
                              V(c, "Wrapper:" \o fins[k].err, "", k, 0, <<>>, sh.cmds[k])
                         ELSE JudgeFinals(c, fins, c.pos)

\* the spec's response-file reader against the real gcc driver (cc1's argv recorded through -wrapper)
JudgeRspReal(c) ==
    LET r == RspSplit(c.text) IN
    IF r.err # "" THEN V(c, "ModelRsp:Syntax", "gcc", 0, 0, <<>>, <<c.text>>)
    ELSE IF r.args # c.real THEN V(c, "ModelRsp:Argv", "gcc", FirstDiff(r.args, c.real), 0, r.args, c.real)
    ELSE OkV(c)

\* A test is executed c.runs times by the real `meson test' (--repeat: one runner per iteration, all built from
\* the same un-pickled TestSerialisation): EVERY execution must have received the serialised argv and environment.
RECURSIVE BadRun(_, _, _)
BadRun(c, f, k) ==
    IF k > Len(c.real) THEN 0
    ELSE IF c.real[k].argv # f.argv
            \/ \E m \in 1..Len(c.env) : EnvValue(f.env, c.env[m][1]) # EnvValue(c.real[k].env, c.env[m][1])
         THEN k ELSE BadRun(c, f, k + 1)
JudgeTest(c) ==
    LET f == Fin("test", c.obs.argv, c.obs.env) IN
    IF c.has_real = 1 /\ Len(c.real) # c.runs
    THEN V(c, "RuntimeProcessCount", "test", Len(c.real), 0, <<>>, <<>>)
    ELSE IF c.has_real = 1 /\ BadRun(c, f, 1) # 0
    THEN LET k == BadRun(c, f, 1) IN
         IF c.real[k].argv # f.argv
         THEN LET d == FirstDiff(f.argv, c.real[k].argv) IN
              V(c, IF Len(f.argv) = Len(c.real[k].argv) THEN "RuntimeArgv" ELSE "RuntimeArgCount", "test", d, k,
                <<At(f.argv, d)>>, <<At(c.real[k].argv, d)>>)
         ELSE V(c, "RuntimeEnv", "test", 0, k, <<>>, <<>>)
    ELSE JudgeFinals([c EXCEPT !.has_real = 0], <<f>>, "test")

Judge(c) ==
    IF c.kind = "fn" THEN JudgeOuts(c, 1)
    ELSE IF c.kind = "edge" THEN JudgeEdge(c)
    ELSE IF c.kind = "test" THEN JudgeTest(c)
    ELSE IF c.kind = "rspreal" THEN JudgeRspReal(c)
    ELSE IF c.kind = "refused" THEN V(c, "ConfigureRefused", "", 0, 0, <<>>, <<>>)
    ELSE V(c, "UnknownKind", "", 0, 0, <<>>, <<>>)

Init == i \in 1..Len(Cases) /\ done = FALSE
Next == /\ ~done
        /\ done' = TRUE
        /\ i' = i
        /\ LET v == Judge(Cases[i]) IN v.clause = "ok" \/ PrintT(ToJson(v))
Spec == Init /\ [][Next]_vars
=============================================================================
