---------------------------- MODULE TraceBuildGraph ----------------------------
(***************************************************************************)
(* Trace validation for C04.  One case = one real `meson setup` (or one    *)
(* real use of the manifest writer) projected to data:                     *)
(*   id, kind ("proj" | "corpus" | "writer"),                              *)
(*   p          abstract project (targets = <<>> for corpus / writer),     *)
(*   configured did meson accept the project / did the writer write,       *)
(*   M          the manifest as read by harness/ninja_ref.py,              *)
(*   exists     the non-produced input paths found on disk after setup,    *)
(*   ex_all, ex_test, ex_bench   extra reachability obligations taken from *)
(*              the introspection files (corpus: build_by_default targets, *)
(*              test executables / depends),                               *)
(*   intended   (writer) the graph handed to the writer; (rspwriter) the   *)
(*              abstract queue of statements, threshold and rsp-capable    *)
(*              kinds of RuleFlavours_MC,                                  *)
(*   rsp        (optional) [lo, hi, rspable]: the band of command-line     *)
(*              lengths around the response-file threshold the manifest    *)
(*              was written under and the rule kinds that have a           *)
(*              response-file flavour,                                     *)
(*   parts      (optional) the configuration of the conditional parts      *)
(*              (ManifestParts: backend_max_links, b_coverage, tools on    *)
(*              PATH, dot files, linker / compiler kinds, dependency       *)
(*              style).                                                    *)
(* The verdict names the first violated clause of the rule book.           *)
(***************************************************************************)
EXTENDS ProjectModel, ManifestParts, TLC, Json, IOUtils

Cases == JsonDeserialize(IOEnv.TRACE_FILE)

VARIABLES i, done
vars == <<i, done>>

V(c, clause, detail) == [id |-> c.id, clause |-> clause, detail |-> detail]
Some(S) == SetToSeq(S)

\* the manifest laws of the statement, in the order a reader would check them
JudgeManifest(c, M, X) ==
    IF M.errors # <<>> THEN V(c, "Lexical", M.errors)
    ELSE IF ~RulesDefined(M)
         THEN V(c, "RulesDefined", Some({M.edges[e].rule : e \in UndefinedRuleEdges(M)}) \o M.dup_rules)
    ELSE IF ~PoolsDefined(M) THEN V(c, "PoolsDefined", Some({M.edge_pools[e] : e \in UndefinedPoolEdges(M)}))
    ELSE IF ~HasOutputs(M) THEN V(c, "HasOutputs", <<>>)
    ELSE IF ~RspBound(M) THEN V(c, "RspBound", Some({M.edges[e].rule : e \in HalfBoundRspEdges(M)}))
    ELSE IF ~RspUsed(M) THEN V(c, "RspUsed", Some({M.edges[e].rule : e \in UnusedRspEdges(M)}))
    ELSE IF ~DepsConsistent(M)
         THEN V(c, "DepsConsistent", Some({M.edges[e].rule : e \in BadDepsEdges(M) \cup NoDepfileEdges(M)}))
    ELSE IF ~UniqueProducer(M) THEN V(c, "UniqueProducer", Some(DuplicateOutputs(M)))
    ELSE IF ~Closed(M, X) THEN V(c, "Closed", Some(Dangling(M, X)))
    ELSE IF ~Buildable(M, X) THEN V(c, "Acyclic", Some(OutsOf(M, Stuck(M, X))))
    ELSE IF ~DefaultsKnown(M) THEN V(c, "DefaultsKnown", Some(UnknownDefaults(M)))
    ELSE V(c, "ok", <<>>)

\* two-flavour rules (RuleFlavours): the `_RSP` flavour is the one with a response file, and a statement of an
\* rsp-capable kind uses it iff its command line reaches the threshold (band [lo, hi) given with the case)
NoRsp == [lo |-> 0, hi |-> 2147483647, rspable |-> <<>>]
CRsp(c) == IF "rsp" \in DOMAIN c THEN c.rsp ELSE NoRsp
JudgeFlavours(c, M) ==
    LET r == CRsp(c)
    IN IF ~FlavourBinds(M) THEN V(c, "FlavourBinds", Some({M.edges[e].rule : e \in MisboundFlavourEdges(M)}))
       ELSE IF ~FlavourChoice(M, Rng(r.rspable), r.lo, r.hi)
            THEN V(c, "FlavourChoice", Some({M.edges[e].rule : e \in WrongFlavourEdges(M, Rng(r.rspable), r.lo, r.hi)}))
       ELSE V(c, "ok", <<>>)

\* the conditional parts (ManifestParts) under the configuration given with the case
NoParts == [max_links |-> 0, coverage |-> FALSE, tools |-> <<>>, dotfiles |-> <<>>, tools_known |-> FALSE,
            options_known |-> FALSE, linkers |-> <<>>, compilers |-> <<>>, depstyle |-> "gcc"]
CParts(c) == IF "parts" \in DOMAIN c THEN c.parts ELSE NoParts
JudgeParts(c, M) ==
    LET g == CParts(c)
    IN IF MissingStandard(M) # {} THEN V(c, "StandardTargets", Some(MissingStandard(M)))
       ELSE IF UnreachedNeeds(M) # {} THEN V(c, "CommandNeeds", Some({pr[1] : pr \in UnreachedNeeds(M)}))
       ELSE IF RegenWrong(M) # {} THEN V(c, "RegenIsGenerator", Some(RegenWrong(M)))
       ELSE IF LinkPoolWrong(M, g) # {} THEN V(c, "LinkPool", Some(LinkPoolWrong(M, g)))
       ELSE IF CoverageWrong(M, g) # {} THEN V(c, "CoverageCleaners", Some(CoverageWrong(M, g)))
       ELSE IF ToolTargetsWrong(M, g) # {} THEN V(c, "ToolTargets", Some(ToolTargetsWrong(M, g)))
       ELSE IF CompilerDepsWrong(M, g) # {} THEN V(c, "CompilerDeps", Some(CompilerDepsWrong(M, g)))
       ELSE IF ~DepfilesUnique(M) THEN V(c, "DepfilesUnique", Some(SharedDepfiles(M)))
       ELSE IF ~FlavoursAgree(M) THEN V(c, "FlavoursAgree", Some(DisagreeingKinds(M)))
       ELSE V(c, "ok", <<>>)

\* writer level: the queue of RuleFlavours_MC through the real writer - every statement names the flavour the
\* rule book gives it, every named flavour is declared, response-file variables sit exactly on the `_RSP` ones
JudgeRspWriter(c) ==
    LET I == c.intended
        M == c.M
        ra == Rng(I.rspable)
    IN IF ~c.configured THEN V(c, "WriterRejectedQueue", <<>>)
       ELSE IF M.errors # <<>> THEN V(c, "Lexical", M.errors)
       ELSE IF Len(M.edges) # Len(I.stmts) THEN V(c, "WriterChangedGraph", <<>>)
       ELSE IF ~RulesDefined(M)
            THEN V(c, "RulesDefined", Some({M.edges[e].rule : e \in UndefinedRuleEdges(M)}) \o M.dup_rules)
       ELSE IF ~RspBound(M) THEN V(c, "RspBound", Some({M.edges[e].rule : e \in HalfBoundRspEdges(M)}))
       ELSE IF ~RspUsed(M) THEN V(c, "RspUsed", Some({M.edges[e].rule : e \in UnusedRspEdges(M)}))
       ELSE IF \E e \in DOMAIN I.stmts : M.edges[e].rule # StmtRule(I.stmts[e], ra, I.T)
            THEN V(c, "StatementFlavour", Some({M.edges[e].rule : e \in {x \in DOMAIN I.stmts : M.edges[x].rule # StmtRule(I.stmts[x], ra, I.T)}}))
       ELSE IF UncapableRspEdges(M, ra) # {} THEN V(c, "UncapableRsp", Some({M.edges[e].rule : e \in UncapableRspEdges(M, ra)}))
       ELSE IF MixedIn(M) # MixedKinds(I.stmts, ra, I.T) THEN V(c, "MixedKinds", Some(MixedIn(M)))
       ELSE IF ~FlavoursAgree(M) THEN V(c, "FlavoursAgree", Some(DisagreeingKinds(M)))
       ELSE JudgeFlavours(c, M)

JudgeReach(c, M) ==
    LET p == c.p
        wantAll == ExpectAll(p) \cup Rng(c.ex_all)
        wantTest == ExpectTests(p, FALSE) \cup Rng(c.ex_test)
        wantBench == ExpectTests(p, TRUE) \cup Rng(c.ex_bench)
        files == UNION {FilePaths(p, p.targets[t]) : t \in Targets(p)}
    IN IF ~(files \subseteq AllOutputs(M)) THEN V(c, "TargetOutputsProduced", Some(files \ AllOutputs(M)))
       ELSE IF ~(wantAll \subseteq ReachPaths(M, {"all"})) THEN V(c, "ReachAll", Some(wantAll \ ReachPaths(M, {"all"})))
       ELSE IF ~(wantTest \subseteq ReachPaths(M, {"meson-test-prereq"}))
            THEN V(c, "ReachTestPrereq", Some(wantTest \ ReachPaths(M, {"meson-test-prereq"})))
       ELSE IF ~(wantBench \subseteq ReachPaths(M, {"meson-benchmark-prereq"}))
            THEN V(c, "ReachBenchPrereq", Some(wantBench \ ReachPaths(M, {"meson-benchmark-prereq"})))
       ELSE IF UnityFilesWrong(p, M) # {} THEN V(c, "UnityChunks", Some(UnityFilesWrong(p, M)))
       ELSE IF UnityExtractionWrong(p, M) # {} THEN V(c, "UnityExtraction", Some(UnityExtractionWrong(p, M)))
       ELSE IF ~("all" \in Rng(M.defaults)) THEN V(c, "DefaultIsAll", M.defaults)
       ELSE V(c, "ok", <<>>)

SameEdge(a, b) == /\ Rng(a.outs) = Rng(b.outs) /\ Rng(a.iouts) = Rng(b.iouts)
                  /\ Rng(a.ins) = Rng(b.ins) /\ Rng(a.imp) = Rng(b.imp) /\ Rng(a.ord) = Rng(b.ord)
                  /\ Len(a.outs) = Len(b.outs) /\ Len(a.iouts) = Len(b.iouts)
JudgeWriter(c) ==
    LET I == c.intended
        dups == DuplicateOutputs(I)
    IN IF dups # {} /\ c.configured
       THEN V(c, "WriterAcceptedDuplicate",
              <<IF \A q \in dups : DupInvolvesImplicit(I, q) THEN "implicit-output" ELSE "explicit-output">> \o Some(dups))
       ELSE IF dups = {} /\ ~c.configured THEN V(c, "WriterRejectedUnique", <<>>)
       ELSE IF ~c.configured THEN V(c, "ok", <<>>)
       ELSE IF c.M.errors # <<>> THEN V(c, "Lexical", c.M.errors)
       ELSE IF Len(c.M.edges) # Len(I.edges) \/ \E e \in DOMAIN I.edges : ~SameEdge(I.edges[e], c.M.edges[e])
            THEN V(c, "WriterChangedGraph", <<>>)
       ELSE V(c, "ok", <<>>)

Judge(c) ==
    IF c.kind = "writer" THEN JudgeWriter(c)
    ELSE IF c.kind = "rspwriter" THEN JudgeRspWriter(c)
    ELSE IF c.kind = "proj" /\ Collides(c.p) /\ c.configured
         THEN V(c, "CollisionAccepted",
                Some(UNION {OutPaths(c.p, c.p.targets[pr[1]]) \cap OutPaths(c.p, c.p.targets[pr[2]]) : pr \in CollidingPairs(c.p)}
                     \cup UNION {OutPaths(c.p, c.p.targets[t]) \cap ReservedTop : t \in CollidesReserved(c.p)}))
    ELSE IF c.kind = "proj" /\ ~MayReject(c.p) /\ ~c.configured THEN V(c, "SpuriousReject", <<>>)
    ELSE IF ~c.configured THEN V(c, "ok", <<>>)
    ELSE LET v == JudgeManifest(c, c.M, Rng(c.exists))
             w == IF v.clause # "ok" THEN v ELSE JudgeFlavours(c, c.M)
             x == IF w.clause # "ok" THEN w ELSE JudgeParts(c, c.M)
         IN IF x.clause # "ok" THEN x ELSE JudgeReach(c, c.M)

Init == i \in 1..Len(Cases) /\ done = FALSE
Next == /\ ~done
        /\ done' = TRUE
        /\ i' = i
        /\ LET v == Judge(Cases[i]) IN v.clause = "ok" \/ PrintT(ToJson(v))
Spec == Init /\ [][Next]_vars
=============================================================================
