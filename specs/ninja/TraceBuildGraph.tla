---------------------------- MODULE TraceBuildGraph ----------------------------
(***************************************************************************)
(* Trace validation for C04.  One case = one real `meson setup` (or one    *)
(* real use of the manifest writer) projected to data:                     *)
(*   id, kind ("proj" | "corpus" | "writer"),                              *)
(*   p          abstract project (targets = <<>> for corpus / writer),     *)
(*   configured did meson accept the project / did the writer write,       *)
(*   M          the manifest as read by harness/ninja_ref.py,              *)
(*   exists     the non-produced input paths found on disk after setup,    *)
(*   ex_all, ex_test, ex_bench   extra reachability obligations taken from *)
(*              the introspection files (corpus: build_by_default targets, *)
(*              test executables / depends),                               *)
(*   intended   (writer) the graph handed to the writer.                   *)
(* The verdict names the first violated clause of the rule book.           *)
(***************************************************************************)
EXTENDS ProjectModel, TLC, Json, IOUtils

Cases == JsonDeserialize(IOEnv.TRACE_FILE)

VARIABLES i, done
vars == <<i, done>>

V(c, clause, detail) == [id |-> c.id, clause |-> clause, detail |-> detail]
Some(S) == SetToSeq(S)

\* the manifest laws of the statement, in the order a reader would check them
JudgeManifest(c, M, X) ==
    IF M.errors # <<>> THEN V(c, "Lexical", M.errors)
    ELSE IF ~RulesDefined(M)
         THEN V(c, "RulesDefined", Some({M.edges[e].rule : e \in UndefinedRuleEdges(M)}) \o M.dup_rules)
    ELSE IF ~PoolsDefined(M) THEN V(c, "PoolsDefined", Some({M.edge_pools[e] : e \in UndefinedPoolEdges(M)}))
    ELSE IF ~HasOutputs(M) THEN V(c, "HasOutputs", <<>>)
    ELSE IF ~UniqueProducer(M) THEN V(c, "UniqueProducer", Some(DuplicateOutputs(M)))
    ELSE IF ~Closed(M, X) THEN V(c, "Closed", Some(Dangling(M, X)))
    ELSE IF ~Buildable(M, X) THEN V(c, "Acyclic", Some(OutsOf(M, Stuck(M, X))))
    ELSE IF ~DefaultsKnown(M) THEN V(c, "DefaultsKnown", Some(UnknownDefaults(M)))
    ELSE V(c, "ok", <<>>)

JudgeReach(c, M) ==
    LET p == c.p
        wantAll == ExpectAll(p) \cup Rng(c.ex_all)
        wantTest == ExpectTests(p, FALSE) \cup Rng(c.ex_test)
        wantBench == ExpectTests(p, TRUE) \cup Rng(c.ex_bench)
        files == UNION {FilePaths(p, p.targets[t]) : t \in Targets(p)}
    IN IF ~(files \subseteq AllOutputs(M)) THEN V(c, "TargetOutputsProduced", Some(files \ AllOutputs(M)))
       ELSE IF ~(wantAll \subseteq ReachPaths(M, {"all"})) THEN V(c, "ReachAll", Some(wantAll \ ReachPaths(M, {"all"})))
       ELSE IF ~(wantTest \subseteq ReachPaths(M, {"meson-test-prereq"}))
            THEN V(c, "ReachTestPrereq", Some(wantTest \ ReachPaths(M, {"meson-test-prereq"})))
       ELSE IF ~(wantBench \subseteq ReachPaths(M, {"meson-benchmark-prereq"}))
            THEN V(c, "ReachBenchPrereq", Some(wantBench \ ReachPaths(M, {"meson-benchmark-prereq"})))
       ELSE IF UnityFilesWrong(p, M) # {} THEN V(c, "UnityChunks", Some(UnityFilesWrong(p, M)))
       ELSE IF UnityExtractionWrong(p, M) # {} THEN V(c, "UnityExtraction", Some(UnityExtractionWrong(p, M)))
       ELSE IF ~("all" \in Rng(M.defaults)) THEN V(c, "DefaultIsAll", M.defaults)
       ELSE V(c, "ok", <<>>)

SameEdge(a, b) == /\ Rng(a.outs) = Rng(b.outs) /\ Rng(a.iouts) = Rng(b.iouts)
                  /\ Rng(a.ins) = Rng(b.ins) /\ Rng(a.imp) = Rng(b.imp) /\ Rng(a.ord) = Rng(b.ord)
                  /\ Len(a.outs) = Len(b.outs) /\ Len(a.iouts) = Len(b.iouts)
JudgeWriter(c) ==
    LET I == c.intended
        dups == DuplicateOutputs(I)
    IN IF dups # {} /\ c.configured
       THEN V(c, "WriterAcceptedDuplicate",
              <<IF \A q \in dups : DupInvolvesImplicit(I, q) THEN "implicit-output" ELSE "explicit-output">> \o Some(dups))
       ELSE IF dups = {} /\ ~c.configured THEN V(c, "WriterRejectedUnique", <<>>)
       ELSE IF ~c.configured THEN V(c, "ok", <<>>)
       ELSE IF c.M.errors # <<>> THEN V(c, "Lexical", c.M.errors)
       ELSE IF Len(c.M.edges) # Len(I.edges) \/ \E e \in DOMAIN I.edges : ~SameEdge(I.edges[e], c.M.edges[e])
            THEN V(c, "WriterChangedGraph", <<>>)
       ELSE V(c, "ok", <<>>)

Judge(c) ==
    IF c.kind = "writer" THEN JudgeWriter(c)
    ELSE IF c.kind = "proj" /\ Collides(c.p) /\ c.configured
         THEN V(c, "CollisionAccepted",
                Some(UNION {OutPaths(c.p, c.p.targets[pr[1]]) \cap OutPaths(c.p, c.p.targets[pr[2]]) : pr \in CollidingPairs(c.p)}
                     \cup UNION {OutPaths(c.p, c.p.targets[t]) \cap ReservedTop : t \in CollidesReserved(c.p)}))
    ELSE IF c.kind = "proj" /\ ~MayReject(c.p) /\ ~c.configured THEN V(c, "SpuriousReject", <<>>)
    ELSE IF ~c.configured THEN V(c, "ok", <<>>)
    ELSE LET v == JudgeManifest(c, c.M, Rng(c.exists))
         IN IF v.clause # "ok" THEN v ELSE JudgeReach(c, c.M)

Init == i \in 1..Len(Cases) /\ done = FALSE
Next == /\ ~done
        /\ done' = TRUE
        /\ i' = i
        /\ LET v == Judge(Cases[i]) IN v.clause = "ok" \/ PrintT(ToJson(v))
Spec == Init /\ [][Next]_vars
=============================================================================
