--------------------------- MODULE TraceBuildSched ---------------------------
(***************************************************************************)
(* Trace validation for C05, part 1: the verdict on one recorded project.  *)
(*                                                                         *)
(* One case = one generated project configured by the real `meson setup`,  *)
(* its build.ninja read by harness/ninja_ref.py and executed by the        *)
(* reference executor harness/c05_exec.py:                                 *)
(*   id                                                                    *)
(*   g        the scheduling instance (BuildSched): manifest M restricted  *)
(*            to the statements in scope, `exists`, and per statement the  *)
(*            reads / failed probes / writes observed under strace in the  *)
(*            observed (declaration-order) run, and its declared side      *)
(*            files                                                        *)
(*   dig      <<[p, d]>> digests of the outputs after the observed run     *)
(*   runs     real executions of the whole graph from scratch under        *)
(*            adversarial schedules: [name, ev: <<[k: "start"|"end", e,    *)
(*            rc]>> in real-time order, dig]                               *)
(*   replays  per-statement hermetic replays: [e, placed (the statements   *)
(*            whose outputs were put into the otherwise pristine build     *)
(*            directory), rc, dig (digests of e's outputs)]                *)
(* Verdicts (all of them, not only the first):                             *)
(*   Stuck              some statement can never run (C04's Closed/Acyclic)*)
(*   UniqueProducer     two statements write one path (C04's law; without  *)
(*                      it no schedule-independent result exists)          *)
(*   Hermetic           a statement is runnable while a generated file it  *)
(*                      needs is not built (declarative form; the same law *)
(*                      is checked over all schedules by TraceBuildSchedAll)*)
(*   StableProbe        a generated file a statement looked for in vain    *)
(*                      can be there under another schedule                *)
(*   NoUndeclaredWrite  a statement wrote outside outputs/depfile/rspfile  *)
(*   ScheduleInvalid / ReplayInvalid   the executor itself broke the       *)
(*                      scheduling rule (machinery, not a violation)       *)
(*   StepFailed         a statement exited non-zero in a valid schedule;   *)
(*                      `paths` = the generated files it needs that the    *)
(*                      schedule had not built when it started             *)
(*   Incomplete         a valid schedule ended before everything ran       *)
(*   DigestDiffers      a schedule produced different bytes                *)
(*   ReplayFailed / ReplayDiffers   the same for the hermetic replay       *)
(***************************************************************************)
EXTENDS BuildSched, TLC, Json, IOUtils, SequencesExt

Cases == JsonDeserialize(IOEnv.TRACE_FILE)

VARIABLES i, done
vars == <<i, done>>

V(c, clause, e, paths, run) == [id |-> c.id, clause |-> clause, edge |-> e, paths |-> SetToSeq(paths), run |-> run]

Pairs(dig) == {<<x.p, x.d>> : x \in Rng(dig)}
PathsOf(S) == {pr[1] : pr \in S}

StaticV(c) ==
    LET G == c.g
        M == G.M
    IN (IF Buildable(M, X(G)) THEN {} ELSE {V(c, "Stuck", 0, OutsOf(M, Stuck(M, X(G))), "")})
       \cup (IF UniqueProducer(M) THEN {} ELSE {V(c, "UniqueProducer", 0, DuplicateOutputs(M), "")})
       \cup {V(c, "Hermetic", e, MissingAtAncestors(G, e), "") : e \in {f \in Runs(G) : MissingAtAncestors(G, f) # {}}}
       \cup {V(c, "StableProbe", e, Unordered(G, e), "") : e \in {f \in Runs(G) : Unordered(G, f) # {}}}
       \cup {V(c, "NoUndeclaredWrite", e, UndeclaredWrites(G, e), "") : e \in {f \in EdgeIds(M) : UndeclaredWrites(G, f) # {}}}

\* a real run, event by event: `fin` = statements that have ended successfully, at[e] = fin when e started
RECURSIVE Walk(_, _, _, _, _)
Walk(c, r, k, fin, at) ==
    LET G == c.g
        M == G.M
    IN IF k > Len(r.ev)
       THEN IF fin # EdgeIds(M) THEN {V(c, "Incomplete", 0, OutsOf(M, EdgeIds(M) \ fin), r.name)}
            ELSE LET diff == PathsOf((Pairs(r.dig) \ Pairs(c.dig)) \cup (Pairs(c.dig) \ Pairs(r.dig)))
                 IN IF diff = {} THEN {} ELSE {V(c, "DigestDiffers", 0, diff, r.name)}
       ELSE LET ev == r.ev[k]
            IN IF ev.k = "start"
               THEN IF ~CanRun(G, fin, ev.e)
                    THEN {V(c, "ScheduleInvalid", ev.e, Ins(M, ev.e) \ (X(G) \cup Present(G, fin)), r.name)}
                    ELSE Walk(c, r, k + 1, fin, [at EXCEPT ![ev.e] = fin])
               ELSE IF ev.rc # 0
                    THEN {V(c, "StepFailed", ev.e, Missing(G, at[ev.e], ev.e), r.name)}
                    ELSE Walk(c, r, k + 1, fin \cup {ev.e}, at)
RunV(c, r) == Walk(c, r, 1, {}, [e \in EdgeIds(c.g.M) |-> {}])

ReplayV(c, r) ==
    LET G == c.g
        A == AncEdges(G, r.e) \ {r.e}
    IN IF Rng(r.placed) # A
       THEN {V(c, "ReplayInvalid", r.e, OutsOf(G.M, (Rng(r.placed) \ A) \cup (A \ Rng(r.placed))), "replay")}
       ELSE IF r.rc # 0 THEN {V(c, "ReplayFailed", r.e, MissingAtAncestors(G, r.e), "replay")}
       ELSE LET own == {pr \in Pairs(c.dig) : pr[1] \in Outs(G.M, r.e)}
                diff == PathsOf((Pairs(r.dig) \ own) \cup (own \ Pairs(r.dig)))
            IN IF diff = {} THEN {} ELSE {V(c, "ReplayDiffers", r.e, diff, "replay")}

Verdicts(c) == StaticV(c) \cup UNION {RunV(c, r) : r \in Rng(c.runs)} \cup UNION {ReplayV(c, r) : r \in Rng(c.replays)}

Init == i \in 1..Len(Cases) /\ done = FALSE
Next == /\ ~done
        /\ done' = TRUE
        /\ i' = i
        /\ \A v \in Verdicts(Cases[i]) : PrintT(ToJson(v))
Spec == Init /\ [][Next]_vars
=============================================================================
