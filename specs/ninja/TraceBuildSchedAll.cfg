SPECIFICATION Spec
INVARIANT InvHermetic
INVARIANT InvStableProbes
INVARIANT InvNoUndeclaredWrite
INVARIANT InvConfluent
CHECK_DEADLOCK FALSE
