-------------------------- MODULE TraceBuildSchedAll --------------------------
(***************************************************************************)
(* Trace validation for C05, part 2: EVERY schedule of every recorded      *)
(* graph.  The cases are the ones of TraceBuildSched (same file); for each *)
(* case with explore = TRUE the Run(e) state machine of BuildSched is      *)
(* started on the concrete manifest meson generated, with the reads and    *)
(* writes observed from the real commands, and TLC visits every            *)
(* prefix-closed set of statements / every linear extension.  The laws of  *)
(* the property are plain state invariants; a counterexample is a schedule *)
(* prefix after which a statement may start although a generated file it   *)
(* needs has not been built.                                               *)
(***************************************************************************)
EXTENDS BuildSched, TLC, Json, IOUtils

Cases == JsonDeserialize(IOEnv.TRACE_FILE)

VARIABLES i, C, built, view
vars == <<i, C, built, view>>

\* C: the graph of case i in statement-number form.  It is a function of i, computed once per case in Init by
\* the spec's own operators and carried unchanged (a state variable rather than a definition because TLC
\* re-evaluates [j \in S |-> ...] lazily on every application).
Init == /\ i \in {j \in 1..Len(Cases) : Cases[j].explore}
        /\ C = Compiled(Cases[i].g)
        /\ built = {}
        /\ view = EmptyViewE(C)
Run(e) == /\ RunStepE(C, built, view, e, built', view')
          /\ UNCHANGED <<i, C>>
Next == \E e \in 1..C.n : Run(e)
Spec == Init /\ [][Next]_vars

InvHermetic == HermeticE(C, built)
InvStableProbes == StableProbesE(C, built)
InvNoUndeclaredWrite == NoUndeclaredWriteE(C)
InvConfluent == ConfluentE(C, built, view)
\* the statement-number form is the path form of BuildSched (needs unique producers; checked on every state
\* when this invariant is switched on - it is what makes the fast form trustworthy on the real graph)
InvFormsAgree == FormsAgree(Cases[i].g, built, [e \in 1..C.n |-> UNION {Outs(Cases[i].g.M, f) \cap Watched(Cases[i].g, e) : f \in view[e]}])
=============================================================================
