------------------------------- MODULE TraceIntro -------------------------------
(***************************************************************************)
(* Trace validation for C15: one case = the projected views of one         *)
(* configured build directory (see IntroConsistent).  The verdict names    *)
(* the first clause of the consistency relation that does not hold, with   *)
(* the offending items.                                                    *)
(***************************************************************************)
EXTENDS IntroConsistent, Json, IOUtils

Cases == JsonDeserialize(IOEnv.TRACE_FILE)
VARIABLES i, done
vars == <<i, done>>

FileTargets(c) == {c.targets[t] : t \in {u \in DOMAIN c.targets : c.targets[u].type \in FileTypes}}
Over(c, Op(_, _)) == UNION {Op(c, t) : t \in FileTargets(c)}

Clauses(c) ==
    (IF c.has_ninja THEN
    << <<"FilenameProduced", Over(c, FilenamesNotProduced)>>,
       <<"FilenameExact", Over(c, FilenamesNotExact)>>,
       <<"LinkOutputClaimed", LinkOutputsUnclaimed(c)>>,
       <<"TestRebuildRequestsExist", RequestsUnknown(c)>>,
       <<"TestRebuildRequestsComplete", RequestsIncomplete(c)>>,
       <<"SourcesConsumed", Over(c, ListedNotConsumed)>>,
       <<"ConsumedListed", Over(c, ConsumedNotListed)>>,
       <<"SourceClassification", Over(c, Misclassified)>>,
       <<"CustomTargetSources", Over(c, CustomSourcesWrong)>>,
       <<"BuildByDefaultVsAll", Over(c, BbdNotAll)>>,
       <<"BuildFilesVsRegen", BsNotRegen(c)>> >>
    ELSE << >>)
    \o
    << <<"TestsVsTestData", TestsDiffer(c.tests, c.tests_dat)>>,
       <<"BenchmarksVsTestData", TestsDiffer(c.benchmarks, c.benchmarks_dat)>>,
       <<"TestDependsKnown", UnknownDepends(c, c.tests) \cup UnknownDepends(c, c.benchmarks)>>,
       <<"TestsAsRun", IF c.did_test THEN RunsDiffer(c) ELSE {}>>,
       <<"OptionsVsGetOption", OptionsDiffer(c)>>,
       <<"PlanVsInstallData", PlanVsDat(c)>>,
       <<"InstalledVsInstallData", InstalledVsDat(c)>>,
       <<"PlanVsInstalled", PlanVsInstalled(c)>>,
       <<"InstalledFlag", InstalledFlagWrong(c)>>,
       <<"TreeVsInstalled", TreeVsInstalled(c)>>,
       <<"PlanVsTree", PlanVsTree(c)>>,
       <<"TreeVsPlan", TreeVsPlan(c)>>,
       <<"LinksVsInstallData", LinksVsDat(c)>>,
       <<"InstallFilename", InstallFilenamesWrong(c)>>,
       <<"BuildFilesExist", SeqToSet(c.bs_missing)>>,
       <<"DefinedInListed", DefinedInMissing(c)>>,
       <<"BuildFilesVsRead", BsVsRead(c)>> >>
    \o
    (IF c.has_p THEN
    << <<"TargetsVsModel", IF c.has_ninja THEN UNION TargetsVsModel(c) ELSE {}>>,
       <<"BuildByDefaultVsModel", IF c.has_ninja THEN {c.p.targets[t].name : t \in BbdWrong(c)} ELSE {}>>,
       <<"TestsVsModel", ModelTestsWrong(c)>>,
       <<"InstallVsModel", ModelInstallMissing(c)>>,
       <<"InstallSubdirVsModel", ModelSubdirMissing(c)>>,
       <<"InstallTreeVsModel", InstallTreeVsModel(c)>>,
       <<"InstallPlanVsModel", InstallPlanVsModel(c)>>,
       <<"BuildFilesVsModel", BsVsModel(c)>> >>
    ELSE << >>)

\* every violated clause is reported (a known finding must not hide another violation of the same case)
Judge(c) ==
    LET cl == Clauses(c)
        bad == {k \in DOMAIN cl : cl[k][2] # {}}
    IN [id |-> c.id, clause |-> IF bad = {} THEN "ok" ELSE "violated",
        bad |-> SetToSeq({[clause |-> cl[k][1], detail |-> SetToSeq(cl[k][2])] : k \in bad})]

Init == i \in 1..Len(Cases) /\ done = FALSE
Next == /\ ~done
        /\ done' = TRUE
        /\ i' = i
        /\ LET v == Judge(Cases[i]) IN v.clause = "ok" \/ PrintT(ToJson(v))
Spec == Init /\ [][Next]_vars
=============================================================================
