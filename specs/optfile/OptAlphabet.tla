----------------------------- MODULE OptAlphabet -----------------------------
(***************************************************************************)
(* X07 - the bounded input space of option files used by the model         *)
(* (OptFile_MC) and, exported from the TLC run, by the implementation      *)
(* harness.                                                                 *)
(*                                                                          *)
(*  Exprs(d)  every expression of nesting depth <= d over a small set of   *)
(*            leaves and every construct of the Meson expression grammar   *)
(*            (those of the option-file language and those outside it).    *)
(*  Big(d)    single statements: every expression of Exprs(d) in every     *)
(*            argument slot of option(); the product of type x value x     *)
(*            choices x min/max literals; names; the common keyword        *)
(*            arguments; unknown keywords; positional-argument shapes;     *)
(*            statements that are not option() calls.                       *)
(*  Core      a small alphabet of whole statements for files of several    *)
(*            statements (order independence, first offending statement,   *)
(*            clashing names).                                              *)
(***************************************************************************)
EXTENDS OptFile, SequencesExt

Absent == Node("absent", "", 0, <<>>)
KwIf(n, e) == IF e = Absent THEN <<>> ELSE <<KwE(n, e)>>
S(x) == EStr(x)

Leaves == {S("a"), S("b"), S("true"), S("7"), EInt(0), EInt(7), EBool(TRUE), EBool(FALSE), EId("foo")}
BinOps == {"+", "-", "*", "/", "%"}

\* (UNION of a set of sets: TLC's binary \cup on large enumerated sets is quadratic)
D1 == UNION {Leaves,
      {EParen(e) : e \in Leaves}, {ENeg(e) : e \in Leaves}, {ENot(e) : e \in Leaves},
      {EBin(op, l, r) : op \in BinOps, l \in Leaves, r \in Leaves},
      {ECmp("==", e, e) : e \in Leaves}, {ELogic("and", e, e) : e \in Leaves},
      {ECall("get_option", <<e>>) : e \in Leaves}, {EMethod(e, "to_string", <<>>) : e \in Leaves},
      {EIndex(EArr(<<e>>), EInt(0)) : e \in Leaves}, {ETern(EBool(TRUE), e, e) : e \in Leaves},
      {EArr(<<e>>) : e \in Leaves}, {EArr(<<l, r>>) : l \in Leaves, r \in Leaves},
      {EDict(<<EPair(S("k"), e)>>) : e \in Leaves}, {EDict(<<EPair(e, S("v"))>>) : e \in Leaves},
      {EArr(<<>>), EDict(<<>>), EDict(<<EPair(S("a"), S("b")), EPair(S("c"), S("d"))>>)}}

Glue == {S("a"), EInt(7)}
D2(u) == UNION {D1,
      {EParen(e) : e \in D1}, {ENeg(e) : e \in D1}, {ENot(e) : e \in D1},
      {EBin("+", x, y) : x \in D1, y \in Glue}, {EBin("+", y, x) : x \in D1, y \in Glue},
      {EArr(<<x>>) : x \in D1}, {EDict(<<EPair(S("k"), x)>>) : x \in D1}}

Exprs(d) == IF d <= 1 THEN D1 ELSE D2(d)

X == <<S("x")>>
T(k) == KwE("type", S(k))
\* every argument slot of option() an expression can stand in
NSlots == 13
Slot(k, e) ==
    CASE k = 1 -> OptionCall(X, <<T("string"), KwE("value", e)>>)
      [] k = 2 -> OptionCall(X, <<T("integer"), KwE("value", e)>>)
      [] k = 3 -> OptionCall(X, <<T("boolean"), KwE("value", e)>>)
      [] k = 4 -> OptionCall(X, <<T("array"), KwE("value", e)>>)
      [] k = 5 -> OptionCall(X, <<T("feature"), KwE("value", e)>>)
      [] k = 6 -> OptionCall(X, <<T("combo"), KwE("choices", e)>>)
      [] k = 7 -> OptionCall(X, <<T("string"), KwE("deprecated", e)>>)
      [] k = 8 -> OptionCall(<<e>>, <<T("string")>>)
      [] k = 9 -> OptionCall(X, <<T("integer"), KwE("value", EInt(3)), KwE("min", e)>>)
      [] k = 10 -> OptionCall(X, <<T("string"), KwE("yield", e)>>)
      [] k = 11 -> OptionCall(X, <<T("string"), KwE("description", e)>>)
      [] k = 12 -> OptionCall(X, <<KwE("type", e)>>)
      [] k = 13 -> OptionCall(X, <<T("integer"), KwE("value", EInt(0)), KwE("max", e)>>)
SlotStmts(d) == {Slot(k, e) : k \in 1..NSlots, e \in Exprs(d)}

TypeLits == {S("string"), S("boolean"), S("integer"), S("combo"), S("array"), S("feature"), S("str"), Absent, EInt(1)}
ValueLits == {Absent, S("a"), S("c"), S("true"), S("7"), S("enabled"), S("auto"), EInt(3), EInt(0), EInt(9),
              ENeg(EInt(1)), EBool(TRUE), EBool(FALSE), EArr(<<>>), EArr(<<S("a")>>), EArr(<<S("a"), S("c")>>),
              EArr(<<EInt(1)>>)}
ChoiceLits == {Absent, EArr(<<>>), EArr(<<S("a"), S("b")>>), EArr(<<S("c")>>), S("a"), EArr(<<EInt(1)>>)}
MinMaxLits == {<<Absent, Absent>>, <<EInt(0), Absent>>, <<Absent, EInt(5)>>, <<EInt(0), EInt(5)>>,
               <<EInt(5), EInt(0)>>, <<S("0"), Absent>>, <<ENeg(EInt(5)), EInt(0)>>}
DeclProduct ==
    {OptionCall(X, KwIf("type", t) \o KwIf("value", v) \o KwIf("choices", c) \o KwIf("min", mm[1]) \o KwIf("max", mm[2])) :
        t \in TypeLits, v \in ValueLits, c \in ChoiceLits, mm \in MinMaxLits}

NameLits == {"", "x", "opt-1", "Opt_2", "X9", "prefix", "libdir", "namingscheme", "debug", "werror", "unity", "backend",
             "default_library", "b_x", "b_", "backend_x", "c_x", "cpp_std", "rust_x", "vala_x", "nasm_x", "cx", "b-x",
             "bx_y", "build_x", "x_c", "lib_c_x", "platlib", "python.platlibdir", "a.b", "a:b", "a b", "build.x", "sub:x"}
NameStmts == {OptionCall(<<S(n)>>, <<T("string")>>) : n \in NameLits}

CommonLits == UNION {
    {KwE("yield", e) : e \in {EBool(TRUE), EBool(FALSE), S("true"), EInt(1)}},
    {KwE("description", e) : e \in {S("words here"), EInt(1), EArr(<<S("d")>>), EBin("+", S("two "), S("parts"))}},
    {KwE("deprecated", e) : e \in {EBool(TRUE), EBool(FALSE), S("y"), EArr(<<S("a")>>), EArr(<<S("a"), EInt(1)>>), EArr(<<>>),
                                     EDict(<<EPair(S("a"), S("b"))>>), EDict(<<EPair(S("a"), EInt(1))>>), EDict(<<>>),
                                     EDict(<<EPair(S("true"), S("enabled")), EPair(S("false"), S("disabled"))>>), EInt(1)}},
    {KwE(n, S("v")) : n \in {"value_", "foo", "required", "default", "name"}}}
CommonStmts == {OptionCall(X, <<T(k), kwe>>) : k \in {"string", "boolean", "array", "feature"}, kwe \in CommonLits}

ShapeStmts ==
    {OptionCall(<<>>, <<T("string")>>), OptionCall(<<S("x"), S("y")>>, <<T("string")>>), OptionCall(<<EInt(1)>>, <<T("string")>>),
     OptionCall(<<EArr(<<S("x")>>)>>, <<T("string")>>),
     Stmt("kwfirst", "option", X, <<T("string")>>),
     Call("message", <<S("hi")>>, <<>>), Call("project", <<S("p")>>, <<>>), Call("get_option", X, <<>>),
     Call("Option", X, <<T("string")>>), Call("options", X, <<T("string")>>),
     Stmt("assign", "v", <<EInt(1)>>, <<>>), Stmt("plusassign", "v", <<EInt(1)>>, <<>>), Stmt("expr", "", <<S("abc")>>, <<>>),
     Stmt("expr", "", <<EId("v")>>, <<>>), Stmt("if", "", <<EBool(TRUE)>>, <<>>), Stmt("foreach", "v", <<EArr(<<>>)>>, <<>>),
     Stmt("method", "strip", <<S("abc")>>, <<>>), Stmt("garbage", "~", <<>>, <<>>), Stmt("garbage", "$", <<>>, <<>>)}

\* as a sequence (families may overlap; TLC's union of large enumerated sets is quadratic)
BigSeqOf(d) == SetToSeq(SlotStmts(d)) \o SetToSeq(DeclProduct) \o SetToSeq(NameStmts) \o SetToSeq(CommonStmts) \o SetToSeq(ShapeStmts)

\* whole statements for files of several statements
Core ==
    {OptionCall(X, <<T("string")>>),                                              \* x : string ''
     OptionCall(X, <<T("boolean"), KwE("value", EBool(FALSE))>>),                 \* x again, another type: clash
     OptionCall(<<S("y")>>, <<T("combo"), KwE("choices", EArr(<<S("a"), S("b")>>))>>),
     OptionCall(<<S("y")>>, <<T("combo"), KwE("choices", EArr(<<S("a"), S("b")>>)), KwE("value", S("c"))>>),   \* bad value
     OptionCall(<<S("z")>>, <<T("integer"), KwE("value", EInt(3)), KwE("min", EInt(0)), KwE("max", EInt(5))>>),
     OptionCall(<<S("z")>>, <<T("integer"), KwE("min", EInt(5))>>),               \* default left open
     OptionCall(<<S("w")>>, <<T("array"), KwE("choices", EArr(<<S("a"), S("b")>>)), KwE("deprecated", EArr(<<S("a")>>))>>),
     OptionCall(<<S("old")>>, <<T("boolean"), KwE("deprecated", S("y"))>>),
     OptionCall(<<S("f")>>, <<T("feature"), KwE("yield", EBool(TRUE))>>),
     OptionCall(<<S("c_x")>>, <<T("string")>>),                                   \* reserved
     OptionCall(<<S("a.b")>>, <<T("string")>>),                                   \* not a name
     OptionCall(<<S("q")>>, <<T("string"), KwE("value", EBin("+", S("a"), EInt(1)))>>),   \* bad expression
     OptionCall(<<S("q")>>, <<T("string"), KwE("value_", S("a"))>>),              \* unknown keyword
     Call("message", <<S("hi")>>, <<>>),
     Stmt("assign", "v", <<EInt(1)>>, <<>>),
     Stmt("garbage", "~", <<>>, <<>>)}
=============================================================================
