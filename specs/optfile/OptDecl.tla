------------------------------- MODULE OptDecl -------------------------------
(***************************************************************************)
(* X07 - the option() function of option definition files: which calls     *)
(* declare an option, and which option.                                     *)
(*                                                                          *)
(* Sources:                                                                 *)
(*  [BO]  docs/markdown/Build-options.md, "Build option types":            *)
(*        - all types allow `description`; without one the name is used;   *)
(*        - string: free form, default '' when no value is set;            *)
(*        - boolean: true / false, default true;                           *)
(*        - combo: one of `choices`, default the first choice;             *)
(*        - integer: one integer, optional `min` / `max`;                  *)
(*        - array: array of strings, optionally limited to `choices`, may  *)
(*          be empty, default the values of `choices` when value is unset; *)
(*        - feature: enabled / disabled / auto (0.47 notes: tristate).     *)
(*        "Deprecated options": `deprecated:` is true, an array of values, *)
(*        a dictionary old value -> new value, or (0.63) the name of the   *)
(*        replacing option.  "Yielding to superproject option": `yield`.   *)
(*  [BI]  docs/markdown/Builtin-options.md: the names of the built-in      *)
(*        options (directories, core options), base options `b_*`,         *)
(*        compiler options `<lang>_*`, backend options `backend_*`.        *)
(*  [UT]  unittests/platformagnostictests.py test_invalid_option_names     *)
(*        (default_library, c_anything, b_anything, backend_anything are    *)
(*        reserved; `foo.bar` is not a name; `platlib` is allowed) and     *)
(*        test_option_validation (value outside min/max, array value not   *)
(*        in choices are rejected).                                         *)
(*  [F14] failing/14 invalid option name (`invalid:name`),                 *)
(*  [F55] failing/55 bad option argument (unknown keyword `value_`).       *)
(*  [T40] common/40 options: boolean value 'false'/'true' and integer      *)
(*        value '42' given as strings are (deprecatedly) accepted - also   *)
(*        Release-notes-for-1.1.0 "coercing values in the option()         *)
(*        function is deprecated".                                          *)
(*                                                                          *)
(* Not decided by any of these (see the harness assumptions): the default  *)
(* of an integer option without `value` (modelled as "free": any integer   *)
(* inside the bounds, or rejection), a name declared twice, the empty name *)
(* or description, strings as array values.                                 *)
(***************************************************************************)
EXTENDS OptExpr, OptionKinds

\* ---- names -------------------------------------------------------------------------------------
Ch(s, i) == SubSeq(s, i, i)
Letters == {"a", "b", "c", "d", "e", "f", "g", "h", "i", "j", "k", "l", "m", "n", "o", "p", "q", "r", "s", "t",
            "u", "v", "w", "x", "y", "z", "A", "B", "C", "D", "E", "F", "G", "H", "I", "J", "K", "L", "M", "N",
            "O", "P", "Q", "R", "S", "T", "U", "V", "W", "X", "Y", "Z"}
Digits == {"0", "1", "2", "3", "4", "5", "6", "7", "8", "9"}
\* [F14] [UT]: "Option names can only contain letters, numbers or dashes" (the documented examples use `_` too)
NameChars == Letters \cup Digits \cup {"_", "-"}
NameCharsOK(name) == Len(name) >= 1 /\ \A i \in 1..Len(name) : Ch(name, i) \in NameChars

\* [BI] "Directories", "Core options" tables
BuiltinNames == {"prefix", "bindir", "datadir", "includedir", "infodir", "libdir", "licensedir", "libexecdir",
                 "localedir", "localstatedir", "mandir", "sbindir", "sharedstatedir", "sysconfdir",
                 "auto_features", "backend", "genvslite", "buildtype", "debug", "default_library",
                 "default_both_libraries", "errorlogs", "install_umask", "layout", "namingscheme", "optimization",
                 "pkg_config_path", "prefer_static", "cmake_prefix_path", "stdsplit", "strip", "unity",
                 "unity_size", "warning_level", "werror", "wrap_mode", "force_fallback_for", "vsenv",
                 "os2_emxomf"}
\* [BI] "Compiler options": one prefix per language id (Reference-tables.md "Language arguments parameter names")
Languages == {"c", "cpp", "cs", "cuda", "cython", "d", "fortran", "java", "linearasm", "masm", "nasm", "objc",
              "objcpp", "rust", "swift", "vala"}
ReservedPrefixes == {"b", "backend"} \cup Languages

HasUnderscore(name) == \E i \in 1..Len(name) : Ch(name, i) = "_"
PrefixOf(name) == LET i == CHOOSE j \in 1..Len(name) : Ch(name, j) = "_" /\ \A k \in 1..(j - 1) : Ch(name, k) # "_"
                  IN SubSeq(name, 1, i - 1)
\* [UT]: built-in names and everything that starts with a reserved prefix and an underscore
NameReserved(name) == name \in BuiltinNames \/ (HasUnderscore(name) /\ PrefixOf(name) \in ReservedPrefixes)

\* ---- integers written as text ([T40] integer_string) ---------------------------------------------
IntTextRange == -99..99
IsIntText(s) == \E n \in IntTextRange : ToString(n) = s
IntOfText(s) == CHOOSE n \in IntTextRange : ToString(n) = s

\* ---- the declared option -----------------------------------------------------------------------
\* dep: how the option is deprecated: f = "none" | "all" | "list" (l) | "map" (l -> m, position-wise) | "name" (s)
Dep(f, l, m, s) == [f |-> f, l |-> l, m |-> m, s |-> s]
NoDep == Dep("none", <<>>, <<>>, "")
\* free = TRUE: the default is not fixed by the documentation (integer without value)
Opt(name, kind, choices, lo, hi, def, yield, dep, desc, free) ==
    [name |-> name, kind |-> kind, choices |-> choices, lo |-> lo, hi |-> hi, def |-> def,
     yield |-> yield, dep |-> dep, desc |-> desc, free |-> free]
DeclOf(o) == Decl(o.kind, o.choices, o.lo, o.hi)
NoOpt == Opt("", "none", <<>>, NoBound, NoBound, NoVal, FALSE, NoDep, "", FALSE)

Ok(o)       == [ok |-> TRUE,  clause |-> "ok",   opt |-> o]
Rej(clause) == [ok |-> FALSE, clause |-> clause, opt |-> NoOpt]

\* ---- keyword arguments: a sequence of [n |-> name, v |-> value] ------------------------------------
KwIdx(kw, name) == {i \in 1..Len(kw) : kw[i].n = name}
Has(kw, name)   == KwIdx(kw, name) # {}
Get(kw, name)   == kw[CHOOSE i \in KwIdx(kw, name) : TRUE].v

OptionKinds6 == {"string", "boolean", "integer", "combo", "array", "feature"}
CommonKw == {"type", "description", "yield", "deprecated", "value"}
\* [BO]: `choices` is described for combo and array, `min`/`max` for integer; [F55]: anything else is rejected
KindKw(kind) == CASE kind \in {"combo", "array"} -> {"choices"}
                  [] kind = "integer" -> {"min", "max"}
                  [] OTHER -> {}

DepOf(kw) ==
    IF ~Has(kw, "deprecated") THEN NoDep
    ELSE LET v == Get(kw, "deprecated") IN
         CASE v.t = "bool" -> IF v.n = 1 THEN Dep("all", <<>>, <<>>, "") ELSE NoDep
           [] v.t = "str"  -> Dep("name", <<>>, <<>>, v.s)
           [] IsStrArr(v)  -> Dep("list", StrsOf(v), <<>>, "")
           [] IsStrDict(v) -> Dep("map", DictKeys(v), DictVals(v), "")
           [] OTHER        -> Dep("invalid", <<>>, <<>>, "")

\* the value-specific part: returns [ok, clause, choices, lo, hi, def, free]
KindRes(ok, clause, choices, lo, hi, def, free) ==
    [ok |-> ok, clause |-> clause, choices |-> choices, lo |-> lo, hi |-> hi, def |-> def, free |-> free]
KindBad(clause) == KindRes(FALSE, clause, <<>>, NoBound, NoBound, NoVal, FALSE)

KindRules(kind, kw) ==
    LET hasv == Has(kw, "value")
        v    == IF hasv THEN Get(kw, "value") ELSE XErr("absent")
    IN
    CASE kind = "string" ->
            IF ~hasv THEN KindRes(TRUE, "ok", <<>>, NoBound, NoBound, VStr(""), FALSE)                 \* [BO] default ''
            ELSE IF v.t = "str" THEN KindRes(TRUE, "ok", <<>>, NoBound, NoBound, VStr(v.s), FALSE)
            ELSE KindBad("ValueType:string<-" \o v.t)
      [] kind = "boolean" ->
            IF ~hasv THEN KindRes(TRUE, "ok", <<>>, NoBound, NoBound, VBool(TRUE), FALSE)              \* [BO] default true
            ELSE IF v.t = "bool" THEN KindRes(TRUE, "ok", <<>>, NoBound, NoBound, VBool(v.n = 1), FALSE)
            ELSE IF v.t = "str" /\ v.s \in {"true", "false"}                                           \* [T40]
                 THEN KindRes(TRUE, "ok", <<>>, NoBound, NoBound, VBool(v.s = "true"), FALSE)
            ELSE KindBad("ValueType:boolean<-" \o v.t)
      [] kind = "combo" ->
            IF ~Has(kw, "choices") THEN KindBad("ChoicesMissing")
            ELSE LET c == Get(kw, "choices") IN
                 IF ~IsStrArr(c) \/ Len(c.a) = 0 THEN KindBad("Choices:combo")
                 ELSE IF ~hasv THEN KindRes(TRUE, "ok", StrsOf(c), NoBound, NoBound, VStr(c.a[1].s), FALSE) \* [BO] first
                 ELSE IF v.t # "str" THEN KindBad("ValueType:combo<-" \o v.t)
                 ELSE IF v.s \notin Range(StrsOf(c)) THEN KindBad("ValueChoices:combo")
                 ELSE KindRes(TRUE, "ok", StrsOf(c), NoBound, NoBound, VStr(v.s), FALSE)
      [] kind = "integer" ->
            LET lo == IF Has(kw, "min") THEN Get(kw, "min") ELSE XI(NoBound)
                hi == IF Has(kw, "max") THEN Get(kw, "max") ELSE XI(NoBound)
            IN IF lo.t # "int" THEN KindBad("MinType:" \o lo.t)
               ELSE IF hi.t # "int" THEN KindBad("MaxType:" \o hi.t)
               ELSE IF ~hasv THEN KindRes(TRUE, "ok", <<>>, lo.n, hi.n, VInt(0), TRUE)                  \* default undocumented
               ELSE IF v.t = "int" \/ (v.t = "str" /\ IsIntText(v.s))                                   \* [T40] '42'
                    THEN LET n == IF v.t = "int" THEN v.n ELSE IntOfText(v.s) IN
                         IF InBounds(Decl("integer", <<>>, lo.n, hi.n), n)                              \* [UT]
                         THEN KindRes(TRUE, "ok", <<>>, lo.n, hi.n, VInt(n), FALSE)
                         ELSE KindBad("ValueRange")
               ELSE KindBad("ValueType:integer<-" \o v.t)
      [] kind = "array" ->
            LET c == IF Has(kw, "choices") THEN Get(kw, "choices") ELSE XA(<<>>) IN
            IF ~IsStrArr(c) THEN KindBad("Choices:array")
            ELSE IF ~hasv THEN KindRes(TRUE, "ok", StrsOf(c), NoBound, NoBound, VArr(StrsOf(c)), FALSE)     \* [BO] = choices
            ELSE IF ~IsStrArr(v) THEN KindBad("ValueType:array<-" \o v.t)
            ELSE IF Len(c.a) > 0 /\ \E i \in 1..Len(v.a) : v.a[i].s \notin Range(StrsOf(c))              \* [UT]
                 THEN KindBad("ValueChoices:array")
            ELSE KindRes(TRUE, "ok", StrsOf(c), NoBound, NoBound, VArr(StrsOf(v)), FALSE)
      [] kind = "feature" ->
            IF ~hasv THEN KindRes(TRUE, "ok", <<>>, NoBound, NoBound, VStr("auto"), FALSE)              \* tristate, auto
            ELSE IF v.t # "str" THEN KindBad("ValueType:feature<-" \o v.t)
            ELSE IF v.s \notin Range(FeatureChoices) THEN KindBad("ValueChoices:feature")
            ELSE KindRes(TRUE, "ok", <<>>, NoBound, NoBound, VStr(v.s), FALSE)
      [] OTHER -> KindBad("TypeInvalid")

(***************************************************************************)
(* Declare(pos, kw): the verdict on one option() call whose arguments have *)
(* been evaluated (pos: sequence of values, kw: sequence of [n, v]).       *)
(***************************************************************************)
Declare(pos, kw) ==
    IF AnyXErr(pos) THEN Rej("Expression." \o FirstXErr(pos).s)
    ELSE IF \E i \in 1..Len(kw) : IsXErr(kw[i].v)
         THEN Rej("Expression." \o kw[CHOOSE i \in 1..Len(kw) : IsXErr(kw[i].v) /\ \A j \in 1..(i - 1) : ~IsXErr(kw[j].v)].v.s)
    ELSE IF Len(pos) # 1 THEN Rej("PositionalCount")
    ELSE IF pos[1].t # "str" THEN Rej("NameType:" \o pos[1].t)
    ELSE LET name == pos[1].s IN
    IF ~NameCharsOK(name) THEN Rej("NameChars")
    ELSE IF NameReserved(name) THEN Rej("NameReserved:" \o name)
    ELSE IF ~Has(kw, "type") THEN Rej("TypeMissing")
    ELSE IF Get(kw, "type").t # "str" \/ Get(kw, "type").s \notin OptionKinds6 THEN Rej("TypeInvalid")
    ELSE LET kind == Get(kw, "type").s
             dep  == DepOf(kw)
             desc == IF Has(kw, "description") THEN Get(kw, "description") ELSE XS(name)             \* [BO]
             yld  == IF Has(kw, "yield") THEN Get(kw, "yield") ELSE XB(FALSE)
         IN
    IF \E i \in 1..Len(kw) : kw[i].n \notin CommonKw \cup KindKw(kind) THEN Rej("UnknownKeyword")      \* [F55]
    ELSE IF desc.t # "str" THEN Rej("DescriptionType")
    ELSE IF yld.t # "bool" THEN Rej("YieldType")
    ELSE IF dep.f = "invalid" THEN Rej("DeprecatedType")
    ELSE LET k == KindRules(kind, kw) IN
         IF ~k.ok THEN Rej(k.clause)
         ELSE Ok(Opt(name, kind, k.choices, k.lo, k.hi, k.def, yld.n = 1, dep, desc.s, k.free))
=============================================================================
