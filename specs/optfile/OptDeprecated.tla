---------------------------- MODULE OptDeprecated ----------------------------
(***************************************************************************)
(* X07 - deprecated options: what a user assignment `-Dold=v` means.       *)
(*                                                                          *)
(* Sources:                                                                 *)
(*  [BO]  docs/markdown/Build-options.md "Deprecated options" (= release   *)
(*        notes 0.60 / 0.63):                                               *)
(*        o1  deprecated: true          "warns when any value is set"      *)
(*        o2  deprecated: ['a']         "warns only when 'a' is in the     *)
(*                                       list of values"                    *)
(*        o3  deprecated: {'a': 'c'}    "warns only when 'a' is in the     *)
(*                                       list of values and replace it by  *)
(*                                       'c'"                                *)
(*        o4/o5 boolean <-> feature     "old ... values are remapped"      *)
(*        o6  deprecated: 'o7'          "setting a value on the deprecated *)
(*            option will set the value on both the old and new names,     *)
(*            assuming they accept the same values"; o7 carries its own    *)
(*            map so that "old true/false values are accepted by the new   *)
(*            option".                                                      *)
(*  [T247] test cases/common/247 deprecated option (pinned): the values    *)
(*        that result (o3=a,b -> ['c','b']; o4=true -> enabled; o5=auto -> *)
(*        false; o6=false -> o6 false and o7 disabled) and the notices     *)
(*        printed, one per deprecated use.                                  *)
(*  A deprecated option is "project options ... marked as deprecated and   *)
(*  Meson will warn": the assignment is honoured, never an error because   *)
(*  of the deprecation itself; a value that is invalid after translation   *)
(*  is rejected like any invalid value (C07, OptionKinds!Valid).           *)
(*                                                                          *)
(* Values given on the command line are text: OptionKinds raw forms        *)
(* str / inttxt (one word), csv / brk (arrays).                            *)
(***************************************************************************)
EXTENDS OptDecl

\* ---- tables ---------------------------------------------------------------------------------
\* a table is a sequence of declared options (OptDecl!Opt) with distinct names
Names(tab) == {tab[i].name : i \in 1..Len(tab)}
Lookup(tab, name) == tab[CHOOSE i \in 1..Len(tab) : tab[i].name = name]

\* ---- words and raw values ---------------------------------------------------------------------
WordRaw(w) == IF IsIntText(w) THEN RIntT(IntOfText(w)) ELSE RStr(w)
\* "the list of values": the elements of an array value, the single value otherwise
Elements(o, r) == IF o.kind = "array" THEN AsList(r) ELSE <<OneWord(r)>>
FromElements(o, ws) == IF o.kind = "array" THEN RCsv(ws) ELSE WordRaw(ws[1])
\* the text form of a stored value (what a later command would pass to keep it)
RawOfVal(v) == CASE v.t = "s" -> WordRaw(v.w[1])
                 [] v.t = "b" -> RStr(IF v.n = 1 THEN "true" ELSE "false")
                 [] v.t = "i" -> RIntT(v.n)
                 [] v.t = "a" -> IF Len(v.w) = 1 THEN WordRaw(v.w[1]) ELSE RCsv(v.w)   \* the text a is both the word and the list
                 [] OTHER -> RNone

MapIdx(d, w) == {i \in 1..Len(d.l) : d.l[i] = w}
Replaced(d, w) == IF MapIdx(d, w) = {} THEN w ELSE d.m[CHOOSE i \in MapIdx(d, w) : \A j \in MapIdx(d, w) : i <= j]

\* ---- notices ------------------------------------------------------------------------------------
\* k = "option"   Option "o" is deprecated                       [T247] o1
\*     "value"    Option "o" value 'v' is deprecated             [T247] o2
\*     "replaced" Option "o" value 'v' is replaced by 'nv'       [T247] o3 o4 o5
\*     "renamed"  Option "o" is replaced by 'nv'                 (0.63 form)
Note(k, o, v, nv) == [k |-> k, o |-> o, v |-> v, nv |-> nv]

SelectIdx(ws, P(_)) == SelectSeq([i \in 1..Len(ws) |-> i], LAMBDA i : P(ws[i]))

\* the option's own deprecation applied to a raw value: the raw value that is validated and stored, and the notices
Translate(o, r) ==
    LET d  == o.dep
        ws == Elements(o, r)
    IN
    CASE d.f = "all"  -> [r |-> r, notes |-> <<Note("option", o.name, "", "")>>]
      [] d.f = "list" -> LET hit == SelectIdx(ws, LAMBDA w : w \in Range(d.l)) IN
                         [r |-> r, notes |-> [j \in 1..Len(hit) |-> Note("value", o.name, ws[hit[j]], "")]]
      [] d.f = "map"  -> LET hit == SelectIdx(ws, LAMBDA w : MapIdx(d, w) # {})
                             nws == [i \in 1..Len(ws) |-> Replaced(d, ws[i])] IN
                         [r |-> IF hit = <<>> THEN r ELSE FromElements(o, nws),
                          notes |-> [j \in 1..Len(hit) |-> Note("replaced", o.name, ws[hit[j]], nws[hit[j]])]]
      [] d.f = "name" -> [r |-> r, notes |-> <<Note("renamed", o.name, "", d.s)>>]
      [] OTHER        -> [r |-> r, notes |-> <<>>]

\* ---- one assignment ----------------------------------------------------------------------------------
Good(sets, notes) == [ok |-> TRUE,  clause |-> "ok", sets |-> sets, notes |-> notes]
Fail(clause)      == [ok |-> FALSE, clause |-> clause, sets |-> <<>>, notes |-> <<>>]
SetTo(n, v) == [n |-> n, v |-> v]

(* Assign(tab, name, r, seen): the (option, value) pairs that result from `-Dname=r`.            *)
(* The replacement form hands the *given* value to the new option, which applies its own rules   *)
(* ([T247]: o6=false gives o7 = disabled through o7's own map); both must accept it.             *)
RECURSIVE Assign(_, _, _, _)
Assign(tab, name, r, seen) ==
    IF name \notin Names(tab) THEN Fail("UnknownOption")
    ELSE LET o  == Lookup(tab, name)
             t  == Translate(o, r)
             fw == IF o.dep.f # "name" THEN Good(<<>>, <<>>)
                   ELSE IF o.dep.s \in seen \cup {name} THEN Fail("ReplacementCycle")
                   ELSE Assign(tab, o.dep.s, r, seen \cup {name})
         IN IF ~fw.ok THEN Fail("Replacement." \o fw.clause)
            ELSE IF ~Valid(DeclOf(o), t.r) THEN Fail("InvalidValue:" \o o.kind \o ":" \o o.dep.f)
            ELSE Good(Append(fw.sets, SetTo(name, Canon(DeclOf(o), t.r))), t.notes \o fw.notes)

Written(res, name) == {res.sets[j].v : j \in {k \in 1..Len(res.sets) : res.sets[k].n = name}}

\* ---- a command line: a sequence of [n |-> option name, r |-> raw value], names distinct ----------------
Explicit(cl) == {cl[i].n : i \in 1..Len(cl)}
Results(tab, cl) == [i \in 1..Len(cl) |-> Assign(tab, cl[i].n, cl[i].r, {})]
CmdOK(tab, cl) == \A i \in 1..Len(cl) : Results(tab, cl)[i].ok

(* Declarative reading.  The -D assignments of one command are a set.  An option that only one   *)
(* assignment reaches has the value that assignment gives it: the value given for it explicitly,  *)
(* or the value forwarded along the chain old -> new -> ... of a deprecated option that was set;  *)
(* every other option keeps its default.  (The whole chain must accept the value: "assuming they  *)
(* accept the same values".)                                                                      *)
(* When the user sets `new` explicitly AND sets a deprecated `old` that forwards to `new`, both    *)
(* are explicit user assignments that reach `new` and the documentation does not say which wins:  *)
(* the value is the explicit one (StrictFinal: the chain stops at an explicitly set option, whose  *)
(* own assignment takes over from there) or the forwarded one - nothing else (AllowedFinal).       *)
ChainOf(res) == [j \in 1..Len(res.sets) |-> res.sets[Len(res.sets) + 1 - j]]      \* assigned option first
RECURSIVE KeptFrom(_, _, _)
KeptFrom(ch, j, stop) == IF j > Len(ch) \/ ch[j].n \in stop THEN <<>> ELSE <<ch[j]>> \o KeptFrom(ch, j + 1, stop)
\* what assignment i contributes: its own option and the replacements up to the first explicitly set one
Kept(tab, cl, i) == LET ch == ChainOf(Results(tab, cl)[i]) IN
                    IF ch = <<>> THEN <<>> ELSE <<ch[1]>> \o KeptFrom(ch, 2, Explicit(cl))
KeptValues(tab, cl, i, name) == {Kept(tab, cl, i)[j].v : j \in {x \in 1..Len(Kept(tab, cl, i)) : Kept(tab, cl, i)[x].n = name}}

StrictFinal(tab, cl, name) ==
    LET own == {i \in 1..Len(cl) : cl[i].n = name}
        fwd == {i \in 1..Len(cl) : cl[i].n # name /\ KeptValues(tab, cl, i, name) # {}}
    IN IF own # {} THEN UNION {KeptValues(tab, cl, i, name) : i \in own}
       ELSE IF fwd # {} THEN UNION {KeptValues(tab, cl, i, name) : i \in fwd}
       ELSE {Lookup(tab, name).def}
\* values that a chain cut short at an explicitly set option would have written to `name`
CutValues(tab, cl, name) ==
    UNION {Written(Results(tab, cl)[i], name) : i \in {j \in 1..Len(cl) : cl[j].n # name /\ KeptValues(tab, cl, j, name) = {}}}
AllowedFinal(tab, cl, name) == StrictFinal(tab, cl, name) \cup CutValues(tab, cl, name)
AllNotes(tab, cl) == UNION {Range(Results(tab, cl)[i].notes) : i \in 1..Len(cl)}

\* ---- operational readings: the assignments applied one after the other to a value map ----------------------
Defaults(tab) == [n \in Names(tab) |-> Lookup(tab, n).def]

RECURSIVE WriteAll(_, _)
WriteAll(vals, sets) == IF sets = <<>> THEN vals ELSE WriteAll([vals EXCEPT ![sets[1].n] = sets[1].v], Tail(sets))

\* (P) protected: a forwarded value stops at an option that the same command sets explicitly
StepProtected(tab, cl, vals, i) == WriteAll(vals, Kept(tab, cl, i))
\* (N) naive: every assignment writes everything it implies, in command-line order
StepNaive(tab, cl, vals, i) == WriteAll(vals, Results(tab, cl)[i].sets)

RECURSIVE RunProtected(_, _, _, _), RunNaive(_, _, _, _)
RunProtected(tab, cl, vals, i) == IF i > Len(cl) THEN vals ELSE RunProtected(tab, cl, StepProtected(tab, cl, vals, i), i + 1)
RunNaive(tab, cl, vals, i) == IF i > Len(cl) THEN vals ELSE RunNaive(tab, cl, StepNaive(tab, cl, vals, i), i + 1)

\* an assignment that sets `name` (explicitly, or through a chain that an explicit option cut short) precedes an
\* assignment whose uncut chain writes a different value to it
Overtaken(tab, cl, name) ==
    \E j \in 1..Len(cl) :
        /\ Written(Results(tab, cl)[j], name) # {} /\ KeptValues(tab, cl, j, name) = {}
        /\ \A i \in (j + 1)..Len(cl) : Written(Results(tab, cl)[i], name) = {}
        /\ Written(Results(tab, cl)[j], name) # StrictFinal(tab, cl, name)

\* ---- laws about a single assignment -------------------------------------------------------------------
\* D1: whatever is stored satisfies the declaration of the option it is stored in (never silently out of domain)
StoredInDomain(tab, name, r) ==
    LET res == Assign(tab, name, r, {}) IN
    res.ok => \A j \in 1..Len(res.sets) : ValOK(DeclOf(Lookup(tab, res.sets[j].n)), res.sets[j].v)
\* D2: forwarding is the same as assigning the new option directly
ForwardEqualsDirect(tab, name, r) ==
    LET o == Lookup(tab, name)
        res == Assign(tab, name, r, {}) IN
    (res.ok /\ o.dep.f = "name") =>
        /\ Assign(tab, o.dep.s, r, {name}).ok
        /\ \A n \in Names(tab) \ {name} : Written(res, n) = Written(Assign(tab, o.dep.s, r, {name}), n)
        /\ Written(res, name) # {}
\* D3: deprecation without a mapping never changes what is stored
PlainDeprecationKeepsValue(tab, name, r) ==
    LET o == Lookup(tab, name) IN
    o.dep.f \in {"none", "all", "list", "name"} =>
        LET res == Assign(tab, name, r, {}) IN
        IF Valid(DeclOf(o), r) THEN (res.ok => Written(res, name) = {Canon(DeclOf(o), r)}) ELSE ~res.ok
\* D4: translation is idempotent - storing the stored value again changes nothing and replaces nothing in this option
\*     (for maps in which no replacement is itself a deprecated value; a chained map a->b, b->c is not)
Unchained(o) == o.dep.f = "map" => \A i \in 1..Len(o.dep.m) : o.dep.m[i] \notin Range(o.dep.l)
Idempotent(tab, name, r) ==
    LET res == Assign(tab, name, r, {}) IN
    (res.ok /\ \A i \in 1..Len(tab) : Unchained(tab[i])) =>
        \A v \in Written(res, name) :
            LET again == Assign(tab, name, RawOfVal(v), {}) IN
            /\ again.ok /\ Written(again, name) = {v}
            /\ \A n \in Names(tab) : Written(again, n) = Written(res, n)
            /\ \A j \in 1..Len(again.notes) : again.notes[j].o = name => again.notes[j].k # "replaced"
\* D5: a notice is given exactly when something deprecated was used
NoticesIffDeprecatedUse(tab, name, r) ==
    LET o == Lookup(tab, name)
        res == Assign(tab, name, r, {})
        ws == Elements(o, r)
        own == {res.notes[j] : j \in {k \in 1..Len(res.notes) : res.notes[k].o = name}} IN
    res.ok => (own # {}) = CASE o.dep.f \in {"all", "name"} -> TRUE
                               [] o.dep.f = "list" -> \E i \in 1..Len(ws) : ws[i] \in Range(o.dep.l)
                               [] o.dep.f = "map"  -> \E i \in 1..Len(ws) : ws[i] \in Range(o.dep.l)
                               [] OTHER -> FALSE
=============================================================================
