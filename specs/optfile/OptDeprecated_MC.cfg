SPECIFICATION Spec
CONSTANT Pairs = "name"
CONSTANT Pool = "full"
INVARIANT ValuesInDomain
INVARIANT ProtectedEqualsDeclarative
INVARIANT BothReadingsAllowed
INVARIANT OrderOfAssignmentsIrrelevant
INVARIANT NaiveDiffersOnlyWhenOvertaken
INVARIANT RejectionOrderIrrelevant
INVARIANT SingleLaws
INVARIANT OnlyChainTouched
CHECK_DEADLOCK FALSE
POSTCONDITION EmitCases
