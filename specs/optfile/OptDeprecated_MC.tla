--------------------------- MODULE OptDeprecated_MC ---------------------------
(***************************************************************************)
(* Model: a bounded family of option tables {old, new, third} covering the *)
(* four documented forms of `deprecated:` on every option type, and every  *)
(* command line of one or two assignments over a pool of text values.      *)
(* One initial state per case; the assignments are applied one after the   *)
(* other under both operational readings.  The case list is exported for   *)
(* the implementation harness.                                              *)
(***************************************************************************)
EXTENDS OptDeprecated, Json, IOUtils, SequencesExt
CONSTANT Pairs            \* "all": two-assignment command lines for every table; "name": only where old names a replacement
CONSTANT Pool             \* "full" | "small": the pool of command-line texts
VARIABLES ci, k, pv, nv
vars == <<ci, k, pv, nv>>

D(f, l, m, s) == Dep(f, l, m, s)
O(name, kind, choices, lo, hi, def, dep) == Opt(name, kind, choices, lo, hi, def, FALSE, dep, name, FALSE)
ABC == <<"a", "b", "c">>
ToNew == D("name", <<>>, <<>>, "new")

OldDecls == UNION {
    {O("old", "boolean", <<>>, NoBound, NoBound, VBool(TRUE), d) :
        d \in {NoDep, D("all", <<>>, <<>>, ""), D("list", <<"false">>, <<>>, ""), ToNew,
               D("map", <<"enabled", "disabled", "auto">>, <<"true", "false", "false">>, "")}},
    {O("old", "feature", <<>>, NoBound, NoBound, VStr("auto"), d) :
        d \in {NoDep, D("all", <<>>, <<>>, ""), D("list", <<"auto">>, <<>>, ""), ToNew,
               D("map", <<"true", "false">>, <<"enabled", "disabled">>, "")}},
    {O("old", "combo", ABC, NoBound, NoBound, VStr("b"), d) :
        d \in {NoDep, D("all", <<>>, <<>>, ""), D("list", <<"a">>, <<>>, ""), ToNew,
               D("map", <<"a">>, <<"c">>, ""), D("map", <<"a">>, <<"z">>, "")}},
    {O("old", "array", ABC, NoBound, NoBound, VArr(<<"b">>), d) :
        d \in {NoDep, D("all", <<>>, <<>>, ""), D("list", <<"a">>, <<>>, ""), ToNew,
               D("map", <<"a">>, <<"c">>, ""), D("map", <<"a", "b">>, <<"b", "c">>, "")}},
    {O("old", "array", <<>>, NoBound, NoBound, VArr(<<>>), d) :
        d \in {D("list", <<"a">>, <<>>, ""), ToNew, D("map", <<"a">>, <<"z">>, "")}},
    {O("old", "string", <<>>, NoBound, NoBound, VStr("b"), d) :
        d \in {NoDep, D("all", <<>>, <<>>, ""), D("list", <<"a">>, <<>>, ""), ToNew, D("map", <<"a">>, <<"b">>, ""),
               D("name", <<>>, <<>>, "gone"), D("name", <<>>, <<>>, "old")}},
    {O("old", "integer", <<>>, 0, 9, VInt(3), d) :
        d \in {NoDep, D("all", <<>>, <<>>, ""), ToNew, D("map", <<"0">>, <<"1">>, ""), D("map", <<"0">>, <<"77">>, "")}}}

NewDecls == {
    O("new", "boolean", <<>>, NoBound, NoBound, VBool(FALSE), NoDep),
    O("new", "feature", <<>>, NoBound, NoBound, VStr("enabled"), NoDep),
    O("new", "feature", <<>>, NoBound, NoBound, VStr("enabled"), D("map", <<"true", "false">>, <<"enabled", "disabled">>, "")),
    O("new", "combo", ABC, NoBound, NoBound, VStr("c"), NoDep),
    O("new", "combo", ABC, NoBound, NoBound, VStr("c"), D("map", <<"a">>, <<"c">>, "")),
    O("new", "array", ABC, NoBound, NoBound, VArr(<<"c">>), NoDep),
    O("new", "array", <<>>, NoBound, NoBound, VArr(<<"q">>), D("map", <<"a">>, <<"z">>, "")),
    O("new", "string", <<>>, NoBound, NoBound, VStr("n"), NoDep),
    O("new", "string", <<>>, NoBound, NoBound, VStr("n"), D("name", <<>>, <<>>, "third")),
    O("new", "string", <<>>, NoBound, NoBound, VStr("n"), D("list", <<"a">>, <<>>, "")),
    O("new", "string", <<>>, NoBound, NoBound, VStr("n"), D("name", <<>>, <<>>, "old")),      \* a cycle when old names new
    O("new", "integer", <<>>, 0, 9, VInt(5), NoDep)}

Third == O("third", "string", <<>>, NoBound, NoBound, VStr("t"), D("map", <<"a">>, <<"A">>, ""))

WordRaws == IF Pool = "small"
            THEN {RStr("true"), RStr("false"), RStr("enabled"), RStr("auto"), RStr("a"), RStr("c"), RStr("z"), RIntT(0), RIntT(77)}
            ELSE {RStr("true"), RStr("false"), RStr("enabled"), RStr("auto"), RStr("a"), RStr("b"), RStr("c"), RStr("z"),
                  RIntT(0), RIntT(3), RIntT(77)}
ArrRaws == IF Pool = "small"
           THEN {RCsv(<<>>), RCsv(<<"a", "b">>), RBrk(<<"a", "c">>), RCsv(<<"z">>), RStr("a")}
           ELSE {RCsv(<<>>), RCsv(<<"a", "b">>), RCsv(<<"b", "c">>), RBrk(<<"a", "c">>), RCsv(<<"z">>), RStr("a"), RStr("b")}
\* comma-separated and bracketed texts are only given where every option they reach is an array (OptionKinds has no
\* reading of such a text as a single string)
RawsFor(o, other) == IF o.kind # "array" THEN WordRaws
                     ELSE IF o.dep.f = "name" /\ other.kind # "array" THEN {RStr("a"), RStr("b")}
                     ELSE ArrRaws

A(n, r) == [n |-> n, r |-> r]
CmdLines(old, new) ==
    UNION {{<<A("old", r)>> : r \in RawsFor(old, new)},
           {<<A("new", r)>> : r \in RawsFor(new, Third)},
           IF Pairs = "all" \/ old.dep.f = "name"
           THEN {<<A("old", r1), A("new", r2)>> : r1 \in RawsFor(old, new), r2 \in RawsFor(new, Third)}
                \cup {<<A("new", r2), A("old", r1)>> : r1 \in RawsFor(old, new), r2 \in RawsFor(new, Third)}
           ELSE {}}

\* tables are exported once, cases refer to them by index (p)
PairSeq == SetToSeq(OldDecls \X NewDecls)
Tabs == [i \in 1..Len(PairSeq) |-> <<PairSeq[i][1], PairSeq[i][2], Third>>]
RECURSIVE Cat(_)
Cat(i) == IF i > Len(PairSeq) THEN <<>>
          ELSE SetToSeq({[p |-> i, cl |-> cl] : cl \in CmdLines(PairSeq[i][1], PairSeq[i][2])}) \o Cat(i + 1)
CaseSeq == Cat(1)
c == [tab |-> Tabs[CaseSeq[ci].p], cl |-> CaseSeq[ci].cl]

Init == ci \in 1..Len(CaseSeq) /\ k = 0 /\ pv = Defaults(c.tab) /\ nv = Defaults(c.tab)
Next == /\ k < Len(c.cl) /\ CmdOK(c.tab, c.cl)
        /\ k' = k + 1 /\ ci' = ci
        /\ pv' = StepProtected(c.tab, c.cl, pv, k + 1)
        /\ nv' = StepNaive(c.tab, c.cl, nv, k + 1)
Spec == Init /\ [][Next]_vars

Done == k = Len(c.cl) /\ CmdOK(c.tab, c.cl)
Rev(cl) == [i \in 1..Len(cl) |-> cl[Len(cl) + 1 - i]]

\* ---- laws ---------------------------------------------------------------------------------------
\* every value ever held - under either reading, after every assignment - satisfies its option's declaration
ValuesInDomain == \A n \in Names(c.tab) : ValOK(DeclOf(Lookup(c.tab, n)), pv[n]) /\ ValOK(DeclOf(Lookup(c.tab, n)), nv[n])
\* the protected sequential reading ends in the values of the declarative reading
ProtectedEqualsDeclarative == Done => \A n \in Names(c.tab) : StrictFinal(c.tab, c.cl, n) = {pv[n]}
\* both operational readings end inside the allowed set, which has at most two values: the explicit one and the
\* forwarded one (one deprecated option per replacement in this model), and exactly one when nothing is overtaken
BothReadingsAllowed == Done => \A n \in Names(c.tab) :
    /\ pv[n] \in AllowedFinal(c.tab, c.cl, n) /\ nv[n] \in AllowedFinal(c.tab, c.cl, n)
    /\ Cardinality(AllowedFinal(c.tab, c.cl, n)) <= 2
    /\ AllowedFinal(c.tab, c.cl, n) \subseteq {pv[n]} \cup CutValues(c.tab, c.cl, n)
    /\ (CutValues(c.tab, c.cl, n) = {} => AllowedFinal(c.tab, c.cl, n) = {pv[n]})
\* ... and so the result of a command does not depend on the order of its -D arguments
OrderOfAssignmentsIrrelevant ==
    Done => /\ CmdOK(c.tab, Rev(c.cl))
            /\ RunProtected(c.tab, Rev(c.cl), Defaults(c.tab), 1) = pv
            /\ \A n \in Names(c.tab) : /\ AllowedFinal(c.tab, Rev(c.cl), n) = AllowedFinal(c.tab, c.cl, n)
                                         /\ StrictFinal(c.tab, Rev(c.cl), n) = StrictFinal(c.tab, c.cl, n)
\* the naive reading differs exactly where an explicit assignment is overtaken by a forwarded value
NaiveDiffersOnlyWhenOvertaken == Done => \A n \in Names(c.tab) : (nv[n] # pv[n]) = Overtaken(c.tab, c.cl, n)
\* rejection does not depend on the order either
RejectionOrderIrrelevant == CmdOK(c.tab, c.cl) = CmdOK(c.tab, Rev(c.cl))
\* laws about single assignments (checked once per case, on its first assignment)
First == c.cl[1]
SingleLaws == k = 0 => /\ StoredInDomain(c.tab, First.n, First.r)
                       /\ ForwardEqualsDirect(c.tab, First.n, First.r)
                       /\ PlainDeprecationKeepsValue(c.tab, First.n, First.r)
                       /\ Idempotent(c.tab, First.n, First.r)
                       /\ NoticesIffDeprecatedUse(c.tab, First.n, First.r)
\* nothing but the named option, its replacement chain, is ever touched
OnlyChainTouched == \A n \in Names(c.tab) : (pv[n] # Lookup(c.tab, n).def) => \E i \in 1..Len(c.cl) : Written(Results(c.tab, c.cl)[i], n) # {}

EmitCases == TLCGet("stats").diameter >= 0 /\ JsonSerialize("cases.json", [tabs |-> Tabs, cases |-> CaseSeq])
=============================================================================
