------------------------------- MODULE OptExpr -------------------------------
(***************************************************************************)
(* X07 - the restricted expression language of option definition files     *)
(* (`meson.options` / `meson_options.txt`).                                 *)
(*                                                                          *)
(* Sources (documentation and pinned tests, not the Python):               *)
(*  [BO]  docs/markdown/Build-options.md - the example file: string,       *)
(*        boolean, integer and array literals, string `+` (since 0.55);    *)
(*        "Deprecated options": dictionary and array literals as values of *)
(*        `deprecated:`.                                                    *)
(*  [R55] Release-notes-for-0.55.0 "String concatenation in                *)
(*        meson_options.txt": the `+` operator on strings.                 *)
(*  [R45] [R47] Release notes 0.45 / 0.47: hexadecimal, octal and binary   *)
(*        integer literals "can be used in build and option files"         *)
(*        (a rendering choice of the harness: the value is the integer).   *)
(*  [T40] test cases/common/40 options/meson_options.txt (pinned):         *)
(*        `not (not (not (not false)))`, `-(-5)`, `'co' + 'mbo'`,          *)
(*        `'neg' + '_' + 'int'` - parentheses, `not` on booleans, unary    *)
(*        minus on integers, left-nested concatenation.                    *)
(*  [F]   test cases/failing/{14,55,94,142,144}: what an option file may   *)
(*        not contain.                                                      *)
(* Everything else of the Meson language (variables, function and method   *)
(* calls, arithmetic, comparison, logic, ternary, indexing) is not part of *)
(* the option-file language and must be rejected.                          *)
(*                                                                          *)
(* Abstract syntax: Node(k, s, n, a) - one uniform record shape so that    *)
(* TLC can hold every node in one set and JSON round-trips.                *)
(*   str(s) int(n) bool(n) arr(a) dict(a = pairs) pair(a = <<key, value>>) *)
(*   paren(a) neg(a) not(a) bin(s = op, a) cmp(s, a) logic(s, a) tern(a)   *)
(*   id(s) call(s = function, a = args) method(s = name, a = <<obj>> args) *)
(*   index(a = <<obj, idx>>)                                                *)
(* Values: XV(t, s, n, a): str(s) int(n) bool(n) arr(a) dict(a = kv        *)
(* entries, insertion ordered) err(s = clause).                            *)
(***************************************************************************)
EXTENDS Integers, Sequences, FiniteSets, TLC

Node(k, s, n, a) == [k |-> k, s |-> s, n |-> n, a |-> a]
EStr(s)        == Node("str", s, 0, <<>>)
EInt(n)        == Node("int", "", n, <<>>)
EBool(b)       == Node("bool", "", IF b THEN 1 ELSE 0, <<>>)
EArr(es)       == Node("arr", "", 0, es)
EPair(k, v)    == Node("pair", "", 0, <<k, v>>)
EDict(ps)      == Node("dict", "", 0, ps)
EParen(e)      == Node("paren", "", 0, <<e>>)
ENeg(e)        == Node("neg", "", 0, <<e>>)
ENot(e)        == Node("not", "", 0, <<e>>)
EBin(op, l, r) == Node("bin", op, 0, <<l, r>>)
ECmp(op, l, r) == Node("cmp", op, 0, <<l, r>>)
ELogic(op, l, r) == Node("logic", op, 0, <<l, r>>)
ETern(c, x, y) == Node("tern", "", 0, <<c, x, y>>)
EId(name)      == Node("id", name, 0, <<>>)
ECall(f, args) == Node("call", f, 0, args)
EMethod(obj, name, args) == Node("method", name, 0, <<obj>> \o args)
EIndex(obj, i) == Node("index", "", 0, <<obj, i>>)

XV(t, s, n, a) == [t |-> t, s |-> s, n |-> n, a |-> a]
XS(s)      == XV("str", s, 0, <<>>)
XI(n)      == XV("int", "", n, <<>>)
XB(b)      == XV("bool", "", IF b THEN 1 ELSE 0, <<>>)
XA(vs)     == XV("arr", "", 0, vs)
XKV(k, v)  == XV("kv", k, 0, <<v>>)
XD(kvs)    == XV("dict", "", 0, kvs)
XErr(c)    == XV("err", c, 0, <<>>)
IsXErr(v)  == v.t = "err"

FirstXErr(vs) == vs[CHOOSE i \in 1..Len(vs) : IsXErr(vs[i]) /\ \A j \in 1..(i - 1) : ~IsXErr(vs[j])]
AnyXErr(vs)   == \E i \in 1..Len(vs) : IsXErr(vs[i])

(***************************************************************************)
(* Operational formulation: bottom-up evaluation.                          *)
(*  - literals denote themselves                          [BO]             *)
(*  - parentheses are transparent                         [T40]            *)
(*  - `-e` needs an integer                               [T40]            *)
(*  - `not e` needs a boolean                             [T40]            *)
(*  - `l + r` needs two strings; no other operator        [BO] [R55]       *)
(*  - arrays of values; dictionaries with string-literal keys  [BO]        *)
(*  - anything else is not part of the language           [F]              *)
(* The error clause names the operand type so that a finding about one     *)
(* wrongly accepted operand type cannot hide another.                      *)
(***************************************************************************)
RECURSIVE Eval(_)
Eval(e) ==
    CASE e.k = "str"   -> XS(e.s)
      [] e.k = "int"   -> XI(e.n)
      [] e.k = "bool"  -> XB(e.n = 1)
      [] e.k = "paren" -> Eval(e.a[1])
      [] e.k = "neg"   -> LET v == Eval(e.a[1]) IN
                          IF IsXErr(v) THEN v
                          ELSE IF v.t = "int" THEN XI(0 - v.n)
                          ELSE XErr("NegNonNumber:" \o v.t)
      [] e.k = "not"   -> LET v == Eval(e.a[1]) IN
                          IF IsXErr(v) THEN v
                          ELSE IF v.t = "bool" THEN XB(v.n = 0)
                          ELSE XErr("NotNonBoolean:" \o v.t)
      [] e.k = "bin"   -> LET l == Eval(e.a[1])
                              r == Eval(e.a[2]) IN
                          IF IsXErr(l) THEN l
                          ELSE IF IsXErr(r) THEN r
                          ELSE IF e.s = "+" /\ l.t = "str" /\ r.t = "str" THEN XS(l.s \o r.s)
                          ELSE IF e.s = "+" THEN XErr("OnlyStringConcat:" \o l.t \o "+" \o r.t)
                          ELSE XErr("Operator:" \o e.s)
      [] e.k = "arr"   -> LET vs == [i \in 1..Len(e.a) |-> Eval(e.a[i])] IN
                          IF AnyXErr(vs) THEN FirstXErr(vs) ELSE XA(vs)
      [] e.k = "dict"  -> LET kvs == [i \in 1..Len(e.a) |->
                                        IF e.a[i].a[1].k # "str" THEN XErr("DictKeyNotStringLiteral")
                                        ELSE LET v == Eval(e.a[i].a[2]) IN
                                             IF IsXErr(v) THEN v ELSE XKV(e.a[i].a[1].s, v)] IN
                          IF AnyXErr(kvs) THEN FirstXErr(kvs) ELSE XD(kvs)
      [] OTHER         -> XErr("NotInLanguage:" \o e.k)

(***************************************************************************)
(* Declarative formulation: a typing judgement plus a denotation read off  *)
(* the leaves.  TLC proves (OptFile_MC) that for every expression of the   *)
(* bounded space                                                            *)
(*     Eval(e) is an error  <=>  TypeOf(e) = "bad"                          *)
(*     otherwise Eval(e).t = TypeOf(e) and Eval(e) = Denote(e).             *)
(***************************************************************************)
RECURSIVE TypeOf(_)
TypeOf(e) ==
    CASE e.k \in {"str", "int", "bool"} -> e.k
      [] e.k = "paren" -> TypeOf(e.a[1])
      [] e.k = "neg"   -> IF TypeOf(e.a[1]) = "int" THEN "int" ELSE "bad"
      [] e.k = "not"   -> IF TypeOf(e.a[1]) = "bool" THEN "bool" ELSE "bad"
      [] e.k = "bin"   -> IF e.s = "+" /\ TypeOf(e.a[1]) = "str" /\ TypeOf(e.a[2]) = "str" THEN "str" ELSE "bad"
      [] e.k = "arr"   -> IF \A i \in 1..Len(e.a) : TypeOf(e.a[i]) # "bad" THEN "arr" ELSE "bad"
      [] e.k = "dict"  -> IF \A i \in 1..Len(e.a) : e.a[i].a[1].k = "str" /\ TypeOf(e.a[i].a[2]) # "bad"
                          THEN "dict" ELSE "bad"
      [] OTHER -> "bad"

\* the string leaves of a well-typed string expression, left to right
RECURSIVE StrLeaves(_)
StrLeaves(e) ==
    CASE e.k = "str" -> <<e.s>>
      [] e.k = "paren" -> StrLeaves(e.a[1])
      [] e.k = "bin" -> StrLeaves(e.a[1]) \o StrLeaves(e.a[2])
      [] OTHER -> <<>>
RECURSIVE ConcatAll(_)
ConcatAll(ws) == IF ws = <<>> THEN "" ELSE ws[1] \o ConcatAll(Tail(ws))

\* number of `-` (resp. `not`) on the path to the single literal of an int (bool) expression, and that literal
RECURSIVE Flips(_), Lit(_)
Flips(e) == IF e.k \in {"neg", "not"} THEN 1 + Flips(e.a[1]) ELSE IF e.k = "paren" THEN Flips(e.a[1]) ELSE 0
Lit(e)   == IF e.k \in {"neg", "not", "paren"} THEN Lit(e.a[1]) ELSE e.n

RECURSIVE Denote(_)
Denote(e) ==
    LET t == TypeOf(e) IN
    CASE t = "str"  -> XS(ConcatAll(StrLeaves(e)))
      [] t = "int"  -> XI(IF Flips(e) % 2 = 0 THEN Lit(e) ELSE 0 - Lit(e))
      [] t = "bool" -> XB((Lit(e) = 1) = (Flips(e) % 2 = 0))
      [] t = "arr"  -> LET x == IF e.k = "paren" THEN e.a[1] ELSE e IN
                       IF x.k = "paren" THEN Denote(x) ELSE XA([i \in 1..Len(x.a) |-> Denote(x.a[i])])
      [] t = "dict" -> LET x == IF e.k = "paren" THEN e.a[1] ELSE e IN
                       IF x.k = "paren" THEN Denote(x)
                       ELSE XD([i \in 1..Len(x.a) |-> XKV(x.a[i].a[1].s, Denote(x.a[i].a[2]))])
      [] OTHER -> XErr("bad")

EvalAgreesWithTyping(e) ==
    LET v == Eval(e) IN
    IF TypeOf(e) = "bad" THEN IsXErr(v) ELSE v = Denote(e) /\ v.t = TypeOf(e)

\* every sub-expression (for laws quantified over an expression's parts)
RECURSIVE SubExprs(_)
SubExprs(e) == {e} \cup UNION {SubExprs(e.a[i]) : i \in 1..Len(e.a)}

\* ---- helpers on values used by the declaration rules ---------------------------------------
IsStrArr(v)  == v.t = "arr" /\ \A i \in 1..Len(v.a) : v.a[i].t = "str"
StrsOf(v)    == [i \in 1..Len(v.a) |-> v.a[i].s]
IsStrDict(v) == v.t = "dict" /\ \A i \in 1..Len(v.a) : v.a[i].a[1].t = "str"
DictKeys(v)  == [i \in 1..Len(v.a) |-> v.a[i].s]
DictVals(v)  == [i \in 1..Len(v.a) |-> v.a[i].a[1].s]
=============================================================================
