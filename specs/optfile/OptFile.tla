------------------------------- MODULE OptFile -------------------------------
(***************************************************************************)
(* X07 - which option files are accepted and which option set they         *)
(* declare.                                                                 *)
(*                                                                          *)
(* An option file is a sequence of statements.  [BO] "Meson provides for   *)
(* this by having an option definition file": it contains option()         *)
(* declarations and nothing else - failing/14, 55, 94, 142, 144 and the    *)
(* pinned message texts "Option file may only contain option definitions", *)
(* "Only calls to option() are allowed in option files".                   *)
(*                                                                          *)
(* Statement: [k, f, pos, kw]                                               *)
(*   k = "call"     f(pos..., kw...)  - an option declaration iff f =      *)
(*                                      "option"                            *)
(*       "kwfirst"  a call with a positional argument after a keyword      *)
(*                  argument (Syntax.md: keyword arguments come last)      *)
(*       "assign" "plusassign" "expr" "if" "foreach" "method"              *)
(*                  other statements of the Meson language                  *)
(*       "garbage"  text that is not Meson syntax ([F94] [F142] [F144])    *)
(*   pos: sequence of expressions; kw: sequence of [n |-> name, e |-> expr]*)
(*                                                                          *)
(* The whole file must be syntactically valid before anything is           *)
(* evaluated; statements are then judged top to bottom and the first       *)
(* offending statement is the one reported ([F*]: the error carries the    *)
(* statement's line).                                                       *)
(***************************************************************************)
EXTENDS OptDecl

Stmt(k, f, pos, kw) == [k |-> k, f |-> f, pos |-> pos, kw |-> kw]
KwE(n, e) == [n |-> n, e |-> e]
Call(f, pos, kw) == Stmt("call", f, pos, kw)
OptionCall(pos, kw) == Call("option", pos, kw)

EvalKw(kw) == [i \in 1..Len(kw) |-> [n |-> kw[i].n, v |-> Eval(kw[i].e)]]
EvalPos(pos) == [i \in 1..Len(pos) |-> Eval(pos[i])]

\* verdict on one statement in isolation
StmtResult(s) ==
    CASE s.k = "garbage" -> Rej("Syntax")
      [] s.k = "kwfirst" -> Rej("KeywordBeforePositional")
      [] s.k = "call" -> IF s.f # "option" THEN Rej("OnlyOptionFunction:" \o s.f)
                         ELSE Declare(EvalPos(s.pos), EvalKw(s.kw))
      [] OTHER -> Rej("OnlyOptionCalls:" \o s.k)

\* ---- operational formulation: an incremental processor -------------------------------------------
\* state: [acc, at, clause, opts]; at = index of the statement the file was rejected at (0 = none so far)
PState(acc, at, clause, opts) == [acc |-> acc, at |-> at, clause |-> clause, opts |-> opts]
InitP == PState(TRUE, 0, "ok", <<>>)

\* evaluation phase: feed statement number i
Step(p, s, i) ==
    IF ~p.acc THEN p
    ELSE LET r == StmtResult(s) IN
         IF r.ok THEN PState(TRUE, 0, "ok", Append(p.opts, r.opt)) ELSE PState(FALSE, i, r.clause, <<>>)

RECURSIVE Fold(_, _, _)
Fold(f, i, p) == IF i > Len(f) THEN p ELSE Fold(f, i + 1, Step(p, f[i], i))

Garbage(f) == {i \in 1..Len(f) : f[i].k = "garbage"}
Min(S) == CHOOSE x \in S : \A y \in S : x <= y

Process(f) == IF Garbage(f) # {} THEN PState(FALSE, Min(Garbage(f)), "Syntax", <<>>) ELSE Fold(f, 1, InitP)

\* ---- declarative formulation ---------------------------------------------------------------------
Bad(f) == {i \in 1..Len(f) : ~StmtResult(f[i]).ok}
AcceptedD(f) == Bad(f) = {}
AtD(f) == IF Garbage(f) # {} THEN Min(Garbage(f)) ELSE IF Bad(f) # {} THEN Min(Bad(f)) ELSE 0
OptsD(f) == IF AcceptedD(f) THEN [i \in 1..Len(f) |-> StmtResult(f[i]).opt] ELSE <<>>

ProcessEqualsDeclarative(f) ==
    LET p == Process(f) IN p.acc = AcceptedD(f) /\ p.at = AtD(f) /\ p.opts = OptsD(f)

\* ---- names declared more than once / defaults the documentation leaves open ---------------------------
NameAt(f, i) == StmtResult(f[i]).opt.name
Clash(f) == \E i, j \in 1..Len(f) : i < j /\ StmtResult(f[i]).ok /\ StmtResult(f[j]).ok /\ NameAt(f, i) = NameAt(f, j)
\* a statement at which the documentation allows acceptance as well as rejection
Soft(f, i) == /\ StmtResult(f[i]).ok
              /\ \/ StmtResult(f[i]).opt.free
                 \/ \E j \in 1..(i - 1) : StmtResult(f[j]).ok /\ NameAt(f, j) = NameAt(f, i)

\* ---- laws (checked by OptFile_MC on the bounded space) ------------------------------------------------
\* L1: every option of an accepted file has a default that satisfies its own declaration
DefaultsSatisfyDeclaration(f) ==
    LET p == Process(f) IN
    p.acc => \A i \in 1..Len(p.opts) : p.opts[i].free \/ ValOK(DeclOf(p.opts[i]), p.opts[i].def)
\* L2: no accepted file declares an ill-formed or reserved name
NoReservedNameDeclared(f) ==
    LET p == Process(f) IN
    p.acc => \A i \in 1..Len(p.opts) : NameCharsOK(p.opts[i].name) /\ ~NameReserved(p.opts[i].name)
\* L3: acceptance and the declared set do not depend on the order of the declarations (unless names clash)
Permute(f, pi) == [i \in 1..Len(f) |-> f[pi[i]]]
Perms(n) == {pi \in [1..n -> 1..n] : \A i, j \in 1..n : i # j => pi[i] # pi[j]}
OptSet(p) == {p.opts[i] : i \in 1..Len(p.opts)}
OrderIndependent(f) ==
    \A pi \in Perms(Len(f)) :
        LET g == Permute(f, pi) IN
        /\ Process(g).acc = Process(f).acc
        /\ (Process(f).acc /\ ~Clash(f)) => OptSet(Process(g)) = OptSet(Process(f))
\* L4: a rejected file stays rejected whatever is appended; an accepted file with an accepted statement appended is accepted
\*     (stated as an action property of the model: see OptFile_MC!Monotone)
=============================================================================
