SPECIFICATION Spec
CONSTANTS MaxLen = 3
 Depth = 1
INVARIANT EvaluatorIsTheTypedDenotation
INVARIANT BatchEqualsDeclarative
INVARIANT IncrementalEqualsBatch
INVARIANT DefaultsValid
INVARIANT NamesValid
INVARIANT OrderIndep
INVARIANT Local
INVARIANT TypeOK
PROPERTY Monotone
CHECK_DEADLOCK FALSE
POSTCONDITION EmitAlphabet
