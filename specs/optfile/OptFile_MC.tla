------------------------------ MODULE OptFile_MC ------------------------------
(***************************************************************************)
(* Model: every file of the bounded space - one statement of Big(Depth),   *)
(* or up to MaxLen statements of Core - is fed to the incremental          *)
(* processor one statement at a time.  Invariants: the laws of OptFile and *)
(* OptExpr; the alphabets are exported for the implementation harness,     *)
(* which enumerates exactly the same files.                                 *)
(***************************************************************************)
EXTENDS OptAlphabet, Json, IOUtils
CONSTANTS MaxLen, Depth
VARIABLES idx, file, pst
vars == <<idx, file, pst>>

BigSeq == BigSeqOf(Depth)

\* idx > 0: the one-statement file <<BigSeq[idx]>>; idx = 0: the files over Core (one initial state per big statement so
\* that all TLC workers share the space)
Init == idx \in 0..Len(BigSeq) /\ file = <<>> /\ pst = InitP
Feed(s) == /\ Len(file) < MaxLen
           /\ idx' = idx
           /\ file' = Append(file, s)
           /\ pst' = Step(pst, s, Len(file) + 1)
Next == \/ idx > 0 /\ file = <<>> /\ Feed(BigSeq[idx])
        \/ idx = 0 /\ \E s \in Core : Feed(s)
Spec == Init /\ [][Next]_vars

\* the expressions of a statement
ExprsOf(s) == {s.pos[i] : i \in 1..Len(s.pos)} \cup {s.kw[i].e : i \in 1..Len(s.kw)}

\* ---- laws ----------------------------------------------------------------------------------------
\* E1: the evaluator agrees with the typing judgement and the leaf denotation on every (sub)expression
EvaluatorIsTheTypedDenotation ==
    file # <<>> => \A e \in ExprsOf(file[Len(file)]) : \A x \in SubExprs(e) : x.k = "pair" \/ EvalAgreesWithTyping(x)
\* F1: the batch processor equals the declarative reading
BatchEqualsDeclarative == ProcessEqualsDeclarative(file)
\* F2: the incremental processor equals the batch processor (syntax is checked for the whole file first)
IncrementalEqualsBatch ==
    Process(file) = IF Garbage(file) # {} THEN PState(FALSE, Min(Garbage(file)), "Syntax", <<>>) ELSE pst
\* L1 .. L3 of OptFile
DefaultsValid == DefaultsSatisfyDeclaration(file)
NamesValid == NoReservedNameDeclared(file)
OrderIndep == OrderIndependent(file)
\* a statement's verdict does not depend on its neighbours (what makes L3 true)
Local == \A i \in 1..Len(file) : (i \in Bad(file)) = ~StmtResult(file[i]).ok
\* L4: a rejected file stays rejected at the same statement, whatever follows
Monotone == [][~pst.acc => (~pst'.acc /\ pst'.at = pst.at)]_vars
\* vacuity guards: the space contains accepted and rejected files of every clause family
TypeOK == /\ pst.acc \in BOOLEAN /\ pst.at \in 0..MaxLen
          /\ (pst.acc => Len(pst.opts) = Len(file))

EmitAlphabet == /\ TLCGet("stats").diameter >= 0
                /\ JsonSerialize("alphabet.json", [big |-> BigSeq, core |-> SetToSeq(Core)])
=============================================================================
