----------------------------- MODULE TraceOptFile -----------------------------
(***************************************************************************)
(* Trace validation for X07.  Every case is one execution of the real code *)
(* recorded by harness/x07_optfile.py; the verdict is computed here.       *)
(*                                                                          *)
(*  kind = "file"  an option file (c.f, abstract statements; the harness   *)
(*     rendered them to text, one statement starting per known line) was    *)
(*     processed by the real OptionInterpreter (view "full": in-process,   *)
(*     every attribute of every declared option) or by `meson setup`       *)
(*     (view "intro": what `meson introspect --buildoptions` shows).       *)
(*     Recorded: acc (accepted?), at (index of the statement the error     *)
(*     points at), opts (the declared options).  Judged by OptFile!Process.*)
(*     Where the documentation leaves the outcome open (OptFile!Soft: an   *)
(*     integer option without value, a name declared again) acceptance and *)
(*     rejection at that statement are both allowed, and any of the        *)
(*     clashing declarations may be the one that is kept.                  *)
(*                                                                          *)
(*  kind = "cmd"   an option table (c.tab, rendered to an option file) and *)
(*     a command line of -D assignments (c.cl) were given to the real      *)
(*     option store (in-process: OptionInterpreter + OptionStore calls as  *)
(*     meson makes them; or the real `meson setup --backend=none`).        *)
(*     Recorded: otab (the declared table as observed), raised, vals (the  *)
(*     final value of every option of the table), notes (deprecation       *)
(*     notices).  Judged by OptDeprecated!AllowedFinal / CmdOK / AllNotes. *)
(***************************************************************************)
EXTENDS OptFile, OptDeprecated, Json, IOUtils

Cases == JsonDeserialize(IOEnv.TRACE_FILE)

VARIABLES i, done
vars == <<i, done>>

OkV(c) == [id |-> c.id, clause |-> "ok", sig |-> "", at |-> 0, expected |-> <<>>, got |-> <<>>]
V(c, clause, sig, at, expected, got) == [id |-> c.id, clause |-> clause, sig |-> sig, at |-> at, expected |-> expected, got |-> got]

\* ---- projections of a declared option -------------------------------------------------------------
Full(o) == [name |-> o.name, kind |-> o.kind, choices |-> o.choices, lo |-> o.lo, hi |-> o.hi, def |-> o.def,
            yield |-> o.yield, dep |-> o.dep, desc |-> o.desc]
\* `meson introspect --buildoptions`: a feature is shown as a combo of its three states; no bounds, yield, deprecation
Intro(o) == [name |-> o.name, kind |-> IF o.kind = "feature" THEN "combo" ELSE o.kind,
             choices |-> IF o.kind = "feature" THEN FeatureChoices ELSE IF o.kind \in {"combo", "array"} THEN o.choices ELSE <<>>,
             lo |-> NoBound, hi |-> NoBound, def |-> o.def, yield |-> FALSE, dep |-> NoDep, desc |-> o.desc]
View(view, o) == IF view = "intro" THEN Intro(o) ELSE Full(o)

Fields == <<"name", "kind", "choices", "lo", "hi", "def", "yield", "dep", "desc">>
DiffField(a, b) == IF a = b THEN "none"
                   ELSE Fields[CHOOSE j \in 1..Len(Fields) : a[Fields[j]] # b[Fields[j]] /\ \A k \in 1..(j - 1) : a[Fields[k]] = b[Fields[k]]]

\* does the observed option match the declaration the specification derives?
Match(view, cand, obs) ==
    IF cand.free THEN /\ [View(view, cand) EXCEPT !.def = obs.def] = obs
                      /\ ValOK(DeclOf(cand), obs.def)
    ELSE View(view, cand) = obs

\* ---- files ---------------------------------------------------------------------------------------------
RECURSIVE JoinNames(_)
JoinNames(kw) == IF kw = <<>> THEN "" ELSE kw[1].n \o (IF Len(kw) > 1 THEN "," ELSE "") \o JoinNames(Tail(kw))
TypeLit(s) == IF \E j \in 1..Len(s.kw) : s.kw[j].n = "type" /\ s.kw[j].e.k = "str"
              THEN s.kw[CHOOSE j \in 1..Len(s.kw) : s.kw[j].n = "type" /\ s.kw[j].e.k = "str"].e.s ELSE "?"
StmtSig(s) == s.k \o ":" \o s.f \o ":" \o TypeLit(s) \o ":" \o JoinNames(s.kw)

JudgeFile(c) ==
    LET f == c.f
        r == Process(f)
        cands(name) == {r.opts[j] : j \in {k \in 1..Len(r.opts) : r.opts[k].name = name}}
    IN
    IF ~c.acc THEN
        IF ~r.acc /\ c.at = r.at THEN OkV(c)
        ELSE IF c.at \in 1..Len(f) /\ Garbage(f) = {} /\ (r.acc \/ c.at < r.at) /\ Soft(f, c.at) THEN OkV(c)
        ELSE IF r.acc THEN V(c, "Rejection", "expected-accept:" \o (IF c.at \in 1..Len(f) THEN StmtSig(f[c.at]) ELSE "?"), c.at, <<"accepted">>, <<"rejected">>)
        ELSE V(c, "RejectedAt", r.clause, r.at, <<r.at>>, <<c.at>>)
    ELSE IF ~r.acc THEN V(c, "Acceptance", r.clause, r.at, <<"rejected", r.clause>>, <<"accepted">>)
    ELSE IF {r.opts[j].name : j \in 1..Len(r.opts)} # {c.opts[j].name : j \in 1..Len(c.opts)}
            \/ Cardinality({c.opts[j].name : j \in 1..Len(c.opts)}) # Len(c.opts)
         THEN V(c, "DeclaredNames", "", 0, [j \in 1..Len(r.opts) |-> r.opts[j].name], [j \in 1..Len(c.opts) |-> c.opts[j].name])
    ELSE IF \E j \in 1..Len(c.opts) : \A cand \in cands(c.opts[j].name) : ~Match(c.view, cand, c.opts[j])
         THEN LET j == CHOOSE j \in 1..Len(c.opts) : \A cand \in cands(c.opts[j].name) : ~Match(c.view, cand, c.opts[j])
                  cand == CHOOSE x \in cands(c.opts[j].name) : TRUE
              IN V(c, "Declaration", cand.kind \o "." \o DiffField(View(c.view, cand), c.opts[j]), j, <<View(c.view, cand)>>, <<c.opts[j]>>)
    ELSE OkV(c)

\* ---- command lines -----------------------------------------------------------------------------------------
FormSig(tab, cl) == LET o == Lookup(tab, cl[1].n) IN o.kind \o "/" \o o.dep.f

JudgeCmd(c) ==
    LET tab == c.tab
        cl  == c.cl
        ok  == CmdOK(tab, cl)
        badv == {j \in 1..Len(tab) : c.vals[j] \notin AllowedFinal(tab, cl, tab[j].name)}
    IN
    IF {View(c.view, tab[j]) : j \in 1..Len(tab)} # {c.otab[j] : j \in 1..Len(c.otab)}
    THEN V(c, "DeclaredTable", "", 0, [j \in 1..Len(tab) |-> View(c.view, tab[j])], c.otab)
    ELSE IF c.raised /\ ok THEN V(c, "CmdRejection", FormSig(tab, cl), 0, <<"accepted">>, <<"rejected">>)
    ELSE IF ~c.raised /\ ~ok
         THEN V(c, "CmdAcceptance", Results(tab, cl)[CHOOSE j \in 1..Len(cl) : ~Results(tab, cl)[j].ok].clause, 0, <<"rejected">>, <<"accepted">>)
    ELSE IF ~ok THEN OkV(c)
    ELSE IF badv # {}
         THEN LET j == CHOOSE x \in badv : \A y \in badv : x <= y
                  nm == tab[j].name
              IN V(c, "Value",
                   IF \E x \in 1..Len(nm) : Ch(nm, x) = "." THEN "module-option:" \o nm \o ":" \o c.id
                   ELSE Lookup(tab, nm).kind \o "/" \o Lookup(tab, nm).dep.f \o "<-" \o FormSig(tab, cl),
                   j, <<AllowedFinal(tab, cl, nm)>>, <<c.vals[j]>>)
    ELSE IF Range(c.notes) # AllNotes(tab, cl)
         THEN V(c, "Notices", FormSig(tab, cl), 0, <<AllNotes(tab, cl)>>, c.notes)
    ELSE OkV(c)

Judge(c) == IF c.kind = "file" THEN JudgeFile(c) ELSE JudgeCmd(c)

Init == i \in 1..Len(Cases) /\ done = FALSE
Next == /\ ~done
        /\ done' = TRUE
        /\ i' = i
        /\ LET v == Judge(Cases[i]) IN v.clause = "ok" \/ PrintT(ToJson(v))
Spec == Init /\ [][Next]_vars
=============================================================================
