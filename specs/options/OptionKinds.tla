----------------------------- MODULE OptionKinds -----------------------------
(***************************************************************************)
(* Validation and canonical form of option values per option kind          *)
(* (property C07: "a value violating an option's type, choices or range is *)
(* always rejected and a stored value always satisfies them").             *)
(*                                                                          *)
(* Written from docs/markdown/Build-options.md ("Option types", "Setting    *)
(* the value of arrays") and Builtin-options.md (install_umask, unity_size *)
(* >= 2, ...).                                                              *)
(*                                                                          *)
(* Raw values are what a source hands over (command line: always text;     *)
(* meson.build default_options / machine files: text or typed values).     *)
(* TLA+ strings are atomic, so a raw value says how its text is built:     *)
(*   t = "str"    a python/meson string that is the plain word w[1]        *)
(*                (never numeric text, never containing ',' or '[')        *)
(*       "inttxt" the decimal text of the integer n                        *)
(*       "int"    the integer n                                            *)
(*       "bool"   the boolean n (1 true, 0 false)                          *)
(*       "list"   a list of the words w                                    *)
(*       "csv"    the text  w[1],w[2],...   ("" for the empty sequence)    *)
(*       "brk"    the text  ['w[1]', 'w[2]', ...]                          *)
(*       "oct"    octal text of n (umask)                                  *)
(* Canonical values: [t |-> "s"|"b"|"i"|"a", n, w] with uniform fields.    *)
(***************************************************************************)
EXTENDS Integers, Sequences, FiniteSets, TLC

Raw(t, n, w) == [t |-> t, n |-> n, w |-> w]
Val(t, n, w) == [t |-> t, n |-> n, w |-> w]

VStr(x)  == Val("s", 0, <<x>>)
VBool(b) == Val("b", IF b THEN 1 ELSE 0, <<>>)
VInt(n)  == Val("i", n, <<>>)
VArr(ws) == Val("a", 0, ws)
NoVal    == Val("none", 0, <<>>)     \* "this source does not give the option" / "option does not exist"

RStr(x)  == Raw("str", 0, <<x>>)
RIntT(n) == Raw("inttxt", n, <<>>)
RInt(n)  == Raw("int", n, <<>>)
RBool(b) == Raw("bool", b, <<>>)
RList(ws) == Raw("list", 0, ws)
RCsv(ws) == Raw("csv", 0, ws)
RBrk(ws) == Raw("brk", 0, ws)
RNone    == Raw("none", 0, <<>>)

RawTags == {"str", "inttxt", "int", "bool", "list", "csv", "brk", "oct"}

\* texts that read as booleans (case-insensitively true / false)
TrueWords  == {"true", "True", "TRUE"}
FalseWords == {"false", "False", "FALSE"}

Range(s) == {s[i] : i \in 1..Len(s)}

\* An option declaration: kind, choices (combo / array; <<>> = free array), integer bounds
\* (NoBound = absent).  "feature" is a combo over enabled/disabled/auto; "umask" is
\* 'preserve' or an octal number 0..0777.
NoBound == -999999
Decl(kind, choices, lo, hi) == [kind |-> kind, choices |-> choices, lo |-> lo, hi |-> hi]
FeatureChoices == <<"enabled", "disabled", "auto">>
Kinds == {"string", "boolean", "integer", "combo", "array", "feature", "umask"}

ChoicesOf(d) == IF d.kind = "feature" THEN FeatureChoices ELSE d.choices

\* is the raw value text (a string on the python side)?
IsText(r) == r.t \in {"str", "inttxt", "csv", "brk", "oct"}

\* the one word a text raw value denotes when it is read as a single string
\* (only defined for the forms the harness generates for single-string kinds)
OneWord(r) == IF r.t = "str" THEN r.w[1] ELSE IF r.t = "inttxt" THEN ToString(r.n) ELSE "?"

\* the sequence of strings an array source denotes
AsList(r) ==
    CASE r.t \in {"list", "brk"} -> r.w
      [] r.t = "csv" -> r.w                         \* "" -> <<>>  (documented since 0.47)
      [] r.t = "str" -> r.w                         \* a single word is a one-element array
      [] r.t = "inttxt" -> <<ToString(r.n)>>
      [] OTHER -> <<>>

InBounds(d, n) == /\ (d.lo = NoBound \/ n >= d.lo)
                  /\ (d.hi = NoBound \/ n <= d.hi)

Valid(d, r) ==
    CASE d.kind = "string"  -> r.t \in {"str", "inttxt"}
      [] d.kind = "boolean" -> \/ r.t = "bool"
                               \/ r.t = "str" /\ r.w[1] \in TrueWords \cup FalseWords
      [] d.kind = "integer" -> r.t \in {"int", "inttxt"} /\ InBounds(d, r.n)
      [] d.kind \in {"combo", "feature"} -> r.t \in {"str", "inttxt"} /\ OneWord(r) \in Range(ChoicesOf(d))
      [] d.kind = "array"   -> /\ r.t \in {"list", "csv", "brk", "str", "inttxt"}
                               /\ (d.choices = <<>> \/ \A i \in 1..Len(AsList(r)) : AsList(r)[i] \in Range(d.choices))
      [] d.kind = "umask"   -> \/ r.t = "str" /\ r.w[1] = "preserve"
                               \/ r.t \in {"oct", "int"} /\ r.n >= 0 /\ r.n <= 511
      [] OTHER -> FALSE

\* canonical stored value of a valid raw value
Canon(d, r) ==
    CASE d.kind = "string"  -> VStr(OneWord(r))
      [] d.kind = "boolean" -> IF r.t = "bool" THEN VBool(r.n = 1) ELSE VBool(r.w[1] \in TrueWords)
      [] d.kind = "integer" -> VInt(r.n)
      [] d.kind \in {"combo", "feature"} -> VStr(OneWord(r))
      [] d.kind = "array"   -> VArr(AsList(r))
      [] d.kind = "umask"   -> IF r.t = "str" THEN VStr("preserve") ELSE VInt(r.n)
      [] OTHER -> NoVal

\* a canonical value satisfies the declaration (what "a stored value always satisfies them" means)
ValOK(d, v) ==
    CASE d.kind = "string"  -> v.t = "s"
      [] d.kind = "boolean" -> v.t = "b" /\ v.n \in {0, 1}
      [] d.kind = "integer" -> v.t = "i" /\ InBounds(d, v.n)
      [] d.kind \in {"combo", "feature"} -> v.t = "s" /\ v.w[1] \in Range(ChoicesOf(d))
      [] d.kind = "array"   -> v.t = "a" /\ (d.choices = <<>> \/ \A i \in 1..Len(v.w) : v.w[i] \in Range(d.choices))
      [] d.kind = "umask"   -> (v.t = "s" /\ v.w = <<"preserve">>) \/ (v.t = "i" /\ v.n >= 0 /\ v.n <= 511)
      [] OTHER -> FALSE

\* law (checked by OptionStore_MC): canonicalisation of a valid value yields a value that satisfies the declaration
CanonSound(d, r) == Valid(d, r) => ValOK(d, Canon(d, r))
=============================================================================
