--------------------------- MODULE OptionLifecycle ---------------------------
(***************************************************************************)
(* Option state across the life of a build directory (property C08).       *)
(*                                                                          *)
(* One top-level project with an option file (combo option `popt`, and a   *)
(* string option `xopt` that edits add and remove), one subproject `sub`   *)
(* whose combo option `popt` and boolean option `flag` have yield:true     *)
(* (the top-level `flag` stays false), an integer option `level` whose     *)
(* declared range (min/max) edits change, and the builtin                  *)
(* default_library with a per-subproject override sub:default_library.     *)
(*                                                                          *)
(* Commands (Commands.md: setup / configure; Build-options.md): Setup(D),  *)
(* Configure(D) = `meson configure -D..`, ConfigureU(k) = `-U sub:..`,     *)
(* Reconfigure(D) = `setup --reconfigure -D..`, Wipe = `setup --wipe`,     *)
(* Edit(e) of the option file, and failing variants (invalid value,        *)
(* error() in meson.build) that must leave the persisted state untouched.  *)
(*                                                                          *)
(* Persisted state: per option its value (and for popt the choices it was  *)
(* last read with), the per-subproject overrides, and the recorded command *)
(* line `cmd` that --wipe replays.  An edit of the option file is noticed  *)
(* by the next command that writes the configuration; a `configure` that   *)
(* changes nothing may leave the stored configuration untouched (the only  *)
(* nondeterminism of the machine).                                          *)
(***************************************************************************)
EXTENDS Integers, Sequences, FiniteSets, TLC

None == "-"
PoptUniverse == {"a", "b", "c"}
SubChoices == {"a", "b", "c", "d"}       \* the subproject's own (yielding) popt: initial choices (its option file is edited too)
SubDefault == "d"                        \* its declared default, in every choice list the edits use
DlValues == {"shared", "static", "both"}
DlDefault == "shared"
XDefault == "xd"
XValues == {"xv", ""}                    \* "" = the empty string, given explicitly (-Dxopt=)
Keys == {"popt", "xopt", "dl", "subdl", "subpopt", "subflag", "level", "arr"}
\* the array option `arr` (default ['x']); its value is written as comma-joined text: "" = the empty array (-Darr=)
ArrDefault == "x"
ArrValues == {"", "y"}
\* the integer option `level`: values are written as text; a declared range [min, max] is modelled by the set of
\* the three probe values it admits (2 < raised min 4; 8 > lowered max 6; 5 = the declared default, always inside)
LevelUniverse == {"2", "5", "8"}
LevelDefault == "5"
FlagParent == "false"                    \* the top-level flag option is never changed
EmptyCmd == [k \in Keys |-> None]

\* the option file of the top-level project
InitFile == [ch |-> {"a", "b", "c"}, def |-> "a", x |-> FALSE, lr |-> {"2", "5", "8"}, sch |-> SubChoices]

NoDir == [exists |-> FALSE, v |-> None, ch |-> {}, x |-> None, dl |-> None, subdl |-> None, sp |-> None, sf |-> None, lv |-> None, lr |-> {}, ar |-> None, sch |-> {}, cmd |-> EmptyCmd]

\* ---- assignments -D ------------------------------------------------------------
\* D: a function from a subset of Keys to values
ValidFor(ch, hasx, lr, sch, D) ==
    /\ ("popt" \in DOMAIN D => D["popt"] \in ch)
    /\ ("level" \in DOMAIN D => D["level"] \in lr)
    /\ ("arr" \in DOMAIN D => D["arr"] \in ArrValues)
    /\ ("xopt" \in DOMAIN D => hasx)
    /\ ("dl" \in DOMAIN D => D["dl"] \in DlValues)
    /\ ("subdl" \in DOMAIN D => D["subdl"] \in DlValues)
    /\ ("subpopt" \in DOMAIN D => D["subpopt"] \in sch)
    /\ ("subflag" \in DOMAIN D => D["subflag"] \in {"true", "false"})

Apply(st, D) ==
    [st EXCEPT !.v = IF "popt" \in DOMAIN D THEN D["popt"] ELSE @,
               !.x = IF "xopt" \in DOMAIN D THEN D["xopt"] ELSE @,
               !.dl = IF "dl" \in DOMAIN D THEN D["dl"] ELSE @,
               !.subdl = IF "subdl" \in DOMAIN D THEN D["subdl"] ELSE @,
               !.sp = IF "subpopt" \in DOMAIN D THEN D["subpopt"] ELSE @,
               !.sf = IF "subflag" \in DOMAIN D THEN D["subflag"] ELSE @,
               !.lv = IF "level" \in DOMAIN D THEN D["level"] ELSE @,
               !.ar = IF "arr" \in DOMAIN D THEN D["arr"] ELSE @,
               !.cmd = [k \in Keys |-> IF k \in DOMAIN D THEN D[k] ELSE @[k]]]

CmdAsD(cmd) == [k \in {k \in Keys : cmd[k] # None} |-> cmd[k]]

\* a configuration made from scratch: current defaults of the option file, then the given command line
Fresh(file, cmd) ==
    Apply([exists |-> TRUE, v |-> file.def, ch |-> file.ch, x |-> IF file.x THEN XDefault ELSE None,
           dl |-> DlDefault, subdl |-> None, sp |-> None, sf |-> None, lv |-> LevelDefault, lr |-> file.lr, ar |-> ArrDefault, sch |-> file.sch, cmd |-> EmptyCmd], CmdAsD(cmd))

\* the option file is read again: a new option gets its default, a removed one vanishes, a changed choice
\* list keeps the old value when still valid and otherwise falls back to the new default
Sync(st, file) ==
    [st EXCEPT !.ch = file.ch,
               !.v = IF file.ch = st.ch \/ st.v \in file.ch THEN st.v ELSE file.def,
               !.x = IF ~file.x THEN None ELSE IF st.x = None THEN XDefault ELSE st.x,
               !.lr = file.lr,
               !.lv = IF st.lv \in file.lr THEN st.lv ELSE LevelDefault,
               \* the subproject's option file: an explicit value the user gave the subproject stays explicit - kept when
               \* still a choice, else the subproject's new default; a yielding option keeps yielding
               !.sch = file.sch,
               !.sp = IF st.sp = None \/ st.sp \in file.sch THEN st.sp ELSE SubDefault]

SameValues(s, t) == s.v = t.v /\ s.x = t.x /\ s.dl = t.dl /\ s.subdl = t.subdl /\ s.sp = t.sp /\ s.sf = t.sf /\ s.lv = t.lv /\ s.ar = t.ar

\* ---- events ----------------------------------------------------------------------
\* [a, D, k, e, ok]: a = action name; D = assignments; k = key of -U; e = edit; ok = meant to succeed
Ev(a, D, k, e, ok) == [a |-> a, D |-> D, k |-> k, e |-> e, ok |-> ok]
NoEdit == [t |-> None, ch |-> {}, def |-> None]

EditFile(file, e) ==
    CASE e.t = "addx" -> [file EXCEPT !.x = TRUE]
      [] e.t = "removex" -> [file EXCEPT !.x = FALSE]
      [] e.t = "choices" -> [file EXCEPT !.ch = e.ch, !.def = e.def]
      [] e.t = "default" -> [file EXCEPT !.def = e.def]
      [] e.t = "subchoices" -> [file EXCEPT !.sch = e.ch]
      [] e.t = "range" -> [file EXCEPT !.lr = e.ch]        \* e.ch: the probe values the new [min, max] admits

\* the recorded command line can be replayed on the current option file
CmdFits(file, cmd) == ValidFor(file.ch, file.x, file.lr, file.sch, CmdAsD(cmd))

\* is the event enabled (does the model generate it / accept it as meaningful) in this state?
Enabled(file, st, ev) ==
    CASE ev.a = "Setup"       -> ~st.exists /\ ev.ok /\ ValidFor(file.ch, file.x, file.lr, file.sch, ev.D)
      [] ev.a = "SetupFail"   -> ~st.exists
      \* (`meson configure` re-reads an edited option file before it looks at -D: validity is judged on the file.  It must
      \* not depend on whether an earlier no-op configure rewrote the stored configuration - the machine's one free choice)
      [] ev.a = "Configure"   -> st.exists /\ ValidFor(file.ch, file.x, file.lr, file.sch, ev.D)
      [] ev.a = "ConfigureFail" -> st.exists
      \* a value outside the range the option file declares now: `meson configure` re-reads an edited option file
      \* before it looks at -D, so the value must be rejected
      [] ev.a = "ConfigureBad" -> st.exists /\ "level" \in DOMAIN ev.D /\ ev.D["level"] \notin file.lr
      [] ev.a = "ConfigureU"  -> st.exists /\ (ev.k \in {"subpopt", "subflag"} \/ (ev.k = "subdl" /\ st.subdl # None))
      [] ev.a = "Reconfigure" -> st.exists /\ ValidFor(st.ch, st.x # None, st.lr, st.sch, ev.D) /\ ValidFor(file.ch, file.x, file.lr, file.sch, ev.D)
      [] ev.a = "ReconfigureFail" -> st.exists
      [] ev.a = "Wipe"        -> st.exists /\ CmdFits(file, st.cmd)
      [] ev.a = "Edit"        -> ev.e.t # None /\ EditFile(file, ev.e) # file /\ EditFile(file, ev.e).def \in EditFile(file, ev.e).ch
      [] OTHER -> FALSE

\* the set of allowed <<file', st'>> after the event
Step(file, st, ev) ==
    CASE ev.a = "Setup" -> {<<file, Apply(Fresh(file, EmptyCmd), ev.D)>>}
      [] ev.a \in {"SetupFail", "ConfigureFail", "ReconfigureFail", "ConfigureBad"} -> {<<file, st>>}
      [] ev.a = "Configure" ->
            LET sy == Sync(st, file)
                ap == Apply(sy, ev.D)
            IN {<<file, ap>>} \cup (IF SameValues(ap, sy) THEN {<<file, [st EXCEPT !.cmd = ap.cmd]>>} ELSE {})
      [] ev.a = "ConfigureU" ->
            LET sy == Sync(st, file)
                ap == IF ev.k = "subdl" THEN [sy EXCEPT !.subdl = None, !.cmd["subdl"] = None]
                      ELSE IF ev.k = "subflag" THEN [sy EXCEPT !.sf = None, !.cmd["subflag"] = None]
                      ELSE [sy EXCEPT !.sp = None, !.cmd["subpopt"] = None]
            IN {<<file, ap>>} \cup (IF SameValues(ap, sy) THEN {<<file, [st EXCEPT !.cmd = ap.cmd]>>} ELSE {})
      [] ev.a = "Reconfigure" -> {<<file, Apply(Sync(st, file), ev.D)>>}
      [] ev.a = "Wipe" -> {<<file, Fresh(file, st.cmd)>>}
      [] ev.a = "Edit" -> {<<EditFile(file, ev.e), st>>}

\* ---- what an observer sees (meson introspect --buildoptions + effective subproject values) --------
Proj(st) == [exists |-> st.exists, v |-> st.v, ch |-> st.ch, x |-> st.x, dl |-> st.dl,
             subdl |-> IF st.subdl = None THEN st.dl ELSE st.subdl,
             sp |-> IF st.sp = None THEN st.v ELSE st.sp,
             sf |-> IF ~st.exists THEN None ELSE IF st.sf = None THEN FlagParent ELSE st.sf,
             lv |-> st.lv, ar |-> st.ar, sch |-> st.sch, cmd |-> st.cmd]

\* ---- event alphabets ---------------------------------------------------------------
Single(k, v) == (k :> v)
Empty == <<>>
ChoiceEdits == { [t |-> "choices", ch |-> {"a", "b"}, def |-> "a"], [t |-> "choices", ch |-> {"b", "c"}, def |-> "b"],
                 [t |-> "choices", ch |-> {"a", "b", "c"}, def |-> "a"] }
Edits == { [t |-> "addx", ch |-> {}, def |-> None], [t |-> "removex", ch |-> {}, def |-> None] } \cup ChoiceEdits
         \cup { [t |-> "default", ch |-> {}, def |-> "b"], [t |-> "default", ch |-> {}, def |-> "a"] }
         \cup { [t |-> "subchoices", ch |-> r, def |-> None] : r \in {{"a", "b", "d"}, {"a", "c", "d"}, {"a", "b", "c", "d"}} }
         \cup { [t |-> "range", ch |-> r, def |-> None] : r \in {{"5", "8"}, {"2", "5"}, {"5"}, {"2", "5", "8"}} }

\* every single assignment (and no assignment); the model checker explores all of them
AllD == {Empty} \cup {Single("popt", v) : v \in PoptUniverse} \cup {Single("xopt", v) : v \in XValues}
        \cup {Single("dl", v) : v \in DlValues} \cup {Single("subdl", v) : v \in DlValues}
        \cup {Single("subpopt", v) : v \in SubChoices} \cup {Single("subflag", v) : v \in {"true", "false"}}
        \cup {Single("level", v) : v \in LevelUniverse} \cup {Single("arr", v) : v \in ArrValues}
FullAlphabet ==
    {Ev("Setup", D, None, NoEdit, TRUE) : D \in AllD} \cup {Ev("Configure", D, None, NoEdit, TRUE) : D \in AllD \ {Empty}}
    \cup {Ev("Reconfigure", D, None, NoEdit, TRUE) : D \in AllD}
    \cup {Ev("ConfigureU", Empty, k, NoEdit, TRUE) : k \in {"subdl", "subpopt", "subflag"}}
    \cup {Ev("Wipe", Empty, None, NoEdit, TRUE)} \cup {Ev("Edit", Empty, None, e, TRUE) : e \in Edits}
    \cup {Ev("SetupFail", Empty, None, NoEdit, FALSE)}
    \cup {Ev("ConfigureFail", D, None, NoEdit, FALSE) : D \in {Single("dl", "static"), Single("subdl", "both")}}
    \cup {Ev("ConfigureBad", Single("level", v), None, NoEdit, FALSE) : v \in LevelUniverse}
    \cup {Ev("ReconfigureFail", D, None, NoEdit, FALSE) : D \in {Empty, Single("popt", "b"), Single("dl", "both")}}

\* the smaller alphabet whose histories are all replayed through the real CLI
ReplayAlphabet ==
    {Ev("Setup", D, None, NoEdit, TRUE) : D \in {Empty, Single("popt", "b"), Single("popt", "c"), Single("subdl", "shared"), Single("subpopt", "a"), Single("subpopt", "b"), Single("level", "2")}}
    \cup {Ev("Configure", D, None, NoEdit, TRUE) :
            D \in {Single("popt", "c"), Single("dl", "both"), Single("subdl", "static"), Single("subdl", "shared"),
                   Single("subpopt", "d"), Single("xopt", "xv"), Single("xopt", ""), Single("subflag", "true"),
                   Single("level", "8"), Single("arr", "")}}
    \cup {Ev("Reconfigure", D, None, NoEdit, TRUE) : D \in {Empty, Single("popt", "a")}}
    \cup {Ev("ConfigureU", Empty, k, NoEdit, TRUE) : k \in {"subdl", "subpopt", "subflag"}}
    \cup {Ev("Wipe", Empty, None, NoEdit, TRUE)}
    \cup {Ev("Edit", Empty, None, e, TRUE) :
            e \in { [t |-> "addx", ch |-> {}, def |-> None], [t |-> "removex", ch |-> {}, def |-> None],
                    [t |-> "choices", ch |-> {"a", "b"}, def |-> "a"], [t |-> "default", ch |-> {}, def |-> "b"],
                    [t |-> "range", ch |-> {"5", "8"}, def |-> None], [t |-> "range", ch |-> {"2", "5"}, def |-> None],
                    [t |-> "subchoices", ch |-> {"a", "b", "d"}, def |-> None], [t |-> "subchoices", ch |-> {"a", "c", "d"}, def |-> None] }}
    \cup {Ev("SetupFail", Empty, None, NoEdit, FALSE)}
    \cup {Ev("ConfigureFail", Single("dl", "static"), None, NoEdit, FALSE)}
    \cup {Ev("ConfigureBad", Single("level", v), None, NoEdit, FALSE) : v \in {"2", "8"}}
    \cup {Ev("ReconfigureFail", Single("popt", "b"), None, NoEdit, FALSE)}

\* ---- declarative reading of a history --------------------------------------------------
\* the last value the user gave for a key in a successful command (a later -U of the key cancels it)
RECURSIVE LastGivenFrom(_, _, _)
LastGivenFrom(h, key, n) ==
    IF n = 0 THEN None
    ELSE LET ev == h[n] IN
         IF ev.ok /\ ev.a \in {"Setup", "Configure", "Reconfigure"} /\ key \in DOMAIN ev.D THEN ev.D[key]
         ELSE IF ev.a = "ConfigureU" /\ ev.k = key THEN None
         ELSE LastGivenFrom(h, key, n - 1)
LastGiven(h, key) == LastGivenFrom(h, key, Len(h))

HasEdit(h, kinds) == \E n \in 1..Len(h) : h[n].a = "Edit" /\ h[n].e.t \in kinds
=============================================================================
