--------------------------- MODULE OptionLifecycle ---------------------------
(***************************************************************************)
(* Option state across the life of a build directory (property C08).       *)
(*                                                                          *)
(* One top-level project with an option file (combo option `popt`, and a   *)
(* string option `xopt` that edits add and remove), one subproject `sub`   *)
(* whose combo option `popt` and boolean option `flag` have yield:true     *)
(* (the top-level `flag` stays false), an integer option `level` whose     *)
(* declared range (min/max) edits change, and the builtin                  *)
(* default_library with a per-subproject override sub:default_library.     *)
(*                                                                          *)
(* Deprecated options (Build-options.md "Deprecated options"): options     *)
(* replaced by an option with another name (`deprecated: 'newname'` -      *)
(* "setting a value on the deprecated option will set the value on both    *)
(* the old and new names") of the combo, boolean, string and array kinds   *)
(* and the documentation's boolean-replaced-by-a-feature example, options  *)
(* with a value map (`deprecated: {'a': 'c'}`), a fully deprecated option  *)
(* (`deprecated: true`) and a deprecated choice (`deprecated: ['a']`) -    *)
(* the last two only warn.  The builtin pair buildtype / debug             *)
(* (Builtin-options.md: "-Dbuildtype=debugoptimized is the same as         *)
(* -Ddebug=true -Doptimization=2") behaves like a renamed pair: giving the *)
(* first also gives the second.  For such pairs the ORDER in which the     *)
(* user gave the two matters; the state remembers which came last.         *)
(*                                                                          *)
(* Commands (Commands.md: setup / configure; Build-options.md): Setup(D),  *)
(* Configure(D) = `meson configure -D..`, ConfigureU(k) = `-U sub:..`,     *)
(* Reconfigure(D) = `setup --reconfigure -D..`, Wipe = `setup --wipe`,     *)
(* Edit(e) of the option file (including deleting and re-creating it), and *)
(* failing variants (invalid value, error() in meson.build, a failing      *)
(* meson.add_postconf_script() - the latest point at which a setup can     *)
(* fail) that must leave the persisted state untouched.                    *)
(*                                                                          *)
(* Persisted state: per option its value (and for popt the choices it was  *)
(* last read with), the per-subproject overrides, and the recorded command *)
(* line `cmd` that --wipe replays.  An edit of the option file is noticed  *)
(* by the next command that writes the configuration; a `configure` that   *)
(* changes nothing may leave the stored configuration untouched (the only  *)
(* nondeterminism of the machine).                                          *)
(***************************************************************************)
EXTENDS Integers, Sequences, FiniteSets, TLC

None == "-"
Unknown == "?"                           \* a projected value the rule book does not define (see Proj)
PoptUniverse == {"a", "b", "c"}
SubChoices == {"a", "b", "c", "d"}       \* the subproject's own (yielding) popt: initial choices (its option file is edited too)
SubDefault == "d"                        \* its declared default, in every choice list the edits use
DlValues == {"shared", "static", "both"}
DlDefault == "shared"
XDefault == "xd"
XValues == {"xv", ""}                    \* "" = the empty string, given explicitly (-Dxopt=)
OldKeys == {"popt", "xopt", "dl", "subdl", "subpopt", "subflag", "level", "arr"}
\* the array option `arr` (default ['x']); its value is written as comma-joined text: "" = the empty array (-Darr=)
ArrDefault == "x"
ArrValues == {"", "y"}
\* the integer option `level`: values are written as text; a declared range [min, max] is modelled by the set of
\* the three probe values it admits (2 < raised min 4; 8 > lowered max 6; 5 = the declared default, always inside)
LevelUniverse == {"2", "5", "8"}
LevelDefault == "5"
FlagParent == "false"                    \* the top-level flag option is never changed

\* ---- deprecated / renamed options and the buildtype / debug pair --------------------------------
\*   omode -> mode   combo (a b c)            oflag -> nflag   boolean
\*   ostr  -> nstr   string                   oarr  -> narr    array (comma-joined text, "" = empty)
\*   obool -> nfeat  boolean replaced by a feature whose value map turns true/false into enabled/disabled
\*   marr   array, choices a b c, deprecated: {'a': 'c'}     dall  boolean, deprecated: true
\*   dsome  array, choices a b,   deprecated: ['a']          bt -> dbg  buildtype / debug
RenKeys == {"omode", "mode", "oflag", "nflag", "ostr", "nstr", "oarr", "narr", "obool", "nfeat", "marr", "dall", "dsome", "bt", "dbg"}
ProjRenKeys == RenKeys \ {"bt", "dbg"}   \* declared in the top-level option file
ObsRenKeys == RenKeys \ {"bt"}           \* (the value of buildtype itself after an explicit debug is C07's business)
Keys == OldKeys \cup RenKeys
TopKeys == {"popt", "xopt", "level", "arr"} \cup ProjRenKeys     \* keys of options the top-level option file declares
\* replacement option -> the old name (for dbg: the option that also gives it)
Master == [mode |-> "omode", nflag |-> "oflag", nstr |-> "ostr", narr |-> "oarr", nfeat |-> "obool", dbg |-> "bt"]
Slaves == DOMAIN Master
Masters == {Master[s] : s \in Slaves}
SlaveOf(m) == CHOOSE s \in Slaves : Master[s] = m
\* the defaults the option file declares: the old and the new name start with DIFFERENT values
RenDefault(k) ==
    CASE k = "omode" -> "a" [] k = "mode" -> "b" [] k = "oflag" -> "false" [] k = "nflag" -> "true"
      [] k = "ostr" -> "s0" [] k = "nstr" -> "s1" [] k = "oarr" -> "x" [] k = "narr" -> "y"
      [] k = "obool" -> "true" [] k = "nfeat" -> "auto" [] k = "marr" -> "b" [] k = "dall" -> "false"
      [] k = "dsome" -> "b" [] k = "bt" -> "debug" [] k = "dbg" -> "true"
\* the raw values the alphabets give on a command line
RenValues(k) ==
    CASE k \in {"omode", "mode"} -> {"a", "b", "c"}
      [] k \in {"oflag", "nflag", "obool", "dall", "dbg"} -> {"true", "false"}
      [] k = "ostr" -> {"s0", "s2"} [] k = "nstr" -> {"s1", "s2"}
      [] k = "oarr" -> {"x", ""} [] k = "narr" -> {"y", ""}
      [] k = "nfeat" -> {"true", "auto", "disabled"}
      [] k \in {"marr", "dsome"} -> {"a", "a,b"}
      [] k = "bt" -> {"release", "debugoptimized"}      \* (never the default "debug": see Enabled)
\* deprecated: {old value: new value} - the value the option takes when the raw value is given
MapValue(k, v) ==
    CASE k = "nfeat" /\ v = "true" -> "enabled" [] k = "nfeat" /\ v = "false" -> "disabled"
      [] k = "marr" /\ v = "a" -> "c" [] k = "marr" /\ v = "a,b" -> "c,b"
      [] OTHER -> v
\* what the replacement receives when the old name is given v ("assuming they accept the same values": the
\* replacement's own value map applies); buildtype gives debug per the table of Builtin-options.md
Forward(m, v) == IF m = "bt" THEN (IF v \in {"debug", "debugoptimized", "minsize"} THEN "true" ELSE "false")
                 ELSE MapValue(SlaveOf(m), v)

EmptyCmd == [k \in Keys |-> None]
NoRen == [k \in RenKeys |-> None]

\* the option file of the top-level project (present = FALSE: the file has been deleted; its former content is
\* what a re-created file contains)
InitFile == [ch |-> {"a", "b", "c"}, def |-> "a", x |-> FALSE, lr |-> {"2", "5", "8"}, sch |-> SubChoices, present |-> TRUE]

NoDir == [exists |-> FALSE, v |-> None, ch |-> {}, x |-> None, dl |-> None, subdl |-> None, sp |-> None, sf |-> None, lv |-> None, lr |-> {}, ar |-> None, sch |-> {},
          o |-> NoRen, late |-> {}, orph |-> FALSE, cmd |-> EmptyCmd]

\* ---- assignments -D ------------------------------------------------------------
\* D: a function from a subset of Keys to values.  f: what is declared - the option file, or StoredDecl(st)
ValidFor(f, D) ==
    /\ ("popt" \in DOMAIN D => f.present /\ D["popt"] \in f.ch)
    /\ ("level" \in DOMAIN D => f.present /\ D["level"] \in f.lr)
    /\ ("arr" \in DOMAIN D => f.present /\ D["arr"] \in ArrValues)
    /\ ("xopt" \in DOMAIN D => f.present /\ f.x)
    /\ ("dl" \in DOMAIN D => D["dl"] \in DlValues)
    /\ ("subdl" \in DOMAIN D => D["subdl"] \in DlValues)
    /\ ("subpopt" \in DOMAIN D => D["subpopt"] \in f.sch)
    /\ ("subflag" \in DOMAIN D => D["subflag"] \in {"true", "false"})
    /\ \A k \in RenKeys \cap DOMAIN D : (k \in ProjRenKeys => f.present) /\ D[k] \in RenValues(k)
\* the declarations the stored configuration was last made with
StoredDecl(st) == [ch |-> st.ch, x |-> st.x # None, lr |-> st.lr, sch |-> st.sch, present |-> st.ar # None]

\* giving the old name gives the new name as well; a value given to both in one command: the replacement's own wins
\* (the alphabets give one assignment per command)
NewO(o, D) == [k \in RenKeys |->
                 IF o[k] = None THEN None
                 ELSE IF k \in DOMAIN D THEN MapValue(k, D[k])
                 ELSE IF k \in Slaves /\ Master[k] \in DOMAIN D THEN Forward(Master[k], D[Master[k]])
                 ELSE o[k]]
\* the replacements given after their old name (only meaningful while both are recorded)
NewLate(late, D) == (late \ {s \in Slaves : Master[s] \in DOMAIN D}) \cup (Slaves \cap DOMAIN D)

Apply(st, D) ==
    [st EXCEPT !.v = IF "popt" \in DOMAIN D THEN D["popt"] ELSE @,
               !.x = IF "xopt" \in DOMAIN D THEN D["xopt"] ELSE @,
               !.dl = IF "dl" \in DOMAIN D THEN D["dl"] ELSE @,
               !.subdl = IF "subdl" \in DOMAIN D THEN D["subdl"] ELSE @,
               !.sp = IF "subpopt" \in DOMAIN D THEN D["subpopt"] ELSE @,
               !.sf = IF "subflag" \in DOMAIN D THEN D["subflag"] ELSE @,
               !.lv = IF "level" \in DOMAIN D THEN D["level"] ELSE @,
               !.ar = IF "arr" \in DOMAIN D THEN D["arr"] ELSE @,
               !.o = NewO(@, D),
               !.late = NewLate(@, D),
               !.cmd = [k \in Keys |-> IF k \in DOMAIN D THEN D[k] ELSE @[k]]]

\* configure -U of a per-subproject override
Unset(st, k) == IF k = "subdl" THEN [st EXCEPT !.subdl = None, !.cmd["subdl"] = None]
                ELSE IF k = "subflag" THEN [st EXCEPT !.sf = None, !.cmd["subflag"] = None]
                ELSE [st EXCEPT !.sp = None, !.cmd["subpopt"] = None]

CmdAsD(cmd) == [k \in {k \in Keys : cmd[k] # None} |-> cmd[k]]

\* a configuration made from scratch with the current defaults of the option file
Defaults(file) ==
    [exists |-> TRUE, v |-> IF file.present THEN file.def ELSE None, ch |-> IF file.present THEN file.ch ELSE {},
     x |-> IF file.present /\ file.x THEN XDefault ELSE None,
     dl |-> DlDefault, subdl |-> None, sp |-> None, sf |-> None, lv |-> IF file.present THEN LevelDefault ELSE None,
     lr |-> IF file.present THEN file.lr ELSE {}, ar |-> IF file.present THEN ArrDefault ELSE None, sch |-> file.sch,
     o |-> [k \in RenKeys |-> IF k \in ProjRenKeys /\ ~file.present THEN None ELSE RenDefault(k)], late |-> {},
     orph |-> ~file.present, cmd |-> EmptyCmd]

\* ... then the recorded command line, replayed in the order in which the user gave the values last: of a pair
\* (old name, replacement) the one given later decides the replacement's value
Fresh(file, cmd, late) ==
    LET base == Defaults(file) IN
    [Apply(base, CmdAsD(cmd)) EXCEPT
        !.o = [k \in RenKeys |->
                 IF base.o[k] = None THEN None
                 ELSE IF k \in Slaves /\ cmd[Master[k]] # None /\ (cmd[k] = None \/ k \notin late) THEN Forward(Master[k], cmd[Master[k]])
                 ELSE IF cmd[k] # None THEN MapValue(k, cmd[k])
                 ELSE base.o[k]],
        !.late = late]

\* the option file is read again: a new option gets its default, a removed one vanishes (all of them when the file
\* itself is gone), a changed choice list keeps the old value when still valid and otherwise falls back to the new default
Sync(st, file) ==
    IF ~file.present
    THEN [st EXCEPT !.ch = {}, !.v = None, !.x = None, !.lr = {}, !.lv = None, !.ar = None, !.orph = TRUE,
                    !.o = [k \in RenKeys |-> IF k \in ProjRenKeys THEN None ELSE @[k]],
                    !.sch = file.sch,
                    !.sp = IF st.sp = None \/ st.sp \in file.sch THEN st.sp ELSE SubDefault]
    ELSE
    [st EXCEPT !.ch = file.ch,
               !.v = IF st.v = None THEN file.def ELSE IF file.ch = st.ch \/ st.v \in file.ch THEN st.v ELSE file.def,
               !.x = IF ~file.x THEN None ELSE IF st.x = None THEN XDefault ELSE st.x,
               !.lr = file.lr,
               !.lv = IF st.lv # None /\ st.lv \in file.lr THEN st.lv ELSE LevelDefault,
               !.ar = IF st.ar = None THEN ArrDefault ELSE st.ar,
               !.o = [k \in RenKeys |-> IF @[k] = None THEN RenDefault(k) ELSE @[k]],
               \* the subproject's option file: an explicit value the user gave the subproject stays explicit - kept when
               \* still a choice, else the subproject's new default; a yielding option keeps yielding
               !.sch = file.sch,
               !.sp = IF st.sp = None \/ st.sp \in file.sch THEN st.sp ELSE SubDefault]

SameValues(s, t) == s.v = t.v /\ s.x = t.x /\ s.dl = t.dl /\ s.subdl = t.subdl /\ s.sp = t.sp /\ s.sf = t.sf /\ s.lv = t.lv /\ s.ar = t.ar /\ s.o = t.o

\* the replacements for which both names of the pair are recorded and would give different values
Contested(s) == {k \in Slaves : s.cmd[k] # None /\ s.cmd[Master[k]] # None /\ Forward(Master[k], s.cmd[Master[k]]) # MapValue(k, s.cmd[k])}

\* ---- events ----------------------------------------------------------------------
\* [a, D, k, e, ok]: a = action name; D = assignments; k = key of -U; e = edit; ok = meant to succeed
Ev(a, D, k, e, ok) == [a |-> a, D |-> D, k |-> k, e |-> e, ok |-> ok]
NoEdit == [t |-> None, ch |-> {}, def |-> None]

EditFile(file, e) ==
    CASE e.t = "addx" -> [file EXCEPT !.x = TRUE]
      [] e.t = "removex" -> [file EXCEPT !.x = FALSE]
      [] e.t = "choices" -> [file EXCEPT !.ch = e.ch, !.def = e.def]
      [] e.t = "default" -> [file EXCEPT !.def = e.def]
      [] e.t = "subchoices" -> [file EXCEPT !.sch = e.ch]
      [] e.t = "range" -> [file EXCEPT !.lr = e.ch]        \* e.ch: the probe values the new [min, max] admits
      [] e.t = "delfile" -> [file EXCEPT !.present = FALSE] \* the option file of the top-level project is deleted
      [] e.t = "addfile" -> [file EXCEPT !.present = TRUE]  \* ... and written again with what it held

\* the recorded command line can be replayed on the current option file
CmdFits(file, cmd) == ValidFor(file, CmdAsD(cmd))

\* giving buildtype the value it has is not generated (Builtin-options.md says it gives debug as well; the pinned
\* behaviour - only a CHANGED buildtype does - belongs to C07)
BtChanges(st, D) == "bt" \in DOMAIN D => D["bt"] # (IF st.exists THEN st.o["bt"] ELSE RenDefault("bt"))

AssignActions == {"Setup", "Configure", "Reconfigure"}
\* failing commands: invalid value / error() in a build file, or (..FailPost) a failing postconf script, which runs
\* when everything else of the configuration has been done and written
FailActions == {"SetupFail", "ConfigureFail", "ReconfigureFail", "ConfigureBad", "SetupFailPost", "ReconfigureFailPost"}

\* is the event enabled (does the model generate it / accept it as meaningful) in this state?
Enabled(file, st, ev) ==
    CASE ev.a = "Setup"       -> ~st.exists /\ ev.ok /\ ValidFor(file, ev.D) /\ BtChanges(st, ev.D)
      [] ev.a = "SetupFail"   -> ~st.exists
      [] ev.a = "SetupFailPost" -> ~st.exists /\ ValidFor(file, ev.D) /\ BtChanges(st, ev.D)
      \* (`meson configure` re-reads an edited option file before it looks at -D: validity is judged on the file.  It must
      \* not depend on whether an earlier no-op configure rewrote the stored configuration - the machine's one free choice)
      [] ev.a = "Configure"   -> st.exists /\ ValidFor(file, ev.D) /\ BtChanges(st, ev.D)
      [] ev.a = "ConfigureFail" -> st.exists
      \* a value outside the range the option file declares now: `meson configure` re-reads an edited option file
      \* before it looks at -D, so the value must be rejected
      [] ev.a = "ConfigureBad" -> st.exists /\ "level" \in DOMAIN ev.D /\ ev.D["level"] \notin file.lr
      [] ev.a = "ConfigureU"  -> st.exists /\ (ev.k \in {"subpopt", "subflag"} \/ (ev.k = "subdl" /\ st.subdl # None))
      [] ev.a = "Reconfigure" -> st.exists /\ ValidFor(StoredDecl(st), ev.D) /\ ValidFor(file, ev.D) /\ BtChanges(st, ev.D)
      [] ev.a = "ReconfigureFail" -> st.exists
      [] ev.a = "ReconfigureFailPost" -> st.exists /\ ValidFor(StoredDecl(st), ev.D) /\ ValidFor(file, ev.D) /\ BtChanges(st, ev.D)
                                         /\ CmdFits(file, st.cmd)
      [] ev.a = "Wipe"        -> st.exists /\ CmdFits(file, st.cmd)
      [] ev.a = "Edit"        -> /\ ev.e.t # None /\ EditFile(file, ev.e) # file /\ EditFile(file, ev.e).def \in EditFile(file, ev.e).ch
                                 /\ (ev.e.t # "addfile" => file.present)           \* a deleted file is not edited
                                 \* (a recorded value of an option that disappears is the known finding `stale-x`)
                                 /\ (ev.e.t = "delfile" => \A k \in TopKeys : st.cmd[k] = None)
      [] OTHER -> FALSE

\* the set of allowed <<file', st'>> after the event
Step(file, st, ev) ==
    CASE ev.a = "Setup" -> {<<file, Apply(Fresh(file, EmptyCmd, {}), ev.D)>>}
      [] ev.a \in FailActions -> {<<file, st>>}
      [] ev.a = "Configure" ->
            LET sy == Sync(st, file)
                ap == Apply(sy, ev.D)
            IN {<<file, ap>>} \cup (IF SameValues(ap, sy) THEN {<<file, [st EXCEPT !.cmd = ap.cmd, !.late = ap.late]>>} ELSE {})
      [] ev.a = "ConfigureU" ->
            LET sy == Sync(st, file)
                ap == Unset(sy, ev.k)
            IN {<<file, ap>>} \cup (IF SameValues(ap, sy) THEN {<<file, [st EXCEPT !.cmd = ap.cmd]>>} ELSE {})
      [] ev.a = "Reconfigure" -> {<<file, Apply(Sync(st, file), ev.D)>>}
      [] ev.a = "Wipe" -> {<<file, Fresh(file, st.cmd, st.late)>>}
      [] ev.a = "Edit" -> {<<EditFile(file, ev.e), st>>}

\* ---- what an observer sees (meson introspect --buildoptions + effective subproject values) --------
\* (what a yielding subproject option shows once its parent has vanished with the option file - st.orph, until the
\* configuration is next made from scratch with the file in place - is not defined: Unknown matches every observation)
Proj(st) == [exists |-> st.exists, v |-> st.v, ch |-> st.ch, x |-> st.x, dl |-> st.dl,
             subdl |-> IF st.subdl = None THEN st.dl ELSE st.subdl,
             sp |-> IF st.exists /\ (st.v = None \/ st.orph) THEN Unknown ELSE IF st.sp = None THEN st.v ELSE st.sp,
             sf |-> IF ~st.exists THEN None ELSE IF st.v = None \/ st.orph THEN Unknown ELSE IF st.sf = None THEN FlagParent ELSE st.sf,
             lv |-> st.lv, ar |-> st.ar, sch |-> st.sch, o |-> [k \in ObsRenKeys |-> st.o[k]], cmd |-> st.cmd]

\* ---- event alphabets ---------------------------------------------------------------
Single(k, v) == (k :> v)
Empty == <<>>
ChoiceEdits == { [t |-> "choices", ch |-> {"a", "b"}, def |-> "a"], [t |-> "choices", ch |-> {"b", "c"}, def |-> "b"],
                 [t |-> "choices", ch |-> {"a", "b", "c"}, def |-> "a"] }
FileEdits == { [t |-> "delfile", ch |-> {}, def |-> None], [t |-> "addfile", ch |-> {}, def |-> None] }
Edits == { [t |-> "addx", ch |-> {}, def |-> None], [t |-> "removex", ch |-> {}, def |-> None] } \cup ChoiceEdits
         \cup { [t |-> "default", ch |-> {}, def |-> "b"], [t |-> "default", ch |-> {}, def |-> "a"] }
         \cup { [t |-> "subchoices", ch |-> r, def |-> None] : r \in {{"a", "b", "d"}, {"a", "c", "d"}, {"a", "b", "c", "d"}} }
         \cup { [t |-> "range", ch |-> r, def |-> None] : r \in {{"5", "8"}, {"2", "5"}, {"5"}, {"2", "5", "8"}} }

\* every single assignment (and no assignment); the model checker explores all of them
AllD == {Empty} \cup {Single("popt", v) : v \in PoptUniverse} \cup {Single("xopt", v) : v \in XValues}
        \cup {Single("dl", v) : v \in DlValues} \cup {Single("subdl", v) : v \in DlValues}
        \cup {Single("subpopt", v) : v \in SubChoices} \cup {Single("subflag", v) : v \in {"true", "false"}}
        \cup {Single("level", v) : v \in LevelUniverse} \cup {Single("arr", v) : v \in ArrValues}
FullAlphabet ==
    {Ev("Setup", D, None, NoEdit, TRUE) : D \in AllD} \cup {Ev("Configure", D, None, NoEdit, TRUE) : D \in AllD \ {Empty}}
    \cup {Ev("Reconfigure", D, None, NoEdit, TRUE) : D \in AllD}
    \cup {Ev("ConfigureU", Empty, k, NoEdit, TRUE) : k \in {"subdl", "subpopt", "subflag"}}
    \cup {Ev("Wipe", Empty, None, NoEdit, TRUE)} \cup {Ev("Edit", Empty, None, e, TRUE) : e \in Edits}
    \cup {Ev("SetupFail", Empty, None, NoEdit, FALSE)}
    \cup {Ev("ConfigureFail", D, None, NoEdit, FALSE) : D \in {Single("dl", "static"), Single("subdl", "both")}}
    \cup {Ev("ConfigureBad", Single("level", v), None, NoEdit, FALSE) : v \in LevelUniverse}
    \cup {Ev("ReconfigureFail", D, None, NoEdit, FALSE) : D \in {Empty, Single("popt", "b"), Single("dl", "both")}}

\* the model-checking alphabet for the deprecated options, the order-dependent pairs, the late failures and the
\* deleted option file: every single assignment of these keys
AllRenD == UNION {{Single(k, v) : v \in RenValues(k)} : k \in RenKeys}
FullRenAlphabet ==
    {Ev("Setup", D, None, NoEdit, TRUE) : D \in {Empty, Single("popt", "c")} \cup {d \in AllRenD : DOMAIN d \subseteq Masters}}
    \cup {Ev("Configure", D, None, NoEdit, TRUE) : D \in AllRenD \cup {Single("popt", "b"), Single("dl", "static")}}
    \cup {Ev("Reconfigure", D, None, NoEdit, TRUE) : D \in {Empty} \cup AllRenD}
    \cup {Ev("Wipe", Empty, None, NoEdit, TRUE)}
    \cup {Ev("Edit", Empty, None, e, TRUE) : e \in FileEdits}
    \cup {Ev("SetupFail", Empty, None, NoEdit, FALSE)}
    \cup {Ev("SetupFailPost", D, None, NoEdit, FALSE) : D \in {Empty, Single("popt", "b"), Single("omode", "c")}}
    \cup {Ev("ConfigureFail", D, None, NoEdit, FALSE) : D \in {Single("omode", "c"), Single("dbg", "false")}}
    \cup {Ev("ReconfigureFail", D, None, NoEdit, FALSE) : D \in {Single("oflag", "true")}}
    \cup {Ev("ReconfigureFailPost", D, None, NoEdit, FALSE) : D \in {Empty, Single("popt", "b"), Single("mode", "c"), Single("bt", "release")}}

\* longer histories over one pair at a time (the model restricts a history to one pair): every value of both names
PairAllD == {d \in AllRenD : DOMAIN d \subseteq Masters \cup Slaves}
FullPairAlphabet ==
    {Ev("Setup", D, None, NoEdit, TRUE) : D \in {Empty} \cup PairAllD} \cup {Ev("Configure", D, None, NoEdit, TRUE) : D \in PairAllD}
    \cup {Ev("Reconfigure", D, None, NoEdit, TRUE) : D \in {Empty} \cup PairAllD} \cup {Ev("Wipe", Empty, None, NoEdit, TRUE)}

\* the smaller alphabet whose histories are all replayed through the real CLI
ReplayAlphabet ==
    {Ev("Setup", D, None, NoEdit, TRUE) : D \in {Empty, Single("popt", "b"), Single("popt", "c"), Single("subdl", "shared"), Single("subpopt", "a"), Single("subpopt", "b"), Single("level", "2")}}
    \cup {Ev("Configure", D, None, NoEdit, TRUE) :
            D \in {Single("popt", "c"), Single("dl", "both"), Single("subdl", "static"), Single("subdl", "shared"),
                   Single("subpopt", "d"), Single("xopt", "xv"), Single("xopt", ""), Single("subflag", "true"),
                   Single("level", "8"), Single("arr", "")}}
    \cup {Ev("Reconfigure", D, None, NoEdit, TRUE) : D \in {Empty, Single("popt", "a")}}
    \cup {Ev("ConfigureU", Empty, k, NoEdit, TRUE) : k \in {"subdl", "subpopt", "subflag"}}
    \cup {Ev("Wipe", Empty, None, NoEdit, TRUE)}
    \cup {Ev("Edit", Empty, None, e, TRUE) :
            e \in { [t |-> "addx", ch |-> {}, def |-> None], [t |-> "removex", ch |-> {}, def |-> None],
                    [t |-> "choices", ch |-> {"a", "b"}, def |-> "a"], [t |-> "default", ch |-> {}, def |-> "b"],
                    [t |-> "range", ch |-> {"5", "8"}, def |-> None], [t |-> "range", ch |-> {"2", "5"}, def |-> None],
                    [t |-> "subchoices", ch |-> {"a", "b", "d"}, def |-> None], [t |-> "subchoices", ch |-> {"a", "c", "d"}, def |-> None] }}
    \cup {Ev("SetupFail", Empty, None, NoEdit, FALSE)}
    \cup {Ev("ConfigureFail", Single("dl", "static"), None, NoEdit, FALSE)}
    \cup {Ev("ConfigureBad", Single("level", v), None, NoEdit, FALSE) : v \in {"2", "8"}}
    \cup {Ev("ReconfigureFail", Single("popt", "b"), None, NoEdit, FALSE)}

\* the old name given the value it holds already (its default, or what an earlier command gave), the replacement
\* given another value in between, each pair in both orders; the value maps; the forms that only warn
PairD == {Single("omode", "a"), Single("omode", "c"), Single("mode", "b"),
          Single("oflag", "false"), Single("oflag", "true"), Single("nflag", "false"),
          Single("ostr", "s0"), Single("ostr", "s2"), Single("nstr", "s1"),
          Single("oarr", "x"), Single("oarr", ""), Single("narr", "y"),
          Single("obool", "true"), Single("obool", "false"), Single("nfeat", "auto"),
          Single("bt", "release"), Single("bt", "debugoptimized"), Single("dbg", "true"), Single("dbg", "false")}
\* histories of four events over the pairs alone: give, give the other, give the first again, wipe / reconfigure
ReplayPairAlphabet ==
    {Ev("Setup", D, None, NoEdit, TRUE) : D \in {Empty, Single("omode", "c"), Single("oflag", "true"), Single("ostr", "s2"), Single("oarr", ""),
                                                   Single("obool", "false"), Single("bt", "release"), Single("dbg", "false")}}
    \cup {Ev("Configure", D, None, NoEdit, TRUE) : D \in PairD}
    \cup {Ev("Reconfigure", D, None, NoEdit, TRUE) : D \in {Empty, Single("omode", "c"), Single("ostr", "s2"), Single("bt", "release")}}
    \cup {Ev("Wipe", Empty, None, NoEdit, TRUE)}
\* histories of three events: the pairs together with value maps, warn-only forms, late failures, the deleted file
ReplayRenAlphabet ==
    {Ev("Setup", D, None, NoEdit, TRUE) : D \in {Empty, Single("omode", "c"), Single("nfeat", "true"), Single("marr", "a,b"), Single("popt", "b")}}
    \cup {Ev("Configure", D, None, NoEdit, TRUE) :
            D \in {Single("omode", "a"), Single("mode", "b"), Single("oflag", "false"), Single("ostr", "s0"), Single("oarr", "x"),
                   Single("obool", "true"), Single("nfeat", "disabled"), Single("marr", "a"), Single("dall", "true"), Single("dsome", "a,b"),
                   Single("bt", "release"), Single("dbg", "false"), Single("dl", "static")}}
    \cup {Ev("Reconfigure", D, None, NoEdit, TRUE) : D \in {Empty, Single("oflag", "false"), Single("nfeat", "true"), Single("dl", "both")}}
    \cup {Ev("Wipe", Empty, None, NoEdit, TRUE)}
    \cup {Ev("Edit", Empty, None, e, TRUE) : e \in FileEdits}
    \cup {Ev("SetupFail", Empty, None, NoEdit, FALSE)}
    \cup {Ev("SetupFailPost", D, None, NoEdit, FALSE) : D \in {Empty, Single("popt", "b")}}
    \cup {Ev("ConfigureFail", Single("omode", "c"), None, NoEdit, FALSE)}
    \cup {Ev("ReconfigureFail", Single("oflag", "true"), None, NoEdit, FALSE)}
    \cup {Ev("ReconfigureFailPost", D, None, NoEdit, FALSE) : D \in {Empty, Single("popt", "b"), Single("mode", "c")}}

\* ---- declarative reading of a history --------------------------------------------------
\* the last value the user gave for a key in a successful command (a later -U of the key cancels it)
RECURSIVE LastGivenFrom(_, _, _)
LastGivenFrom(h, key, n) ==
    IF n = 0 THEN None
    ELSE LET ev == h[n] IN
         IF ev.ok /\ ev.a \in AssignActions /\ key \in DOMAIN ev.D THEN ev.D[key]
         ELSE IF ev.a = "ConfigureU" /\ ev.k = key THEN None
         ELSE LastGivenFrom(h, key, n - 1)
LastGiven(h, key) == LastGivenFrom(h, key, Len(h))

\* the last value an option RECEIVED from the user: given under its own name (through its value map), or - a
\* replacement option - under the old name
RECURSIVE LastReceivedFrom(_, _, _)
LastReceivedFrom(h, key, n) ==
    IF n = 0 THEN None
    ELSE LET ev == h[n] IN
         IF ev.ok /\ ev.a \in AssignActions /\ key \in DOMAIN ev.D THEN MapValue(key, ev.D[key])
         ELSE IF ev.ok /\ ev.a \in AssignActions /\ key \in Slaves /\ Master[key] \in DOMAIN ev.D THEN Forward(Master[key], ev.D[Master[key]])
         ELSE LastReceivedFrom(h, key, n - 1)
LastReceived(h, key) == LastReceivedFrom(h, key, Len(h))

HasEdit(h, kinds) == \E n \in 1..Len(h) : h[n].a = "Edit" /\ h[n].e.t \in kinds
=============================================================================
