SPECIFICATION Spec
CONSTANTS MaxLen = 4
 Mode = "full"
INVARIANT ValuesValid
INVARIANT DlIsLastGivenElseDefault
INVARIANT PoptIsLastGivenElseCreationDefault
INVARIANT XoptIsLastGivenElseDefault
INVARIANT DropOverrideInherits
INVARIANT RecordedCmdlineIsWhatTheUserGave
PROPERTY FailedStepIsNoop
PROPERTY EditTouchesNothingPersisted
PROPERTY WipeIsFreshSetupWithWhatTheUserGave
PROPERTY ChoiceChangeKeepsValidValue
PROPERTY NewOptionGetsDefault
PROPERTY RemovedOptionVanishes
PROPERTY OnlyAskedValuesChange
CHECK_DEADLOCK FALSE
