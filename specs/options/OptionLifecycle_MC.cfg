SPECIFICATION Spec
CONSTANTS MaxLen = 4
 Mode = "full"
INVARIANT ValuesValid
INVARIANT DlIsLastGivenElseDefault
INVARIANT PoptIsLastGivenElseCreationDefault
INVARIANT XoptIsLastGivenElseDefault
INVARIANT DropOverrideInherits
INVARIANT ArrIsLastGivenElseDefault
INVARIANT ReceivedLastElseDefault
INVARIANT LevelIsLastGivenElseDefault
INVARIANT RecordedCmdlineIsWhatTheUserGave
PROPERTY FailedStepIsNoop
PROPERTY EditTouchesNothingPersisted
PROPERTY WipeIsFreshSetupWithWhatTheUserGave
PROPERTY WipeKeepsReceivedValues
PROPERTY OldNameGivesNewName
PROPERTY DeletedFileRemovesItsOptions
PROPERTY RestoredFileGivesDefaults
PROPERTY ChoiceChangeKeepsValidValue
PROPERTY SubChoiceChangeKeepsExplicitValue
PROPERTY NewOptionGetsDefault
PROPERTY RangeChangeKeepsValidValue
PROPERTY ProcessedRangeIsTheDeclaredOne
PROPERTY RemovedOptionVanishes
PROPERTY OnlyAskedValuesChange
CHECK_DEADLOCK FALSE
