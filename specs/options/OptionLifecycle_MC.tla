------------------------- MODULE OptionLifecycle_MC -------------------------
(***************************************************************************)
(* Model: every history of at most MaxLen events over the alphabet.  The   *)
(* laws of C08 are stated over the hidden history `hist` - independently   *)
(* of the operational definitions in OptionLifecycle - as invariants and   *)
(* action properties.  With Mode = "replay" the complete histories are     *)
(* printed for the implementation harness.                                 *)
(***************************************************************************)
EXTENDS OptionLifecycle, Json

\* Mode: "full" / "fullren" / "fullpair" (model checking: the original alphabet / the deprecated options, order-dependent
\* pairs, late failures and the deleted option file / longer histories over one pair at a time) or "replay" / "replayren" / "replaypair" (histories for the CLI harness)
CONSTANTS MaxLen, Mode
VARIABLES file, st, hist, tags
vars == <<file, st, hist, tags>>

Alphabet == CASE Mode = "full" -> FullAlphabet [] Mode = "fullren" -> FullRenAlphabet [] Mode = "fullpair" -> FullPairAlphabet [] Mode = "replay" -> ReplayAlphabet
              [] Mode = "replayren" -> ReplayRenAlphabet [] Mode = "replaypair" -> ReplayPairAlphabet
Exporting == Mode \in {"replay", "replayren", "replaypair"}
\* "replaypair": all assignments of a history concern one pair (old name, replacement)
PairOf(k) == IF k \in Slaves THEN k ELSE IF k \in Masters THEN SlaveOf(k) ELSE k
Focused(h, ev) == Mode \in {"replaypair", "fullpair"} => Cardinality({PairOf(k) : k \in UNION ({DOMAIN h[n].D : n \in 1..Len(h)} \cup {DOMAIN ev.D})}) <= 1

\* which situations of the laws a history exercises (only tracked for the exported histories, so that the
\* quick tier can take a sample in which every situation occurs)
NewTags(f, s, ev, s2, old) ==
    LET sync == s.exists /\ s2.exists /\ ev.a # "Wipe" IN
    (IF sync /\ s2.ch # s.ch /\ s.v \in s2.ch /\ s.v # f.def THEN {"choice-kept"} ELSE {})
    \cup (IF sync /\ s2.ch # s.ch /\ s.v \notin s2.ch THEN {"choice-fallback"} ELSE {})
    \cup (IF sync /\ s2.ch = s.ch /\ s.ch = f.ch /\ s.v # f.def /\ ev.a = "Reconfigure" /\ "default-edited" \in old THEN {"default-edit-keeps-value"} ELSE {})
    \cup (IF ev.a = "Edit" /\ ev.e.t = "default" THEN {"default-edited"} ELSE {})
    \cup (IF sync /\ s.x = None /\ s2.x # None THEN {"new-option"} ELSE {})
    \cup (IF sync /\ s.x # None /\ s2.x = None THEN {"removed-option"} ELSE {})
    \cup (IF ev.a = "ConfigureU" /\ ev.k = "subdl" /\ s.subdl # s.dl THEN {"drop-subdl"} ELSE {})
    \cup (IF ev.a = "ConfigureU" /\ ev.k = "subpopt" /\ s.sp # None /\ s.sp # s.v THEN {"drop-subpopt"} ELSE {})
    \cup (IF ev.a = "ConfigureU" /\ ev.k = "subflag" /\ s.sf = "true" THEN {"drop-subflag"} ELSE {})
    \cup (IF ev.a = "Configure" /\ ~SameValues(s2, Sync(s, f)) THEN {"configure-changed"} ELSE {})
    \cup (IF ev.a = "Wipe" /\ "configure-changed" \in old THEN {"wipe-after-configure"} ELSE {})
    \cup (IF ev.a = "Wipe" /\ ({"drop-subdl", "drop-subpopt", "drop-subflag"} \cap old) # {} THEN {"wipe-after-unset"} ELSE {})
    \cup (IF ev.a = "Wipe" /\ s.ch # f.ch THEN {"wipe-after-edit"} ELSE {})
    \cup (IF ev.a = "ConfigureFail" /\ ~SameValues(Apply(s, ev.D), s) THEN {"failed-configure"} ELSE {})
    \cup (IF ev.a = "ReconfigureFail" /\ ~SameValues(Apply(Sync(s, f), ev.D), s) THEN {"failed-reconfigure"} ELSE {})
    \cup (IF ev.a = "SetupFail" THEN {"failed-setup"} ELSE {})
    \cup (IF sync /\ s2.lr # s.lr /\ s.lv \in s2.lr /\ s.lv # LevelDefault THEN {"range-kept"} ELSE {})
    \cup (IF sync /\ s2.lr # s.lr /\ s.lv \notin s2.lr /\ s.lr \ s2.lr = {"2"} THEN {"range-fallback-min-raised"} ELSE {})
    \cup (IF sync /\ s2.lr # s.lr /\ s.lv \notin s2.lr /\ s.lr \ s2.lr = {"8"} THEN {"range-fallback-max-lowered"} ELSE {})
    \cup (IF ev.a = "ConfigureBad" /\ s.lr # f.lr THEN {"out-of-new-range-rejected"} ELSE {})
    \cup (IF ev.a = "ConfigureBad" /\ s.lr = f.lr THEN {"out-of-range-rejected"} ELSE {})
    \cup (IF ev.a = "Wipe" /\ ({"failed-configure", "out-of-new-range-rejected", "out-of-range-rejected"} \cap old) # {} THEN {"wipe-after-failed-configure"} ELSE {})
    \* a falsy but explicitly given value (empty string / empty array / false) and a later --wipe
    \cup (IF ev.a \in {"Setup", "Configure", "Reconfigure"} /\ \E k \in DOMAIN ev.D : ev.D[k] = "" THEN {"empty-value-given"} ELSE {})
    \cup (IF ev.a \in {"Configure", "Reconfigure"} /\ \E k \in DOMAIN ev.D : ev.D[k] = "" /\ s.cmd[k] \notin {None, ""} THEN {"empty-value-replaces-recorded"} ELSE {})
    \cup (IF ev.a \in {"Setup", "Configure", "Reconfigure"} /\ "subflag" \in DOMAIN ev.D /\ ev.D["subflag"] = "false" THEN {"false-given"} ELSE {})
    \cup (IF ev.a = "Wipe" /\ ({"empty-value-given", "false-given"} \cap old) # {} THEN {"wipe-after-falsy-value"} ELSE {})
    \* an override that equals the inherited value is dropped alone; later the parent / global value changes
    \cup (IF ev.a = "ConfigureU" /\ ev.k = "subdl" /\ s.subdl = s.dl THEN {"drop-equal-subdl"} ELSE {})
    \cup (IF ev.a = "ConfigureU" /\ ev.k = "subpopt" /\ s.sp = s.v THEN {"drop-equal-subpopt"} ELSE {})
    \cup (IF ev.a \in {"Configure", "Reconfigure"} /\ "drop-equal-subdl" \in old /\ "dl" \in DOMAIN ev.D /\ ev.D["dl"] # s.dl /\ s.subdl = None
          THEN {"global-change-after-equal-drop"} ELSE {})
    \cup (IF ev.a \in {"Configure", "Reconfigure"} /\ "drop-equal-subpopt" \in old /\ "popt" \in DOMAIN ev.D /\ ev.D["popt"] # s.v /\ s.sp = None
          THEN {"parent-change-after-equal-drop"} ELSE {})
    \* the subproject's own choice list changes while the user's explicit value for the subproject exists
    \cup (IF sync /\ s2.sch # s.sch /\ s.sp # None /\ s.sp \in s2.sch /\ s.sp # s2.v THEN {"subchoice-edit-keeps-explicit-value"} ELSE {})
    \cup (IF sync /\ s2.sch # s.sch /\ s.sp # None /\ s.sp \notin s2.sch THEN {"subchoice-edit-invalidates-explicit-value"} ELSE {})
    \cup (IF sync /\ s2.sch # s.sch /\ s.sp = None THEN {"subchoice-edit-while-yielding"} ELSE {})
    \cup (IF ev.a = "Reconfigure" /\ (s.ch # f.ch \/ (s.x # None) # f.x) THEN {"reconfigure-after-edit"} ELSE {})
    \cup (IF ev.a = "Configure" /\ (s.ch # f.ch \/ (s.x # None) # f.x) THEN {"configure-after-edit"} ELSE {})
    \cup (IF ev.a \in {"Configure", "Reconfigure"} /\ "dl" \in DOMAIN ev.D /\ s.subdl # None THEN {"global-change-under-override"} ELSE {})
    \cup (IF ev.a \in {"Configure", "Reconfigure"} /\ "popt" \in DOMAIN ev.D /\ s.sp = None THEN {"parent-change-while-yielding"} ELSE {})
    \* ---- deprecated options / order-dependent pairs ----
    \* the old name is given the value it holds already while the replacement holds another one (per pair and command)
    \cup {ev.a \o ":old-name-unchanged-replacement-differs:" \o m : m \in {m \in Masters \cap DOMAIN ev.D :
              ev.a \in {"Configure", "Reconfigure"} /\ s.o[m] = ev.D[m] /\ s.o[SlaveOf(m)] # Forward(m, ev.D[m])}}
    \cup {ev.a \o ":old-name-given:" \o m : m \in {m \in Masters \cap DOMAIN ev.D : ev.a \in AssignActions /\ s2.o[m] # s.o[m]}}
    \cup {"replacement-given-after-old-name:" \o k : k \in {k \in Slaves \cap DOMAIN ev.D : ev.a \in AssignActions /\ s.cmd[Master[k]] # None}}
    \cup {"old-name-given-after-replacement:" \o m : m \in {m \in Masters \cap DOMAIN ev.D : ev.a \in AssignActions /\ s.cmd[SlaveOf(m)] # None}}
    \* the order of a pair flips while both are recorded (the later one must decide at --wipe)
    \cup {"order-flipped:" \o k : k \in {k \in Slaves : ev.a \in AssignActions /\ s.exists /\ s.cmd[k] # None /\ s.cmd[Master[k]] # None
                                                        /\ ((k \in s.late /\ Master[k] \in DOMAIN ev.D) \/ (k \notin s.late /\ k \in DOMAIN ev.D))}}
    \cup {"wipe-after-order-flip:" \o k : k \in {k \in Contested(s) : ev.a = "Wipe" /\ ("order-flipped:" \o k) \in old}}
    \cup {"wipe-old-name-last:" \o k : k \in {k \in Contested(s) : ev.a = "Wipe" /\ k \notin s.late}}
    \cup {"wipe-replacement-last:" \o k : k \in {k \in Contested(s) : ev.a = "Wipe" /\ k \in s.late}}
    \cup {"reconfigure-with-both-recorded:" \o k : k \in {k \in Contested(s) : ev.a = "Reconfigure"}}
    \cup {"value-map-given:" \o k : k \in {k \in RenKeys \cap DOMAIN ev.D : ev.a \in AssignActions /\ MapValue(k, ev.D[k]) # ev.D[k]}}
    \cup {"warn-only-form-given:" \o k : k \in {"dall", "dsome"} \cap DOMAIN ev.D}
    \cup (IF ev.a = "Wipe" /\ \E k \in RenKeys : s.cmd[k] # None /\ MapValue(k, s.cmd[k]) # s.cmd[k] THEN {"wipe-after-value-map"} ELSE {})
    \cup (IF ev.a = "Wipe" /\ \E k \in {"dall", "dsome"} : s.cmd[k] # None THEN {"wipe-after-warn-only-form"} ELSE {})
    \* ---- a failing postconf script: everything has been configured and written when the command fails ----
    \cup (IF ev.a = "SetupFailPost" THEN {"late-failed-setup" \o (IF ev.D = Empty THEN "" ELSE ":with-D")} ELSE {})
    \cup (IF ev.a = "ReconfigureFailPost" THEN {"late-failed-reconfigure" \o (IF ev.D = Empty THEN "" ELSE ":with-D")} ELSE {})
    \cup (IF ev.a = "Setup" /\ "late-failed-setup:with-D" \in old THEN {"setup-after-late-failed-setup"} ELSE {})
    \cup (IF ev.a = "Wipe" /\ "late-failed-reconfigure:with-D" \in old THEN {"wipe-after-late-failed-reconfigure"} ELSE {})
    \* ---- the option file of the top-level project is deleted / written again ----
    \cup (IF s.exists /\ s.ar # None /\ s2.ar = None THEN {ev.a \o ":option-file-deleted"} ELSE {})
    \cup (IF s.exists /\ s.ar = None /\ s2.ar # None THEN {ev.a \o ":option-file-restored"} ELSE {})
    \cup (IF ev.a = "Setup" /\ ~f.present THEN {"setup-without-option-file"} ELSE {})

Init == file = InitFile /\ st = NoDir /\ hist = <<>> /\ tags = {}
Next == /\ Len(hist) < MaxLen
        /\ \E ev \in Alphabet :
              /\ Enabled(file, st, ev)
              /\ Focused(hist, ev)
              /\ \E p \in Step(file, st, ev) :
                    /\ file' = p[1] /\ st' = p[2]
                    /\ tags' = IF Exporting THEN tags \cup NewTags(file, st, ev, p[2], tags) ELSE tags
              /\ hist' = Append(hist, ev)
Spec == Init /\ [][Next]_vars

Last(h) == h[Len(h)]

\* the option file as it was after the first n events
RECURSIVE FileAt(_, _)
FileAt(h, n) == IF n = 0 THEN InitFile
                ELSE IF h[n].a = "Edit" THEN EditFile(FileAt(h, n - 1), h[n].e) ELSE FileAt(h, n - 1)
\* the default popt was created with: the option file's default when the configuration was last made from scratch
Creations(h) == {n \in 1..Len(h) : h[n].a \in {"Setup", "Wipe"}}
CreationDefault(h) == FileAt(h, CHOOSE n \in Creations(h) : \A m \in Creations(h) : m <= n).def

Given(key) == LastGiven(hist, key)

\* ---- state invariants: "the last value the user gave, else the default it was created with" ------------
NoFileEdit == ~HasEdit(hist, {"delfile"})
ValuesValid == st.exists => (/\ (st.v # None => st.v \in st.ch) /\ st.dl \in DlValues /\ (st.subdl = None \/ st.subdl \in DlValues)
                             /\ (st.lv # None => st.lv \in st.lr)
                             \* the project options are there together or not at all
                             /\ (st.v = None) = (st.ar = None) /\ (st.lv = None) = (st.ar = None) /\ (st.ar = None => st.x = None)
                             /\ \A k \in ProjRenKeys : (st.o[k] = None) = (st.ar = None))
LevelIsLastGivenElseDefault ==
    (st.exists /\ ~HasEdit(hist, {"range"}) /\ NoFileEdit) => st.lv = (IF Given("level") = None THEN LevelDefault ELSE Given("level"))
DlIsLastGivenElseDefault == st.exists => st.dl = (IF Given("dl") = None THEN DlDefault ELSE Given("dl"))
PoptIsLastGivenElseCreationDefault ==
    (st.exists /\ ~HasEdit(hist, {"choices"}) /\ NoFileEdit) => st.v = (IF Given("popt") = None THEN CreationDefault(hist) ELSE Given("popt"))
ArrIsLastGivenElseDefault == (st.exists /\ NoFileEdit) => st.ar = (IF Given("arr") = None THEN ArrDefault ELSE Given("arr"))
\* deprecated options: every option has the last value it RECEIVED - under its own name (through its value map) or,
\* a replacement option, under the old name - else its default.  This holds after every command, --wipe included.
ReceivedLastElseDefault ==
    (st.exists /\ NoFileEdit) => \A k \in RenKeys : st.o[k] = (IF LastReceived(hist, k) = None THEN RenDefault(k) ELSE LastReceived(hist, k))
XoptIsLastGivenElseDefault ==
    (st.exists /\ st.x # None /\ ~HasEdit(hist, {"removex"})) => st.x = (IF Given("xopt") = None THEN XDefault ELSE Given("xopt"))
\* dropping an override returns the subproject to the inherited value; a yielding option takes the parent's value
DropOverrideInherits ==
    st.exists => /\ Proj(st).subdl = (IF Given("subdl") = None THEN st.dl ELSE Given("subdl"))
                 /\ ((~HasEdit(hist, {"subchoices"}) /\ st.v # None /\ ~st.orph) => Proj(st).sp = (IF Given("subpopt") = None THEN st.v ELSE Given("subpopt")))
                 /\ ((Given("subpopt") = None /\ st.v # None /\ ~st.orph) => Proj(st).sp = st.v)
                 /\ (Given("subpopt") # None => st.sp # None)          \* an explicit value stays explicit until -U
                 /\ ((st.v # None /\ ~st.orph) => Proj(st).sf = (IF Given("subflag") = None THEN FlagParent ELSE Given("subflag")))
RecordedCmdlineIsWhatTheUserGave == st.exists => \A k \in Keys : st.cmd[k] = Given(k)

\* ---- action properties --------------------------------------------------------------------------------
Stepped == Len(hist') = Len(hist) + 1
FailedStepIsNoop == [][(Stepped /\ ~Last(hist').ok) => (st' = st /\ file' = file)]_vars
EditTouchesNothingPersisted == [][(Stepped /\ Last(hist').a = "Edit") => st' = st]_vars
\* --wipe = a fresh setup on the current option file followed by everything the user gave and dropped so far, IN THE
\* ORDER of the history (the "recorded command lines"); stated over the hidden history, not over cmd / late
RECURSIVE Redo(_, _, _)
Redo(s, h, n) == IF n > Len(h) THEN s
                 ELSE LET ev == h[n] IN
                      Redo(IF ev.ok /\ ev.a \in AssignActions THEN Apply(s, ev.D) ELSE IF ev.a = "ConfigureU" THEN Unset(s, ev.k) ELSE s, h, n + 1)
WipeIsFreshSetupWithWhatTheUserGave ==
    [][(Stepped /\ Last(hist').a = "Wipe") =>
          LET r == Redo(Fresh(file', EmptyCmd, {}), hist', 1) IN st' = r]_vars
\* ... so a --wipe changes no value of the deprecated options and of the buildtype / debug pair
WipeKeepsReceivedValues == [][(Stepped /\ Last(hist').a = "Wipe" /\ file'.present /\ st.ar # None) => st'.o = st.o]_vars
\* giving the old name IS giving the new name: the replacement has the value it would have been given directly
OldNameGivesNewName ==
    [][(Stepped /\ Last(hist').ok /\ Last(hist').a \in AssignActions) =>
          \A m \in (Masters \ {"bt"}) \cap DOMAIN Last(hist').D :
              LET ev == Last(hist') s == SlaveOf(m) IN
              /\ st'.o[m] = ev.D[m]
              /\ st'.o[s] = Apply(IF ev.a = "Setup" THEN Fresh(file, EmptyCmd, {}) ELSE Sync(st, file), Single(s, ev.D[m])).o[s]]_vars
\* a deleted option file: after the next reconfigure / wipe none of its options is left; a re-created one gives defaults
DeletedFileRemovesItsOptions ==
    [][(Stepped /\ Last(hist').a \in {"Reconfigure", "Wipe", "Setup"}) =>
          /\ (st'.ar # None) = file'.present /\ (st'.v # None) = file'.present /\ (st'.lv # None) = file'.present
          /\ \A k \in ProjRenKeys : (st'.o[k] # None) = file'.present]_vars
RestoredFileGivesDefaults ==
    [][(Stepped /\ st.exists /\ st.ar = None /\ st'.ar # None /\ Last(hist').a # "Wipe") =>
          LET ev == Last(hist') IN
          /\ ("arr" \notin DOMAIN ev.D => st'.ar = ArrDefault) /\ ("popt" \notin DOMAIN ev.D => st'.v = file'.def)
          /\ \A k \in ProjRenKeys : (k \notin DOMAIN ev.D /\ ~(k \in Slaves /\ Master[k] \in DOMAIN ev.D)) => st'.o[k] = RenDefault(k)]_vars
ChoiceChangeKeepsValidValue ==
    [][(Stepped /\ st.exists /\ st'.exists /\ st'.ch # st.ch /\ Last(hist').a # "Wipe" /\ "popt" \notin DOMAIN Last(hist').D /\ st.v # None /\ st'.v # None)
          => st'.v = (IF st.v \in st'.ch THEN st.v ELSE file'.def)]_vars
\* the subproject's own option file: the value the user gave the subproject explicitly is kept when still a choice,
\* else replaced by the subproject's default; it never goes back to following the parent without -U
SubChoiceChangeKeepsExplicitValue ==
    [][(Stepped /\ st.exists /\ st'.exists /\ st'.sch # st.sch /\ Last(hist').a # "Wipe" /\ "subpopt" \notin DOMAIN Last(hist').D
          /\ ~(Last(hist').a = "ConfigureU" /\ Last(hist').k = "subpopt"))
          => st'.sp = (IF st.sp = None THEN None ELSE IF st.sp \in st'.sch THEN st.sp ELSE SubDefault)]_vars
\* after an edited range has been processed the stored value lies inside it: kept when still inside, else the default
RangeChangeKeepsValidValue ==
    [][(Stepped /\ st.exists /\ st'.exists /\ st'.lr # st.lr /\ Last(hist').a # "Wipe" /\ "level" \notin DOMAIN Last(hist').D /\ st.lv # None /\ st'.lv # None)
          => st'.lv = (IF st.lv \in st'.lr THEN st.lv ELSE LevelDefault)]_vars
ProcessedRangeIsTheDeclaredOne == [][(Stepped /\ Last(hist').a \in {"Reconfigure", "Wipe", "Setup"} /\ file'.present) => st'.lr = file'.lr]_vars
NewOptionGetsDefault ==
    [][(Stepped /\ st.exists /\ st.x = None /\ st'.x # None /\ Last(hist').a # "Wipe" /\ "xopt" \notin DOMAIN Last(hist').D)
          => st'.x = XDefault]_vars
RemovedOptionVanishes == [][(Stepped /\ Last(hist').a \in {"Reconfigure", "Wipe"}) => ((st'.x # None) = (file'.x /\ file'.present))]_vars
OnlyAskedValuesChange ==
    [][(Stepped /\ st.exists /\ st'.exists /\ Last(hist').a # "Wipe") =>
          LET ev == Last(hist') IN
          /\ (st'.dl # st.dl => "dl" \in DOMAIN ev.D)
          /\ (st'.subdl # st.subdl => ("subdl" \in DOMAIN ev.D \/ (ev.a = "ConfigureU" /\ ev.k = "subdl")))
          /\ (st'.sp # st.sp => ("subpopt" \in DOMAIN ev.D \/ (ev.a = "ConfigureU" /\ ev.k = "subpopt") \/ st'.sch # st.sch))
          /\ (st'.sf # st.sf => ("subflag" \in DOMAIN ev.D \/ (ev.a = "ConfigureU" /\ ev.k = "subflag")))
          /\ (st'.v # st.v => ("popt" \in DOMAIN ev.D \/ st'.ch # st.ch))
          /\ (st'.lv # st.lv => ("level" \in DOMAIN ev.D \/ st'.lr # st.lr))
          /\ (st'.ar # st.ar => ("arr" \in DOMAIN ev.D \/ (st'.ar = None) # (st.ar = None)))
          /\ \A k \in RenKeys : st'.o[k] # st.o[k] =>
                (k \in DOMAIN ev.D \/ (k \in Slaves /\ Master[k] \in DOMAIN ev.D) \/ (st'.ar = None) # (st.ar = None))]_vars

\* ---- export of the complete histories (Mode = "replay") ----------------------------------------------
EvJson(ev) == [a |-> ev.a, D |-> [k \in DOMAIN ev.D |-> ev.D[k]], k |-> ev.k, ok |-> ev.ok,
               e |-> [t |-> ev.e.t, ch |-> ev.e.ch, def |-> ev.e.def]]
EmitHistories == (Exporting /\ Len(hist) = MaxLen) => PrintT(ToJson([h |-> [i \in 1..Len(hist) |-> EvJson(hist[i])], tags |-> tags]))
=============================================================================
