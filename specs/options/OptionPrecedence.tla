-------------------------- MODULE OptionPrecedence --------------------------
(***************************************************************************)
(* Declarative rule book of option precedence (property C07), written from *)
(* docs/markdown/Builtin-options.md ("Specifying options per subproject",  *)
(* "Details for buildtype", "Directories", "Specifying options per         *)
(* machine"), Build-options.md ("Yielding to superproject option") and     *)
(* Machine-files.md; unittests/optiontests.py pins the corners the         *)
(* documentation leaves open.                                              *)
(*                                                                          *)
(* A *case* describes one configuration of one project + one subproject:   *)
(*   opts : declared options  [name, scope, d, def, yield, late, builtin]  *)
(*          scope "g" = system option (builtin / compiler / base; can be   *)
(*          given per subproject), "t" = project option of the top-level   *)
(*          project, "s" = project option of the subproject `sub`          *)
(*   lv   : the eight value sources in the documented order, each an       *)
(*          ordered list of assignments [name, m, r] (m = "h" | "b" for    *)
(*          `build.` keys, r a raw value):                                  *)
(*            1 `opt` in the parent project's default_options              *)
(*            2 `opt` in the subproject's own default_options              *)
(*            3 `opt` in a machine file                                    *)
(*            4 `opt` on the command line                                  *)
(*            5 `sub:opt` in the parent project's default_options          *)
(*            6 `opt` in subproject(default_options:)                      *)
(*            7 `sub:opt` in a machine file                                *)
(*            8 `sub:opt` on the command line                              *)
(*   cross: native or cross build                                          *)
(* Nothing here is operational: the effective value is "the value of the   *)
(* highest-priority source that gives the option, else the declared        *)
(* default".                                                               *)
(***************************************************************************)
EXTENDS OptionKinds

Min(S) == CHOOSE x \in S : \A y \in S : x <= y
Max(S) == CHOOSE x \in S : \A y \in S : x >= y

\* ---- declarations -----------------------------------------------------------
DeclIdx(c, name, scope) == {i \in 1..Len(c.opts) : c.opts[i].name = name /\ c.opts[i].scope = scope}
HasDecl(c, name, scope) == DeclIdx(c, name, scope) # {}
TheDecl(c, name, scope) == c.opts[CHOOSE i \in DeclIdx(c, name, scope) : TRUE]

\* Classification of an option name (what the eight levels mean for it):
\*  "global"  system option: all eight levels apply to the subproject, levels 1,3,4 to the top-level project
\*  "top"     project option of the top-level project only: levels 1,3,4
\*  "shadow"  top-level and subproject each declare a project option of that name; the unqualified
\*            forms (1,3,4) address the top-level project only (pinned by
\*            optiontests.py::test_subproject_proj_opt_with_same_name), 2,5,6,7,8 the subproject's
\*  "yield"   as "shadow" but the subproject's option has yield:true and the same type: it takes the
\*            parent's value unless given separately for the subproject (sub:opt forms, since 1.8.0)
\*  "subonly" project option of the subproject only: levels 2,5,6,7,8
Class(c, name) ==
    IF HasDecl(c, name, "g") THEN "global"
    ELSE IF HasDecl(c, name, "t") /\ HasDecl(c, name, "s")
         THEN IF TheDecl(c, name, "s").yield /\ TheDecl(c, name, "s").d.kind = TheDecl(c, name, "t").d.kind
              THEN "yield" ELSE "shadow"
    ELSE IF HasDecl(c, name, "t") THEN "top"
    ELSE "subonly"

TopOrder == <<4, 3, 1>>
SubOrder(cls) == CASE cls = "global" -> <<8, 7, 6, 5, 4, 3, 2, 1>>
                   [] cls = "yield"  -> <<8, 7, 6, 5>>
                   [] OTHER          -> <<8, 7, 6, 5, 2>>

\* ---- what a source gives ------------------------------------------------------
GivenIdx(c, l, name, m) == {i \in 1..Len(c.lv[l]) : c.lv[l][i].name = name /\ c.lv[l][i].m = m}
Given(c, l, name, m) == IF GivenIdx(c, l, name, m) = {} THEN RNone ELSE c.lv[l][Max(GivenIdx(c, l, name, m))].r
Gives(c, l, name, m) == GivenIdx(c, l, name, m) # {}

\* rank of the highest-priority source in `order` that gives the option (0 = none)
WinRank(c, order, name, m) ==
    LET S == {i \in 1..Len(order) : Gives(c, order[i], name, m)} IN IF S = {} THEN 0 ELSE Min(S)
WinLevel(c, order, name, m) == LET r == WinRank(c, order, name, m) IN IF r = 0 THEN 0 ELSE order[r]

\* ---- machines -----------------------------------------------------------------
\* "Specifying options per machine": only per-machine options have a separate build-machine value, and
\* only in cross builds; in native builds build and host are the same machine.
PerMachineNames == {"pkg_config_path", "cmake_prefix_path"}
EffMachine(c, name, m) == IF m = "b" /\ c.cross /\ name \in PerMachineNames THEN "b" ELSE "h"

\* ---- plain precedence ---------------------------------------------------------
TopDecl(c, name) == IF HasDecl(c, name, "g") THEN TheDecl(c, name, "g") ELSE TheDecl(c, name, "t")

TopRaw(c, name, m) ==
    LET l == WinLevel(c, TopOrder, name, m) IN IF l = 0 THEN TopDecl(c, name).def ELSE Given(c, l, name, m)

SubDecl(c, name) == IF HasDecl(c, name, "g") THEN TheDecl(c, name, "g") ELSE TheDecl(c, name, "s")

\* <<declaration to validate against, raw value>> that the subproject sees
SubRaw(c, name, m) ==
    LET cls == Class(c, name)
        l == WinLevel(c, SubOrder(cls), name, m)
    IN IF l # 0 THEN <<SubDecl(c, name), Given(c, l, name, m)>>
       ELSE IF cls = "yield" THEN <<TopDecl(c, name), TopRaw(c, name, m)>>
       ELSE <<SubDecl(c, name), SubDecl(c, name).def>>

PlainTop(c, name, m0) == LET m == EffMachine(c, name, m0) IN Canon(TopDecl(c, name).d, TopRaw(c, name, m))
PlainSub(c, name, m0) == LET m == EffMachine(c, name, m0)
                             p == SubRaw(c, name, m) IN Canon(p[1].d, p[2])

\* ---- buildtype -> debug / optimization ----------------------------------------
\* "Details for buildtype": setting buildtype deduces debug and optimization (table below); the statement:
\* "buildtype sets debug/optimization unless they are given explicitly".  Within one source an explicit
\* value wins whatever the textual order; an explicit value from a higher-priority source wins; when the
\* explicit value comes from a *lower*-priority source than the buildtype the documentation does not
\* say which wins and both outcomes are allowed.
BtDebug(bt) == bt \in {"debug", "debugoptimized", "minsize"}
BtOpt(bt) == CASE bt = "plain" -> "plain" [] bt = "debug" -> "0" [] bt = "debugoptimized" -> "2"
               [] bt = "release" -> "3" [] bt = "minsize" -> "s" [] OTHER -> "?"
Derived(name, bt) == IF name = "debug" THEN VBool(BtDebug(bt)) ELSE VStr(BtOpt(bt))
BtNames == {"debug", "optimization"}

GivesBt(c, l) == Gives(c, l, "buildtype", "h") /\ OneWord(Given(c, l, "buildtype", "h")) # "custom"
BtRank(c, order) == LET S == {i \in 1..Len(order) : GivesBt(c, order[i])} IN IF S = {} THEN 0 ELSE Min(S)

BtAllowed(c, name, order) ==
    LET d == TheDecl(c, name, "g")
        e == WinRank(c, order, name, "h")
        b == BtRank(c, order)
        expl == Canon(d.d, Given(c, order[e], name, "h"))
        der == Derived(name, OneWord(Given(c, order[b], "buildtype", "h")))
    IN IF e = 0 /\ b = 0 THEN {Canon(d.d, d.def)}
       ELSE IF b = 0 THEN {expl}
       ELSE IF e = 0 THEN {der}
       ELSE IF e <= b THEN {expl}
       ELSE {expl, der}

\* ---- prefix-dependent directory defaults ----------------------------------------
\* Builtin-options.md: prefix /usr: sysconfdir /etc, localstatedir /var, sharedstatedir /var/lib;
\* prefix /usr/local: localstatedir /var/local, sharedstatedir /var/local/lib; otherwise etc, var, com.
PrefixDirs == {"sysconfdir", "localstatedir", "sharedstatedir"}
PrefixDefault(dir, prefix) ==
    CASE prefix = "/usr" -> (CASE dir = "sysconfdir" -> "/etc" [] dir = "localstatedir" -> "/var" [] OTHER -> "/var/lib")
      [] prefix = "/usr/local" -> (CASE dir = "sysconfdir" -> "etc" [] dir = "localstatedir" -> "/var/local" [] OTHER -> "/var/local/lib")
      [] OTHER -> (CASE dir = "sysconfdir" -> "etc" [] dir = "localstatedir" -> "var" [] OTHER -> "com")

\* A prefix may be spelled with a trailing slash: "/usr/" names the prefix /usr (the stored prefix is the spelling
\* without it; the root "/" keeps its slash).  Text being atomic here, the spellings the scenarios use are tabulated.
SanitizePrefix(p) ==
    CASE p = "/usr/" -> "/usr" [] p = "/usr/local/" -> "/usr/local" [] p = "/opt/verif/" -> "/opt/verif" [] OTHER -> p
PrefixValue(c) == VStr(SanitizePrefix(PlainTop(c, "prefix", "h").w[1]))

\* an explicit value for the directory beats the prefix-derived default; else the default follows the (sanitised) prefix
DirValue(c, dir) ==
    IF WinLevel(c, TopOrder, dir, "h") # 0 THEN PlainTop(c, dir, "h")
    ELSE VStr(PrefixDefault(dir, PrefixValue(c).w[1]))

\* ---- the rule book: allowed observations ---------------------------------------
IsBtCase(c) == HasDecl(c, "buildtype", "g")

AllowedTop(c, name, m) ==
    IF name \in BtNames /\ IsBtCase(c) THEN BtAllowed(c, name, TopOrder)
    ELSE IF name \in PrefixDirs /\ HasDecl(c, "prefix", "g") THEN {DirValue(c, name)}
    ELSE IF name = "prefix" /\ HasDecl(c, "prefix", "g") THEN {PrefixValue(c)}
    ELSE {PlainTop(c, name, m)}

AllowedSub(c, name, m) ==
    IF name \in BtNames /\ IsBtCase(c) THEN BtAllowed(c, name, SubOrder("global"))
    ELSE {PlainSub(c, name, m)}

Allowed(c, q) == IF q.scope = "t" THEN AllowedTop(c, q.name, q.m) ELSE AllowedSub(c, q.name, q.m)

\* ---- rejection ------------------------------------------------------------------
\* the declaration a given assignment at level l is validated against
DeclFor(c, l, name) ==
    IF HasDecl(c, name, "g") THEN TheDecl(c, name, "g")
    ELSE IF l \in {1, 3, 4} THEN TheDecl(c, name, "t") ELSE TheDecl(c, name, "s")

AnyInvalidGiven(c) ==
    \E l \in 1..8 : \E i \in 1..Len(c.lv[l]) : ~Valid(DeclFor(c, l, c.lv[l][i].name).d, c.lv[l][i].r)

\* a value that decides an effective value is invalid: configuration must be rejected
WinnerInvalid(c) ==
    \E i \in 1..Len(c.opts) :
        LET o == c.opts[i] IN
        \/ o.scope \in {"g", "t"} /\ ~Valid(TopDecl(c, o.name).d, TopRaw(c, o.name, "h"))
        \/ o.scope \in {"g", "s"} /\ LET p == SubRaw(c, o.name, "h") IN ~Valid(p[1].d, p[2])
=============================================================================
