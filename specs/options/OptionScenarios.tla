--------------------------- MODULE OptionScenarios ---------------------------
(***************************************************************************)
(* The bounded scenario space of C07: every subset of the value sources    *)
(* (2^4 for a top-level project option incl. "default spelled or implied", *)
(* 2^8 for an option seen from a subproject) x option kind x option class  *)
(* x (for system options) when the option comes into existence, with a     *)
(* distinct value per source so that the winner is identifiable; for the   *)
(* two- and three-valued kinds several value assignments so that any two   *)
(* sources differ in at least one of them.  Plus the buildtype, prefix,    *)
(* per-machine, module-option and invalid-value families.                  *)
(* OptionStore_MC model-checks over exactly this set and exports it; the   *)
(* harness replays the exported cases through the real code.               *)
(***************************************************************************)
EXTENDS OptionPrecedence, SequencesExt

StrPool   == <<"v0", "v1", "v2", "v3", "v4", "v5", "v6", "v7", "v8", "v9">>
ComboPool == <<"c0", "c1", "c2", "c3", "c4", "c5", "c6", "c7", "c8", "c9">>
ArrPool   == <<"a0", "a1", "a2", "a3">>

KindDecl(kind) ==
    CASE kind = "string"  -> Decl("string", <<>>, NoBound, NoBound)
      [] kind = "boolean" -> Decl("boolean", <<>>, NoBound, NoBound)
      [] kind = "integer" -> Decl("integer", <<>>, 1, 10)     \* the pool 1..10 touches both bounds
      [] kind = "combo"   -> Decl("combo", ComboPool, NoBound, NoBound)
      [] kind = "array"   -> Decl("array", ArrPool, NoBound, NoBound)
      [] kind = "feature" -> Decl("feature", <<>>, NoBound, NoBound)

PrecKinds == {"string", "boolean", "integer", "combo", "array", "feature"}
NVar(kind) == CASE kind = "boolean" -> 4 [] kind = "feature" -> 3 [] OTHER -> 1

Pow(b, e) == IF e = 0 THEN 1 ELSE IF e = 1 THEN b ELSE IF e = 2 THEN b * b ELSE b * b * b
Digit(n, base, pos) == (n \div Pow(base, pos)) % base

ArrWords(n) == (IF Digit(n, 2, 0) = 1 THEN <<"a0">> ELSE <<>>) \o (IF Digit(n, 2, 1) = 1 THEN <<"a1">> ELSE <<>>)
               \o (IF Digit(n, 2, 2) = 1 THEN <<"a2">> ELSE <<>>) \o (IF Digit(n, 2, 3) = 1 THEN <<"a3">> ELSE <<>>)

\* the value source l (0 = declared default of the top-level/system option, 9 = of the subproject's option)
\* gives in value assignment `var`; typed = a typed value (meson.build dict form, machine file, option file)
\* rather than text
PoolRaw(kind, l, var, typed) ==
    CASE kind = "string"  -> RStr(StrPool[l + 1])
      [] kind = "integer" -> IF typed THEN RInt(l + 1) ELSE RIntT(l + 1)
      [] kind = "boolean" -> LET b == Digit(l + 1, 2, var) IN
                             IF typed THEN RBool(b) ELSE RStr(IF b = 1 THEN "true" ELSE "false")
      [] kind = "combo"   -> RStr(ComboPool[l + 1])
      [] kind = "array"   -> LET ws == ArrWords(l + 1) IN
                             IF typed THEN RList(ws) ELSE IF l % 2 = 0 THEN RCsv(ws) ELSE RBrk(ws)
      [] kind = "feature" -> RStr(FeatureChoices[Digit(l, 3, var) + 1])

\* the default a kind has when the option file does not spell one (Build-options.md)
ImplicitDefault(kind) ==
    CASE kind = "string" -> RStr("") [] kind = "boolean" -> RBool(1) [] kind = "combo" -> RStr(ComboPool[1])
      [] kind = "array" -> RList(ArrPool) [] kind = "feature" -> RStr("auto")

Typed(l, ty) == l \in {0, 3, 7, 9} \/ (l \in {1, 2, 5, 6} /\ ty)

Opt(name, scope, d, def, defgiven, yield, late, builtin) ==
    [name |-> name, scope |-> scope, d |-> d, def |-> def, defgiven |-> defgiven, yield |-> yield,
     late |-> late, builtin |-> builtin]
Asg(name, m, r) == [name |-> name, m |-> m, r |-> r]
Q(name, scope, m) == [name |-> name, scope |-> scope, m |-> m]
Case(id, fam, cross, opts, lv, q) == [id |-> id, fam |-> fam, cross |-> cross, opts |-> opts, lv |-> lv, q |-> q]

\* ---- plain precedence -------------------------------------------------------------
Classes == {"global", "top", "shadow", "yield", "subonly"}
LevelsOf(cls) == CASE cls = "top" -> {1, 3, 4} [] cls = "yield" -> {1, 3, 4, 5, 6, 7, 8}
                   [] cls = "subonly" -> {2, 5, 6, 7, 8} [] OTHER -> 1..8
Lates(cls) == IF cls = "global" THEN {"no", "top", "sub"} ELSE {"no"}

PrecCase(kind, cls, late, S, var, cross, defgiven) ==
    LET d == KindDecl(kind)
        ty == Cardinality(S) % 2 = 1
        d0 == IF defgiven THEN PoolRaw(kind, 0, var, TRUE) ELSE ImplicitDefault(kind)
        d9 == PoolRaw(kind, 9, var, TRUE)
        opts == CASE cls = "global"  -> <<Opt("x", "g", d, d0, TRUE, FALSE, late, FALSE)>>
                  [] cls = "top"     -> <<Opt("x", "t", d, d0, defgiven, FALSE, "no", FALSE)>>
                  [] cls = "shadow"  -> <<Opt("x", "t", d, d0, TRUE, FALSE, "no", FALSE), Opt("x", "s", d, d9, TRUE, FALSE, "no", FALSE)>>
                  [] cls = "yield"   -> <<Opt("x", "t", d, d0, TRUE, FALSE, "no", FALSE), Opt("x", "s", d, d9, TRUE, TRUE, "no", FALSE)>>
                  [] cls = "subonly" -> <<Opt("x", "s", d, d9, TRUE, FALSE, "no", FALSE)>>
        lv == [l \in 1..8 |-> IF l \in S THEN <<Asg("x", "h", PoolRaw(kind, l, var, Typed(l, ty)))>> ELSE <<>>]
        q == CASE cls = "top" -> <<Q("x", "t", "h")>> [] cls = "subonly" -> <<Q("x", "s", "h")>>
               [] OTHER -> <<Q("x", "t", "h"), Q("x", "s", "h")>>
    IN Case("prec/" \o kind \o "/" \o cls \o "/" \o late \o "/v" \o ToString(var) \o (IF cross THEN "x" ELSE "n")
            \o (IF defgiven THEN "" ELSE "i") \o "/" \o ToString(S),
            "prec", cross, opts, lv, q)

CrossOf(cls) == IF cls = "global" THEN BOOLEAN ELSE {FALSE}
DgOf(kind, cls) == IF cls = "top" /\ kind # "integer" THEN BOOLEAN ELSE {TRUE}

\* (built as a filtered product and mapped to a sequence: TLC evaluates UNION of big record sets quadratically)
PrecParams(kinds) ==
    { p \in (PrecKinds \cap kinds) \X Classes \X {"no", "top", "sub"} \X (SUBSET (1..8)) \X (0..3) \X BOOLEAN \X BOOLEAN :
        /\ p[4] \subseteq LevelsOf(p[2]) /\ p[5] < NVar(p[1]) /\ p[3] \in Lates(p[2])
        /\ p[6] \in CrossOf(p[2]) /\ p[7] \in DgOf(p[1], p[2]) }
PrecSeq(kinds) == LET ps == SetToSeq(PrecParams(kinds)) IN
           [i \in 1..Len(ps) |-> PrecCase(ps[i][1], ps[i][2], ps[i][3], ps[i][4], ps[i][5], ps[i][6], ps[i][7])]

\* ---- real builtin options that can be given per subproject (Builtin-options.md, "Per subproject") ------------
BuiltinNames == {"default_library", "warning_level", "werror"}
BuiltinDecl(name) ==
    CASE name = "default_library" -> Decl("combo", <<"shared", "static", "both">>, NoBound, NoBound)
      [] name = "warning_level"   -> Decl("combo", <<"0", "1", "2", "3", "everything">>, NoBound, NoBound)
      [] name = "werror"          -> Decl("boolean", <<>>, NoBound, NoBound)
BuiltinDefault(name) == CASE name = "default_library" -> RStr("shared") [] name = "warning_level" -> RStr("1")
                          [] name = "werror" -> RBool(0)
BuiltinNVar(name) == IF name = "werror" THEN 4 ELSE 2
BuiltinRaw(name, l, var, typed) ==
    LET d == BuiltinDecl(name) IN
    IF d.kind = "boolean" THEN PoolRaw("boolean", l, var, typed)
    ELSE RStr(d.choices[Digit(l, Len(d.choices), var) + 1])
BuiltinCase(name, S, var, cross) ==
    LET ty == Cardinality(S) % 2 = 1 IN
    Case("builtin/" \o name \o "/v" \o ToString(var) \o (IF cross THEN "x" ELSE "n") \o "/" \o ToString(S), "builtin", cross,
         <<Opt(name, "g", BuiltinDecl(name), BuiltinDefault(name), TRUE, FALSE, "no", TRUE)>>,
         [l \in 1..8 |-> IF l \in S THEN <<Asg(name, "h", BuiltinRaw(name, l, var, Typed(l, ty)))>> ELSE <<>>],
         <<Q(name, "t", "h"), Q(name, "s", "h")>>)
BuiltinParams(u) == { p \in BuiltinNames \X (SUBSET (1..8)) \X (0..3) \X BOOLEAN : p[3] < BuiltinNVar(p[1]) }
BuiltinSeq(u) == LET ps == SetToSeq(BuiltinParams(0)) IN
                 [i \in 1..Len(ps) |-> BuiltinCase(ps[i][1], ps[i][2], ps[i][3], ps[i][4])]

\* ---- buildtype -> debug / optimization ------------------------------------------------
BuildtypeList == <<"plain", "debug", "debugoptimized", "release", "minsize", "custom">>
OptimList == <<"plain", "0", "g", "1", "2", "3", "s">>
BtOpts == << Opt("buildtype", "g", Decl("combo", BuildtypeList, NoBound, NoBound), RStr("debug"), TRUE, FALSE, "no", TRUE),
             Opt("debug", "g", Decl("boolean", <<>>, NoBound, NoBound), RBool(1), TRUE, FALSE, "no", TRUE),
             Opt("optimization", "g", Decl("combo", OptimList, NoBound, NoBound), RStr("0"), TRUE, FALSE, "no", TRUE) >>

\* value assignment 1: buildtypes whose optimization is 3 / 2 / 0, explicit optimizations g / 1 / s / plain;
\* value assignment 2: buildtypes with s / plain / 3, explicit g / 1 / 2 / 0 - explicit and deduced values never collide
BtVal(l, var) == IF var = 1 THEN (CASE l \in {1, 8} -> "release" [] l \in {3, 6} -> "debugoptimized" [] OTHER -> "debug")
                 ELSE (CASE l \in {1, 8} -> "minsize" [] l \in {3, 6} -> "plain" [] OTHER -> "release")
ExOpt(l, var) == IF var = 1 THEN (CASE l \in {1, 8} -> "g" [] l \in {3, 6} -> "1" [] l = 2 -> "s" [] OTHER -> "plain")
                 ELSE (CASE l \in {1, 8} -> "g" [] l \in {3, 6} -> "1" [] l = 2 -> "2" [] OTHER -> "0")
ExDbg(l, var) == IF (l + var) % 2 = 0 THEN 1 ELSE 0
Patterns == {"none", "bt", "ex", "btex", "exbt"}
BtItems(pat, l, var) ==
    LET bt == <<Asg("buildtype", "h", RStr(BtVal(l, var)))>>
        ex == <<Asg("debug", "h", IF l \in {3, 7} THEN RBool(ExDbg(l, var)) ELSE RStr(IF ExDbg(l, var) = 1 THEN "true" ELSE "false")),
                Asg("optimization", "h", RStr(ExOpt(l, var)))>>
    IN CASE pat = "none" -> <<>> [] pat = "bt" -> bt [] pat = "ex" -> ex [] pat = "btex" -> bt \o ex [] pat = "exbt" -> ex \o bt

BtQueries == << Q("buildtype", "t", "h"), Q("debug", "t", "h"), Q("optimization", "t", "h"),
                Q("buildtype", "s", "h"), Q("debug", "s", "h"), Q("optimization", "s", "h") >>

\* pats: function from the levels used to a pattern
BtCase(tag, pats, var) ==
    Case("bt/" \o tag \o "/v" \o ToString(var) \o "/" \o ToString(pats), "bt", FALSE, BtOpts,
         [l \in 1..8 |-> IF l \in DOMAIN pats THEN BtItems(pats[l], l, var) ELSE <<>>], BtQueries)

BtCases(u) == { BtCase("top", pats, var) : pats \in [{1, 3, 4} -> Patterns], var \in {1, 2} }
           \cup { BtCase("sub", pats, var) : pats \in [{2, 6, 8} -> Patterns], var \in {1, 2} }
           \cup { BtCase("mix", pats, var) : pats \in [{1, 2, 4, 6} -> {"none", "bt", "ex"}], var \in {1, 2} }

\* ---- prefix-dependent directory defaults ---------------------------------------------------
PrefixOpts == << Opt("prefix", "g", Decl("string", <<>>, NoBound, NoBound), RStr("/usr/local"), TRUE, FALSE, "no", TRUE),
                 Opt("sysconfdir", "g", Decl("string", <<>>, NoBound, NoBound), RStr("etc"), TRUE, FALSE, "no", TRUE),
                 Opt("localstatedir", "g", Decl("string", <<>>, NoBound, NoBound), RStr("/var/local"), TRUE, FALSE, "no", TRUE),
                 Opt("sharedstatedir", "g", Decl("string", <<>>, NoBound, NoBound), RStr("/var/local/lib"), TRUE, FALSE, "no", TRUE) >>
PrefixVals == <<"/usr", "/opt/verif", "/usr/local">>
\* SL: the sources that spell their prefix with a trailing slash ("/usr/" is the prefix /usr)
PrefixAt(l, rot, SL) == PrefixVals[((((CASE l = 1 -> 0 [] l = 3 -> 1 [] OTHER -> 2)) + rot) % 3) + 1] \o (IF l \in SL THEN "/" ELSE "")
PrefixCase(S, rot, se, le, SL) ==
    Case("prefix/r" \o ToString(rot) \o "/" \o ToString(S) \o "/s" \o ToString(se) \o "l" \o ToString(le) \o "/slash" \o ToString(SL), "prefix", FALSE, PrefixOpts,
         [l \in 1..8 |-> (IF l \in S THEN <<Asg("prefix", "h", RStr(PrefixAt(l, rot, SL)))>> ELSE <<>>)
                         \o (IF l = se THEN <<Asg("sysconfdir", "h", RStr("myetc"))>> ELSE <<>>)
                         \o (IF l = le THEN <<Asg("localstatedir", "h", RStr("myvar")), Asg("sharedstatedir", "h", RStr("mycom"))>> ELSE <<>>)],
         << Q("prefix", "t", "h"), Q("sysconfdir", "t", "h"), Q("localstatedir", "t", "h"), Q("sharedstatedir", "t", "h") >>)
PrefixCases(u) == UNION { { PrefixCase(S, rot, se, le, SL) : rot \in 0..2, se \in {0, 1, 3, 4}, le \in {0, 4}, SL \in SUBSET S }
                          : S \in SUBSET {1, 3, 4} }

\* ---- per-machine options ----------------------------------------------------------------------
PcpOpts == << Opt("pkg_config_path", "g", Decl("array", <<>>, NoBound, NoBound), RList(<<>>), TRUE, FALSE, "no", TRUE) >>
MachineCase(cross, H, B) ==
    Case("machine/" \o (IF cross THEN "x" ELSE "n") \o "/" \o ToString(H) \o ToString(B), "machine", cross, PcpOpts,
         [l \in 1..8 |-> (IF l \in H THEN <<Asg("pkg_config_path", "h", RList(<<"/h" \o ToString(l)>>))>> ELSE <<>>)
                         \o (IF l \in B THEN <<Asg("pkg_config_path", "b", RList(<<"/b" \o ToString(l)>>))>> ELSE <<>>)],
         << Q("pkg_config_path", "t", "h"), Q("pkg_config_path", "t", "b") >>)
MachineCases(u) == { MachineCase(FALSE, H, {}) : H \in SUBSET {1, 3, 4} }
                \cup { MachineCase(TRUE, H, B) : H \in SUBSET {1, 3, 4}, B \in SUBSET {1, 3, 4} }

\* ---- module-prefixed and other builtin kinds ------------------------------------------------------
ModuleOpts == << Opt("python.bytecompile", "g", Decl("integer", <<>>, -1, 2), RInt(0), TRUE, FALSE, "no", TRUE),
                 Opt("install_umask", "g", Decl("umask", <<>>, NoBound, NoBound), Raw("oct", 18, <<>>), TRUE, FALSE, "no", TRUE),
                 Opt("unity_size", "g", Decl("integer", <<>>, 2, NoBound), RInt(4), TRUE, FALSE, "no", TRUE) >>
ModuleCase(S, U, W) ==
    Case("module/" \o ToString(S) \o ToString(U) \o ToString(W), "module", FALSE, ModuleOpts,
         [l \in 1..8 |-> (IF l \in S THEN <<Asg("python.bytecompile", "h",
                                               IF l = 3 THEN RInt(1) ELSE RIntT(IF l = 1 THEN -1 ELSE 2))>> ELSE <<>>)
                         \o (IF l \in U THEN <<Asg("install_umask", "h", IF l = 1 THEN RStr("preserve") ELSE Raw("oct", 8 * l + 3, <<>>))>> ELSE <<>>)
                         \o (IF l \in W THEN <<Asg("unity_size", "h", IF l \in {3, 7} THEN RInt(10 + l) ELSE RIntT(10 + l))>> ELSE <<>>)],
         << Q("python.bytecompile", "t", "h"), Q("install_umask", "t", "h"), Q("unity_size", "t", "h"), Q("unity_size", "s", "h") >>)
ModuleCases(u) == { ModuleCase(S, U, W) : S \in SUBSET {1, 3, 4}, U \in SUBSET {1, 3, 4}, W \in SUBSET {1, 4, 7, 8} }

\* ---- invalid values ---------------------------------------------------------------------------
\* <<raw, needs a typed source>>
InvPool(kind) ==
    CASE kind = "string"  -> << <<RInt(5), TRUE>>, <<RBool(1), TRUE>>, <<RList(<<"v1">>), TRUE>> >>
      [] kind = "boolean" -> << <<RStr("maybe"), FALSE>>, <<RInt(1), TRUE>>, <<RIntT(1), FALSE>> >>
      [] kind = "integer" -> << <<RIntT(11), FALSE>>, <<RIntT(0), FALSE>>, <<RInt(11), TRUE>>, <<RInt(0), TRUE>>, <<RIntT(-7), FALSE>>,
                               <<RStr("abc"), FALSE>>, <<RBool(1), TRUE>> >>
      [] kind = "combo"   -> << <<RStr("zz"), FALSE>>, <<RInt(3), TRUE>>, <<RBool(0), TRUE>> >>
      [] kind = "array"   -> << <<RCsv(<<"a0", "zz">>), FALSE>>, <<RList(<<"zz">>), TRUE>>, <<RBrk(<<"a1", "zz">>), FALSE>>, <<RInt(2), TRUE>> >>
      [] kind = "feature" -> << <<RStr("maybe"), FALSE>>, <<RStr("true"), FALSE>>, <<RBool(1), TRUE>> >>
TypedLevels == {1, 2, 3, 5, 6, 7}
InvCase(kind, cls, l, j, under) ==
    LET base == PrecCase(kind, cls, "no", under, 0, FALSE, TRUE) IN
    [base EXCEPT !.id = "invalid/" \o kind \o "/" \o cls \o "/L" \o ToString(l) \o "#" \o ToString(j) \o "/" \o ToString(under),
                 !.fam = "invalid",
                 !.lv[l] = <<Asg("x", "h", InvPool(kind)[j][1])>>]
\* the invalid value sits in the source that decides (alone, or above one valid lower-priority source)
InvCases(u) ==
    UNION { UNION { { InvCase(kind, cls, l, j, {}) : l \in LevelsOf(cls), j \in 1..Len(InvPool(kind)) }
                    : cls \in {"global", "top", "shadow", "subonly"} } : kind \in PrecKinds }
    \cup UNION { { InvCase(kind, "global", l, j, {1}) : l \in 2..8, j \in 1..Len(InvPool(kind)) } : kind \in PrecKinds }
InvCasesOK(u) == { c \in InvCases(0) : \A l \in 1..8 : \A i \in 1..Len(c.lv[l]) :
                  (c.lv[l][i].r.t \in {"int", "bool", "list"} => l \in TypedLevels) }

FamilySeq(fam, kinds) == CASE fam = "prec" -> PrecSeq(kinds) [] fam = "builtin" -> BuiltinSeq(0) [] fam = "bt" -> SetToSeq(BtCases(0)) [] fam = "prefix" -> SetToSeq(PrefixCases(0))
                     [] fam = "machine" -> SetToSeq(MachineCases(0)) [] fam = "module" -> SetToSeq(ModuleCases(0))
                     [] fam = "invalid" -> SetToSeq(InvCasesOK(0))
AllFamilies == <<"prec", "builtin", "bt", "prefix", "machine", "module", "invalid">>
=============================================================================
