----------------------------- MODULE OptionStore -----------------------------
(***************************************************************************)
(* API-shaped state machine of the option store (property C07).            *)
(*                                                                          *)
(* One operator per public call of mesonbuild.options.OptionStore          *)
(* (add_system_option / add_compiler_option, add_project_option,           *)
(* initialize_from_top_level_project_call, initialize_from_subproject_call,*)
(* set_option, set_from_configure_command, get_value_for).  It is written  *)
(* operationally - sources are applied from the lowest to the highest      *)
(* priority, later ones overriding earlier ones; options that do not exist *)
(* yet wait in `pend` - whereas OptionPrecedence is declarative.           *)
(* OptionStore_MC proves that this machine refines the declarative rule    *)
(* book for every case of the bounded scenario space, so traces of the     *)
(* real OptionStore judged against this machine are judged against the     *)
(* documentation.                                                           *)
(*                                                                          *)
(* Every operator returns [st |-> new store, ok |-> BOOLEAN]; ok = FALSE   *)
(* means the call is rejected (raises) and st is the unchanged store.      *)
(***************************************************************************)
EXTENDS OptionPrecedence

G == "~"                       \* namespace of system options (no subproject); "" = top-level project
Key(n, s, m) == [n |-> n, s |-> s, m |-> m]
OptRec(d, v, y, p) == [d |-> d, v |-> v, def |-> v, y |-> y, p |-> p]

EmptyStore(cross, latent) ==
    [o |-> <<>>, aug |-> <<>>, pend |-> <<>>, psub |-> <<>>, proj |-> {}, latent |-> latent, cross |-> cross]

Put(f, k, v) == (k :> v) @@ f
Del(f, k) == [x \in DOMAIN f \ {k} |-> f[x]]
Res(st, ok) == [st |-> st, ok |-> ok]

CanonKey(st, k) == IF k.m = "b" /\ ~(st.cross /\ k.n \in PerMachineNames) THEN [k EXCEPT !.m = "h"] ELSE k
AsGlobal(k) == [k EXCEPT !.s = G]
AsRoot(k) == [k EXCEPT !.s = ""]

\* the option object a key resolves to: its own, else the system option it may augment
Exists(st, k) == k \in DOMAIN st.o \/ (k.s # G /\ k \notin st.proj /\ AsGlobal(k) \in DOMAIN st.o)
Resolve(st, k) == IF k \in DOMAIN st.o THEN st.o[k] ELSE st.o[AsGlobal(k)]

\* get_value_for: per-subproject override > yielding parent > own value
Get(st, k0) ==
    LET k == CanonKey(st, k0) IN
    IF k \in DOMAIN st.aug THEN st.aug[k]
    ELSE LET opt == Resolve(st, k) IN IF opt.y THEN st.o[AsRoot(k)].v ELSE opt.v

\* store a canonical value under a key: on the option itself, or as per-subproject override
SetPlain(st, k, v) ==
    IF k \in DOMAIN st.o THEN [st EXCEPT !.o[k].v = v, !.o[k].y = FALSE]
    ELSE [st EXCEPT !.aug = Put(st.aug, k, v)]

\* set_option: validate, canonicalise, store.  With expand (the plain API call) buildtype also sets debug and
\* optimization of the same scope; the initialisation calls and the configure command expand buildtype per
\* source instead (ExpandAsg) so that explicit values of the same source win
SetOptX(st, k0, raw, expand) ==
    LET k == CanonKey(st, k0) IN
    IF ~Exists(st, k) THEN Res(st, FALSE)
    ELSE LET opt == Resolve(st, k) IN
         IF ~Valid(opt.d, raw) THEN Res(st, FALSE)
         ELSE LET v == Canon(opt.d, raw)
                  st1 == SetPlain(st, k, v)
                  dk == [k EXCEPT !.n = "debug"]
                  ok == [k EXCEPT !.n = "optimization"]
              IN IF expand /\ k.n = "buildtype" /\ v.w[1] # "custom" /\ Exists(st, dk) /\ Exists(st, ok)
                 THEN Res(SetPlain(SetPlain(st1, dk, Derived("debug", v.w[1])), ok, Derived("optimization", v.w[1])), TRUE)
                 ELSE Res(st1, TRUE)
SetOpt(st, k0, raw) == SetOptX(st, k0, raw, TRUE)

\* set_user_option: what `name=value` from a user-facing source means
SetUser(st, k0, raw) ==
    IF k0.m = "b" /\ ~st.cross THEN Res(st, TRUE)                          \* build-machine keys are not used natively
    ELSE LET k == CanonKey(st, k0) IN
         IF k \in DOMAIN st.o THEN SetOptX(st, k, raw, FALSE)
         ELSE IF k.s # G /\ AsGlobal(k) \in DOMAIN st.o THEN SetOptX(st, k, raw, FALSE)
         ELSE IF k.n \in st.latent THEN Res([st EXCEPT !.pend = Put(st.pend, k, raw)], TRUE)
         ELSE IF k.s = G THEN SetOptX(st, AsRoot(k), raw, FALSE)         \* `opt` may name a top-level project option
         ELSE Res(st, FALSE)

\* one source's assignments with every buildtype expanded into the debug / optimization it stands for, placed
\* before the explicit assignments of that source (which therefore win)
BtWords == {"plain", "debug", "debugoptimized", "release", "minsize"}
IsBtAsg(a) == a.name = "buildtype" /\ a.r.t = "str" /\ a.r.w[1] \in BtWords
RECURSIVE DerivedAsgs(_, _)
DerivedAsgs(lvl, i) ==
    IF i > Len(lvl) THEN <<>>
    ELSE (IF IsBtAsg(lvl[i])
          THEN << [lvl[i] EXCEPT !.name = "debug", !.r = RBool(IF BtDebug(lvl[i].r.w[1]) THEN 1 ELSE 0)],
                  [lvl[i] EXCEPT !.name = "optimization", !.r = RStr(BtOpt(lvl[i].r.w[1]))] >>
          ELSE <<>>) \o DerivedAsgs(lvl, i + 1)
HasBtOptions(st) == Key("debug", G, "h") \in DOMAIN st.o /\ Key("optimization", G, "h") \in DOMAIN st.o
ExpandAsg(st, lvl) == IF HasBtOptions(st) THEN DerivedAsgs(lvl, 1) \o lvl ELSE lvl
ExpandLv(st, lv) == [l \in 1..8 |-> ExpandAsg(st, lv[l])]

\* ---- adding options -----------------------------------------------------------
AddGlobal(st, gk, d, defraw) ==
    IF gk \in DOMAIN st.o THEN Res(st, TRUE)
    ELSE IF ~Valid(d, defraw) THEN Res(st, FALSE)
    ELSE LET st1 == [st EXCEPT !.o = Put(st.o, gk, OptRec(d, Canon(d, defraw), FALSE, FALSE))] IN
         IF gk \in DOMAIN st.pend
         THEN LET r == SetOpt([st1 EXCEPT !.pend = Del(st1.pend, gk)], gk, st.pend[gk]) IN
              IF r.ok THEN r ELSE Res(st, FALSE)
         ELSE Res(st1, TRUE)

\* add_system_option / add_compiler_option (for `sub:opt` keys the system option is created on demand and a
\* value that waited for the key becomes the subproject's override)
AddSystem(st, k0, d, defraw) ==
    LET k == CanonKey(st, k0) IN
    IF k \in DOMAIN st.o THEN Res(st, TRUE)
    ELSE LET g == AddGlobal(st, AsGlobal(k), d, defraw) IN
         IF ~g.ok THEN Res(st, FALSE)
         ELSE IF k.s # G /\ k \in DOMAIN g.st.pend
              THEN LET r == SetOpt([g.st EXCEPT !.pend = Del(g.st.pend, k)], k, g.st.pend[k]) IN
                   IF r.ok THEN r ELSE Res(st, FALSE)
              ELSE g

\* add_project_option: a subproject option with yield:true is tied to the top-level option of the same
\* name and type, if there is one
AddProject(st, k, d, defraw, yield) ==
    IF k \in DOMAIN st.o \/ ~Valid(d, defraw) THEN Res(st, FALSE)
    ELSE LET par == yield /\ k.s # "" /\ AsRoot(k) \in DOMAIN st.o /\ st.o[AsRoot(k)].d.kind = d.kind
         IN Res([st EXCEPT !.o = Put(st.o, k, OptRec(d, Canon(d, defraw), par, par)), !.proj = st.proj \cup {k}], TRUE)

\* update_project_options for one option: the option file was edited and is read again.  A new option is added; an
\* option whose choices / range changed takes the new declaration and keeps its value when that is still valid,
\* otherwise falls back to the new default (Build-options.md; statement of C08); anything else keeps the old object
UpdateProject(st, k, d, defraw) ==
    IF k \notin DOMAIN st.o THEN AddProject(st, k, d, defraw, FALSE)
    ELSE IF ~Valid(d, defraw) THEN Res(st, FALSE)
    ELSE IF st.o[k].d = d THEN Res(st, TRUE)
    ELSE Res([st EXCEPT !.o[k].d = d, !.o[k].def = Canon(d, defraw),
                        !.o[k].v = IF ValOK(d, st.o[k].v) THEN st.o[k].v ELSE Canon(d, defraw)], TRUE)

\* ---- applying a list of assignments -----------------------------------------------
\* items: sequence of [k |-> key, r |-> raw], applied in order (later ones override earlier ones)

RECURSIVE ApplyFrom(_, _, _)
ApplyFrom(st, items, i) ==
    IF i > Len(items) THEN Res(st, TRUE)
    ELSE LET r == SetUser(st, items[i].k, items[i].r) IN
         IF r.ok THEN ApplyFrom(r.st, items, i + 1) ELSE r
ApplyAll(st, items) == ApplyFrom(st, items, 1)

LevelItems(lvl, sub) == [i \in 1..Len(lvl) |-> [k |-> Key(lvl[i].name, sub, lvl[i].m), r |-> lvl[i].r]]

\* ---- initialize_from_top_level_project_call -----------------------------------------
\* the prefix is looked at first (it decides the prefix-dependent directory defaults), then
\* default_options < machine file < command line; `sub:opt` of default_options waits for the subproject
LastPrefix(lv) ==
    LET c == [lv |-> lv] IN
    IF Gives(c, 4, "prefix", "h") THEN Given(c, 4, "prefix", "h")
    ELSE IF Gives(c, 3, "prefix", "h") THEN Given(c, 3, "prefix", "h")
    ELSE Given(c, 1, "prefix", "h")

RECURSIVE ResetDirs(_, _, _)
ResetDirs(st, dirs, prefix) ==
    IF dirs = {} THEN st
    ELSE LET dname == CHOOSE x \in dirs : TRUE
             k == Key(dname, G, "h")
         IN ResetDirs(IF k \in DOMAIN st.o THEN [st EXCEPT !.o[k].v = VStr(PrefixDefault(dname, prefix))] ELSE st,
                      dirs \ {dname}, prefix)

NoPrefix(lvl) == SelectSeq(lvl, LAMBDA a : a.name # "prefix")

InitTop(st, lv0) ==
    LET lv == ExpandLv(st, lv0)
        pk == Key("prefix", G, "h")
        pr == LastPrefix(lv)
        st0 == IF pr.t # "none" /\ pk \in DOMAIN st.o /\ pr.t = "str"
               THEN ResetDirs([st EXCEPT !.o[pk].v = VStr(SanitizePrefix(pr.w[1]))], PrefixDirs, SanitizePrefix(pr.w[1])) ELSE st
        r1 == ApplyAll(st0, LevelItems(NoPrefix(lv[1]), G))
        r3 == IF r1.ok THEN ApplyAll(r1.st, LevelItems(NoPrefix(lv[3]), G)) ELSE r1
        r4 == IF r3.ok THEN ApplyAll(r3.st, LevelItems(NoPrefix(lv[4]), G)) ELSE r3
        l5 == LevelItems(lv[5], "sub")
        ps == [k \in {l5[i].k : i \in 1..Len(l5)} |-> (CHOOSE i \in 1..Len(l5) : l5[i].k = k /\ \A j \in 1..Len(l5) : l5[j].k = k => j <= i)]
    IN IF pr.t \notin {"none", "str"} THEN Res(st, FALSE)
       ELSE IF ~r4.ok THEN Res(st, FALSE)
       ELSE Res([r4.st EXCEPT !.psub = [k \in DOMAIN ps |-> l5[ps[k]].r] @@ r4.st.psub], TRUE)

\* ---- initialize_from_subproject_call ----------------------------------------------------
\* merge, lowest priority first: the subproject's own default_options; an unqualified machine-file or
\* command-line value of a *system* option removes that (the global value set at the top level stays);
\* then sub:opt of the parent's default_options, subproject(default_options:), sub:opt of machine file,
\* sub:opt of the command line.  What remains is set for the subproject.
SubNames(lv) == UNION {{<<lv[l][i].name, lv[l][i].m>> : i \in 1..Len(lv[l])} : l \in {2, 6, 7, 8}}

MergedSub(st, lv, name, m) ==
    LET c == [lv |-> lv]
        pk == Key(name, "sub", m)
        x2 == Given(c, 2, name, m)
        x4 == IF (Gives(c, 3, name, m) \/ Gives(c, 4, name, m)) /\ Key(name, "", m) \notin st.proj THEN RNone ELSE x2
        x5 == IF pk \in DOMAIN st.psub THEN st.psub[pk] ELSE x4
        x6 == IF Gives(c, 6, name, m) THEN Given(c, 6, name, m) ELSE x5
        x7 == IF Gives(c, 7, name, m) THEN Given(c, 7, name, m) ELSE x6
    IN IF Gives(c, 8, name, m) THEN Given(c, 8, name, m) ELSE x7

RECURSIVE SetToSeqR(_)
SetToSeqR(S) == IF S = {} THEN <<>> ELSE LET x == CHOOSE y \in S : TRUE IN <<x>> \o SetToSeqR(S \ {x})

InitSub(st, lv0) ==
    LET lv == ExpandLv(st, lv0)
        names == SubNames(lv) \cup {<<k.n, k.m>> : k \in DOMAIN st.psub}
        todo == {nm \in names : MergedSub(st, lv, nm[1], nm[2]).t # "none" /\ Key(nm[1], "sub", nm[2]) \notin DOMAIN st.aug}
        sq == SetToSeqR(todo)
        items == [i \in 1..Len(sq) |-> [k |-> Key(sq[i][1], "sub", sq[i][2]), r |-> MergedSub(st, lv, sq[i][1], sq[i][2])]]
        st0 == [st EXCEPT !.psub = <<>>]
        r == ApplyAll(st0, items)
    IN IF r.ok THEN r ELSE Res(st, FALSE)

\* ---- set_from_configure_command ------------------------------------------------------------
\* D: sequence of [k, r]; r = RNone is `-U key`: drop the per-subproject override (the subproject inherits
\* again); for a subproject option that yields, go back to the parent's value
RECURSIVE ConfFrom(_, _, _)
ConfFrom(st, D, i) ==
    IF i > Len(D) THEN Res(st, TRUE)
    ELSE LET k == D[i].k IN
         IF D[i].r.t # "none"
         THEN LET r == SetUser(st, k, D[i].r) IN IF r.ok THEN ConfFrom(r.st, D, i + 1) ELSE r
         ELSE IF k \in DOMAIN st.aug THEN ConfFrom([st EXCEPT !.aug = Del(st.aug, k)], D, i + 1)
         ELSE IF k \notin DOMAIN st.o THEN Res(st, FALSE)
         ELSE ConfFrom([st EXCEPT !.o[k].y = st.o[k].p], D, i + 1)

\* (D items carry name/m/r like assignments plus the key k)
ExpandD(st, D) == IF HasBtOptions(st)
                  THEN LET bt == SelectSeq(D, LAMBDA it : it.r.t = "str" /\ it.k.n = "buildtype" /\ it.r.w[1] \in BtWords) IN
                       [i \in 1..(2 * Len(bt)) |->
                           IF i % 2 = 1 THEN [k |-> [bt[(i + 1) \div 2].k EXCEPT !.n = "debug"],
                                              r |-> RBool(IF BtDebug(bt[(i + 1) \div 2].r.w[1]) THEN 1 ELSE 0)]
                           ELSE [k |-> [bt[i \div 2].k EXCEPT !.n = "optimization"], r |-> RStr(BtOpt(bt[i \div 2].r.w[1]))]] \o D
                  ELSE D
Configure(st, D) == LET r == ConfFrom(st, ExpandD(st, D), 1) IN IF r.ok THEN r ELSE Res(st, FALSE)

\* ---- invariants of every store state --------------------------------------------------------
StoredValuesValid(st) ==
    /\ \A k \in DOMAIN st.o : ValOK(st.o[k].d, st.o[k].v) /\ ValOK(st.o[k].d, st.o[k].def)
    /\ \A k \in DOMAIN st.aug : Exists(st, k) /\ ValOK(Resolve(st, k).d, st.aug[k])
    /\ \A k \in DOMAIN st.o : st.o[k].y => (st.o[k].p /\ AsRoot(k) \in DOMAIN st.o)
=============================================================================
