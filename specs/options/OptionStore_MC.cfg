SPECIFICATION Spec
CONSTANT SelKinds = {"string", "boolean", "integer", "combo", "array", "feature"}
CONSTANT Families = {"prec", "builtin", "bt", "prefix", "machine", "module", "invalid"}
INVARIANT StoreValid
INVARIANT RefinesPrecedence
INVARIANT RuleBookIsTight
INVARIANT Rejection
INVARIANT YieldingTakesParent
INVARIANT CanonIsSound
INVARIANT NothingPendingAtEnd
CHECK_DEADLOCK FALSE
POSTCONDITION EmitCases
