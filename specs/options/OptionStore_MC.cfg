SPECIFICATION Spec
INVARIANT StoreValid
INVARIANT RefinesPrecedence
INVARIANT RuleBookIsTight
INVARIANT Rejection
INVARIANT YieldingTakesParent
INVARIANT CanonIsSound
INVARIANT NothingPendingAtEnd
CHECK_DEADLOCK FALSE
POSTCONDITION EmitCases
