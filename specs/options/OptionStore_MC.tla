---------------------------- MODULE OptionStore_MC ----------------------------
(***************************************************************************)
(* Model: for every case of the scenario space (OptionScenarios!AllCases)  *)
(* the API-shaped store is driven through the call sequence meson makes    *)
(* (add options, initialize_from_top_level_project_call, options that only *)
(* appear later, add the subproject's options,                             *)
(* initialize_from_subproject_call, late per-subproject options) and must  *)
(*  - keep every stored value valid in every intermediate state,           *)
(*  - end with exactly the values the declarative rule book allows         *)
(*    (refinement OptionStore => OptionPrecedence),                        *)
(*  - reject the configuration when a deciding value is invalid and accept *)
(*    it when no given value is invalid.                                   *)
(* The case set is exported for the implementation harness.                *)
(***************************************************************************)
EXTENDS OptionStore, OptionScenarios, Json, IOUtils

CONSTANT Families        \* set of scenario families to include, e.g. {"prec", "bt", "prefix", "machine", "module", "invalid"}
CONSTANT SelKinds        \* option kinds of the "prec" family to include (quick tier: a rotating subset)
VARIABLES ci, ph, st, ok
vars == <<ci, ph, st, ok>>

RECURSIVE Concat(_, _)
Concat(fams, i) == IF i > Len(fams) THEN <<>> ELSE FamilySeq(fams[i], SelKinds) \o Concat(fams, i + 1)
CaseSeq == Concat(SelectSeq(AllFamilies, LAMBDA f : f \in Families), 1)
c == CaseSeq[ci]

Latent(cs) == {cs.opts[i].name : i \in {j \in 1..Len(cs.opts) : cs.opts[j].late # "no"}}

OptKey(o) == Key(o.name, IF o.scope = "g" THEN G ELSE IF o.scope = "t" THEN "" ELSE "sub", "h")

\* add the given options in declaration order; assub: under the key `sub:name` (per-subproject system option)
RECURSIVE AddFrom(_, _, _, _)
AddFrom(s, opts, i, assub) ==
    IF i > Len(opts) THEN Res(s, TRUE)
    ELSE LET o == opts[i]
             k == IF assub THEN Key(o.name, "sub", "h") ELSE OptKey(o)
             r == IF o.scope = "g" THEN AddSystem(s, k, o.d, o.def) ELSE AddProject(s, k, o.d, o.def, o.yield)
             \* per-machine system options exist once per machine
             r2 == IF r.ok /\ o.scope = "g" /\ o.name \in PerMachineNames
                   THEN AddSystem(r.st, [k EXCEPT !.m = "b"], o.d, o.def) ELSE r
         IN IF r2.ok THEN AddFrom(r2.st, opts, i + 1, assub) ELSE r2

Phase(s, cs, p) ==
    CASE p = 0 -> AddFrom(s, SelectSeq(cs.opts, LAMBDA o : (o.scope = "g" /\ o.late = "no") \/ o.scope = "t"), 1, FALSE)
      [] p = 1 -> InitTop(s, cs.lv)
      [] p = 2 -> AddFrom(s, SelectSeq(cs.opts, LAMBDA o : o.scope = "g" /\ o.late = "top"), 1, FALSE)
      [] p = 3 -> AddFrom(s, SelectSeq(cs.opts, LAMBDA o : o.scope = "s"), 1, FALSE)
      [] p = 4 -> InitSub(s, cs.lv)
      [] p = 5 -> AddFrom(s, SelectSeq(cs.opts, LAMBDA o : o.scope = "g" /\ o.late # "no"), 1, TRUE)

Init == ci \in 1..Len(CaseSeq) /\ ph = 0 /\ st = EmptyStore(c.cross, Latent(c)) /\ ok = TRUE
Next == /\ ph < 6 /\ ok
        /\ LET r == Phase(st, c, ph) IN st' = r.st /\ ok' = r.ok
        /\ ph' = ph + 1 /\ ci' = ci
Spec == Init /\ [][Next]_vars

QKey(q) == Key(q.name, IF q.scope = "s" THEN "sub" ELSE IF HasDecl(c, q.name, "g") THEN G ELSE "", q.m)

\* ---- laws ------------------------------------------------------------------
StoreValid == StoredValuesValid(st)
\* refinement: the finished store shows only values the declarative rule book allows
RefinesPrecedence == (ph = 6 /\ ok) => \A i \in 1..Len(c.q) : Get(st, QKey(c.q[i])) \in Allowed(c, c.q[i])
\* the only freedom the rule book leaves is the buildtype-vs-lower-priority-explicit one
RuleBookIsTight == ~AnyInvalidGiven(c) => \A i \in 1..Len(c.q) : Cardinality(Allowed(c, c.q[i])) = 1 \/ (c.fam = "bt" /\ c.q[i].name \in BtNames)
Rejection == /\ (WinnerInvalid(c) /\ (ph = 6 \/ ~ok)) => ~ok
             /\ ~AnyInvalidGiven(c) => ok
\* a yielding subproject option shows the parent's value unless it was given for the subproject
YieldingTakesParent ==
    (ph = 6 /\ ok) => \A i \in 1..Len(c.q) :
        (c.q[i].scope = "s" /\ Class(c, c.q[i].name) = "yield" /\ WinLevel(c, <<8, 7, 6, 5>>, c.q[i].name, "h") = 0)
            => Get(st, QKey(c.q[i])) = Get(st, Key(c.q[i].name, "", "h"))
CanonIsSound == \A i \in 1..Len(c.opts) : \A l \in 1..8 : \A j \in 1..Len(c.lv[l]) :
                    c.lv[l][j].name = c.opts[i].name => CanonSound(c.opts[i].d, c.lv[l][j].r)
NothingPendingAtEnd == (ph = 6 /\ ok) => (DOMAIN st.pend = {} /\ DOMAIN st.psub = {})

EmitCases == TLCGet("stats").diameter >= 0 /\ JsonSerialize("cases.json", CaseSeq)
=============================================================================
