------------------------ MODULE TraceOptionLifecycle ------------------------
(***************************************************************************)
(* Trace validation for C08: every case is one history of real meson       *)
(* commands run in real processes on one build directory.  Per event:      *)
(* what was run (action, -D assignments, -U key, option-file edit, whether *)
(* it was meant to fail), the exit status, and the projected persisted     *)
(* state afterwards (`meson introspect --buildoptions`, the [options] of    *)
(* meson-private/cmd_line.txt that --wipe replays, effective                *)
(* subproject values, and the get_option() messages of a (re)configure).   *)
(* The judge keeps the set of machine states consistent with the           *)
(* observations so far (the machine's only nondeterminism is whether a     *)
(* no-op `configure` rewrites the stored configuration) and rejects the    *)
(* history at the first event after which no allowed state matches.        *)
(***************************************************************************)
EXTENDS OptionLifecycle, Json, IOUtils

Cases == JsonDeserialize(IOEnv.TRACE_FILE)

VARIABLES i, done
vars == <<i, done>>

Range(s) == {s[j] : j \in 1..Len(s)}
\* JSON -> event: D travels as a sequence of <<key, value>> pairs, sets as sequences
DOf(ps) == [k \in {ps[j][1] : j \in 1..Len(ps)} |-> (CHOOSE j \in 1..Len(ps) : ps[j][1] = k) ] 
DVal(ps) == LET idx == DOf(ps) IN [k \in DOMAIN idx |-> ps[idx[k]][2]]
EvOf(x) == Ev(x.a, DVal(x.D), x.k, [t |-> x.e.t, ch |-> Range(x.e.ch), def |-> x.e.def], x.ok)

ObsProj(o) == [exists |-> o.exists, v |-> o.v, ch |-> Range(o.ch), x |-> o.x, dl |-> o.dl, subdl |-> o.subdl, sp |-> o.sp, sf |-> o.sf,
               lv |-> o.lv, ar |-> o.ar, sch |-> Range(o.sch), o |-> [k \in ObsRenKeys |-> o.o[k]], cmd |-> [k \in Keys |-> o.cmd[k]]]
\* the get_option() values printed while configuring must be the persisted effective values
MsgOK(o) == /\ (o.mv = None \/ o.mv = o.v) /\ (o.msp = None \/ o.msp = o.sp) /\ (o.msubdl = None \/ o.msubdl = o.subdl)
            /\ (o.msf = None \/ o.msf = o.sf)

\* an observation matches a projected state (Unknown = not defined by the rule book: anything goes)
Matches(pr, op) == [pr EXCEPT !.sp = IF @ = Unknown THEN op.sp ELSE @, !.sf = IF @ = Unknown THEN op.sf ELSE @] = op

Cands(S, ev) == UNION {IF Enabled(p[1], p[2], ev) THEN Step(p[1], p[2], ev) ELSE {} : p \in S}

\* which observable fields differ from a candidate (for the signature)
RenFields == <<"omode", "mode", "oflag", "nflag", "ostr", "nstr", "oarr", "narr", "obool", "nfeat", "marr", "dall", "dsome", "dbg">>
Fields == <<"exists", "v", "ch", "x", "dl", "subdl", "sp", "sf", "lv", "ar", "sch">> \o RenFields \o <<"cmd">>
\* the observables that belong to options declared in the top-level option file
TopFields == {"v", "ch", "x", "lv", "ar", "sp", "sf"} \cup ProjRenKeys
DiffFields(p, o) == LET pr == Proj(p[2]) op == ObsProj(o) IN
    SelectSeq(Fields, LAMBDA f : CASE f = "exists" -> pr.exists # op.exists [] f = "v" -> pr.v # op.v [] f = "ch" -> pr.ch # op.ch
                                     [] f = "x" -> pr.x # op.x [] f = "dl" -> pr.dl # op.dl [] f = "subdl" -> pr.subdl # op.subdl
                                     [] f = "sp" -> pr.sp \notin {Unknown, op.sp} [] f = "sf" -> pr.sf \notin {Unknown, op.sf}
                                     [] f = "lv" -> pr.lv # op.lv [] f = "ar" -> pr.ar # op.ar [] f = "sch" -> pr.sch # op.sch [] f = "cmd" -> pr.cmd # op.cmd
                                     [] OTHER -> pr.o[f] # op.o[f])
RECURSIVE Join(_)
Join(s) == IF s = <<>> THEN "" ELSE IF Len(s) = 1 THEN s[1] ELSE s[1] \o "+" \o Join(Tail(s))
DKeys(ev) == Join(SelectSeq(<<"popt", "xopt", "dl", "subdl", "subpopt", "subflag", "level", "arr">> \o RenFields \o <<"bt">>, LAMBDA k : k \in DOMAIN ev.D))

\* ---- circumstances recorded along the history (they qualify the signature of a deviation) ---------------
\* eq-subdl : a `configure -Dsub:default_library=v` gave the value the subproject inherited anyway
\* own-sp   : a `configure -Dsub:popt=v` gave the value stored in the (yielding) subproject option itself
\* unset-flag : `configure -Usub:flag` while sub:flag is true (and the parent's flag is false)
\* stale-x  : xopt was given on a command line and later removed from the option file
\* (computed in JudgeFrom over all candidate states:)
\* replay-order : at --wipe both names of a pair (old name / replacement, buildtype / debug) are recorded with values
\*            that differ for the replacement - the order of the recorded command lines decides
\* file-deleted : the option file of the top-level project has been deleted and the stored configuration still has its options
\* parent-replaced : the choices of the top-level popt changed while the subproject's popt was yielding to it
\*            (until the next --wipe)
Taints(T, p, sown, ev) ==
    (IF ev.a = "Wipe" THEN T \ {"parent-replaced", "unset-flag"} ELSE T \ {"unset-flag"})
      \cup (IF ev.a = "Configure" /\ "subdl" \in DOMAIN ev.D /\ p[2].subdl = None /\ ev.D["subdl"] = p[2].dl THEN {"eq-subdl"} ELSE {})
      \cup (IF ev.a = "Configure" /\ "subpopt" \in DOMAIN ev.D /\ p[2].sp = None /\ ev.D["subpopt"] = sown THEN {"own-sp"} ELSE {})
      \cup (IF ev.a = "ConfigureU" /\ ev.k = "subflag" /\ p[2].sf = "true" THEN {"unset-flag"} ELSE {})
      \cup (IF p[2].exists /\ p[2].cmd["xopt"] # None /\ ~p[1].x THEN {"stale-x"} ELSE {})
      \cup (IF p[2].exists /\ ev.a \in {"Configure", "ConfigureU", "Reconfigure"} /\ p[1].ch # p[2].ch THEN {"parent-replaced"} ELSE {})
\* only the circumstances that concern the deviating fields / the failing command qualify a signature
Relevant(T, ev, fields, failed) ==
    {t \in T : \/ t = "own-sp" /\ "sp" \in Range(fields)
               \/ t = "parent-replaced" /\ "sp" \in Range(fields)
               \/ t = "eq-subdl" /\ ("subdl" \in Range(fields) \/ (failed /\ ev.a = "ConfigureU" /\ ev.k = "subdl"))
               \/ t = "stale-x" /\ ("x" \in Range(fields) \/ (failed /\ ev.a \in {"Reconfigure", "Wipe"}))}
TaintSig(T) == IF T = {} THEN "" ELSE "[" \o Join(SelectSeq(<<"eq-subdl", "own-sp", "parent-replaced", "stale-x", "unset-flag">>, LAMBDA t : t \in T)) \o "]"

Verdict(c, clause, sig, n, expected, got) == [id |-> c.id, clause |-> clause, sig |-> sig, step |-> n, expected |-> expected, got |-> got]
OkVerdict(c) == Verdict(c, "ok", "", 0, <<>>, <<>>)

RECURSIVE SetSeq(_)
SetSeq(S) == IF S = {} THEN <<>> ELSE LET x == CHOOSE y \in S : TRUE IN <<x>> \o SetSeq(S \ {x})

RECURSIVE JudgeFrom(_, _, _, _, _)
JudgeFrom(c, S, T, sown, n) ==
    IF n > Len(c.ev) THEN OkVerdict(c)
    ELSE LET x == c.ev[n]
             ev == EvOf(x)
             one == CHOOSE p \in S : TRUE
             T1 == Taints(T, one, sown, ev)
             cand == Cands(S, ev)
             \* (a late failure - postconf script - is one circumstance whatever was given with it)
             sig == ev.a \o "(" \o (IF ev.a = "ConfigureU" THEN ev.k ELSE IF ev.a = "Edit" THEN ev.e.t
                                     ELSE IF ev.a \in {"SetupFailPost", "ReconfigureFailPost"} THEN "" ELSE DKeys(ev)) \o ")"
             contested == UNION {Contested(p[2]) : p \in S}
             filegone == \E p \in S : ~p[1].present /\ p[2].exists /\ p[2].ar # None
             anyc == CHOOSE p \in cand : TRUE
         IN IF cand = {} THEN Verdict(c, "EventNotInModel", sig, n, <<>>, <<>>)
            ELSE IF ev.ok /\ x.rc # 0
            THEN Verdict(c, "ValidStepFailed", IF Relevant(T1, ev, <<>>, TRUE) # {} THEN TaintSig(Relevant(T1, ev, <<>>, TRUE)) ELSE sig, n, <<>>, <<>>)
            ELSE IF ~ev.ok /\ x.rc = 0 THEN Verdict(c, "InvalidStepSucceeded", sig, n, <<>>, <<>>)
            ELSE IF x.obs.skip THEN JudgeFrom(c, cand, T1, sown, n + 1)
            ELSE LET keep == {p \in cand : Matches(Proj(p[2]), ObsProj(x.obs))} IN
                 IF keep = {}
                 THEN LET fields == DiffFields(anyc, x.obs)
                          now == (T1 \ T) \cap {"eq-subdl", "own-sp", "unset-flag"}
                          \* nothing but the recorded command line was written
                          nothing == \E p \in S : Matches([Proj(p[2]) EXCEPT !.cmd = EmptyCmd], [ObsProj(x.obs) EXCEPT !.cmd = EmptyCmd])
                          rel == Relevant(T1, ev, fields, FALSE)
                      IN
                      Verdict(c, IF ev.ok THEN "StateAfterStep" ELSE "FailedStepChangedState",
                              IF ev.a = "Wipe" /\ Range(fields) \subseteq contested THEN "[replay-order]"
                              ELSE IF ev.a = "Reconfigure" /\ filegone /\ Range(fields) \subseteq TopFields THEN "[file-deleted]"
                              ELSE IF ev.a \in {"SetupFailPost", "ReconfigureFailPost"}
                              THEN sig \o ":" \o Join((IF "cmd" \in Range(fields) THEN <<"cmd">> ELSE <<>>) \o (IF Range(fields) \ {"cmd"} # {} THEN <<"values">> ELSE <<>>))
                              ELSE IF now # {} /\ nothing THEN sig \o ":nothing-persisted" \o TaintSig(now)
                              ELSE IF rel # {} THEN Join(fields) \o TaintSig(rel)
                              ELSE sig \o ":" \o Join(fields), n,
                              SetSeq({Proj(p[2]) : p \in cand}), <<x.obs>>)
                 ELSE IF ~MsgOK(x.obs) THEN Verdict(c, "MessagesDifferFromPersisted", sig, n, <<>>, <<x.obs>>)
                 ELSE JudgeFrom(c, keep, T1,
                                IF ev.ok /\ ev.a \in {"Setup", "Configure", "Reconfigure"} /\ "subpopt" \in DOMAIN ev.D THEN ev.D["subpopt"]
                                ELSE IF ev.a = "Wipe" THEN (IF one[2].cmd["subpopt"] # None THEN one[2].cmd["subpopt"] ELSE "d")
                                ELSE sown, n + 1)

Judge(c) == JudgeFrom(c, {<<InitFile, NoDir>>}, {}, "d", 1)

Init == i \in 1..Len(Cases) /\ done = FALSE
Next == /\ ~done
        /\ done' = TRUE
        /\ i' = i
        /\ LET v == Judge(Cases[i]) IN v.clause = "ok" \/ PrintT(ToJson(v))
Spec == Init /\ [][Next]_vars
=============================================================================
