--------------------------- MODULE TraceOptionStore ---------------------------
(***************************************************************************)
(* Trace validation for C07.  Two kinds of recorded executions:            *)
(*                                                                          *)
(*  fam # "api"  one configuration (a case of OptionScenarios, or several  *)
(*     merged into one project) replayed on the real OptionStore           *)
(*     in-process or through the real `meson setup` CLI.  Recorded:        *)
(*     raised (was the configuration rejected) and, per query c.q[i], the  *)
(*     observed value obs[i] (get_value_for / get_option() messages) and   *)
(*     obs2[i] (`meson introspect --buildoptions`; t = "none" = not        *)
(*     observed).  Judged by the *declarative* rule book                   *)
(*     OptionPrecedence!Allowed.                                            *)
(*                                                                          *)
(*  fam = "api"  a random sequence of API calls on one real OptionStore;   *)
(*     after every call: did it raise, and the visible value of every      *)
(*     watched key.  Judged by folding OptionStore!Step over the events:   *)
(*     the call must be rejected iff the machine rejects it, a rejected    *)
(*     call must leave every visible value unchanged, an accepted one must *)
(*     show exactly the machine's values.                                  *)
(***************************************************************************)
EXTENDS OptionStore, Json, IOUtils

Cases == JsonDeserialize(IOEnv.TRACE_FILE)

VARIABLES i, done
vars == <<i, done>>

OkVerdict(c) == [id |-> c.id, clause |-> "ok", sig |-> "", step |-> 0, expected |-> <<>>, got |-> <<>>]
Verdict(c, clause, sig, step, expected, got) ==
    [id |-> c.id, clause |-> clause, sig |-> sig, step |-> step, expected |-> expected, got |-> got]

\* ---- scenario replays (declarative judge) ---------------------------------------------
QDecl(c, q) == IF q.scope = "t" THEN TopDecl(c, q.name) ELSE SubDecl(c, q.name)

BadObs(c, obs) == {j \in 1..Len(c.q) : obs[j].t # "none" /\ obs[j] \notin Allowed(c, c.q[j])}
InvalidObs(c, obs) == {j \in 1..Len(c.q) : obs[j].t # "none" /\ ~ValOK(QDecl(c, c.q[j]).d, obs[j])}

\* a short normalised description of what decided the expected value (for finding signatures)
WhySig(c, q) ==
    LET order == IF q.scope = "t" THEN TopOrder ELSE SubOrder(Class(c, q.name)) IN
    IF q.name \in BtNames /\ IsBtCase(c)
    THEN LET o2 == IF q.scope = "t" THEN TopOrder ELSE SubOrder("global")
             e == WinRank(c, o2, q.name, "h")
             b == BtRank(c, o2)
         IN "bt@" \o q.scope \o ":explicit@L" \o (IF e = 0 THEN "-" ELSE ToString(o2[e]))
            \o ",buildtype@L" \o (IF b = 0 THEN "-" ELSE ToString(o2[b]))
    ELSE c.fam \o ":" \o Class(c, q.name) \o ":" \o QDecl(c, q).d.kind \o "@" \o q.scope \o ":winner=L"
         \o ToString(WinLevel(c, order, q.name, EffMachine(c, q.name, q.m)))

\* for debug / optimization: is the offending value the one deduced from the deciding buildtype?
GotSig(c, q, v) ==
    IF q.name \in BtNames /\ IsBtCase(c)
    THEN LET o2 == IF q.scope = "t" THEN TopOrder ELSE SubOrder("global")
             b == BtRank(c, o2)
         IN IF b # 0 /\ v = Derived(q.name, OneWord(Given(c, o2[b], "buildtype", "h"))) THEN ":got-deduced" ELSE ":got-other"
    ELSE ""

SetSeq(S) == SetToSeqR(S)

\* all verdicts of a replayed configuration (every offending query is reported, so that a known deviation of
\* one option cannot hide a deviation of another option of the same generated project)
RECURSIVE VerdictsOf(_, _, _, _)
VerdictsOf(c, clause, js, obs) ==
    IF js = {} THEN <<>>
    ELSE LET j == Min(js) IN
         <<Verdict(c, clause, WhySig(c, c.q[j]) \o GotSig(c, c.q[j], obs[j]), j,
                   IF clause = "StoredValueInvalid" THEN <<>> ELSE SetSeq(Allowed(c, c.q[j])), <<obs[j]>>)>>
         \o VerdictsOf(c, clause, js \ {j}, obs)

JudgeScenario(c) ==
    IF WinnerInvalid(c) /\ ~c.raised
    THEN <<Verdict(c, "InvalidValueAccepted", c.fam, 0, <<>>, <<>>)>>
    ELSE IF ~AnyInvalidGiven(c) /\ c.raised
    THEN <<Verdict(c, "ValidConfigurationRejected", c.fam, 0, <<>>, <<>>)>>
    ELSE IF c.raised THEN <<>>
    ELSE VerdictsOf(c, "Precedence", BadObs(c, c.obs), c.obs)
         \o VerdictsOf(c, "PrecedenceIntrospect", BadObs(c, c.obs2) \ BadObs(c, c.obs), c.obs2)
         \o VerdictsOf(c, "StoredValueInvalid", InvalidObs(c, c.obs), c.obs)
         \o VerdictsOf(c, "StoredValueInvalid", InvalidObs(c, c.obs2) \ InvalidObs(c, c.obs), c.obs2)

\* ---- API traces (state-machine judge) ---------------------------------------------------
Step(st, ev) ==
    CASE ev.op = "add_system"  -> AddSystem(st, ev.k, ev.d, ev.def)
      [] ev.op = "add_project" -> AddProject(st, ev.k, ev.d, ev.def, ev.yield)
      [] ev.op = "update_options" -> UpdateProject(st, ev.k, ev.d, ev.def)
      [] ev.op = "init_top"    -> InitTop(st, ev.lv)
      [] ev.op = "init_sub"    -> InitSub(st, ev.lv)
      [] ev.op = "set_option"  -> SetOpt(st, ev.k, ev.r)
      [] ev.op = "configure"   -> Configure(st, ev.D)

Known(st, k) == Exists(st, CanonKey(st, k))
\* c.watch: the keys read after every call (it only grows; ev.nw = how many of them existed at that call);
\* ev.obs: the readings that differ from the previous reading.  Mismatches: a listed reading that is not the
\* machine's value, or an unlisted key whose machine value changed.
ObsOf(ev, k) == {x \in 1..Len(ev.obs) : ev.obs[x].k = k}
ObsDiff(c, st0, st1, ev) ==
    {j \in 1..ev.nw :
        LET k == c.watch[j] IN
        IF ObsOf(ev, k) # {} THEN ~Known(st1, k) \/ Get(st1, k) # ev.obs[Min(ObsOf(ev, k))].v
        ELSE ~Known(st1, k) \/ ~Known(st0, k) \/ Get(st1, k) # Get(st0, k)}
ObsInvalid(st, obs) == {j \in 1..Len(obs) : Known(st, obs[j].k) /\ ~ValOK(Resolve(st, CanonKey(st, obs[j].k)).d, obs[j].v)}

OpSig(ev) == IF ev.op = "configure" /\ \E j \in 1..Len(ev.D) : ev.D[j].r.t = "none" THEN "configure-U" ELSE ev.op

\* circumstance that qualifies a signature: keys of boolean subproject options declared yield:true that were
\* `-U`nset while the parent's value was false
UnsetFalseParent(st, ev) ==
    IF ev.op # "configure" THEN {}
    ELSE {ev.D[j].k : j \in {j \in 1..Len(ev.D) :
            LET k == ev.D[j].k IN
            /\ ev.D[j].r.t = "none" /\ k \in DOMAIN st.o /\ st.o[k].p
            /\ st.o[k].d.kind = "boolean" /\ st.o[AsRoot(k)].v = VBool(FALSE)}}

RECURSIVE JudgeFrom(_, _, _, _)
JudgeFrom(c, st, T, n) ==
    IF n > Len(c.ev) THEN OkVerdict(c)
    ELSE LET ev == c.ev[n]
             r == Step(st, ev)
             T1 == T \cup UnsetFalseParent(st, ev)
         IN IF r.ok /\ ev.raised THEN Verdict(c, "ValidCallRejected", OpSig(ev), n, <<>>, <<>>)
            ELSE IF ~r.ok /\ ~ev.raised THEN Verdict(c, "InvalidCallAccepted", OpSig(ev), n, <<>>, <<>>)
            ELSE IF ObsDiff(c, st, r.st, ev) # {}
            THEN LET j == Min(ObsDiff(c, st, r.st, ev))
                     k == c.watch[j] IN
                 Verdict(c, IF r.ok THEN "ValueAfterCall" ELSE "RejectedCallChangedValue",
                         (IF k \in T1 THEN "unset-bool-false-parent" ELSE OpSig(ev)) \o ":" \o k.s \o ":" \o k.n, n,
                         IF Known(r.st, k) THEN <<Get(r.st, k)>> ELSE <<>>,
                         IF ObsOf(ev, k) # {} THEN <<ev.obs[Min(ObsOf(ev, k))].v>> ELSE <<"unchanged">>)
            ELSE IF ObsInvalid(r.st, ev.obs) # {}
            THEN Verdict(c, "StoredValueInvalid", OpSig(ev), n, <<>>, <<>>)
            ELSE JudgeFrom(c, r.st, T1, n + 1)

JudgeApi(c) == JudgeFrom(c, EmptyStore(c.cross, Range(c.latent)), {}, 1)

Judge(c) == IF c.fam = "api" THEN (LET v == JudgeApi(c) IN IF v.clause = "ok" THEN <<>> ELSE <<v>>) ELSE JudgeScenario(c)

Init == i \in 1..Len(Cases) /\ done = FALSE
Next == /\ ~done
        /\ done' = TRUE
        /\ i' = i
        /\ LET vs == Judge(Cases[i]) IN \A j \in 1..Len(vs) : PrintT(ToJson(vs[j]))
Spec == Init /\ [][Next]_vars
=============================================================================
