--------------------------- MODULE TraceOptionStore ---------------------------
(***************************************************************************)
(* Trace validation for C07.  Two kinds of recorded executions:            *)
(*                                                                          *)
(*  fam # "api"  one configuration (a case of OptionScenarios, or several  *)
(*     merged into one project) replayed on the real OptionStore           *)
(*     in-process or through the real `meson setup` CLI.  Recorded:        *)
(*     raised (was the configuration rejected) and, per query c.q[i], the  *)
(*     observed value obs[i] (get_value_for / get_option() messages) and   *)
(*     obs2[i] (`meson introspect --buildoptions`; t = "none" = not        *)
(*     observed).  Judged by the *declarative* rule book                   *)
(*     OptionPrecedence!Allowed.                                            *)
(*                                                                          *)
(*  fam = "api"  a random sequence of API calls on one real OptionStore;   *)
(*     after every call: did it raise, and the visible value of every      *)
(*     watched key.  Judged by folding OptionStore!Step over the events:   *)
(*     the call must be rejected iff the machine rejects it, a rejected    *)
(*     call must leave every visible value unchanged, an accepted one must *)
(*     show exactly the machine's values.                                  *)
(***************************************************************************)
EXTENDS OptionStore, Json, IOUtils

Cases == JsonDeserialize(IOEnv.TRACE_FILE)

VARIABLES i, done
vars == <<i, done>>

OkVerdict(c) == [id |-> c.id, clause |-> "ok", sig |-> "", step |-> 0, expected |-> <<>>, got |-> <<>>]
Verdict(c, clause, sig, step, expected, got) ==
    [id |-> c.id, clause |-> clause, sig |-> sig, step |-> step, expected |-> expected, got |-> got]

\* ---- scenario replays (declarative judge) ---------------------------------------------
QDecl(c, q) == IF q.scope = "t" THEN TopDecl(c, q.name) ELSE SubDecl(c, q.name)

BadObs(c, obs) == {j \in 1..Len(c.q) : obs[j].t # "none" /\ obs[j] \notin Allowed(c, c.q[j])}
InvalidObs(c, obs) == {j \in 1..Len(c.q) : obs[j].t # "none" /\ ~ValOK(QDecl(c, c.q[j]).d, obs[j])}

\* a short normalised description of what decided the expected value (for finding signatures)
WhySig(c, q) ==
    LET order == IF q.scope = "t" THEN TopOrder ELSE SubOrder(Class(c, q.name)) IN
    IF q.name \in BtNames /\ IsBtCase(c)
    THEN LET o2 == IF q.scope = "t" THEN TopOrder ELSE SubOrder("global")
             e == WinRank(c, o2, q.name, "h")
             b == BtRank(c, o2)
         IN "bt@" \o q.scope \o ":explicit@L" \o (IF e = 0 THEN "-" ELSE ToString(o2[e]))
            \o ",buildtype@L" \o (IF b = 0 THEN "-" ELSE ToString(o2[b]))
    ELSE c.fam \o ":" \o Class(c, q.name) \o ":" \o QDecl(c, q).d.kind \o "@" \o q.scope \o ":winner=L"
         \o ToString(WinLevel(c, order, q.name, EffMachine(c, q.name, q.m)))

SetSeq(S) == SetToSeqR(S)

JudgeScenario(c) ==
    IF WinnerInvalid(c) /\ ~c.raised
    THEN Verdict(c, "InvalidValueAccepted", c.fam, 0, <<>>, <<>>)
    ELSE IF ~AnyInvalidGiven(c) /\ c.raised
    THEN Verdict(c, "ValidConfigurationRejected", c.fam, 0, <<>>, <<>>)
    ELSE IF c.raised THEN OkVerdict(c)
    ELSE IF BadObs(c, c.obs) # {}
    THEN LET j == Min(BadObs(c, c.obs)) IN
         Verdict(c, "Precedence", WhySig(c, c.q[j]), j, SetSeq(Allowed(c, c.q[j])), <<c.obs[j]>>)
    ELSE IF BadObs(c, c.obs2) # {}
    THEN LET j == Min(BadObs(c, c.obs2)) IN
         Verdict(c, "PrecedenceIntrospect", WhySig(c, c.q[j]), j, SetSeq(Allowed(c, c.q[j])), <<c.obs2[j]>>)
    ELSE IF InvalidObs(c, c.obs) \cup InvalidObs(c, c.obs2) # {}
    THEN LET j == Min(InvalidObs(c, c.obs) \cup InvalidObs(c, c.obs2)) IN
         Verdict(c, "StoredValueInvalid", WhySig(c, c.q[j]), j, <<>>, <<c.obs[j]>>)
    ELSE OkVerdict(c)

\* ---- API traces (state-machine judge) ---------------------------------------------------
Step(st, ev) ==
    CASE ev.op = "add_system"  -> AddSystem(st, ev.k, ev.d, ev.def)
      [] ev.op = "add_project" -> AddProject(st, ev.k, ev.d, ev.def, ev.yield)
      [] ev.op = "init_top"    -> InitTop(st, ev.lv)
      [] ev.op = "init_sub"    -> InitSub(st, ev.lv)
      [] ev.op = "set_option"  -> SetOpt(st, ev.k, ev.r)
      [] ev.op = "configure"   -> Configure(st, ev.D)

Known(st, k) == Exists(st, CanonKey(st, k))
ObsDiff(st, obs) == {j \in 1..Len(obs) : ~Known(st, obs[j].k) \/ Get(st, obs[j].k) # obs[j].v}
ObsInvalid(st, obs) == {j \in 1..Len(obs) : Known(st, obs[j].k) /\ ~ValOK(Resolve(st, CanonKey(st, obs[j].k)).d, obs[j].v)}

OpSig(ev) == IF ev.op = "configure" /\ \E j \in 1..Len(ev.D) : ev.D[j].r.t = "none" THEN "configure-U" ELSE ev.op

RECURSIVE JudgeFrom(_, _, _)
JudgeFrom(c, st, n) ==
    IF n > Len(c.ev) THEN OkVerdict(c)
    ELSE LET ev == c.ev[n]
             r == Step(st, ev)
         IN IF r.ok /\ ev.raised THEN Verdict(c, "ValidCallRejected", OpSig(ev), n, <<>>, <<>>)
            ELSE IF ~r.ok /\ ~ev.raised THEN Verdict(c, "InvalidCallAccepted", OpSig(ev), n, <<>>, <<>>)
            ELSE IF ObsDiff(r.st, ev.obs) # {}
            THEN LET j == Min(ObsDiff(r.st, ev.obs)) IN
                 Verdict(c, IF r.ok THEN "ValueAfterCall" ELSE "RejectedCallChangedValue",
                         OpSig(ev) \o ":" \o ev.obs[j].k.s \o ":" \o ev.obs[j].k.n, n, IF Known(r.st, ev.obs[j].k) THEN <<Get(r.st, ev.obs[j].k)>> ELSE <<>>, <<ev.obs[j].v>>)
            ELSE IF ObsInvalid(r.st, ev.obs) # {}
            THEN Verdict(c, "StoredValueInvalid", ev.op, n, <<>>, <<>>)
            ELSE JudgeFrom(c, r.st, n + 1)

JudgeApi(c) == JudgeFrom(c, EmptyStore(c.cross, Range(c.latent)), 1)

Judge(c) == IF c.fam = "api" THEN JudgeApi(c) ELSE JudgeScenario(c)

Init == i \in 1..Len(Cases) /\ done = FALSE
Next == /\ ~done
        /\ done' = TRUE
        /\ i' = i
        /\ LET v == Judge(Cases[i]) IN v.clause = "ok" \/ PrintT(ToJson(v))
Spec == Init /\ [][Next]_vars
=============================================================================
