------------------------------ MODULE PkgConfig ------------------------------
(***************************************************************************)
(* Rule book of the pkg-config file generator (`import('pkgconfig')`,       *)
(* `pkg.generate(...)`), extension area X06.  Written from                   *)
(*   [PM]  docs/markdown/Pkgconfig-module.md (keyword arguments, defaults   *)
(*         with a main library, section "Implicit dependencies"),           *)
(*   [R46] Release-notes-for-0.46.0.md ("Improved generation of pkg-config  *)
(*         files for static only libraries": a static library passed in     *)
(*         `libraries` gets its dependencies in Requires / Libs),           *)
(*   [R49] Release-notes-for-0.49.0.md ("Deprecation warning in pkg-config  *)
(*         generator": libraries of a call without main library stay        *)
(*         associated with that file, with a deprecation warning),          *)
(*   [R52] Release-notes-for-0.52.0.md (uninstalled static libraries are    *)
(*         link_whole'd into their users and omitted from the .pc file),    *)
(*   [R54] Release-notes-for-0.54.0.md (uninstalled .pc files),             *)
(*   [R62] Release-notes-for-0.62.0.md (variables of referenced builtin     *)
(*         directories are created),                                        *)
(*   [T44] test cases/common/44 pkgconfig-gen (+ dependencies/) with the    *)
(*         assertions of unittests/linuxliketests.py test_pkgconfig_gen,    *)
(*         test_pkgconfig_gen_deps, test_pkgconfig_gen_escaping,            *)
(*   [T52] test cases/unit/52 pkgconfig static link order +                 *)
(*         test_pkgconfig_link_order ("libraries are listed before their    *)
(*         dependencies"),                                                  *)
(*   [PC]  the pkg-config file format (pc(5)): `Requires` entries are       *)
(*         `name [op version]` separated by commas, fields are lists of     *)
(*         blank-separated words in which `\ ` keeps a blank inside a word. *)
(*                                                                         *)
(* Declarative formulation.  For one generate() call the rule book owes    *)
(* *which* entries each field of the file holds (sets, a function of the   *)
(* abstract project, of the call and of the association library -> file    *)
(* left by earlier calls) and *constraints on their order*; every order    *)
(* the constraints permit is accepted.  PkgConfigGen.tla is an operational *)
(* generator; PkgConfig_MC proves it is accepted on a bounded exhaustive    *)
(* space (so the constraints are jointly satisfiable) and checks the laws; *)
(* TracePkgConfig judges files written by the real generator.              *)
(*                                                                         *)
(* Abstract project P:                                                     *)
(*   objs  sequence of objects in definition order; object i refers only   *)
(*         to objects j < i.                                               *)
(*         library:  t = "lib", k = "shared" (shared_library()), "lib"     *)
(*           (library() with default_library=shared), "static"             *)
(*           (static_library(install: true)), "ustatic" (static_library()  *)
(*           that is not installed); nm name; lw / lwh = link_with /       *)
(*           link_whole (object indices); deps = `dependencies:`           *)
(*           (references); sub = subdirectory of the definition; idir =    *)
(*           custom install_dir ("" = default)                             *)
(*         internal dependency (declare_dependency()): t = "idep", ca / la *)
(*           = compile_args / link_args, lw, lwh, deps as above            *)
(*   exts  external dependency objects: k = "pc" (found through            *)
(*         pkg-config; nm, ver = version requirement given to              *)
(*         dependency(); la / ca = what its own .pc file contributes),     *)
(*         "nf" (not found), "thr" (dependency('threads')), "oth" (any     *)
(*         other found dependency with link arguments la, compile          *)
(*         arguments ca, e.g. cc.find_library())                           *)
(*   o     options: prefix, libdir, includedir, dirs (other builtin        *)
(*         directory options, name -> value), proj, pver                   *)
(* A reference r: [t |-> "lib" | "idep", n |-> object index], [t |-> "ext", *)
(*   n |-> index into exts], [t |-> "str", s |-> text, v |-> version        *)
(*   requirement (requires only)].                                         *)
(* A call c: main (object index, 0 = no positional argument), libs, libsp, *)
(*   reqs, reqsp (references), subdirs, xcf (extra_cflags), vars           *)
(*   ([k, v, ref]: ref = builtin directory the value starts with, or ""),  *)
(*   name, fb (filebase), ver, desc, idir ("" = not given).                *)
(* St: M[i] = file base of the .pc file library i is associated with ("" = *)
(*   none), A[i] = "main" | "assoc" | "" how it got associated.            *)
(***************************************************************************)
EXTENDS Integers, Sequences, FiniteSets

Rng(s) == { s[k] : k \in 1..Len(s) }
NoDup(s) == \A a, b \in 1..Len(s) : a # b => s[a] # s[b]
Filter(s, S) == SelectSeq(s, LAMBDA x : x \in S)
\* first occurrences, order kept
FirstOcc(s) ==
    LET F[k \in 0..Len(s)] == IF k = 0 THEN <<>>
                              ELSE IF s[k] \in Rng(F[k - 1]) THEN F[k - 1] ELSE Append(F[k - 1], s[k])
    IN F[Len(s)]
PosIn(s, x) == CHOOSE k \in 1..Len(s) : s[k] = x /\ \A j \in 1..(k - 1) : s[j] # x

\* ---- entries of the Libs fields ---------------------------------------------
LibItem(i) == [t |-> "lib", n |-> i, s |-> ""]      \* -l<name of library i>
StrItem(x) == [t |-> "str", n |-> 0, s |-> x]       \* a word given as text
DirItem(d) == [t |-> "L",   n |-> 0, s |-> d]       \* -L<d>
Ent(n, v)  == [n |-> n, v |-> v]                    \* Requires entry `n` or `n <op> <version>`

IsStaticKind(k) == k \in {"static", "ustatic"}

(***************************************************************************)
(* Contributions.  L: Libs entries with their visibility, R: required      *)
(* package names with visibility and the library they stand for (src, 0 =  *)
(* none), V: version requirements, C: public compiler flags, W: libraries  *)
(* whose objects are part of another library (link_whole, [R52]), T:       *)
(* objects whose links were followed.                                      *)
(***************************************************************************)
Nothing == [L |-> {}, R |-> {}, V |-> {}, C |-> {}, W |-> {}, T |-> {}]
U2(a, b) == [L |-> a.L \cup b.L, R |-> a.R \cup b.R, V |-> a.V \cup b.V,
             C |-> a.C \cup b.C, W |-> a.W \cup b.W, T |-> a.T \cup b.T]
UAll(S) == [L |-> UNION { x.L : x \in S }, R |-> UNION { x.R : x \in S }, V |-> UNION { x.V : x \in S },
            C |-> UNION { x.C : x \in S }, W |-> UNION { x.W : x \in S }, T |-> UNION { x.T : x \in S }]
LOf(items, v) == { [it |-> x, vis |-> v] : x \in items }

\* [PM] "Other libraries (static_library() or library()) ... recursively add their dependencies into
\* Libs.private / Requires.private";  [R46] the dependencies of a static library that is public are public
\* too (the file must be usable without --static).
DepsVis(k, v) == IF IsStaticKind(k) /\ v = "pub" THEN "pub" ELSE "priv"

RECURSIVE CLib(_, _, _, _), CLinks(_, _, _, _, _), CWhole(_, _, _, _), CDep(_, _, _, _, _)

\* library target i met with visibility v
CLib(P, M, i, v) ==
    LET o == P.objs[i] IN
    IF M[i] # ""
    THEN \* [PM] "Once a pkg-config file is generated for a library ... any subsequent call where mylib appears
         \* will generate a Requires: or Requires.private instead of a Libs: or Libs.private:"
         [Nothing EXCEPT !.R = {[n |-> M[i], vis |-> v, src |-> i]}]
    ELSE IF o.k = "shared"
    THEN \* [PM] "Shared libraries add only -lfoo ... their dependencies are not pulled"
         [Nothing EXCEPT !.L = LOf({LibItem(i)}, v)]
    ELSE U2([Nothing EXCEPT !.L = LOf({LibItem(i)}, v), !.T = {i}],
            CLinks(P, M, o, DepsVis(o.k, v), DepsVis(o.k, v)))

\* [R52] link_with of an uninstalled static library is a link_whole
CLinked(P, M, j, v) == IF P.objs[j].k = "ustatic" THEN CWhole(P, M, j, v) ELSE CLib(P, M, j, v)

\* the links of object o (library or internal dependency): link_with / link_whole at v, dependencies at dv
CLinks(P, M, o, v, dv) ==
    UAll({ CLinked(P, M, o.lw[k], v) : k \in 1..Len(o.lw) }
         \cup { CWhole(P, M, o.lwh[k], v) : k \in 1..Len(o.lwh) }
         \cup { CDep(P, M, o.deps[k], dv, "target") : k \in 1..Len(o.deps) })

\* [R52], [T44 "stat2"]: a link_whole'd library is not named, what it links to still is
CWhole(P, M, j, v) == U2([Nothing EXCEPT !.W = {j}], CLinks(P, M, P.objs[j], v, v))

PcDep(e, v) == [Nothing EXCEPT !.R = {[n |-> e.nm, vis |-> v, src |-> 0]},
                               !.V = IF e.ver = "" THEN {} ELSE {Ent(e.nm, e.ver)}]

\* dependency object r met with visibility v; ctx = "direct": listed in libraries / libraries_private,
\* "target": dependency of a library target
CDep(P, M, r, v, ctx) ==
    IF r.t = "ext"
    THEN LET e == P.exts[r.n] IN
         CASE e.k = "pc"  -> PcDep(e, v)       \* [PM] "Dependencies provided by pkg-config are added into Requires ... version ..."
           [] e.k = "nf"  -> Nothing           \* [PM] "Not found libraries or dependencies are ignored"
           [] e.k = "thr" -> [Nothing EXCEPT !.L = LOf({StrItem("-pthread")}, v),      \* [PM] threads, [T44] also Cflags
                                             !.C = IF v = "pub" THEN {"-pthread"} ELSE {}]
           [] OTHER       -> [Nothing EXCEPT !.L = LOf({ StrItem(a) : a \in Rng(e.la) }, v),   \* [PM] "Other dependency types"
                                             !.C = IF v = "pub" THEN Rng(e.ca) ELSE {}]
    ELSE \* [PM] "Internal dependencies add compiler_args into Cflags if public, link_args and link_with into
         \* Libs if public or Libs.private if private"; [T44 "simple2"]: the `dependencies:` of an internal
         \* dependency that is listed directly are private; as dependency of a library target it is part of
         \* that library's dependencies
         LET o == P.objs[r.n] IN
         U2([Nothing EXCEPT !.L = LOf({ StrItem(a) : a \in Rng(o.la) }, v),
                            !.C = IF v = "pub" THEN Rng(o.ca) ELSE {},
                            !.T = IF ctx = "direct" THEN {r.n} ELSE {}],
            CLinks(P, M, o, v, IF ctx = "direct" THEN "priv" ELSE v))

\* an element of `libraries` (v = "pub") / `libraries_private` (v = "priv")
CTop(P, M, r, v) ==
    CASE r.t = "lib" -> CLib(P, M, r.n, v)
      [] r.t = "str" -> [Nothing EXCEPT !.L = LOf({StrItem(r.s)}, v)]
      [] OTHER       -> CDep(P, M, r, v, "direct")

\* an element of `requires` / `requires_private` ([PM]: strings, pkg-config dependencies, libraries generate()
\* was used on, since 1.9 internal dependencies whose libraries all have a file)
CReq(P, M, r, v) ==
    CASE r.t = "lib"  -> [Nothing EXCEPT !.R = {[n |-> M[r.n], vis |-> v, src |-> r.n]}]
      [] r.t = "str"  -> [Nothing EXCEPT !.R = {[n |-> r.s, vis |-> v, src |-> 0]},
                                         !.V = IF r.v = "" THEN {} ELSE {Ent(r.s, r.v)}]
      [] r.t = "idep" -> [Nothing EXCEPT !.R = { [n |-> M[j], vis |-> v, src |-> j] : j \in Rng(P.objs[r.n].lw) }]
      [] OTHER        -> IF P.exts[r.n].k = "pc" THEN PcDep(P.exts[r.n], v) ELSE Nothing

Contrib(P, M, c) ==
    UAll((IF c.main = 0 THEN {} ELSE {CLib(P, M, c.main, "pub")})    \* [PM] the main library is public
         \cup { CTop(P, M, c.libs[k], "pub")   : k \in 1..Len(c.libs) }
         \cup { CTop(P, M, c.libsp[k], "priv") : k \in 1..Len(c.libsp) }
         \cup { CReq(P, M, c.reqs[k], "pub")   : k \in 1..Len(c.reqs) }
         \cup { CReq(P, M, c.reqsp[k], "priv") : k \in 1..Len(c.reqsp) })

(***************************************************************************)
(* What the file owes ([PM] "Libraries and dependencies will be            *)
(* de-duplicated, if they are added in both public and private it will be  *)
(* removed from the private list").  optN: package names that only stand   *)
(* for libraries which are link_whole'd in this very call - the documents  *)
(* do not say whether such a Requires entry stays, both are accepted.      *)
(* partN: files that stand for a link_whole'd library (and possibly for    *)
(* others, which keep needing the entry); used to name the failure only.   *)
(***************************************************************************)
Owed(P, M, c) ==
    LET t      == Contrib(P, M, c)
        whole  == { LibItem(j) : j \in t.W }
        pubL   == { x.it : x \in { y \in t.L : y.vis = "pub" } } \ whole
        privL  == ({ x.it : x \in { y \in t.L : y.vis = "priv" } } \ whole) \ pubL
        pubN   == { x.n : x \in { y \in t.R : y.vis = "pub" } }
        privN  == { x.n : x \in { y \in t.R : y.vis = "priv" } } \ pubN
        optN   == { n \in pubN \cup privN : \A x \in t.R : x.n = n => (x.src # 0 /\ x.src \in t.W) }
        partN  == { M[j] : j \in t.W } \ {""}
        Ents(n) == IF { x \in t.V : x.n = n } = {} THEN {Ent(n, "")} ELSE { x \in t.V : x.n = n }
    IN [pubL |-> pubL, privL |-> privL,
        pubR |-> UNION { Ents(n) : n \in pubN }, privR |-> UNION { Ents(n) : n \in privN },
        optN |-> optN, partN |-> partN, C |-> t.C, W |-> t.W, T |-> t.T,
        used |-> { x.src : x \in t.R } \ {0}]

\* ---- scalar fields ([PM] keyword arguments and the defaults given by a main library) ----------------
NameOf(P, c)     == IF c.name # "" THEN c.name ELSE P.objs[c.main].nm
FileBase(P, c)   == IF c.fb # "" THEN c.fb ELSE NameOf(P, c)
VersionOf(P, c)  == IF c.ver # "" THEN c.ver ELSE P.o.pver
DescOf(P, c)     == IF c.desc # "" THEN c.desc ELSE P.o.proj \o ": " \o P.objs[c.main].nm
\* [PM] install_dir: "defaults to the value of option libdir followed by /pkgconfig"; with a main library
\* "the pkgconfig folder in the same location than the provided library"
DestDir(P, c)    == IF c.idir # "" THEN c.idir
                    ELSE IF c.main # 0 /\ P.objs[c.main].idir # "" THEN P.objs[c.main].idir \o "/pkgconfig"
                    ELSE "{libdir}/pkgconfig"
DestOf(P, c)     == DestDir(P, c) \o "/" \o FileBase(P, c) \o ".pc"

\* ---- association library -> file ([PM] last rule, [R49]) -----------------------------------------------
NoState(P) == [M |-> [i \in 1..Len(P.objs) |-> ""], A |-> [i \in 1..Len(P.objs) |-> ""]]
Register(P, St, c) ==
    LET fb == FileBase(P, c)
        pl == Owed(P, St.M, c).pubL
        hit(i) == IF c.main # 0 THEN i = c.main ELSE LibItem(i) \in pl
    IN [M |-> [i \in DOMAIN St.M |-> IF St.M[i] = "" /\ hit(i) THEN fb ELSE St.M[i]],
        A |-> [i \in DOMAIN St.A |-> IF St.M[i] = "" /\ hit(i) THEN (IF c.main # 0 THEN "main" ELSE "assoc") ELSE St.A[i]]]
\* [R49] using a library that was associated through `libraries` of a call without main library
\* "prints a deprecation warning"
WarnOwed(P, St, c) == { i \in Owed(P, St.M, c).used : St.A[i] = "assoc" }

\* state before call k of a sequence of calls
RECURSIVE StateBefore(_, _, _)
StateBefore(P, calls, k) == IF k = 1 THEN NoState(P) ELSE Register(P, StateBefore(P, calls, k - 1), calls[k - 1])

\* ---- order ------------------------------------------------------------------------------------------------
\* library targets object o links to without another named library in between (through link_whole'd
\* libraries and internal dependencies)
RECURSIVE Near(_, _)
Near(P, o) ==
    UNION ({ IF P.objs[j].k = "ustatic" THEN Near(P, P.objs[j]) ELSE {j} : j \in Rng(o.lw) }
           \cup { Near(P, P.objs[j]) : j \in Rng(o.lwh) }
           \cup { IF r.t = "idep" THEN Near(P, P.objs[r.n]) ELSE {} : r \in Rng(o.deps) })

\* what the call lists literally in `libraries` (with the main library in front, [T44 "pub-lib-order"]) or
\* `libraries_private`: library targets and words
Literal(r) == IF r.t = "lib" THEN <<LibItem(r.n)>> ELSE IF r.t = "str" THEN <<StrItem(r.s)>> ELSE <<>>
RECURSIVE Literals(_)
Literals(refs) == IF refs = <<>> THEN <<>> ELSE Literal(Head(refs)) \o Literals(Tail(refs))
DirectSeq(c, v) == IF v = "pub" THEN (IF c.main = 0 THEN <<>> ELSE <<LibItem(c.main)>>) \o Literals(c.libs)
                   ELSE Literals(c.libsp)

\* words that dependency objects of the call contribute as well (their place is not constrained)
NoWords(refs) == SelectSeq(refs, LAMBDA r : r.t # "str")
AlsoContributed(P, M, c) ==
    { x.it : x \in { y \in Contrib(P, M, [c EXCEPT !.libs = NoWords(@), !.libsp = NoWords(@)]).L : y.it.t = "str" } }

\* objects that lead to library y in this call, 0 standing for the call itself
Parents(P, c, ow, y) ==
    { o \in ow.T : y \in Near(P, P.objs[o]) }
    \cup (IF LibItem(y) \in Rng(DirectSeq(c, "pub")) \cup Rng(DirectSeq(c, "priv")) THEN {0} ELSE {})

\* [T52] "libraries are listed before their dependencies": a library that is in the field only because
\* other libraries need it comes after every library of the field that links to it
Misordered(P, c, v, items) ==
    { <<x, y>> \in { p \in (1..Len(P.objs)) \X (1..Len(P.objs)) : LibItem(p[1]) \in Rng(items) /\ LibItem(p[2]) \in Rng(items) } :
        /\ LibItem(y) \notin Rng(DirectSeq(c, v))
        /\ P.objs[x].k # "shared"
        /\ y \in Near(P, P.objs[x])
        /\ PosIn(items, LibItem(x)) > PosIn(items, LibItem(y)) }

\* ---- the fields of one file ------------------------------------------------------------------------------
EntriesOf(f) == Filter(f, { x \in Rng(f) : x.t # "L" })
DirsOf(f) == { x.s : x \in { y \in Rng(f) : y.t = "L" } }
\* directory a library is found in: installed file - ${libdir} or its custom install_dir below the prefix;
\* uninstalled file [R54] - the build directory of the target (prefix = build directory)
LibDir(P, i, mode) ==
    IF mode = "inst" THEN (IF P.objs[i].idir = "" THEN "${libdir}" ELSE "${prefix}/" \o P.objs[i].idir)
    ELSE (IF P.objs[i].sub = "" THEN "${prefix}" ELSE "${prefix}/" \o P.objs[i].sub)
DirsOwed(P, f, mode) == { LibDir(P, x.n, mode) : x \in { y \in Rng(f) : y.t = "lib" } }

IncFlags(c) == [k \in 1..Len(c.subdirs) |-> IF c.subdirs[k] = "." THEN "-I${includedir}"
                                                                   ELSE "-I${includedir}/" \o c.subdirs[k]]

ReqNames(r) == { x.n : x \in Rng(r) }
\* "" = as owed; otherwise what is wrong.  "whole-linked-sibling": the only entries missing are files that
\* stand for several libraries of which one is link_whole'd in this call (the others still need the file)
ReqVerdict(got, owed, ow, mode) ==
    LET missing == { x \in owed : x.n \notin ow.optN } \ Rng(got)
        extra   == Rng(got) \ owed
    IN IF missing = {} /\ extra = {} THEN ""
       ELSE IF extra = {} /\ \A x \in missing : x.n \in ow.partN THEN "whole-linked-sibling"
       ELSE mode

(***************************************************************************)
(* The clauses one file (installed: mode "inst", f = the projected file;   *)
(* uninstalled: mode "uninst") must satisfy; result = names of the         *)
(* violated clauses with a short detail.                                   *)
(***************************************************************************)
DepClause(P, c, ow, v, items) ==
    LET bad    == Misordered(P, c, v, items)
        single == { q \in bad : Cardinality(Parents(P, c, ow, q[2])) < 2 }
    IN IF bad = {} THEN {}
       ELSE LET p == IF single # {} THEN CHOOSE q \in single : TRUE ELSE CHOOSE q \in bad : TRUE
            IN {[clause |-> "DependentsFirst", what |-> IF single # {} THEN "single-route" ELSE "shared-dependency",
                 v |-> v, x |-> p[1], y |-> p[2]]}

Fail(cl, what) == [clause |-> cl, what |-> what, v |-> "", x |-> 0, y |-> 0]

FieldClauses(P, St, c, f, mode) ==
    LET ow   == Owed(P, St.M, c)
        pe   == EntriesOf(f.libs)
        pve  == EntriesOf(f.libsp)
        also == AlsoContributed(P, St.M, c)
        lit(v) == Rng(DirectSeq(c, v)) \ also
    IN  (IF ReqVerdict(f.req, ow.pubR, ow, mode) = "" THEN {} ELSE {Fail("RequiresSet", ReqVerdict(f.req, ow.pubR, ow, mode))})
        \cup (IF ReqVerdict(f.reqp, ow.privR, ow, mode) = "" THEN {} ELSE {Fail("RequiresPrivateSet", ReqVerdict(f.reqp, ow.privR, ow, mode))})
        \cup (IF Rng(pe) = ow.pubL THEN {} ELSE {Fail("LibsSet", mode)})
        \cup (IF Rng(pve) = ow.privL THEN {} ELSE {Fail("LibsPrivateSet", mode)})
        \cup (IF NoDup(f.req) /\ NoDup(f.reqp) /\ NoDup(f.libs) /\ NoDup(f.libsp)
                 /\ ReqNames(f.req) \cap ReqNames(f.reqp) = {}
              THEN {} ELSE {Fail("NoDuplicates", mode)})
        \cup (IF DirsOwed(P, f.libs, mode) \subseteq DirsOf(f.libs) /\ DirsOwed(P, f.libsp, mode) \subseteq DirsOf(f.libsp)
              THEN {} ELSE {Fail("LibraryDirs", mode)})
        \cup (IF c.main # 0 /\ St.M[c.main] = "" /\ LibItem(c.main) \in ow.pubL /\ (pe = <<>> \/ pe[1] # LibItem(c.main))
              THEN {Fail("MainLibraryFirst", mode)} ELSE {})
        \cup (IF Filter(pe, lit("pub")) = FirstOcc(Filter(DirectSeq(c, "pub"), ow.pubL \cap lit("pub")))
                 /\ Filter(pve, lit("priv")) = FirstOcc(Filter(DirectSeq(c, "priv"), ow.privL \cap lit("priv")))
              THEN {} ELSE {Fail("ListedOrderKept", mode)})
        \cup (IF Rng(pe) = ow.pubL /\ NoDup(pe) THEN DepClause(P, c, ow, "pub", pe) ELSE {})
        \cup (IF Rng(pve) = ow.privL /\ NoDup(pve) THEN DepClause(P, c, ow, "priv", pve) ELSE {})

\* Cflags of the installed file: [PM] subdirs -> header search path, extra_cflags "after the header search
\* path", public compile arguments of dependencies
CflagClauses(P, St, c, f) ==
    LET ow   == Owed(P, St.M, c)
        inc  == IncFlags(c)
        n    == Len(inc)
        rest == IF Len(f.cfl) >= n THEN SubSeq(f.cfl, n + 1, Len(f.cfl)) ELSE <<>>
        only == Rng(c.xcf) \ ow.C
    IN  (IF Len(f.cfl) >= n /\ SubSeq(f.cfl, 1, n) = inc THEN {} ELSE {Fail("CflagsSearchPathFirst", "")})
        \cup (IF Rng(rest) = ow.C \cup Rng(c.xcf) THEN {} ELSE {Fail("CflagsSet", "")})
        \cup (IF NoDup(f.cfl) THEN {} ELSE {Fail("NoDuplicates", "cflags")})
        \cup (IF Filter(rest, only) = FirstOcc(Filter(c.xcf, only)) THEN {} ELSE {Fail("ExtraCflagsOrder", "")})

\* variables: [PM] prefix / includedir always, libdir with libraries, [R62] referenced builtin directories;
\* user variables in the order given, a value stays one word ([PM] "Spaces in values are escaped with \")
BuiltinDef(P, d) == CASE d = "prefix"     -> [k |-> "prefix", w |-> <<P.o.prefix>>]
                      [] d = "includedir" -> [k |-> "includedir", w |-> <<"${prefix}/" \o P.o.includedir>>]
                      [] d = "libdir"     -> [k |-> "libdir", w |-> <<"${prefix}/" \o P.o.libdir>>]
                      [] OTHER            -> [k |-> d, w |-> <<"${prefix}/" \o P.o.dirs[d]>>]
VarClauses(P, St, c, f) ==
    LET ow     == Owed(P, St.M, c)
        nu     == Len(c.vars)
        nb     == Len(f.vars) - nu
        must   == ({"prefix", "includedir"} \cup { c.vars[k].ref : k \in 1..nu }) \ {""}
        may    == must \cup {"libdir"}
        mustL  == IF ow.pubL \cup ow.privL # {} THEN must \cup {"libdir"} ELSE must
        bdefs  == IF nb >= 0 THEN { f.vars[k] : k \in 1..nb } ELSE {}
        user   == IF nb >= 0 THEN SubSeq(f.vars, nb + 1, Len(f.vars)) ELSE <<>>
    IN  IF nb < 0 THEN {Fail("Variables", "missing")}
        ELSE (IF { BuiltinDef(P, d) : d \in mustL } \subseteq bdefs /\ bdefs \subseteq { BuiltinDef(P, d) : d \in may }
              THEN {} ELSE {Fail("BuiltinVariables", "")})
             \cup (IF user = [k \in 1..nu |-> [k |-> c.vars[k].k, w |-> <<c.vars[k].v>>]] THEN {} ELSE {Fail("Variables", "user")})
             \* [PC] a variable is defined before it is used: prefix before everything that refers to it
             \cup (IF nb >= 1 /\ f.vars[1].k = "prefix" THEN {} ELSE {Fail("Variables", "prefix-first")})

ScalarClauses(P, c, f) ==
    (IF f.fb = FileBase(P, c) THEN {} ELSE {Fail("FileBase", "")})
    \cup (IF f.name = NameOf(P, c) THEN {} ELSE {Fail("Name", "")})
    \cup (IF f.ver = VersionOf(P, c) THEN {} ELSE {Fail("Version", "")})
    \cup (IF f.desc = DescOf(P, c) THEN {} ELSE {Fail("Description", "")})
    \cup (IF f.dest = DestOf(P, c) THEN {} ELSE {Fail("InstallDir", "")})

(***************************************************************************)
(* The uninstalled file [R54]: same requirements and libraries, found in   *)
(* the build directory; the compiler flags other than the header search    *)
(* path are those of the installed file; the headers of every public       *)
(* library are looked for in its source and build directory.               *)
(***************************************************************************)
SubPath(base, sub) == IF sub = "" THEN base ELSE base \o "/" \o sub
UninstClauses(P, St, c, f, u) ==
    LET n == Len(IncFlags(c))
        rest == IF Len(f.cfl) >= n THEN SubSeq(f.cfl, n + 1, Len(f.cfl)) ELSE <<>>
        pubsubs == { P.objs[x.n].sub : x \in { y \in Rng(u.libs) : y.t = "lib" } }
    IN  (IF u.cfl = rest THEN {} ELSE {Fail("UninstalledCflags", "")})
        \cup (IF \A s \in pubsubs : SubPath("${prefix}", s) \in Rng(u.inc) /\ SubPath("${srcdir}", s) \in Rng(u.inc)
              THEN {} ELSE {Fail("UninstalledHeaders", "")})

FileClauses(P, St, c, f) ==
    ScalarClauses(P, c, f)
    \cup FieldClauses(P, St, c, f, "inst")
    \cup CflagClauses(P, St, c, f)
    \cup VarClauses(P, St, c, f)

(***************************************************************************)
(* What a consumer gets.  Provided(files, k): library targets a consumer   *)
(* of file k links to when it asks for the shared flavour (`pkg-config     *)
(* --libs`): the Libs of the file and of everything it requires publicly   *)
(* ... `files` are the files of the project in generation order, a         *)
(* Requires entry naming an earlier file base refers to that file.         *)
(***************************************************************************)
FileIdx(files, n) == { k \in 1..Len(files) : files[k].fb = n }
RECURSIVE Closure(_, _, _)
\* all files reachable from file k through Requires (and Requires.private when priv)
Closure(files, k, priv) ==
    {k} \cup UNION { Closure(files, j, priv) :
                     j \in { i \in 1..(k - 1) : files[i].fb \in ReqNames(files[k].req)
                                                 \cup (IF priv THEN ReqNames(files[k].reqp) ELSE {}) } }
Provided(files, k) == UNION { Rng(EntriesOf(files[j].libs)) : j \in Closure(files, k, FALSE) }
ProvidedStatic(files, k) ==
    UNION { Rng(EntriesOf(files[j].libs)) \cup Rng(EntriesOf(files[j].libsp)) : j \in Closure(files, k, TRUE) }

\* library targets the call names publicly: main library, library targets of `libraries`, link_with of
\* internal dependencies listed there
Mentioned(P, c) ==
    (IF c.main = 0 THEN {} ELSE {c.main})
    \cup { r.n : r \in { q \in Rng(c.libs) : q.t = "lib" } }
    \cup UNION { Near(P, [P.objs[r.n] EXCEPT !.deps = <<>>]) : r \in { q \in Rng(c.libs) : q.t = "idep" } }
=============================================================================
