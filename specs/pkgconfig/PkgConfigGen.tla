---------------------------- MODULE PkgConfigGen ----------------------------
(***************************************************************************)
(* Operational formulation: one concrete generator that writes the fields  *)
(* of a .pc file as ordered lists.  It is deliberately *not* the algorithm *)
(* of mesonbuild/modules/pkgconfig.py (prepend lists, de-duplicate at the  *)
(* end): it emits what the call lists literally, in that order, then the   *)
(* libraries that are only there because others need them, dependents      *)
(* before dependencies (objects are numbered in definition order, so a     *)
(* library has a larger number than everything it links to), then the      *)
(* words contributed by dependency objects.  PkgConfig_MC proves that the  *)
(* rule book (PkgConfig!FileClauses) accepts its output on the bounded     *)
(* space, i.e. that the order constraints of the rule book can always be   *)
(* met together, and checks the laws on its output.                        *)
(***************************************************************************)
EXTENDS PkgConfig

RECURSIVE SeqOf(_)
SeqOf(S) == IF S = {} THEN <<>> ELSE LET x == CHOOSE y \in S : TRUE IN <<x>> \o SeqOf(S \ {x})

\* library items of a set, largest object number first
RECURSIVE Descending(_)
Descending(S) == IF S = {} THEN <<>>
                 ELSE LET x == CHOOSE y \in S : \A z \in S : z.n <= y.n IN <<x>> \o Descending(S \ {x})

GenField(P, c, v, owed, mode) ==
    LET listed == FirstOcc(Filter(DirectSeq(c, v), owed))
        others == owed \ Rng(listed)
        body   == listed \o Descending({ x \in others : x.t = "lib" }) \o SeqOf({ x \in others : x.t = "str" })
    IN [k \in 1..Cardinality(DirsOwed(P, body, mode)) |-> DirItem(SeqOf(DirsOwed(P, body, mode))[k])] \o body

GenVars(P, c, ow) ==
    LET refs == ({ c.vars[k].ref : k \in 1..Len(c.vars) } \ {"", "prefix", "includedir", "libdir"})
    IN <<BuiltinDef(P, "prefix"), BuiltinDef(P, "includedir")>>
       \o (IF ow.pubL \cup ow.privL # {} \/ "libdir" \in { c.vars[k].ref : k \in 1..Len(c.vars) }
           THEN <<BuiltinDef(P, "libdir")>> ELSE <<>>)
       \o [k \in 1..Cardinality(refs) |-> BuiltinDef(P, SeqOf(refs)[k])]
       \o [k \in 1..Len(c.vars) |-> [k |-> c.vars[k].k, w |-> <<c.vars[k].v>>]]

Gen(P, St, c) ==
    LET ow == Owed(P, St.M, c)
        only == Rng(c.xcf) \ ow.C
    IN [fb |-> FileBase(P, c), name |-> NameOf(P, c), ver |-> VersionOf(P, c), desc |-> DescOf(P, c),
        dest |-> DestOf(P, c),
        req |-> SeqOf(ow.pubR), reqp |-> SeqOf(ow.privR),
        libs |-> GenField(P, c, "pub", ow.pubL, "inst"), libsp |-> GenField(P, c, "priv", ow.privL, "inst"),
        cfl |-> IncFlags(c) \o SeqOf(ow.C) \o FirstOcc(Filter(c.xcf, only)),
        vars |-> GenVars(P, c, ow)]

GenUninstalled(P, St, c) ==
    LET ow == Owed(P, St.M, c)
        g  == Gen(P, St, c)
        libs == GenField(P, c, "pub", ow.pubL, "uninst")
        subs == { P.objs[x.n].sub : x \in { y \in Rng(libs) : y.t = "lib" } }
    IN [req |-> g.req, reqp |-> g.reqp, libs |-> libs, libsp |-> GenField(P, c, "priv", ow.privL, "uninst"),
        cfl |-> SubSeq(g.cfl, Len(IncFlags(c)) + 1, Len(g.cfl)),
        inc |-> SeqOf({ SubPath("${prefix}", s) : s \in subs } \cup { SubPath("${srcdir}", s) : s \in subs })]
=============================================================================
