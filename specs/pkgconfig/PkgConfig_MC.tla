----------------------------- MODULE PkgConfig_MC -----------------------------
(***************************************************************************)
(* Bounded exhaustive model of the pkg-config generator rule book.         *)
(*                                                                         *)
(* A state is a scenario: an abstract project (chosen in Init from the     *)
(* family FAM) and the generate() calls made so far; `files` are the files *)
(* the operational generator (PkgConfigGen!Gen) writes, `st` the           *)
(* association library -> file.  Families:                                 *)
(*   "G"  N library targets of every kind with every link_with /           *)
(*        link_whole shape (<= 2 / <= 1 links per library), no dependency  *)
(*        objects;                                                         *)
(*   "D"  a library, an internal dependency on it, a library on top, with  *)
(*        external dependency objects (pkg-config, versioned pkg-config,   *)
(*        not found, threads, other) in every position;                    *)
(*   "S"  one library and the scalar keyword arguments (name, filebase,    *)
(*        version, install_dir, subdirs, extra_cflags, variables).         *)
(* Calls: a call with at most MENT1 mentions; or a first call that         *)
(* associates one library (main library, or `libraries` without main       *)
(* library) followed by a call with at most MENT2 mentions.                *)
(* Every maximal scenario is printed (JSON) so that the harness replays    *)
(* exactly this space through the real generator; when SAMPLE > 1 only the *)
(* scenarios with hash = SEED modulo SAMPLE are printed.                   *)
(***************************************************************************)
EXTENDS PkgConfigGen, TLC, Json, IOUtils

CONSTANTS FAM, N, MENT1, MENT2, SAMPLE, SEED

VARIABLES P, calls, st, files, started
vars == <<P, calls, st, files, started>>

\* ---- the fixed part of every project -------------------------------------------------------------------
Opts == [prefix |-> "/usr/x06", libdir |-> "lib", includedir |-> "include",
         dirs |-> [datadir |-> "share", bindir |-> "bin"], proj |-> "x06proj", pver |-> "2.5"]
Exts == << [k |-> "pc",  nm |-> "x06ext1", ver |-> "",      la |-> <<"-lx06ext1">>, ca |-> <<"-DX06EXT1">>],
           [k |-> "pc",  nm |-> "x06ext2", ver |-> ">=1.0", la |-> <<"-lx06ext2">>, ca |-> <<"-DX06EXT2">>],
           [k |-> "nf",  nm |-> "x06nf",   ver |-> "",      la |-> <<>>,            ca |-> <<>>],
           [k |-> "thr", nm |-> "threads", ver |-> "",      la |-> <<>>,            ca |-> <<>>],
           [k |-> "oth", nm |-> "m",       ver |-> "",      la |-> <<"-lm">>,       ca |-> <<>>] >>
ExtRef(e) == [t |-> "ext", n |-> e, s |-> "", v |-> ""]
LibRef(i) == [t |-> "lib", n |-> i, s |-> "", v |-> ""]
IdepRef(i) == [t |-> "idep", n |-> i, s |-> "", v |-> ""]
StrRef(s, v) == [t |-> "str", n |-> 0, s |-> s, v |-> v]

Lib(i, k, lw, lwh, deps) == [t |-> "lib", k |-> k, nm |-> "l" \o ToString(i), lw |-> lw, lwh |-> lwh, deps |-> deps,
                             ca |-> <<>>, la |-> <<>>, sub |-> "", idir |-> ""]
Idep(ca, la, lw, lwh, deps) == [t |-> "idep", k |-> "", nm |-> "", lw |-> lw, lwh |-> lwh, deps |-> deps,
                                ca |-> ca, la |-> la, sub |-> "", idir |-> ""]
Proj(objs) == [objs |-> objs, exts |-> Exts, o |-> Opts]

K4 == {"shared", "lib", "static", "ustatic"}
K3 == {"shared", "lib", "static"}

\* sequences without repetition over S of length <= n
SeqsNoRep(S, n) == UNION { { s \in [1..k -> S] : \A a, b \in 1..k : a # b => s[a] # s[b] } : k \in 0..n }
SeqsUpTo(S, n) == UNION { [1..k -> S] : k \in 0..n }

\* ---- family G ------------------------------------------------------------------------------------------
\* objs so far -> all ways to add library number i
GAdd(objs, i, kinds) ==
    { Append(objs, Lib(i, k, lw, lwh, <<>>)) :
        k \in kinds,
        lw \in SeqsNoRep(1..(i - 1), 2),
        lwh \in SeqsNoRep({ j \in 1..(i - 1) : IsStaticKind(objs[j].k) }, 1) }
RECURSIVE GObjs(_, _)
GObjs(i, n) == IF i = 0 THEN {<<>>}
               ELSE UNION { GAdd(objs, i, IF i = n THEN K3 ELSE K4) : objs \in GObjs(i - 1, n) }

\* ---- family D ------------------------------------------------------------------------------------------
\* N = 3: every position; N = 2: a reduced set for the quick tier
DObjs ==
    { << Lib(1, k1, <<>>, <<>>, <<>>),
         Idep(<<"-DI2">>, <<"-li2">>, lw2, lwh2, d2),
         Lib(3, k3, lw3, <<>>, d3) >> :
        k1 \in {"shared", "static"},
        lw2 \in {<<>>, <<1>>}, lwh2 \in (IF N >= 3 THEN {<<>>, <<1>>} ELSE {<<>>}),
        d2 \in (IF N >= 3 THEN {<<>>, <<ExtRef(2)>>, <<ExtRef(4)>>} ELSE {<<>>, <<ExtRef(2)>>}),
        k3 \in (IF N >= 3 THEN K3 ELSE {"lib", "static"}), lw3 \in (IF N >= 3 THEN {<<>>, <<1>>} ELSE {<<>>}),
        d3 \in (IF N >= 3 THEN {<<>>, <<IdepRef(2)>>, <<ExtRef(1)>>, <<ExtRef(3)>>, <<ExtRef(5)>>, <<IdepRef(2), ExtRef(4)>>}
                ELSE {<<>>, <<IdepRef(2)>>, <<ExtRef(4)>>, <<ExtRef(1)>>}) }
DOk(objs) == objs[2].lwh = <<>> \/ (objs[1].k = "static" /\ objs[2].lw = <<>>)

\* ---- family S ------------------------------------------------------------------------------------------
SObjs == { << [Lib(1, "shared", <<>>, <<>>, <<>>) EXCEPT !.idir = d, !.sub = s] >> : d \in {"", "mylibs"}, s \in {"", "sd"} }

Projects == CASE FAM = "G" -> { Proj(o) : o \in GObjs(N, N) }
              [] FAM = "D" -> { Proj(o) : o \in { x \in DObjs : DOk(x) } }
              [] FAM = "S" -> { Proj(o) : o \in SObjs }

\* ---- calls ---------------------------------------------------------------------------------------------
IsLib(p, i) == p.objs[i].t = "lib"
Call(main, libs, libsp, reqs, reqsp, tag) ==
    [main |-> main, libs |-> libs, libsp |-> libsp, reqs |-> reqs, reqsp |-> reqsp,
     subdirs |-> <<".">>, xcf |-> <<>>, vars |-> <<>>,
     name |-> IF main = 0 THEN "n" \o tag ELSE "", fb |-> "", ver |-> "", desc |-> IF main = 0 THEN "d" \o tag ELSE "", idir |-> ""]

Mains(p, s) == { i \in 1..Len(p.objs) : IsLib(p, i) /\ p.objs[i].k # "ustatic" /\ s.M[i] = "" }
LibRefs(p) == { LibRef(i) : i \in { j \in 1..Len(p.objs) : IsLib(p, j) /\ p.objs[j].k # "ustatic" } }
DepRefs(p) == { IdepRef(i) : i \in { j \in 1..Len(p.objs) : ~IsLib(p, j) } }
              \cup (IF FAM = "D" THEN { ExtRef(e) : e \in 1..Len(p.exts) } ELSE {})
ListRefs(p) == LibRefs(p) \cup DepRefs(p) \cup {StrRef("-lzz", "")}
ReqRefs(p, s) == { LibRef(i) : i \in { j \in 1..Len(p.objs) : IsLib(p, j) /\ s.M[j] # "" } }
                 \cup { IdepRef(i) : i \in { j \in 1..Len(p.objs) : ~IsLib(p, j) /\ p.objs[j].lw # <<>>
                                                                  /\ \A q \in Rng(p.objs[j].lw) : s.M[q] # "" } }
                 \cup {StrRef("x06ext3", ""), StrRef("x06ext1", "<2.0")}
                 \cup (IF FAM = "D" THEN {ExtRef(1), ExtRef(2), ExtRef(3), ExtRef(4)} ELSE {})

\* calls with at most `ment` mentions
SeqsExact(S, n) == IF n = 0 THEN {<<>>} ELSE [1..n -> S]
Shapes(ment) == { sh \in (0..1) \X (0..2) \X (0..1) \X (0..1) \X (0..1) :
                    LET m == sh[1] + sh[2] + sh[3] + sh[4] + sh[5] IN m >= 1 /\ m <= ment }
CallsOfShape(p, s, sh, tag) ==
    { Call(q[1], q[2], q[3], q[4], q[5], tag) :
        q \in (IF sh[1] = 0 THEN {0} ELSE Mains(p, s)) \X SeqsExact(ListRefs(p), sh[2]) \X SeqsExact(ListRefs(p), sh[3])
              \X SeqsExact(ReqRefs(p, s), sh[4]) \X SeqsExact(ReqRefs(p, s), sh[5]) }
CallsUpTo(p, s, ment, tag) == UNION { CallsOfShape(p, s, sh, tag) : sh \in Shapes(ment) }
\* first calls that do nothing but associate one library with a file
Associating(p, s) ==
    { Call(i, <<>>, <<>>, <<>>, <<>>, "A") : i \in Mains(p, s) }
    \cup { Call(0, <<LibRef(i)>>, <<>>, <<>>, <<>>, "A") : i \in Mains(p, s) }

\* family S: the scalar keyword arguments
SVars == { <<>>, <<[k |-> "foo", v |-> "bar", ref |-> ""]>>, <<[k |-> "foo", v |-> "bar baz", ref |-> ""]>>,
           <<[k |-> "dd", v |-> "${datadir}/x y", ref |-> "datadir"], [k |-> "foo", v |-> "${dd}/z", ref |-> ""]>>,
           <<[k |-> "pp", v |-> "${prefix}/p", ref |-> "prefix"], [k |-> "ll", v |-> "${libdir}/q", ref |-> "libdir"]>> }
SCalls(p) ==
    { [main |-> m, libs |-> <<>>, libsp |-> <<>>, reqs |-> <<>>, reqsp |-> <<>>,
       subdirs |-> sd, xcf |-> xc, vars |-> vs,
       name |-> IF m = 0 THEN "nA" ELSE nm, fb |-> fb, ver |-> ver, desc |-> IF m = 0 THEN "dA" ELSE ds, idir |-> idir] :
        m \in {0, 1}, nm \in {"", "nm"}, fb \in {"", "fbx"}, ver \in {"", "1.2.3"}, ds \in {"", "some words"},
        idir \in {"", "share/pc"},
        sd \in {<<".">>, <<"sub">>, <<".", "sub dir">>},
        xc \in {<<>>, <<"-DX", "-DY", "-DX">>, <<"-DS=a b">>},
        vs \in SVars }

Init == /\ P \in Projects
        /\ calls = <<>> /\ st = NoState(P) /\ files = <<>> /\ started = FALSE
AddCall(c) == /\ calls' = Append(calls, c)
              /\ files' = Append(files, Gen(P, st, c))
              /\ st' = Register(P, st, c)
              /\ UNCHANGED <<P, started>>
Next == \/ /\ ~started /\ started' = TRUE /\ UNCHANGED <<P, calls, st, files>>
        \/ /\ started /\ calls = <<>> /\ FAM # "S"
           /\ \E c \in CallsUpTo(P, st, MENT1, "A") \cup Associating(P, st) : AddCall(c)
        \/ /\ started /\ Len(calls) = 1 /\ FAM # "S" /\ calls[1] \in Associating(P, NoState(P))
           /\ \E c \in CallsUpTo(P, st, MENT2, "B") : AddCall(c)
        \/ /\ started /\ calls = <<>> /\ FAM = "S"
           /\ \E c \in SCalls(P) : AddCall(c)
        \/ /\ started /\ Len(calls) = 1 /\ FAM = "S"
           /\ AddCall(Call(0, <<LibRef(1)>>, <<>>, <<>>, <<>>, "B"))
Spec == Init /\ [][Next]_vars

\* ---- laws ------------------------------------------------------------------------------------------------
StBefore(k) == StateBefore(P, calls, k)

\* the operational generator is accepted by the rule book (both flavours of the file)
GenAccepted ==
    \A k \in 1..Len(calls) :
        /\ FileClauses(P, StBefore(k), calls[k], files[k]) = {}
        /\ LET u == GenUninstalled(P, StBefore(k), calls[k])
           IN FieldClauses(P, StBefore(k), calls[k], u, "uninst") = {}
              /\ UninstClauses(P, StBefore(k), calls[k], files[k], u) = {}

LibsIn(f) == { x.n : x \in { y \in Rng(f.libs) \cup Rng(f.libsp) : y.t = "lib" } }
\* no library is both required (through the file it is associated with) and linked
NoLibInRequiresAndLibs ==
    \A k \in 1..Len(calls) :
        LET M == StBefore(k).M IN
        /\ \A i \in LibsIn(files[k]) : M[i] = ""
        /\ \A i \in 1..Len(P.objs) : (M[i] # "" /\ M[i] \in ReqNames(files[k].req) \cup ReqNames(files[k].reqp)) => i \notin LibsIn(files[k])

\* no entry twice in a field, nothing both public and private
NoDuplicateEntries ==
    \A k \in 1..Len(calls) :
        LET f == files[k] IN
        /\ NoDup(f.req) /\ NoDup(f.reqp) /\ NoDup(f.libs) /\ NoDup(f.libsp) /\ NoDup(f.cfl)
        /\ Rng(EntriesOf(f.libs)) \cap Rng(EntriesOf(f.libsp)) = {}
        /\ ReqNames(f.req) \cap ReqNames(f.reqp) = {}

\* libraries a consumer of file k gets: named with -l in a file of the closure, or link_whole'd into one
\* of the libraries of the call that wrote such a file
PartOf(k, priv) ==
    { x.n : x \in { y \in (IF priv THEN ProvidedStatic(files, k) ELSE Provided(files, k)) : y.t = "lib" } }
    \cup UNION { Owed(P, StBefore(j).M, calls[j]).W : j \in Closure(files, k, priv) }

\* every library target the call names publicly is linked by a consumer of the file: -l in Libs, or in the
\* Libs of a file reachable through Requires; unless it is link_whole'd into another library of the call
MentionedProvided ==
    \A k \in 1..Len(calls) :
        LET ow == Owed(P, StBefore(k).M, calls[k]) IN
        \A i \in Mentioned(P, calls[k]) \ ow.W : P.objs[i].k # "ustatic" => i \in PartOf(k, FALSE)

\* plain reachability, independent of the visibility rules
RECURSIVE ReachObj(_, _)
ReachObj(p, i) == {i} \cup UNION { ReachObj(p, j) : j \in Rng(p.objs[i].lw) \cup Rng(p.objs[i].lwh)
                                                    \cup { r.n : r \in { q \in Rng(p.objs[i].deps) : q.t = "idep" } } }
ReachRefs(p, refs) == UNION { ReachObj(p, r.n) : r \in { q \in Rng(refs) : q.t \in {"lib", "idep"} } }
ExtRefsOf(p, objs, refs) == { r \in UNION { Rng(p.objs[i].deps) : i \in objs } \cup Rng(refs) : r.t = "ext" }
PubRoots(c) == (IF c.main = 0 THEN <<>> ELSE <<LibRef(c.main)>>) \o c.libs
\* the public fields hold nothing that the call reaches only through libraries_private / requires_private
PublicFromPublicInput ==
    \A k \in 1..Len(calls) :
        LET c    == calls[k]
            f    == files[k]
            M    == StBefore(k).M
            objs == ReachRefs(P, PubRoots(c))
            exts == ExtRefsOf(P, objs, PubRoots(c) \o c.reqs)
            words == { r.s : r \in { q \in Rng(c.libs) : q.t = "str" } }
                     \cup UNION { Rng(P.objs[i].la) : i \in objs }
                     \cup UNION { Rng(P.exts[r.n].la) : r \in { q \in exts : P.exts[q.n].k = "oth" } }
                     \cup (IF \E r \in exts : P.exts[r.n].k = "thr" THEN {"-pthread"} ELSE {})
            names == { M[i] : i \in objs } \cup { M[r.n] : r \in { q \in Rng(c.reqs) : q.t = "lib" } }
                     \cup UNION { { M[j] : j \in Rng(P.objs[r.n].lw) } : r \in { q \in Rng(c.reqs) : q.t = "idep" } }
                     \cup { P.exts[r.n].nm : r \in { q \in exts : P.exts[q.n].k = "pc" } }
                     \cup { r.s : r \in { q \in Rng(c.reqs) : q.t = "str" } }
        IN /\ \A x \in Rng(EntriesOf(f.libs)) : IF x.t = "lib" THEN x.n \in objs ELSE x.s \in words
           /\ ReqNames(f.req) \subseteq names
           /\ \A w \in Rng(f.cfl) : w \in Rng(IncFlags(c)) \cup Rng(c.xcf) \cup {"-pthread"}
                                          \cup UNION { Rng(P.objs[i].ca) : i \in objs }
                                          \cup UNION { Rng(P.exts[r.n].ca) : r \in exts }

\* nothing the call reaches is lost: a library target reached through link_with chains of non-shared
\* libraries is linked statically by `--static` consumers or is part of another library
RECURSIVE StaticReach(_, _, _)
StaticReach(p, M, i) ==
    IF M[i] # "" \/ p.objs[i].k = "shared" THEN {i}
    ELSE {i} \cup UNION { StaticReach(p, M, j) : j \in Near(p, p.objs[i]) }
NothingLost ==
    \A k \in 1..Len(calls) :
        LET c  == calls[k]
            M  == StBefore(k).M
            ow == Owed(P, M, c)
            roots == Mentioned(P, c) \cup { r.n : r \in { q \in Rng(c.libsp) : q.t = "lib" } }
        IN \A i \in UNION { StaticReach(P, M, r) : r \in roots } :
              \/ i \in ow.W \/ P.objs[i].k = "ustatic"
              \/ i \in PartOf(k, TRUE)

\* the files do not depend on the order of unrelated calls
Touches(c) == ReachRefs(P, PubRoots(c) \o c.libsp \o c.reqs \o c.reqsp)
NewlyAssoc(s, c) == { i \in 1..Len(P.objs) : s.M[i] = "" /\ Register(P, s, c).M[i] # "" }
Unrelated(c1, c2) == /\ NewlyAssoc(NoState(P), c1) \cap Touches(c2) = {}
                     /\ NewlyAssoc(NoState(P), c2) \cap Touches(c1) = {}
OrderIndependent ==
    Len(calls) = 2 /\ Unrelated(calls[1], calls[2]) =>
        /\ Gen(P, NoState(P), calls[2]) = files[2]
        /\ Gen(P, Register(P, NoState(P), calls[2]), calls[1]) = files[1]

TypeOK == /\ Len(files) = Len(calls)
          /\ \A i \in 1..Len(P.objs) : (st.M[i] = "") = (st.A[i] = "")

\* ---- export of the scenario space ---------------------------------------------------------------------
Maximal == \/ Len(calls) = 2
           \/ Len(calls) = 1 /\ (FAM = "S" \/ calls[1] \notin Associating(P, NoState(P)))
HRef(r) == (IF r.t = "lib" THEN 1 ELSE IF r.t = "idep" THEN 2 ELSE IF r.t = "ext" THEN 3 ELSE 4) * 7 + r.n
RECURSIVE HRefs(_)
HRefs(s) == IF s = <<>> THEN 1 ELSE (HRef(Head(s)) + 31 * HRefs(Tail(s))) % 100003
HScalars(c) == Len(c.subdirs) + 3 * Len(c.xcf) + 7 * Len(c.vars) + (IF c.vars # <<>> /\ c.vars[1].ref # "" THEN 37 ELSE 0)
               + (IF c.vars # <<>> /\ c.vars[1].v = "bar" THEN 5 ELSE 0) + (IF c.subdirs[1] = "." THEN 0 ELSE 41)
               + (IF c.fb # "" THEN 11 ELSE 0) + (IF c.ver # "" THEN 13 ELSE 0) + (IF c.desc \in {"", "dA", "dB"} THEN 0 ELSE 17)
               + (IF c.idir # "" THEN 19 ELSE 0) + (IF c.name \in {"", "nA", "nB"} THEN 0 ELSE 23)
HCall(c) == (c.main * 13 + HRefs(c.libs) * 17 + HRefs(c.libsp) * 19 + HRefs(c.reqs) * 23 + HRefs(c.reqsp) * 29 + HScalars(c)) % 100003
HKind(k) == CASE k = "shared" -> 1 [] k = "lib" -> 2 [] k = "static" -> 3 [] k = "ustatic" -> 4 [] OTHER -> 5
RECURSIVE HObjs(_)
HObjs(s) == IF s = <<>> THEN 1
            ELSE (HKind(Head(s).k) + 5 * Len(Head(s).lw) + 11 * Len(Head(s).lwh) + 3 * Len(Head(s).deps)
                  + (IF Head(s).lw # <<>> THEN Head(s).lw[1] ELSE 0) + (IF Head(s).sub # "" THEN 2 ELSE 0)
                  + (IF Head(s).idir # "" THEN 7 ELSE 0) + 37 * HObjs(Tail(s))) % 100003
Hash == (HObjs(P.objs) * 41 + HCall(calls[1]) * 43 + (IF Len(calls) = 2 THEN HCall(calls[2]) * 47 ELSE 0)) % 100003
Export ==
    (Maximal /\ (SAMPLE = 1 \/ Hash % SAMPLE = SEED % SAMPLE)) =>
        PrintT(ToJson([objs |-> P.objs, calls |-> calls,
                       ind |-> Len(calls) = 2 /\ Unrelated(calls[1], calls[2])]))
Fixed == TLCGet("stats").diameter >= 0 /\ JsonSerialize("fixed.json", [exts |-> Exts, o |-> Opts])
=============================================================================
