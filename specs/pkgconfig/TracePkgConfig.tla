--------------------------- MODULE TracePkgConfig ---------------------------
(***************************************************************************)
(* Trace validation for X06.  The trace file holds the fixed part of the   *)
(* projects (external dependency objects, options) and the cases.  One     *)
(* case = one abstract project, its generate() calls in *canonical* order, *)
(* and for every call what `meson setup` of the rendered project wrote:    *)
(*   f   the projected meson-private/<filebase>.pc (ordered fields),       *)
(*   u   the projected meson-uninstalled/<filebase>-uninstalled.pc,        *)
(*   pc  what pkg-config computes from the generated files (ran = 1):      *)
(*       ok, libs (`--libs`), slibs (`--libs --static`), cfl (`--cflags`)  *)
(* plus `warned`, the libraries a deprecation warning was printed for,     *)
(* and `err` = 1 when `meson setup` failed for the case.                   *)
(* The harness may have executed calls that the rule book says are         *)
(* unrelated in the other order (`perm`); the files are judged against the *)
(* canonical order all the same (law OrderIndependent).                    *)
(* Every file is judged by the clauses of the rule book                    *)
(* (PkgConfig!FileClauses ...); the verdict lists every violated clause.   *)
(***************************************************************************)
EXTENDS PkgConfig, TLC, Json, IOUtils

Trace == JsonDeserialize(IOEnv.TRACE_FILE)
Cases == Trace.cases

VARIABLES i, done
vars == <<i, done>>

ProjOf(c) == [objs |-> c.objs, exts |-> Trace.exts, o |-> Trace.o]

Token(P, x) == IF x.t = "lib" THEN "-l" \o P.objs[x.n].nm ELSE x.s
ExtOfName(P, n) == { e \in Rng(P.exts) : e.k = "pc" /\ e.nm = n }

\* what pkg-config must hand to a consumer of file k
PcClauses(P, calls, obs, k, pc) ==
    LET c     == calls[k]
        St    == StateBefore(P, calls, k)
        ow    == Owed(P, St.M, c)
        f     == obs[k]
        need  == { Token(P, x) : x \in ow.pubL \cup Provided(obs, k) }
        pubn  == UNION { ReqNames(obs[j].req) : j \in Closure(obs, k, FALSE) }
        alln  == UNION { ReqNames(obs[j].req) \cup ReqNames(obs[j].reqp) : j \in Closure(obs, k, TRUE) }
        extl(ns) == UNION { Rng(e.la) : e \in UNION { ExtOfName(P, n) : n \in ns } }
        extc(ns) == UNION { Rng(e.ca) : e \in UNION { ExtOfName(P, n) : n \in ns } }
        sneed == { Token(P, x) : x \in ow.privL \cup ProvidedStatic(obs, k) }
        inc   == { IF c.subdirs[q] = "." THEN "-I" \o P.o.prefix \o "/" \o P.o.includedir
                   ELSE "-I" \o P.o.prefix \o "/" \o P.o.includedir \o "/" \o c.subdirs[q] : q \in 1..Len(c.subdirs) }
        cneed == inc \cup ow.C \cup Rng(c.xcf) \cup extc(alln)
    IN IF pc.ran = 0 THEN {}
       ELSE (IF pc.ok = 1 THEN {} ELSE {Fail("PkgConfigAccepts", "")})
            \cup (IF pc.ok = 0 \/ (need \cup extl(pubn)) \subseteq Rng(pc.libs) THEN {} ELSE {Fail("PkgConfigLibs", "")})
            \cup (IF pc.ok = 0 \/ (need \cup sneed \cup extl(alln)) \subseteq Rng(pc.slibs) THEN {} ELSE {Fail("PkgConfigStaticLibs", "")})
            \cup (IF pc.ok = 0 \/ cneed \subseteq Rng(pc.cfl) THEN {} ELSE {Fail("PkgConfigCflags", "")})

RECURSIVE WarnAll(_, _, _)
WarnAll(P, calls, k) == IF k = 0 THEN {} ELSE WarnAll(P, calls, k - 1) \cup WarnOwed(P, StateBefore(P, calls, k), calls[k])

Tag(k, S) == { [call |-> k, clause |-> x.clause, what |-> x.what, v |-> x.v, x |-> x.x, y |-> x.y] : x \in S }

RECURSIVE SetSeq(_)
SetSeq(S) == IF S = {} THEN <<>> ELSE LET x == CHOOSE y \in S : TRUE IN <<x>> \o SetSeq(S \ {x})

Judge(c) ==
    LET P    == ProjOf(c)
        n    == Len(c.calls)
        obs  == [k \in 1..n |-> c.out[k].f]
        per(k) ==
            LET St == StateBefore(P, c.calls, k) IN
            FileClauses(P, St, c.calls[k], c.out[k].f)
            \cup FieldClauses(P, St, c.calls[k], c.out[k].u, "uninst")
            \cup UninstClauses(P, St, c.calls[k], c.out[k].f, c.out[k].u)
            \cup PcClauses(P, c.calls, obs, k, c.out[k].pc)
        bad  == IF c.err = 1 THEN Tag(0, {Fail("SetupSucceeds", "")})
                ELSE UNION { Tag(k, per(k)) : k \in 1..n }
                     \cup (IF Rng(c.warned) = WarnAll(P, c.calls, n) THEN {}
                           ELSE Tag(0, {Fail("DeprecationWarned", IF Rng(c.warned) = {} THEN "none" ELSE "other")}))
    IN [id |-> c.id, clause |-> IF bad = {} THEN "ok" ELSE "violated", bad |-> SetSeq(bad)]

Init == i \in 1..Len(Cases) /\ done = FALSE
Next == /\ ~done
        /\ done' = TRUE
        /\ i' = i
        /\ LET v == Judge(Cases[i]) IN v.clause = "ok" \/ PrintT(ToJson(v))
Spec == Init /\ [][Next]_vars
=============================================================================
