---------------------------- MODULE ProjectView ----------------------------
(***************************************************************************)
(* The abstract project denoted by a set of build files (property C17).    *)
(*                                                                          *)
(* ProjectOf(trees) walks the reference trees (MesonGrammar) of the build   *)
(* files starting at the root file and evaluates with the reference         *)
(* evaluator (MesonEval):                                                    *)
(*  - assignments are executed (the variable store is part of the result);  *)
(*  - a call of a build-target function (also as `x = call`) is a target:   *)
(*    first positional argument = name, the remaining positional arguments  *)
(*    and `sources:` flattened = sources, `extra_files:` likewise, every    *)
(*    other keyword argument recorded as <<keyword, value>>;                 *)
(*  - files('a.c') denotes its string arguments (as files of the current    *)
(*    sub-directory);  subdir('d') continues in d/meson.build;               *)
(*    a plain string that reaches a target - directly or through a variable  *)
(*    assigned in ANOTHER build file - is a file of the TARGET's directory    *)
(*    (Rewriter!Resolve); paths are compared in normal form (no "..");       *)
(*  - project(...) gives the project keyword arguments and default options; *)
(*  - the arms of an if statement are all walked, in textual order (the     *)
(*    rewriter addresses every target that is written in the build files,   *)
(*    whatever the conditions say); loops are not entered.                   *)
(* Because every other keyword argument is recorded by VALUE, a re-printed  *)
(* statement whose operator grouping, string contents or argument order     *)
(* changed yields a different project.                                       *)
(***************************************************************************)
EXTENDS MesonEval, Rewriter

TargetFuncs == {"executable", "library", "static_library", "shared_library", "shared_module", "both_libraries", "jar"}
VFile(path) == Val("file", 0, path, <<>>)

BuildFileName == <<109, 101, 115, 111, 110, 46, 98, 117, 105, 108, 100>>          \* meson.build

RECURSIVE FlatVals(_)
FlatVals(vs) == IF vs = <<>> THEN <<>>
                ELSE (IF vs[1].k = "arr" THEN FlatVals(vs[1].e) ELSE <<vs[1]>>) \o FlatVals(Tail(vs))

\* ---- expressions of build files: the core language plus files() ---------------------------------------------
RECURSIVE PEval(_, _, _)
PEvalSeq(nodes, env, dir) == [i \in 1..Len(nodes) |-> PEval(nodes[i], env, dir)]
PEval(node, env, dir) ==
    LET k == node.k IN
    CASE k = "call" /\ node.v = "files" ->
           LET a == node.c[1]
               vs == FlatVals(PEvalSeq(a.c, env, dir))
           IN IF a.n = 1 \/ a.d # <<>> THEN Err
              ELSE IF AnyErr(vs) THEN FirstErr(vs)
              ELSE IF \E i \in 1..Len(vs) : vs[i].k \notin {"str", "file"} THEN Err
              ELSE VArr([i \in 1..Len(vs) |-> IF vs[i].k = "file" THEN vs[i] ELSE VFile(Resolve("files", dir, dir, vs[i].s))])
      [] k = "arr" /\ node.c[1].d = <<>> /\ node.c[1].n = 0 ->
           LET vs == PEvalSeq(node.c[1].c, env, dir) IN
           IF AnyErr(vs) THEN FirstErr(vs) ELSE IF \E i \in 1..Len(vs) : vs[i].k = "void" THEN Err ELSE VArr(vs)
      [] k = "paren" -> PEval(node.c[1], env, dir)
      [] k = "arith" /\ node.v = "+" ->
           LET l == PEval(node.c[1], env, dir)
               r == PEval(node.c[2], env, dir)
           IN IF IsErr(l) THEN l ELSE IF IsErr(r) THEN r ELSE Arith("+", l, r)
      [] OTHER -> Eval(node, env)

\* an argument written down literally at the call (not reached through a variable)
RECURSIVE IsLiteral(_)
IsLiteral(n) == \/ n.k = "str"
                \/ (n.k = "arr" /\ \A i \in 1..Len(n.c[1].c) : IsLiteral(n.c[1].c[i]))
                \/ (n.k = "call" /\ n.v = "files" /\ \A i \in 1..Len(n.c[1].c) : IsLiteral(n.c[1].c[i]))

Unknown == <<63>>                                                             \* "?" : not a file name
\* the path resolution rule of Rewriter: a files() object carries the directory files() was written in (PEval was given
\* that directory), a plain string is relative to the directory dir of the target that consumes it - wherever the list
\* holding it was assigned
PathOf(dir, v) == IF v.k = "file" THEN v.s ELSE IF v.k = "str" THEN Resolve("strings", dir, dir, v.s) ELSE Unknown
PathsOf(dir, vs) == { PathOf(dir, vs[i]) : i \in 1..Len(vs) }

KwNamed(kws, name) == SelectSeq(kws, LAMBDA kw : kw.c[1].v = name)

\* ---- default options --------------------------------------------------------------------------------------------
FirstEq(s) == IF \E i \in 1..Len(s) : s[i] = 61 THEN CHOOSE i \in 1..Len(s) : s[i] = 61 /\ \A j \in 1..(i - 1) : s[j] # 61 ELSE 0
\* an option value is the text after the first "="; boolean options may be written True / False
OptVal(v) == IF v = <<84, 114, 117, 101>> THEN <<116, 114, 117, 101>>
             ELSE IF v = <<70, 97, 108, 115, 101>> THEN <<102, 97, 108, 115, 101>> ELSE v
OptPair(s) == LET p == FirstEq(s) IN IF p = 0 THEN <<s, <<>>>> ELSE <<SubSeq(s, 1, p - 1), OptVal(SubSeq(s, p + 1, Len(s)))>>
OptText(v) == LET t == Stringify(v) IN IF IsErr(t) THEN Unknown ELSE OptVal(t.s)
DefaultOptions(v) ==
    CASE v.k = "str" -> {OptPair(v.s)}
      [] v.k = "arr" -> { IF v.e[i].k = "str" THEN OptPair(v.e[i].s) ELSE <<Unknown, Unknown>> : i \in 1..Len(v.e) }
      [] v.k = "dict" -> { <<v.e[i].s, OptText(v.e[i].e[1])>> : i \in 1..Len(v.e) }
      [] OTHER -> {<<Unknown, Unknown>>}

\* ---- the walk -------------------------------------------------------------------------------------------------------
\* w: [env, tg, via, pk, dopts, nproj, visited, dup, bad]; via: <<target, "src"|"extra", file>> reached through a non-literal argument
W0 == [env |-> <<>>, tg |-> {}, via |-> {}, pk |-> {}, dopts |-> {}, nproj |-> 0, visited |-> {}, dup |-> FALSE, bad |-> FALSE]
\* an expression the reference evaluator rejects (reasons 1, 2): such a build file cannot be configured at all
Rejected(v) == IsErr(v) /\ v.n # 3

IsTargetCall(n) == n.k = "call" /\ n.v \in TargetFuncs /\ Len(n.c[1].c) >= 1

AddTarget(call, w, dir) ==
    LET a == call.c[1]
        nameV == PEval(a.c[1], w.env, dir)
        srcKw == KwNamed(a.d, "sources")
        srcNodes == Tail(a.c) \o [i \in 1..Len(srcKw) |-> srcKw[i].c[2]]
        srcVals == FlatVals(PEvalSeq(srcNodes, w.env, dir))
        viaNodes == SelectSeq(srcNodes, LAMBDA n : ~IsLiteral(n))
        exKw == KwNamed(a.d, "extra_files")
        exNodes == [i \in 1..Len(exKw) |-> exKw[i].c[2]]
        exVals == FlatVals(PEvalSeq(exNodes, w.env, dir))
        exVia == SelectSeq(exNodes, LAMBDA n : ~IsLiteral(n))
        other == SelectSeq(a.d, LAMBDA kw : kw.c[1].v \notin {"sources", "extra_files"})
        kw == { <<other[i].c[1].v, PEval(other[i].c[2], w.env, dir)>> : i \in 1..Len(other) }
    IN IF nameV.k # "str" THEN [w |-> w, name |-> <<>>, ok |-> FALSE]
       ELSE [w |-> [w EXCEPT !.tg = @ \cup {Target(nameV.s, call.v, dir, PathsOf(dir, srcVals), PathsOf(dir, exVals), kw)},
                             !.dup = @ \/ \E t \in w.tg : t.name = nameV.s,
                             !.via = @ \cup { <<nameV.s, "src", f>> : f \in PathsOf(dir, FlatVals(PEvalSeq(viaNodes, w.env, dir))) }
                                       \cup { <<nameV.s, "extra", f>> : f \in PathsOf(dir, FlatVals(PEvalSeq(exVia, w.env, dir))) }],
             name |-> nameV.s, ok |-> TRUE]

SetProject(call, w) ==
    LET a == call.c[1]
        dk == KwNamed(a.d, "default_options")
        other == SelectSeq(a.d, LAMBDA kw : kw.c[1].v # "default_options")
    IN [w EXCEPT !.nproj = @ + 1,
                 !.pk = { <<other[i].c[1].v, PEval(other[i].c[2], w.env, <<>>)>> : i \in 1..Len(other) }
                        \cup {<<"<positional>", VArr(PEvalSeq(a.c, w.env, <<>>))>>},
                 !.dopts = IF dk = <<>> THEN {} ELSE DefaultOptions(PEval(dk[1].c[2], w.env, <<>>))]

\* The rewriter's static interpreter evaluates both branches of ?: and both operands of and / or, whatever the
\* condition says.  A build file in which an operand that is never evaluated would fail is outside what the rewriter
\* supports (and outside the generated inputs): such a file is flagged `bad`.
RECURSIVE Eager(_, _, _)
Eager(node, env, dir) ==
    /\ (node.k \in {"ternary", "and", "or"} => \A j \in 1..Len(node.c) : ~Rejected(PEval(node.c[j], env, dir)))
    /\ IF node.k = "kw" THEN Eager(node.c[2], env, dir)
       ELSE (\A j \in 1..Len(node.c) : Eager(node.c[j], env, dir)) /\ (\A j \in 1..Len(node.d) : Eager(node.d[j], env, dir))

RECURSIVE WalkLines(_, _, _, _, _), WalkStmt(_, _, _, _), WalkArms(_, _, _, _, _)

WalkLines(lines, i, w, dir, trees) ==
    IF i > Len(lines) THEN w
    ELSE WalkLines(lines, i + 1, WalkStmt(lines[i], [w EXCEPT !.bad = @ \/ ~Eager(lines[i], w.env, dir)], dir, trees), dir, trees)

\* every arm of an if statement, in order
WalkArms(node, j, w, dir, trees) ==
    IF 2 * j > Len(node.c) THEN (IF node.d = <<>> THEN w ELSE WalkLines(node.d[1].c, 1, w, dir, trees))
    ELSE WalkArms(node, j + 1, WalkLines(node.c[2 * j].c, 1, w, dir, trees), dir, trees)

TreeAt(trees, path) == LET ix == { i \in 1..Len(trees) : trees[i].path = path } IN
                       IF ix = {} THEN <<>> ELSE <<trees[CHOOSE i \in ix : TRUE].node>>

WalkStmt(node, w, dir, trees) ==
    LET k == node.k IN
    CASE k = "assign" /\ IsTargetCall(node.c[1]) ->
           LET r == AddTarget(node.c[1], w, dir) IN
           IF r.ok THEN [r.w EXCEPT !.env = SetVar(r.w.env, node.cs, VTgt(r.name))] ELSE r.w
      [] IsTargetCall(node) -> AddTarget(node, w, dir).w
      [] k = "call" /\ node.v = "project" -> SetProject(node, w)
      [] k = "call" /\ node.v = "subdir" ->
           LET a == node.c[1]
               d == IF Len(a.c) = 1 THEN PEval(a.c[1], w.env, dir) ELSE Err
               sub == IF d.k = "str" THEN Join(dir, d.s) ELSE Unknown
               t == TreeAt(trees, Join(sub, BuildFileName))
           IN IF t = <<>> \/ sub \in w.visited THEN w
              ELSE WalkLines(t[1].c, 1, [w EXCEPT !.visited = @ \cup {sub}], sub, trees)
      [] k = "assign" /\ ~IsTargetCall(node.c[1]) ->
           [w EXCEPT !.env = SetVar(w.env, node.cs, PEval(node.c[1], w.env, dir))]
      [] k = "plusassign" ->
           LET v == PEval(node.c[1], w.env, dir)
               old == IF EnvHas(w.env, node.cs) THEN EnvGet(w.env, node.cs) ELSE Err
           IN [w EXCEPT !.env = SetVar(w.env, node.cs, IF IsErr(old) THEN old ELSE IF IsErr(v) THEN v ELSE Arith("+", old, v))]
      [] k = "if" ->
           LET conds == { j \in 1..(Len(node.c) \div 2) : Rejected(PEval(node.c[2 * j - 1], w.env, dir)) } IN
           WalkArms(node, 1, [w EXCEPT !.bad = @ \/ conds # {}], dir, trees)
      [] k = "call" /\ ~IsTargetCall(node) /\ node.v \notin {"project", "subdir"} ->
           \* any other function call (message(...), ...): its arguments must at least be evaluable
           LET a == node.c[1]
               vs == PEvalSeq(a.c, w.env, dir) \o [j \in 1..Len(a.d) |-> PEval(a.d[j].c[2], w.env, dir)]
           IN [w EXCEPT !.bad = @ \/ \E j \in 1..Len(vs) : Rejected(vs[j])]
      [] OTHER -> w

\* trees: sequence of [path, node] (node = parsed block of that build file); the root file is meson.build
ProjectOf(trees) ==
    LET root == TreeAt(trees, BuildFileName)
        w == IF root = <<>> THEN W0 ELSE WalkLines(root[1].c, 1, W0, <<>>, trees)
    IN [tg |-> w.tg, pk |-> w.pk, dopts |-> w.dopts, vars |-> EnvAsSet(w.env), via |-> w.via, nproj |-> w.nproj, dup |-> w.dup, bad |-> w.bad]

=============================================================================
