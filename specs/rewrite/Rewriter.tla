------------------------------ MODULE Rewriter ------------------------------
(***************************************************************************)
(* What a `meson rewrite` command does to a project (property C17),        *)
(* written from docs/markdown/Rewriter.md ("script mode" operations).      *)
(*                                                                          *)
(* Abstract project:                                                        *)
(*   tg     set of targets [name, kind, dir, src, extra, kw]                *)
(*          name  target name              kind  defining function          *)
(*          dir   sub-directory of the build file ("" = root)               *)
(*          src / extra  sets of file names relative to the source root     *)
(*          kw    set of <<keyword, value>> - every other keyword argument  *)
(*   pk     keyword arguments of project() except default_options           *)
(*   dopts  project default options as set of <<option, value>>             *)
(*   vars   variable store of the build files as set of <<name, value>>     *)
(* Values are the records of MesonValues; target names, file names,        *)
(* variable names and option names/values are opaque to this module         *)
(* (strings in the model, code point sequences in traces); keywords are     *)
(* strings.                                                                  *)
(*                                                                          *)
(* A command is a record [op, fn, t, kind, dir, files, kws, opts]:          *)
(*   op    src_add src_rm extra_files_add extra_files_rm target_add         *)
(*         target_rm info kw_set kw_delete kw_add kw_remove do_set do_delete *)
(*   fn    "target" | "project" (kw_ ops)       t   addressed target / id   *)
(*   files set of file names      kws  sequence of [k, ty, v] (keyword,     *)
(*         "val" literal value | "ids" value is an array of variable names  *)
(*         to be resolved through vars | "id" one variable name)            *)
(*   opts  sequence of <<option, value>>                                    *)
(***************************************************************************)
EXTENDS MesonValues

Target(name, kind, dir, src, extra, kw) == [name |-> name, kind |-> kind, dir |-> dir, src |-> src, extra |-> extra, kw |-> kw]
VTgt(name) == Val("tgt", 0, name, <<>>)

Cmd(op, fn, t, kind, dir, files, kws, opts) ==
    [op |-> op, fn |-> fn, t |-> t, kind |-> kind, dir |-> dir, files |-> files, kws |-> kws, opts |-> opts]
KwArg(k, ty, v) == [k |-> k, ty |-> ty, v |-> v]

SrcOps == {"src_add", "src_rm"}
ExtraOps == {"extra_files_add", "extra_files_rm"}
KwOps == {"kw_set", "kw_delete", "kw_add", "kw_remove"}
DoOps == {"do_set", "do_delete"}
TargetOps == SrcOps \cup ExtraOps \cup {"target_add", "target_rm", "info"}

\* keyword arguments that hold lists: a scalar stands for the one-element list, an absent key for the empty one
ListKeys == {"dependencies", "link_with", "license", "license_files", "default_options"}
Listify(v) == IF v.k = "arr" THEN v.e ELSE <<v>>

\* ---- pair sets as partial functions ------------------------------------------------------------------
Has(ps, k) == \E p \in ps : p[1] = k
Get(ps, k) == (CHOOSE p \in ps : p[1] = k)[2]
Put(ps, k, v) == { p \in ps : p[1] # k } \cup {<<k, v>>}
Del(ps, k) == { p \in ps : p[1] # k }

\* ---- addressing -----------------------------------------------------------------------------------------
\* "the rewriter also searches for assignments": a name that is no target name but a variable holding a target
ByName(st, n) == { t \in st.tg : t.name = n }
ByVar(st, n) == { t \in st.tg : <<n, VTgt(t.name)>> \in st.vars }
Addressed(st, n) == IF ByName(st, n) # {} THEN ByName(st, n) ELSE ByVar(st, n)
Unique(S) == \E x \in S : S = {x}
The(S) == CHOOSE x \in S : TRUE

\* a command the rewriter must carry out (otherwise it must refuse and change nothing)
Applicable(st, c) ==
    CASE c.op = "target_add" -> Addressed(st, c.t) = {}
      [] c.op \in TargetOps -> Unique(Addressed(st, c.t))
      [] c.op \in KwOps -> IF c.fn = "project" THEN TRUE ELSE Unique(Addressed(st, c.t))
      [] c.op \in DoOps -> TRUE
      [] OTHER -> FALSE

\* ---- keyword argument edits -------------------------------------------------------------------------------
VarVal(st, n) == IF Has(st.vars, n) THEN Get(st.vars, n) ELSE Err
\* the value a [k, ty, v] argument denotes
ArgVal(st, a) ==
    CASE a.ty = "ids" -> VArr([i \in 1..Len(a.v.e) |-> VarVal(st, a.v.e[i].s)])
      [] a.ty = "id" -> VarVal(st, a.v.s)
      [] OTHER -> a.v

RemoveAll(xs, ys) == SelectSeq(xs, LAMBDA x : ~\E j \in 1..Len(ys) : ys[j] = x)

EditKw(st, kw, op, a) ==
    LET old == IF Has(kw, a.k) THEN Listify(Get(kw, a.k)) ELSE <<>> IN
    CASE op = "kw_set" -> Put(kw, a.k, ArgVal(st, a))
      [] op = "kw_delete" -> Del(kw, a.k)
      [] op = "kw_add" -> Put(kw, a.k, VArr(old \o Listify(ArgVal(st, a))))
      [] op = "kw_remove" -> Put(kw, a.k, VArr(RemoveAll(old, Listify(ArgVal(st, a)))))

RECURSIVE EditKws(_, _, _, _, _)
EditKws(st, kw, op, kws, i) == IF i > Len(kws) THEN kw ELSE EditKws(st, EditKw(st, kw, op, kws[i]), op, kws, i + 1)

\* list-valued keywords are compared as lists, an empty list as absence
NormKw(kw) == { <<p[1], IF p[1] \in ListKeys THEN VArr(Listify(p[2])) ELSE p[2]>> :
                p \in { q \in kw : ~(q[1] \in ListKeys /\ Listify(q[2]) = <<>>) } }

\* ---- default options ----------------------------------------------------------------------------------------
RECURSIVE PutAll(_, _, _), DelAll(_, _, _)
PutAll(ps, opts, i) == IF i > Len(opts) THEN ps ELSE PutAll(Put(ps, opts[i][1], opts[i][2]), opts, i + 1)
DelAll(ps, opts, i) == IF i > Len(opts) THEN ps ELSE DelAll(Del(ps, opts[i][1]), opts, i + 1)

\* ---- the step function ------------------------------------------------------------------------------------------
Join(dir, f) == IF dir = <<>> THEN f ELSE dir \o <<47>> \o f

WithTarget(st, old, new) == [st EXCEPT !.tg = (st.tg \ {old}) \cup {new}]

Apply(st, c) ==
    LET t == The(Addressed(st, c.t)) IN
    CASE c.op = "src_add" -> WithTarget(st, t, [t EXCEPT !.src = t.src \cup c.files])
      [] c.op = "src_rm" -> WithTarget(st, t, [t EXCEPT !.src = t.src \ c.files])
      [] c.op = "extra_files_add" -> WithTarget(st, t, [t EXCEPT !.extra = t.extra \cup c.files])
      [] c.op = "extra_files_rm" -> WithTarget(st, t, [t EXCEPT !.extra = t.extra \ c.files])
      [] c.op = "target_add" ->
           [st EXCEPT !.tg = st.tg \cup {Target(c.t, c.kind, c.dir, { Join(c.dir, f) : f \in c.files }, {}, {})}]
      [] c.op = "target_rm" -> [st EXCEPT !.tg = st.tg \ {t}]
      [] c.op = "info" -> st
      [] c.op \in KwOps ->
           IF c.fn = "project" THEN [st EXCEPT !.pk = EditKws(st, st.pk, c.op, c.kws, 1)]
           ELSE WithTarget(st, t, [t EXCEPT !.kw = EditKws(st, t.kw, c.op, c.kws, 1)])
      [] c.op = "do_set" -> [st EXCEPT !.dopts = PutAll(st.dopts, c.opts, 1)]
      [] c.op = "do_delete" -> [st EXCEPT !.dopts = DelAll(st.dopts, c.opts, 1)]

Step(st, c) == IF Applicable(st, c) THEN Apply(st, c) ELSE st

\* what `info` must report for a target
Info(t) == [name |-> t.name, sources |-> t.src, extra |-> t.extra]

\* the project as compared by the judge: list keywords normalised, variables left to a separate rule
View(st) == [tg |-> { [t EXCEPT !.kw = NormKw(t.kw)] : t \in st.tg }, pk |-> NormKw(st.pk), dopts |-> st.dopts]

\* ---- frame conditions (what a command may touch) -------------------------------------------------------------------
\* the field of the addressed target a command is about
Field(op) == CASE op \in SrcOps -> "src" [] op \in ExtraOps -> "extra" [] op \in KwOps -> "kw" [] OTHER -> "none"

\* a -> b by command c changes only the addressed field of the addressed target
OnlyAddressed(a, b, c) ==
    LET adr == IF c.op \in TargetOps \/ (c.op \in KwOps /\ c.fn = "target") THEN Addressed(a, c.t) ELSE {}
        others == a.tg \ adr
    IN /\ others \subseteq b.tg                                                \* every other target is untouched
       /\ a.vars = b.vars
       /\ (c.op \notin DoOps => a.dopts = b.dopts)
       /\ (~(c.op \in KwOps /\ c.fn = "project") => a.pk = b.pk)
       /\ CASE c.op = "target_add" -> \A t \in b.tg \ a.tg : t.name = c.t /\ a.tg \subseteq b.tg
            [] c.op = "target_rm" -> b.tg \subseteq a.tg
            [] c.op \in DoOps \/ c.op = "info" \/ (c.op \in KwOps /\ c.fn = "project") -> a.tg = b.tg
            [] OTHER ->
                 IF ~Unique(adr) THEN a.tg = b.tg
                 ELSE LET t == The(adr)
                          rest == b.tg \ others
                      IN Unique(rest) /\ LET u == The(rest) IN
                           /\ u.name = t.name /\ u.kind = t.kind /\ u.dir = t.dir
                           /\ (Field(c.op) # "src" => u.src = t.src)
                           /\ (Field(c.op) # "extra" => u.extra = t.extra)
                           /\ (Field(c.op) # "kw" => u.kw = t.kw)
                           /\ (Field(c.op) = "kw" => \A p \in (u.kw \ t.kw) \cup (t.kw \ u.kw) :
                                                         \E j \in 1..Len(c.kws) : c.kws[j].k = p[1])


\* ---- directories: where a list is written and where the target is defined ------------------------------------------
\* Build files live in directories (subdir()); a target of directory tdir may take its sources / extra files from a
\* list that is written in another build file (a variable assigned in the parent or in a sibling directory).  Meson
\* resolves the elements of such a list by the KIND of the list:
\*   "strings"  plain strings are file names relative to the directory of the TARGET that consumes them;
\*   "files"    files(...) objects remember the directory of the build file files() is WRITTEN in.
\* The file names of a command are relative to the source root.  Paths are code point sequences, "/" separates.
RECURSIVE SplitAt(_, _, _), NormSegs(_, _), JoinSegs(_), CommonLen(_, _, _)
SplitAt(p, i, cur) == IF i > Len(p) THEN <<cur>>
                      ELSE IF p[i] = 47 THEN <<cur>> \o SplitAt(p, i + 1, <<>>) ELSE SplitAt(p, i + 1, Append(cur, p[i]))
Segs(p) == SplitAt(p, 1, <<>>)
SegDot == <<46>>
SegUp == <<46, 46>>
NormSegs(segs, acc) ==
    IF segs = <<>> THEN acc
    ELSE LET s == Head(segs) IN
         IF s = <<>> \/ s = SegDot THEN NormSegs(Tail(segs), acc)
         ELSE IF s = SegUp /\ acc # <<>> /\ acc[Len(acc)] # SegUp THEN NormSegs(Tail(segs), SubSeq(acc, 1, Len(acc) - 1))
         ELSE NormSegs(Tail(segs), Append(acc, s))
JoinSegs(segs) == IF segs = <<>> THEN <<>> ELSE IF Len(segs) = 1 THEN segs[1] ELSE segs[1] \o <<47>> \o JoinSegs(Tail(segs))
PathSegs(p) == NormSegs(Segs(p), <<>>)
\* the path without ".", ".." and empty segments ("s/../a.c" = "a.c")
NormPath(p) == JoinSegs(PathSegs(p))
CommonLen(a, b, k) == IF k < Len(a) /\ k < Len(b) /\ a[k + 1] = b[k + 1] THEN CommonLen(a, b, k + 1) ELSE k
\* how the file p (relative to the root) is written relative to the directory base
RelPath(base, p) ==
    LET bs == PathSegs(base)
        ps == PathSegs(p)
        k == CommonLen(bs, ps, 0)
    IN JoinSegs([j \in 1..(Len(bs) - k) |-> SegUp] \o SubSeq(ps, k + 1, Len(ps)))

\* the directory the elements of a list are relative to
BaseDir(kind, wdir, tdir) == IF kind = "files" THEN wdir ELSE tdir
\* the file (relative to the root) an element e of a list of that kind, written in wdir and consumed by a target of tdir, denotes
Resolve(kind, wdir, tdir, e) == NormPath(Join(BaseDir(kind, wdir, tdir), e))
\* how the file f must be written in such a list
Spell(kind, wdir, tdir, f) == RelPath(BaseDir(kind, wdir, tdir), f)

\* A layout project: lists [kind, wdir, items] by name, targets [name, dir, src, extra] whose src / extra are sets of
\* list names.  It denotes the abstract project LayoutProject(lp).
SrcList(kind, wdir, items) == [kind |-> kind, wdir |-> wdir, items |-> items]
LTarget(name, dir, src, extra) == [name |-> name, dir |-> dir, src |-> src, extra |-> extra]
Denotes(L, tdir) == { Resolve(L.kind, L.wdir, tdir, e) : e \in L.items }
ListsOf(t, fld) == IF fld = "src" THEN t.src ELSE t.extra
FilesOf(lp, t, fld) == UNION { Denotes(lp.lists[l], t.dir) : l \in ListsOf(t, fld) }
LayoutProject(lp) ==
    [tg |-> { Target(t.name, "executable", t.dir, FilesOf(lp, t, "src"), FilesOf(lp, t, "extra"), {}) : t \in lp.tg },
     pk |-> {}, dopts |-> {}, vars |-> {}]
\* the lists only this field of this target is fed from: the only ones an edit may touch
PrivateLists(lp, t, fld) == { l \in ListsOf(t, fld) : \A u \in lp.tg : \A g \in {"src", "extra"} : (l \in ListsOf(u, g)) => (u = t /\ g = fld) }
SharedFiles(lp, t, fld) == UNION { Denotes(lp.lists[l], t.dir) : l \in ListsOf(t, fld) \ PrivateLists(lp, t, fld) }
\* the edit of an add command carried out in list l: every file the target does not have yet is written as Spell says
AddInList(lp, t, fld, l, fs) ==
    LET L == lp.lists[l] IN
    [lp EXCEPT !.lists[l].items = @ \cup { Spell(L.kind, L.wdir, t.dir, f) : f \in fs \ FilesOf(lp, t, fld) }]
\* the edit of a remove command: every element of a private list that denotes one of the files goes
RmInLists(lp, t, fld, fs) ==
    [lp EXCEPT !.lists = [l \in DOMAIN lp.lists |->
        IF l \in PrivateLists(lp, t, fld)
        THEN [lp.lists[l] EXCEPT !.items = { e \in @ : Resolve(lp.lists[l].kind, lp.lists[l].wdir, t.dir, e) \notin fs }]
        ELSE lp.lists[l]]]

=============================================================================
