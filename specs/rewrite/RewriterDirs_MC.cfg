SPECIFICATION Spec
CONSTANTS MaxLen = 2
INVARIANT AddRefines
INVARIANT RmRefines
INVARIANT AddRmRestores
INVARIANT OthersKeep
CHECK_DEADLOCK FALSE
