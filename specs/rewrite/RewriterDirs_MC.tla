--------------------------- MODULE RewriterDirs_MC ---------------------------
(* Multi-directory projects (C17): a target defined in one build file whose   *)
(* source / extra_files list is written in another one.  Laws of the path     *)
(* resolution rule of Rewriter (Resolve / Spell per list kind) and of the     *)
(* list-level edits: they refine the command rule book (Rewriter!Step) on the *)
(* project the layout denotes, for every layout reachable by <= MaxLen edits. *)
EXTENDS Rewriter, TLC

CONSTANTS MaxLen

Root == <<>>
DS == <<115>>                         \* s      the directory of the targets
DO == <<111>>                         \* o      a sibling directory
DD == <<115, 47, 100>>                \* s/d    a directory below
Dirs == {Root, DS, DO, DD}
NC == <<110, 46, 99>>                 \* n.c
AC == <<97, 46, 99>>                  \* a.c
Files == { Join(d, f) : d \in Dirs, f \in {NC, AC} }
Kinds == {"strings", "files"}

T1 == <<116, 49>>
T2 == <<116, 50>>

\* list in the parent, target in the child (strings / files()); list in child o used by the target of child s;
\* a list shared by two targets of different directories; a target of the root fed from a list written below
Layout(k1, k2, w1, w2, d1, d2) ==
    [lists |-> [l \in {"L1", "L2", "LS"} |->
                   CASE l = "L1" -> SrcList(k1, w1, {AC})
                     [] l = "L2" -> SrcList(k2, w2, {AC})
                     [] OTHER -> SrcList(k1, w2, {NC})],
     tg |-> {LTarget(T1, d1, {"L1", "LS"}, {"L2"}), LTarget(T2, d2, {"LS"}, {})}]
Inits == { Layout(k1, k2, w1, w2, d1, d2) : k1 \in Kinds, k2 \in Kinds, w1 \in {Root, DO}, w2 \in {DO, DS}, d1 \in {DS, Root}, d2 \in {DS, DD} }

VARIABLES lp, n
vars == <<lp, n>>

Flds == {"src", "extra"}
FileSets == { {f} : f \in Files } \cup { {Join(DS, NC), Join(DO, NC)}, {NC, Join(DS, AC)} }

Init == lp \in Inits /\ n = 0
Add(t, fld, l, fs) == lp' = AddInList(lp, t, fld, l, fs)
Rm(t, fld, fs) == lp' = RmInLists(lp, t, fld, fs)
Next == /\ n < MaxLen /\ n' = n + 1
        /\ \E t \in lp.tg, fld \in Flds, fs \in FileSets :
              \/ \E l \in PrivateLists(lp, t, fld) : Add(t, fld, l, fs)
              \/ Rm(t, fld, fs)
Spec == Init /\ [][Next]_vars

TCmd(op, t, fs) == Cmd(op, "target", t, "executable", <<>>, fs, <<>>, <<>>)
AddOp(fld) == IF fld = "src" THEN "src_add" ELSE "extra_files_add"
RmOp(fld) == IF fld = "src" THEN "src_rm" ELSE "extra_files_rm"

\* ---- the path rule ---------------------------------------------------------------------------------------------
\* what is written for a file denotes that file, whatever the kind of the list and the two directories
SpellDenotes == \A k \in Kinds, w \in Dirs, d \in Dirs, f \in Files : Resolve(k, w, d, Spell(k, w, d, f)) = f
\* normal forms: normalising twice changes nothing; a file relative to the root is its own normal form
NormIdempotent == \A f \in Files, d \in Dirs : NormPath(NormPath(Join(d, f))) = NormPath(Join(d, f)) /\ NormPath(f) = f
\* the directory matters: for two different directories some file is written differently, and reading a strings list
\* against any other directory than the target's denotes another file
BaseMatters == \A d \in Dirs, e \in Dirs : d # e => \E f \in Files : /\ RelPath(d, f) # RelPath(e, f)
                                                                      /\ NormPath(Join(e, RelPath(d, f))) # f
\* plain strings follow the consumer, files() the place they are written
KindRule == \A w \in Dirs, d \in Dirs, f \in Files :
               /\ Resolve("strings", w, d, f) = NormPath(Join(d, f))
               /\ Resolve("files", w, d, f) = NormPath(Join(w, f))

\* ---- list-level edits refine the rule book ---------------------------------------------------------------------------
AddRefines ==
    \A t \in lp.tg, fld \in Flds, fs \in FileSets : \A l \in PrivateLists(lp, t, fld) :
        LayoutProject(AddInList(lp, t, fld, l, fs)) = Step(LayoutProject(lp), TCmd(AddOp(fld), t.name, fs))
\* files that (also) reach the target through a list shared with another target may stay
RmRefines ==
    \A t \in lp.tg, fld \in Flds, fs \in FileSets :
        \E kept \in SUBSET (fs \cap SharedFiles(lp, t, fld)) :
            LayoutProject(RmInLists(lp, t, fld, fs)) = Step(LayoutProject(lp), TCmd(RmOp(fld), t.name, fs \ kept))
\* adding a new file and removing it again restores what every list denotes for every target; removing a private file
\* and adding it again keeps it
AddRmRestores ==
    \A t \in lp.tg, fld \in Flds, f \in Files : \A l \in PrivateLists(lp, t, fld) :
        /\ f \notin FilesOf(lp, t, fld) => LayoutProject(RmInLists(AddInList(lp, t, fld, l, {f}), t, fld, {f})) = LayoutProject(lp)
        /\ (f \in FilesOf(lp, t, fld) /\ f \notin SharedFiles(lp, t, fld)) =>
              LayoutProject(AddInList(RmInLists(lp, t, fld, {f}), t, fld, l, {f})) = LayoutProject(lp)
\* an edit for one target never changes what another target (or the other field) gets
OthersKeep ==
    \A t \in lp.tg, fld \in Flds, fs \in FileSets :
        LET after == {RmInLists(lp, t, fld, fs)} \cup { AddInList(lp, t, fld, l, fs) : l \in PrivateLists(lp, t, fld) } IN
        \A a \in after : \A u \in lp.tg, g \in Flds : (u # t \/ g # fld) => FilesOf(a, u, g) = FilesOf(lp, u, g)

ASSUME PathLaws == SpellDenotes /\ NormIdempotent /\ BaseMatters /\ KindRule

PostCondition == TLCGet("stats").diameter >= 0
=============================================================================
