---------------------------- MODULE RewriterModel ----------------------------
(* The small model of Rewriter used for model checking (Rewriter_MC) and, as   *)
(* the source of command sequences, for the spec -> code replay: 2 targets x   *)
(* 3 file names x 2 keywords, a variable holding each target, one project      *)
(* keyword and one default option.                                              *)
EXTENDS Rewriter

T1 == <<116, 49>>                 \* t1
T2 == <<116, 50>>                 \* t2
X1 == <<120, 49>>                 \* x1 : variable holding t1
X2 == <<120, 50>>                 \* x2 : variable holding t2
FA == <<97, 46, 99>>              \* a.c
FB == <<98, 46, 99>>              \* b.c
FC == <<99, 46, 99>>              \* c.c
Opt == <<98, 117, 105, 108, 100, 116, 121, 112, 101>>       \* buildtype
O1 == <<114, 101, 108, 101, 97, 115, 101>>                  \* release
O2 == <<100, 101, 98, 117, 103>>                            \* debug
Ver1 == VStr(<<49, 46, 48>>)       \* '1.0'
Ver2 == VStr(<<50, 46, 48>>)       \* '2.0'
Positional == <<"<positional>", VArr(<<VStr(<<112>>)>>)>>   \* project('p')

Names == {T1, T2, X1}
FileSets == {{FA}, {FB}, {FC}, {FA, FB}}

\* initial projects
Init1 == [tg |-> {Target(T1, "executable", <<>>, {FA}, {}, {<<"install", VBool(TRUE)>>}),
                  Target(T2, "static_library", <<>>, {FA, FB}, {FC}, {})},
          pk |-> {Positional, <<"version", Ver1>>}, dopts |-> {<<Opt, O1>>},
          vars |-> {<<X1, VTgt(T1)>>, <<X2, VTgt(T2)>>}]
Init2 == [tg |-> {Target(T1, "executable", <<>>, {FA, FB}, {}, {<<"link_with", VArr(<<>>)>>})},
          pk |-> {Positional}, dopts |-> {}, vars |-> {<<X1, VTgt(T1)>>, <<X2, VStr(<<122>>)>>}]      \* x2 = 'z'
\* two targets of the same name: every command addressing the name must be refused
Init3 == [tg |-> {Target(T1, "executable", <<>>, {FA}, {}, {}), Target(T1, "static_library", <<>>, {FB}, {}, {})},
          pk |-> {Positional}, dopts |-> {}, vars |-> {}]
Inits == <<Init1, Init2, Init3>>

NoKw == <<>>
NoOpts == <<>>
TCmd(op, t, fs) == Cmd(op, "target", t, "executable", <<>>, fs, NoKw, NoOpts)
KCmd(op, fn, t, kws) == Cmd(op, fn, t, "executable", <<>>, {}, kws, NoOpts)
DCmd(op, opts) == Cmd(op, "project", <<47>>, "executable", <<>>, {}, NoKw, opts)

Commands ==
    { TCmd(op, t, fs) : op \in SrcOps \cup ExtraOps, t \in Names, fs \in FileSets }
    \cup { TCmd("target_add", t, {FC}) : t \in {T1, T2} }
    \cup { TCmd(op, t, {}) : op \in {"target_rm", "info"}, t \in Names }
    \cup { KCmd("kw_set", "target", t, <<KwArg("install", "val", VBool(b))>>) : t \in Names, b \in BOOLEAN }
    \cup { KCmd(op, "target", t, <<KwArg("link_with", "ids", VArr(<<VStr(X2)>>))>>) : op \in {"kw_set", "kw_add", "kw_remove"}, t \in {T1, X1} }
    \cup { KCmd("kw_delete", "target", t, <<KwArg(k, "val", VVoid)>>) : t \in {T1, X1}, k \in {"install", "link_with"} }
    \cup { KCmd("kw_set", "project", <<47>>, <<KwArg("version", "val", Ver2)>>),
           KCmd("kw_delete", "project", <<47>>, <<KwArg("version", "val", VVoid)>>),
           KCmd("kw_add", "project", <<47>>, <<KwArg("license", "val", VArr(<<VStr(<<77>>)>>))>>),
           KCmd("kw_remove", "project", <<47>>, <<KwArg("license", "val", VArr(<<VStr(<<77>>)>>))>>),
           DCmd("do_set", <<<<Opt, O1>>>>), DCmd("do_set", <<<<Opt, O2>>>>), DCmd("do_delete", <<<<Opt, <<>>>>>>) }

=============================================================================
