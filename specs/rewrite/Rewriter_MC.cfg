SPECIFICATION Spec
CONSTANTS MaxLen = 3
INVARIANT TypeOK
INVARIANT AddThenRemoveRestores
INVARIANT RemoveThenAddKeeps
INVARIANT OnlyAddressedChanges
INVARIANT InapplicableChangesNothing
INVARIANT RequestedValue
INVARIANT ListAddRemove
INVARIANT KeysUnique
CHECK_DEADLOCK FALSE
