----------------------------- MODULE Rewriter_MC -----------------------------
(* Laws of the rewriter rule book, checked over every command sequence of      *)
(* length <= MaxLen from each initial project of RewriterModel.                  *)
(* SimSpec additionally records the command history and prints finished        *)
(* behaviours as JSON (used with `tlc -simulate` for the spec -> code replay).   *)
EXTENDS RewriterModel, TLC, Json
CONSTANTS MaxLen

VARIABLES st, n, init, hist, emitted
vars == <<st, n, init, hist, emitted>>

Init == /\ init \in 1..Len(Inits) /\ st = Inits[init] /\ n = 0 /\ hist = <<>> /\ emitted = FALSE
Do(c) == /\ n < MaxLen /\ st' = Step(st, c) /\ n' = n + 1 /\ UNCHANGED <<init, hist, emitted>>
Next == \E c \in Commands : Do(c)
Spec == Init /\ [][Next]_vars

SimDo(c) == /\ n < MaxLen /\ st' = Step(st, c) /\ n' = n + 1 /\ hist' = Append(hist, c) /\ UNCHANGED <<init, emitted>>
Emit == /\ n = MaxLen /\ ~emitted /\ emitted' = TRUE /\ UNCHANGED <<st, n, init, hist>>
        /\ PrintT(ToJson([init |-> init, hist |-> hist]))
SimNext == (\E c \in Commands : SimDo(c)) \/ Emit
SimSpec == Init /\ [][SimNext]_vars

TypeOK == /\ \A t \in st.tg : t.src \subseteq {FA, FB, FC} /\ t.extra \subseteq {FA, FB, FC}
          /\ n \in 0..MaxLen

TargetNames == {T1, T2, X1, X2}
AllFiles == {FA, FB, FC}
Src(t, op, f) == TCmd(op, t, {f})
SrcOf(s, t) == The(Addressed(s, t)).src
ExtraOf(s, t) == The(Addressed(s, t)).extra

\* adding a new file and removing it again restores the original sources (and everything else)
AddThenRemoveRestores ==
    \A t \in TargetNames, f \in AllFiles :
        Unique(Addressed(st, t)) =>
            /\ (f \notin SrcOf(st, t) => Step(Step(st, Src(t, "src_add", f)), Src(t, "src_rm", f)) = st)
            /\ (f \notin ExtraOf(st, t) => Step(Step(st, Src(t, "extra_files_add", f)), Src(t, "extra_files_rm", f)) = st)
\* removing an existing file and adding it again keeps it
RemoveThenAddKeeps ==
    \A t \in TargetNames, f \in AllFiles :
        Unique(Addressed(st, t)) =>
            /\ (f \in SrcOf(st, t) => Step(Step(st, Src(t, "src_rm", f)), Src(t, "src_add", f)) = st)
            /\ (f \in ExtraOf(st, t) => Step(Step(st, Src(t, "extra_files_rm", f)), Src(t, "extra_files_add", f)) = st)
\* a command changes only the addressed field of the addressed target
OnlyAddressedChanges == \A c \in Commands : OnlyAddressed(st, Step(st, c), c)
\* a command that cannot be addressed (unknown or ambiguous target, target_add of an existing name) changes nothing
InapplicableChangesNothing == \A c \in Commands : ~Applicable(st, c) => Step(st, c) = st
\* afterwards the addressed item has exactly the requested value, and info reports it
RequestedValue ==
    \A c \in Commands : Applicable(st, c) =>
        LET s2 == Step(st, c) IN
        CASE c.op \in {"src_add", "extra_files_add", "src_rm", "extra_files_rm"} ->
               LET old == The(Addressed(st, c.t))
                   new == The(Addressed(s2, c.t))
                   i == Info(new)
               IN /\ (c.op = "src_add" => i.sources = old.src \cup c.files)
                  /\ (c.op = "src_rm" => i.sources = old.src \ c.files)
                  /\ (c.op = "extra_files_add" => i.extra = old.extra \cup c.files)
                  /\ (c.op = "extra_files_rm" => i.extra = old.extra \ c.files)
          [] c.op = "target_add" -> Unique(Addressed(s2, c.t)) /\ Info(The(Addressed(s2, c.t))).sources = c.files
          [] c.op = "target_rm" -> Addressed(s2, c.t) = {}
          [] c.op = "kw_set" ->
               LET kw == IF c.fn = "project" THEN s2.pk ELSE The(Addressed(s2, c.t)).kw IN
               \A j \in 1..Len(c.kws) : Has(kw, c.kws[j].k) /\ Get(kw, c.kws[j].k) = ArgVal(st, c.kws[j])
          [] c.op = "kw_delete" ->
               LET kw == IF c.fn = "project" THEN s2.pk ELSE The(Addressed(s2, c.t)).kw IN
               \A j \in 1..Len(c.kws) : ~Has(kw, c.kws[j].k)
          [] c.op = "do_set" -> \A j \in 1..Len(c.opts) : <<c.opts[j][1], c.opts[j][2]>> \in s2.dopts
          [] c.op = "do_delete" -> \A j \in 1..Len(c.opts) : ~Has(s2.dopts, c.opts[j][1])
          [] OTHER -> TRUE
\* list keywords: adding then removing a value that was not there restores the keyword up to normalisation
ListAddRemove ==
    \A c \in Commands : (c.op = "kw_add" /\ Applicable(st, c)) =>
        LET back == [c EXCEPT !.op = "kw_remove"]
            kw0 == IF c.fn = "project" THEN st.pk ELSE The(Addressed(st, c.t)).kw
            fresh == \A j \in 1..Len(c.kws) : ~Has(kw0, c.kws[j].k) \/
                         \A x \in 1..Len(Listify(ArgVal(st, c.kws[j]))) :
                             \A y \in 1..Len(Listify(Get(kw0, c.kws[j].k))) :
                                 Listify(ArgVal(st, c.kws[j]))[x] # Listify(Get(kw0, c.kws[j].k))[y]
        IN fresh => View(Step(Step(st, c), back)) = View(st)
\* keys of a keyword set stay unique
KeysUnique == \A t \in st.tg : \A p, q \in t.kw : p[1] = q[1] => p = q

PostCondition == TLCGet("stats").diameter >= 0
=============================================================================
