SPECIFICATION SimSpec
CONSTANTS MaxLen = 3
CHECK_DEADLOCK FALSE
