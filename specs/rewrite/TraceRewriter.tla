---------------------------- MODULE TraceRewriter ----------------------------
(***************************************************************************)
(* Trace validation of the real `meson rewrite` (C17).  One case = one     *)
(* project (its build files) and a sequence of commands; recorded are       *)
(*   f0      the build files before: [path, t (token indices), codes, trivs] *)
(*           codes = texts of the top-level statements, trivs = the text     *)
(*           before the first / after each statement (comments, blank lines, *)
(*           trailing comments) - both as indices into Batch.texts           *)
(*   steps   per command: cmd (abstract command), failed (non-zero exit      *)
(*           status / ERROR / traceback), parses (every build file is        *)
(*           accepted by the real parser afterwards), files (as f0), info    *)
(*           (what `info` printed for every target afterwards)               *)
(*   model   0, or the index of the RewriterModel initial project the case   *)
(*           was rendered from (spec -> code replay)                          *)
(* The judge folds Rewriter!Step over the commands starting from             *)
(* ProjectOf(f0) and requires after every step: the files parse, the         *)
(* project they denote is the expected one, variables changed only as the    *)
(* command allows, the edit is textually local and info reports the state.   *)
(***************************************************************************)
EXTENDS ProjectView, RewriterModel, TLC, Json, IOUtils

Batch == JsonDeserialize(IOEnv.TRACE_FILE)
Alphabet == Batch.alphabet
Texts == Batch.texts
Cases == Batch.cases

VARIABLES i, done
vars == <<i, done>>

V(c, clause, step, note) == [id |-> c.id, clause |-> clause, step |-> step, note |-> note]
Toks(ix) == [j \in 1..Len(ix) |-> Alphabet[ix[j] + 1]]
ToSet(s) == { s[j] : j \in 1..Len(s) }

\* ---- commands ----------------------------------------------------------------------------------------
CmdOf(r) == Cmd(r.op, r.fn, r.t, r.kind, r.dir, ToSet(r.files),
                [j \in 1..Len(r.kws) |-> KwArg(r.kws[j].k, r.kws[j].ty, r.kws[j].v)],
                [j \in 1..Len(r.opts) |-> <<r.opts[j][1], r.opts[j][2]>>])

\* ---- projection of recorded files ----------------------------------------------------------------------
Parsed(fs) == [j \in 1..Len(fs) |-> [path |-> fs[j].path, p |-> Parse(Toks(fs[j].t))]]
AllOk(ps) == \A j \in 1..Len(ps) : ps[j].p.ok
Proj(ps) == ProjectOf([j \in 1..Len(ps) |-> [path |-> ps[j].path, node |-> ps[j].p.node]])
AsState(P) == [tg |-> P.tg, pk |-> P.pk, dopts |-> P.dopts, vars |-> P.vars]

\* ---- permitted outcomes -----------------------------------------------------------------------------------
\* Removing a file that reaches the target through a variable which also feeds another target may be refused
\* (the rewriter never edits a list shared with another target); everything else must be carried out.
Refusable(st, c, via) ==
    IF c.op \in {"src_rm", "extra_files_rm"} /\ Unique(Addressed(st, c.t)) THEN
         LET t == The(Addressed(st, c.t))
             fld == IF c.op = "src_rm" THEN "src" ELSE "extra"
         IN { f \in c.files : <<t.name, fld, f>> \in via /\ \E u \in st.tg : u.name # t.name /\ <<u.name, fld, f>> \in via }
    ELSE {}
Outcomes(st, c, via) == { Step(st, [c EXCEPT !.files = c.files \ kept]) : kept \in SUBSET Refusable(st, c, via) }

\* ---- variables --------------------------------------------------------------------------------------------
Bag(s) == LET vals == { s[j] : j \in 1..Len(s) } IN [v \in vals |-> Cardinality({ j \in 1..Len(s) : s[j] = v })]
SubBag(a, b) == \A v \in DOMAIN a : v \in DOMAIN b /\ a[v] <= b[v]
\* new = old plus at most n more file / string elements (order is not kept: sources are sorted)
Grown(old, new, n) ==
    /\ old.k = "arr" /\ new.k = "arr"
    /\ LET fo == FlatVals(old.e)
           fn == FlatVals(new.e)
       IN /\ SubBag(Bag(fo), Bag(fn)) /\ Len(fn) - Len(fo) <= n
          /\ \A j \in 1..Len(fn) : (fn[j] \notin DOMAIN Bag(fo)) => fn[j].k \in {"str", "file"}
VarNames(ps) == { p[1] : p \in ps }
VarsOK(a, b, c) ==
    CASE c.op \in {"src_add", "extra_files_add"} ->
           VarNames(a) = VarNames(b) /\ \A p \in a \ b : Grown(p[2], Get(b, p[1]), Cardinality(c.files))
      [] c.op \in {"src_rm", "extra_files_rm"} ->
           VarNames(a) = VarNames(b) /\ \A p \in a \ b : Grown(Get(b, p[1]), p[2], Cardinality(c.files))
      [] c.op = "target_add" -> a \subseteq b                              \* helper variables may be introduced
      [] c.op = "target_rm" -> b \subseteq a /\ \A p \in a \ b : p[2].k = "tgt"
      [] OTHER -> a = b

\* ---- textual locality ---------------------------------------------------------------------------------------
Paths(fs) == { fs[j].path : j \in 1..Len(fs) }
FileAt(fs, path) == fs[CHOOSE j \in 1..Len(fs) : fs[j].path = path]
Same(x, y) == x.codes = y.codes /\ x.trivs = y.trivs /\ x.t = y.t
Unchanged(a, b) == Paths(a) = Paths(b) /\ \A p \in Paths(a) : Same(FileAt(a, p), FileAt(b, p))
NDiff(x, y) == Cardinality({ j \in 1..Len(x.codes) : x.codes[j] # y.codes[j] })
RECURSIVE SumOver(_, _, _, _)
SumOver(a, b, ps, acc) == IF ps = {} THEN acc
                          ELSE LET p == CHOOSE q \in ps : TRUE IN SumOver(a, b, ps \ {p}, acc + NDiff(FileAt(a, p), FileAt(b, p)))
\* at most `max` statements differ, nothing is added or removed, all text between statements is kept
LocalModify(a, b, max) ==
    /\ Paths(a) = Paths(b)
    /\ \A p \in Paths(a) : LET x == FileAt(a, p)
                               y == FileAt(b, p)
                           IN Len(x.codes) = Len(y.codes) /\ x.trivs = y.trivs
    /\ SumOver(a, b, Paths(a), 0) <= max
RECURSIVE Concat(_)
Concat(ids) == IF ids = <<>> THEN <<>> ELSE Texts[ids[1] + 1] \o Concat(Tail(ids))
\* blanks, newlines and line-continuation backslashes
NoWs(s) == SelectSeq(s, LAMBDA ch : ch \notin {32, 9, 10, 13, 92})
IsPrefix(s, t) == Len(s) <= Len(t) /\ SubSeq(t, 1, Len(s)) = s
Without(s, k) == SubSeq(s, 1, k - 1) \o SubSeq(s, k + 1, Len(s))
\* one statement of one file disappears (or, for a target inside a block, one statement changes)
LocalRemove(a, b) ==
    \/ LocalModify(a, b, 1)
    \/ /\ Paths(a) = Paths(b)
       /\ \E p \in Paths(a) :
            /\ \A q \in Paths(a) \ {p} : Same(FileAt(a, q), FileAt(b, q))
            /\ LET x == FileAt(a, p)
                   y == FileAt(b, p)
               IN /\ \E k \in 1..Len(x.codes) : y.codes = Without(x.codes, k)
                  /\ NoWs(Concat(x.trivs)) = NoWs(Concat(y.trivs))          \* comments survive; blank space may go with the statement
\* statements are only appended to one file (which may be new), at most two of them
LocalAppend(a, b) ==
    /\ Paths(a) \subseteq Paths(b) /\ Cardinality(Paths(b) \ Paths(a)) <= 1
    /\ \E p \in Paths(b) :
         /\ \A q \in Paths(a) \ {p} : Same(FileAt(a, q), FileAt(b, q))
         /\ Paths(b) \ Paths(a) \subseteq {p}
         /\ LET y == FileAt(b, p)
                nx == IF p \in Paths(a) THEN Len(FileAt(a, p).codes) ELSE 0
            IN /\ Len(y.codes) - nx \in 1..2
               /\ p \in Paths(a) =>
                    LET x == FileAt(a, p) IN
                    /\ SubSeq(y.codes, 1, nx) = x.codes
                    /\ SubSeq(y.trivs, 1, nx) = SubSeq(x.trivs, 1, nx)
                    /\ IsPrefix(Texts[x.trivs[nx + 1] + 1], Texts[y.trivs[nx + 1] + 1])
Local(a, b, c, applicable) ==
    IF ~applicable \/ c.op = "info" THEN Unchanged(a, b)
    ELSE CASE c.op = "target_add" -> LocalAppend(a, b)
           [] c.op = "target_rm" -> LocalRemove(a, b)
           [] c.op \in {"src_rm", "extra_files_rm"} -> LocalModify(a, b, Cardinality(c.files))
           [] OTHER -> LocalModify(a, b, 1)

\* ---- info ------------------------------------------------------------------------------------------------------
InfoOK(P, info) ==
    LET uniq == { t \in P.tg : \A u \in P.tg : u.name = t.name => u = t } IN
    /\ \A t \in uniq : \E j \in 1..Len(info) : info[j].name = t.name /\ ToSet(info[j].sources) = t.src /\ ToSet(info[j].extra) = t.extra
    /\ \A j \in 1..Len(info) : \E t \in P.tg : t.name = info[j].name

\* ---- which part of the project differs -----------------------------------------------------------------------------
KwDiff(a, b) == LET d == (a \ b) \cup (b \ a) IN IF d = {} THEN "" ELSE (CHOOSE p \in d : TRUE)[1]
TargetDiff(x, y) ==
    IF x.kind # y.kind THEN "kind" ELSE IF x.dir # y.dir THEN "subdir" ELSE IF x.src # y.src THEN "sources"
    ELSE IF x.extra # y.extra THEN "extra_files" ELSE "kwarg " \o KwDiff(x.kw, y.kw)
Which(e, p, c) ==
    LET en == { t.name : t \in e.tg }
        pn == { t.name : t \in p.tg }
    IN IF en # pn THEN "set of targets"
       ELSE IF e.tg # p.tg THEN
            LET x == CHOOSE t \in e.tg : t \notin p.tg
                cands == { u \in p.tg : u.name = x.name /\ u \notin e.tg }
            IN IF cands = {} THEN "set of targets"
               ELSE (IF x.name = c.t \/ <<c.t, VTgt(x.name)>> \in e.vars THEN "addressed target: " ELSE "other target: ")
                    \o TargetDiff(x, CHOOSE u \in cands : TRUE)
       ELSE IF e.pk # p.pk THEN "project kwarg " \o KwDiff(e.pk, p.pk)
       ELSE "default_options"

\* ---- the judge --------------------------------------------------------------------------------------------------------
RECURSIVE JudgeFrom(_, _, _, _, _)
JudgeFrom(c, j, st, via, prev) ==
    IF j > Len(c.steps) THEN V(c, "ok", 0, "")
    ELSE LET s == c.steps[j]
             cmd == CmdOf(s.cmd)
             app == Applicable(st, cmd)
         IN IF ~s.parses THEN V(c, "DoesNotParse", j, cmd.op)
            ELSE LET ps == Parsed(s.files) IN
                 IF ~AllOk(ps) THEN V(c, "RejectedByReferenceGrammar", j, cmd.op)
                 ELSE LET P == Proj(ps)
                          outs == Outcomes(st, cmd, via)
                          hit == { e \in outs : View(e) = View(AsState(P)) }
                      IN IF app /\ s.failed THEN V(c, "FailedCommand", j, cmd.op)
                         ELSE IF hit = {} THEN
                              V(c, "ProjectDiffers", j, cmd.op \o ": " \o Which(View(Step(st, cmd)) @@ [vars |-> st.vars], View(AsState(P)) @@ [vars |-> P.vars], cmd))
                         ELSE IF ~app /\ ~s.failed THEN V(c, "InapplicableCommandAccepted", j, cmd.op)
                         ELSE IF ~VarsOK(st.vars, P.vars, cmd) THEN V(c, "ProjectDiffers", j, cmd.op \o ": variables")
                         ELSE IF ~Local(prev, s.files, cmd, app) THEN V(c, "NotLocal", j, cmd.op)
                         ELSE IF s.infofail \/ ~InfoOK(P, s.info) THEN V(c, "InfoDiffers", j, cmd.op)
                         ELSE JudgeFrom(c, j + 1, AsState(P), P.via, s.files)

\* a build file whose expressions the reference evaluator rejects is not a project (the generators emit a few)
\* (reason 3 - the reference does not determine the value, e.g. 'x'.format(1) - included: such an argument cannot be
\* compared before / after, and the real interpreters may go on with it into an operation that fails)
BadVal(v) == IsErr(v)
InvalidProject(P) == \/ \E t \in P.tg : (\E p \in t.kw : BadVal(p[2])) \/ Unknown \in t.src \cup t.extra
                     \/ \E p \in P.pk : BadVal(p[2])
                     \/ \E p \in P.vars : BadVal(p[2])
                     \/ P.nproj # 1 \/ P.bad

ModelOK(c, P) == c.model = 0 \/ (View(AsState(P)) = View(Inits[c.model]) /\ Inits[c.model].vars \subseteq P.vars)

Judge(c) ==
    LET ps == Parsed(c.f0) IN
    IF ~AllOk(ps) THEN V(c, "InputRejectedByReferenceGrammar", 0, "")
    ELSE LET P == Proj(ps) IN
         IF InvalidProject(P) THEN V(c, "skip:InvalidProject", 0, "")
         ELSE IF ~ModelOK(c, P) THEN V(c, "ModelProjectMismatch", 0, "")
         ELSE JudgeFrom(c, 1, AsState(P), P.via, c.f0)

Init == i \in 1..Len(Cases) /\ done = FALSE
Next == /\ ~done
        /\ done' = TRUE
        /\ i' = i
        /\ LET v == Judge(Cases[i]) IN v.clause = "ok" \/ PrintT(ToJson(v))
Spec == Init /\ [][Next]_vars
=============================================================================
