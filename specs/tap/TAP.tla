--------------------------------- MODULE TAP ---------------------------------
(***************************************************************************)
(* Test Anything Protocol (TAP 12/13) as `meson test` must interpret it    *)
(* (property C18).                                                          *)
(*                                                                          *)
(* Two formulations over an abstract line alphabet:                        *)
(*   - an operational, implementation-shaped parser state machine          *)
(*     (one `Step` per input line and one `End` at end of stream), which   *)
(*     is what traces of the real TAPParser are validated against, and     *)
(*   - a declarative rule book (`Decl*`): which positions of a whole       *)
(*     stream owe which event, written as comprehensions over positions.   *)
(* TAP_MC checks that both agree on every stream up to a bound.            *)
(***************************************************************************)
EXTENDS Integers, Sequences, FiniteSets

\* ---- numbers of every magnitude ---------------------------------------------
\* TAP numbers (test number, plan size, version) are unbounded decimal numerals.  The specification needs of a
\* number only its order relative to the other numbers of the stream, its successor (an un-numbered test line is
\* numbered "previous + 1") and how many digits it takes to write it.  A number is therefore a *magnitude class*
\* c and a small offset o, meaning  Base(c) + o, and is represented by the integer  c * Scale + o  (TLC integers
\* are 32 bit).  For |o| < Scale/2 this representation preserves <, =, max and +1, which is all the rule book uses.
\*    c = 0  o itself          c = 1  2^31 + o        c = 2  2^63 + o       c = 3  10^20 + o
\*    c = 4  10^4299 + o  (o >= 0: a numeral of 4300 digits)
\*    c = 5  10^4300 + o  (o >= 0: 4301 digits;  o = -1 is the numeral of 4300 nines)
\*    c = 6  10^4999 + o  (o >= 0: 5000 digits)
Scale == 10000000
Num(c, o) == c * Scale + o
NumClass(x) == (x + Scale \div 2) \div Scale
NumOff(x) == x - NumClass(x) * Scale
\* digits needed to write x (for the classes below 10^4299: an upper bound, they all need at most 21)
Digits(x) ==
    LET c == NumClass(x)
        o == NumOff(x)
    IN CASE c <= 3 -> 21
         [] c = 4 -> IF o >= 0 THEN 4300 ELSE 4299
         [] c = 5 -> IF o >= 0 THEN 4301 ELSE 4300
         [] OTHER -> IF o >= 0 THEN 5000 ELSE 4999

Max(a, b) == IF a >= b THEN a ELSE b
Bit(b) == IF b THEN 1 ELSE 0

\* An interpreter of TAP may be unable to represent numerals beyond some length (CPython converts between text
\* and integers only up to sys.get_int_max_str_digits() = 4300 digits).  The TAP specification does not say what
\* such a number means to a harness, so the rule book has a parameter lim: 0 = every number is representable;
\* otherwise a number is representable iff neither the numeral as written (z = its width when it is padded with
\* leading zeros, 0 = not padded) nor the number itself needs more than lim digits.  A line whose number is not
\* representable owes exactly one error event and is otherwise ignored; it never makes the parser raise.
Lims == {0, 4300}
Rep(lim, x, z) == lim = 0 \/ Max(Digits(x), z) <= lim

\* ---- abstract lines -----------------------------------------------------
\* k: "test" | "plan" | "bail" | "version" | "ystart" | "yend" | "ibody" |
\*    "comment" | "blank" | "unknown"
\* a: ok flag (test, 0/1) ; plan size ; version number ; indent (ystart, ibody)
\* n: test number, 0 = not given (unless z > 0: `ok 0`, `ok 000`)
\* d: directive "none" | "skip" | "todo"
\* z: written width of the number (n of a test line, a of a plan / version line) when it has leading zeros
LineZ(k, a, n, d, z) == [k |-> k, a |-> a, n |-> n, d |-> d, z |-> z]
Line(k, a, n, d) == LineZ(k, a, n, d, 0)
Given(ln) == ln.n # 0 \/ ln.z # 0        \* the test line carries a number

TestLines(maxnum) == { Line("test", ok, n, d) : ok \in {0, 1}, n \in 0..maxnum, d \in {"none", "skip", "todo"} }
PlanLines(maxplan) == { Line("plan", p, 0, d) : p \in 0..maxplan, d \in {"none", "skip", "todo"} }
OtherLines == { Line("bail", 0, 0, "none"), Line("version", 12, 0, "none"), Line("version", 13, 0, "none"),
                Line("ystart", 1, 0, "none"), Line("ystart", 2, 0, "none"), Line("yend", 2, 0, "none"),
                Line("ibody", 1, 0, "none"), Line("ibody", 2, 0, "none"),
                Line("comment", 0, 0, "none"), Line("blank", 0, 0, "none"), Line("unknown", 0, 0, "none") }
Alphabet(maxnum, maxplan) == TestLines(maxnum) \cup PlanLines(maxplan) \cup OtherLines

\* the second alphabet: few line forms, numbers of every magnitude class in the three positions that carry one
P31 == Num(1, 0)        \* 2^31
P63 == Num(2, 0)        \* 2^63
E20 == Num(3, 0)        \* 10^20
D4300 == Num(4, 0)      \* 10^4299, the first numeral of 4300 digits
N4300 == Num(5, -1)     \* 4300 nines, the last one
D4301 == Num(5, 0)      \* 10^4300, the first numeral of 4301 digits
D5000 == Num(6, 0)      \* 10^4999
NumberAlphabet ==
    LET T(n, z) == LineZ("test", 1, n, "none", z)
        P(a, z) == LineZ("plan", a, 0, "none", z)
        V(a, z) == LineZ("version", a, 0, "none", z)
    IN { T(0, 0), T(0, 1), T(1, 0), T(2, 0), T(3, 0), T(1, 3), T(2, 4300), T(2, 4301), T(1, 5000),
         T(P31, 0), T(P31 + 1, 0), T(P63, 0), T(E20, 0), T(D4300, 0), T(N4300, 0), T(D4301, 0), T(D5000, 0),
         LineZ("test", 0, D5000, "none", 0), LineZ("test", 1, D4301, "skip", 0), LineZ("test", 1, N4300, "todo", 0) }
       \cup
       { P(0, 0), P(1, 0), P(2, 0), P(0, 3), P(2, 4300), P(1, 4301), P(P31, 0), P(P31 + 1, 0), P(P63, 0), P(E20, 0),
         P(D4300, 0), P(N4300, 0), P(D4301, 0), P(D5000, 0),
         LineZ("plan", D5000, 0, "skip", 0), LineZ("plan", 0, 0, "skip", 4301) }
       \cup
       { V(0, 0), V(12, 0), V(13, 0), V(14, 0), V(13, 4), V(13, 4301), V(P31, 0), V(D4300, 0), V(D4301, 0), V(D5000, 0) }
       \cup
       { Line("bail", 0, 0, "none"), Line("ystart", 2, 0, "none"), Line("yend", 2, 0, "none"),
         Line("comment", 0, 0, "none"), Line("unknown", 0, 0, "none") }

\* ---- events -------------------------------------------------------------
\* k: "test" | "plan" | "bail" | "version" | "error" | "unknown"
\* n: test number / plan size / version ; r: result name or error class ; f: plan flags (2*late + skipped)
Ev(k, n, r, f) == [k |-> k, n |-> n, r |-> r, f |-> f]
Err(c) == Ev("error", 0, c, 0)

Result(ok, d) ==
    CASE d = "skip" /\ ok = 1 -> "SKIP"
      [] d = "todo" /\ ok = 1 -> "UNEXPECTEDPASS"
      [] d = "todo" /\ ok = 0 -> "EXPECTEDFAIL"
      [] OTHER -> IF ok = 1 THEN "OK" ELSE "FAIL"

\* ---- operational parser ---------------------------------------------------
\* st: "main" | "after" (just saw a test line) | "yaml"
InitL(lim) == [st |-> "main", ver |-> 12, plan |-> -1, late |-> FALSE, foundLate |-> FALSE,
               num |-> 0, last |-> 0, highest |-> 0, bailed |-> FALSE, lineno |-> 0, yind |-> 0, lim |-> lim]
InitP == InitL(0)

\* how a line is read while in the "main" state (p already has lineno advanced and st = "main")
MainStep(p, ln) ==
    CASE ln.k \in {"blank", "comment"} -> <<p, <<>>>>
      [] ln.k = "test" ->
           LET lateErr == p.plan >= 0 /\ p.late /\ ~p.foundLate
               number  == IF Given(ln) THEN ln.n ELSE p.last + 1
               high    == Max(p.highest, number)
               exceed  == p.plan >= 0 /\ number > p.plan
               evs     == (IF lateErr THEN <<Err("test-after-late-plan")>> ELSE <<>>)
                          \o (IF exceed THEN <<Err("number-exceeds-plan")>> ELSE <<>>)
                          \o <<Ev("test", number, Result(ln.a, ln.d), 0)>>
           IN IF ~Rep(p.lim, number, ln.z) THEN <<p, <<Err("invalid-test-number")>>>>
              ELSE <<[p EXCEPT !.foundLate = p.foundLate \/ lateErr, !.num = p.num + 1, !.last = number,
                               !.highest = high, !.st = "after"], evs>>
      [] ln.k = "plan" ->
           IF p.plan >= 0 THEN <<p, <<Err("second-plan")>>>>
           ELSE IF ~Rep(p.lim, ln.a, ln.z) THEN <<p, <<Err("invalid-plan")>>>>
           ELSE LET late == p.num > 0
                    skipped == ln.a = 0 \/ ln.d = "skip"
                    evs == (IF ln.d = "skip" /\ ln.a > 0 THEN <<Err("skip-plan-with-tests")>> ELSE <<>>)
                           \o (IF ln.d = "todo" THEN <<Err("bad-plan-directive")>> ELSE <<>>)
                           \o <<Ev("plan", ln.a, "", 2 * Bit(late) + Bit(skipped))>>
                IN <<[p EXCEPT !.plan = ln.a, !.late = late], evs>>
      [] ln.k = "bail" -> <<[p EXCEPT !.bailed = TRUE], <<Ev("bail", 0, "", 0)>>>>
      [] ln.k = "version" ->
           IF p.lineno # 1 THEN <<p, <<Err("misplaced-version")>>>>
           ELSE IF ~Rep(p.lim, ln.a, ln.z) THEN <<p, <<Err("invalid-version")>>>>
           ELSE IF ln.a < 13 THEN <<[p EXCEPT !.ver = ln.a], <<Err("version-too-low")>>>>
           ELSE <<[p EXCEPT !.ver = ln.a], <<Ev("version", ln.a, "", 0)>>>>
      [] OTHER -> <<p, <<Ev("unknown", 0, "", 0)>>>>   \* ystart / yend / ibody / unknown outside a YAML block

Step(p0, ln) ==
    LET p == [p0 EXCEPT !.lineno = p0.lineno + 1] IN
    CASE p.st = "after" ->
           IF p.ver >= 13 /\ ln.k = "ystart"
           THEN <<[p EXCEPT !.st = "yaml", !.yind = ln.a], <<>>>>
           ELSE MainStep([p EXCEPT !.st = "main"], ln)
      [] p.st = "yaml" ->
           IF ln.k = "yend" THEN <<[p EXCEPT !.st = "main"], <<>>>>
           ELSE IF ln.k \in {"ystart", "ibody"} /\ ln.a >= p.yind THEN <<p, <<>>>>
           ELSE LET r == MainStep([p EXCEPT !.st = "main"], ln)
                IN <<r[1], <<Err("yaml-not-terminated")>> \o r[2]>>
      [] OTHER -> MainStep(p, ln)

End(p) ==
    (IF p.st = "yaml" THEN <<Err("yaml-not-terminated")>> ELSE <<>>)
    \o (IF p.bailed THEN <<>>
        ELSE IF p.plan >= 0 /\ p.num # p.plan THEN <<Err("count-differs-from-plan")>>
        ELSE IF p.highest # p.num THEN <<Err("duplicate-or-missing-numbers")>>
        ELSE <<>>)

RECURSIVE RunFrom(_, _, _)
\* events per line (a sequence of event sequences), then the final state
RunFrom(p, s, acc) ==
    IF s = <<>> THEN <<p, acc>>
    ELSE LET r == Step(p, Head(s)) IN RunFrom(r[1], Tail(s), Append(acc, r[2]))

RunL(lim, s) == RunFrom(InitL(lim), s, <<>>)
RunAllL(lim, s) == LET r == RunL(lim, s) IN Append(r[2], End(r[1]))
Run(s) == RunL(0, s)
RunAll(s) == RunAllL(0, s)

\* ---- whole-test verdict (TestRunTAP) -----------------------------------------
RECURSIVE Flatten(_)
Flatten(ss) == IF ss = <<>> THEN <<>> ELSE Head(ss) \o Flatten(Tail(ss))

BadResult(r) == r \in {"FAIL", "UNEXPECTEDPASS"}

\* The exit statuses the verdict is quantified over: success; the generic failures 1, 2; the two statuses that
\* mean something else in the `exitcode` protocol (77 = GNU "skipped", 99 = GNU "hard error") and mean nothing
\* but "non-zero" for a TAP test; the shell's 126 / 127; 255; and death by signal (negative: SIGABRT, SIGKILL,
\* SIGSEGV, SIGTERM).
ExitDomain == {0, 1, 2, 77, 99, 126, 127, 255, -6, -9, -11, -15}

\* bad iff some subtest failed / unexpectedly passed, an error or bail-out happened, or exit status non-zero
VerdictBad(events, exitcode) ==
    \/ \E i \in 1..Len(events) : \/ events[i].k = "test" /\ BadResult(events[i].r)
                                 \/ events[i].k \in {"error", "bail"}
    \/ exitcode # 0

\* the finer classification meson reports for a TAP test (documented in Unit-tests.md: all skipped -> SKIP)
VerdictClass(events, exitcode) ==
    LET tests == { i \in 1..Len(events) : events[i].k = "test" }
        errs  == \E i \in 1..Len(events) : events[i].k \in {"error", "bail"}
        fails == \E i \in tests : BadResult(events[i].r)
    IN IF errs \/ fails \/ exitcode # 0 THEN "BAD"
       ELSE IF \A i \in tests : events[i].r = "SKIP" THEN "SKIP"
       ELSE "OK"

\* The classes of streams the verdict is stated for (what the stream alone amounts to):
\*   "broken"    an error or bail-out event            "failed"   no such event, a subtest failed / unexpectedly passed
\*   "empty"     no output at all                       "diag"     output, but no subtest and no plan
\*   "plan0"     no subtest, plan `1..0`                "plan0skip" no subtest, plan `1..0 # SKIP reason`
\*   "allskip"   subtests, every one skipped            "passed"   subtests, none bad, not all skipped
StreamClass(s) ==
    LET events == Flatten(RunAll(s))
        tests == { i \in 1..Len(events) : events[i].k = "test" }
        plans == { i \in 1..Len(s) : s[i].k = "plan" }
    IN IF \E i \in 1..Len(events) : events[i].k \in {"error", "bail"} THEN "broken"
       ELSE IF \E i \in tests : BadResult(events[i].r) THEN "failed"
       ELSE IF tests # {} THEN (IF \A i \in tests : events[i].r = "SKIP" THEN "allskip" ELSE "passed")
       ELSE IF plans # {} THEN (IF \E i \in plans : s[i].d = "skip" THEN "plan0skip" ELSE "plan0")
       ELSE IF s = <<>> THEN "empty"
       ELSE "diag"
StreamClasses == {"broken", "failed", "empty", "diag", "plan0", "plan0skip", "allskip", "passed"}

\* what a TAP test is reported as, by class of stream and exit status: the exit status can only make it worse,
\* and every non-zero status does - whatever it would mean under another protocol
VerdictTable(cls, exitcode) ==
    IF exitcode # 0 \/ cls \in {"broken", "failed"} THEN "BAD"
    ELSE IF cls = "passed" THEN "OK"
    ELSE "SKIP"

=============================================================================
