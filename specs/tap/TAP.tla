--------------------------------- MODULE TAP ---------------------------------
(***************************************************************************)
(* Test Anything Protocol (TAP 12/13) as `meson test` must interpret it    *)
(* (property C18).                                                          *)
(*                                                                          *)
(* Two formulations over an abstract line alphabet:                        *)
(*   - an operational, implementation-shaped parser state machine          *)
(*     (one `Step` per input line and one `End` at end of stream), which   *)
(*     is what traces of the real TAPParser are validated against, and     *)
(*   - a declarative rule book (`Decl*`): which positions of a whole       *)
(*     stream owe which event, written as comprehensions over positions.   *)
(* TAP_MC checks that both agree on every stream up to a bound.            *)
(***************************************************************************)
EXTENDS Integers, Sequences, FiniteSets

\* ---- abstract lines -----------------------------------------------------
\* k: "test" | "plan" | "bail" | "version" | "ystart" | "yend" | "ibody" |
\*    "comment" | "blank" | "unknown"
\* a: ok flag (test, 0/1) ; plan size ; version number ; indent (ystart, ibody)
\* n: test number, 0 = not given
\* d: directive "none" | "skip" | "todo"
Line(k, a, n, d) == [k |-> k, a |-> a, n |-> n, d |-> d]

TestLines(maxnum) == { Line("test", ok, n, d) : ok \in {0, 1}, n \in 0..maxnum, d \in {"none", "skip", "todo"} }
PlanLines(maxplan) == { Line("plan", p, 0, d) : p \in 0..maxplan, d \in {"none", "skip", "todo"} }
OtherLines == { Line("bail", 0, 0, "none"), Line("version", 12, 0, "none"), Line("version", 13, 0, "none"),
                Line("ystart", 1, 0, "none"), Line("ystart", 2, 0, "none"), Line("yend", 2, 0, "none"),
                Line("ibody", 1, 0, "none"), Line("ibody", 2, 0, "none"),
                Line("comment", 0, 0, "none"), Line("blank", 0, 0, "none"), Line("unknown", 0, 0, "none") }
Alphabet(maxnum, maxplan) == TestLines(maxnum) \cup PlanLines(maxplan) \cup OtherLines

\* ---- events -------------------------------------------------------------
\* k: "test" | "plan" | "bail" | "version" | "error" | "unknown"
\* n: test number / plan size / version ; r: result name or error class ; f: plan flags (2*late + skipped)
Ev(k, n, r, f) == [k |-> k, n |-> n, r |-> r, f |-> f]
Err(c) == Ev("error", 0, c, 0)

Result(ok, d) ==
    CASE d = "skip" /\ ok = 1 -> "SKIP"
      [] d = "todo" /\ ok = 1 -> "UNEXPECTEDPASS"
      [] d = "todo" /\ ok = 0 -> "EXPECTEDFAIL"
      [] OTHER -> IF ok = 1 THEN "OK" ELSE "FAIL"

Max(a, b) == IF a >= b THEN a ELSE b
Bit(b) == IF b THEN 1 ELSE 0

\* ---- operational parser ---------------------------------------------------
\* st: "main" | "after" (just saw a test line) | "yaml"
InitP == [st |-> "main", ver |-> 12, plan |-> -1, late |-> FALSE, foundLate |-> FALSE,
          num |-> 0, last |-> 0, highest |-> 0, bailed |-> FALSE, lineno |-> 0, yind |-> 0]

\* how a line is read while in the "main" state (p already has lineno advanced and st = "main")
MainStep(p, ln) ==
    CASE ln.k \in {"blank", "comment"} -> <<p, <<>>>>
      [] ln.k = "test" ->
           LET lateErr == p.plan >= 0 /\ p.late /\ ~p.foundLate
               number  == IF ln.n = 0 THEN p.last + 1 ELSE ln.n
               high    == Max(p.highest, number)
               exceed  == p.plan >= 0 /\ number > p.plan
               evs     == (IF lateErr THEN <<Err("test-after-late-plan")>> ELSE <<>>)
                          \o (IF exceed THEN <<Err("number-exceeds-plan")>> ELSE <<>>)
                          \o <<Ev("test", number, Result(ln.a, ln.d), 0)>>
           IN <<[p EXCEPT !.foundLate = p.foundLate \/ lateErr, !.num = p.num + 1, !.last = number,
                          !.highest = high, !.st = "after"], evs>>
      [] ln.k = "plan" ->
           IF p.plan >= 0 THEN <<p, <<Err("second-plan")>>>>
           ELSE LET late == p.num > 0
                    skipped == ln.a = 0 \/ ln.d = "skip"
                    evs == (IF ln.d = "skip" /\ ln.a > 0 THEN <<Err("skip-plan-with-tests")>> ELSE <<>>)
                           \o (IF ln.d = "todo" THEN <<Err("bad-plan-directive")>> ELSE <<>>)
                           \o <<Ev("plan", ln.a, "", 2 * Bit(late) + Bit(skipped))>>
                IN <<[p EXCEPT !.plan = ln.a, !.late = late], evs>>
      [] ln.k = "bail" -> <<[p EXCEPT !.bailed = TRUE], <<Ev("bail", 0, "", 0)>>>>
      [] ln.k = "version" ->
           IF p.lineno # 1 THEN <<p, <<Err("misplaced-version")>>>>
           ELSE IF ln.a < 13 THEN <<[p EXCEPT !.ver = ln.a], <<Err("version-too-low")>>>>
           ELSE <<[p EXCEPT !.ver = ln.a], <<Ev("version", ln.a, "", 0)>>>>
      [] OTHER -> <<p, <<Ev("unknown", 0, "", 0)>>>>   \* ystart / yend / ibody / unknown outside a YAML block

Step(p0, ln) ==
    LET p == [p0 EXCEPT !.lineno = p0.lineno + 1] IN
    CASE p.st = "after" ->
           IF p.ver >= 13 /\ ln.k = "ystart"
           THEN <<[p EXCEPT !.st = "yaml", !.yind = ln.a], <<>>>>
           ELSE MainStep([p EXCEPT !.st = "main"], ln)
      [] p.st = "yaml" ->
           IF ln.k = "yend" THEN <<[p EXCEPT !.st = "main"], <<>>>>
           ELSE IF ln.k \in {"ystart", "ibody"} /\ ln.a >= p.yind THEN <<p, <<>>>>
           ELSE LET r == MainStep([p EXCEPT !.st = "main"], ln)
                IN <<r[1], <<Err("yaml-not-terminated")>> \o r[2]>>
      [] OTHER -> MainStep(p, ln)

End(p) ==
    (IF p.st = "yaml" THEN <<Err("yaml-not-terminated")>> ELSE <<>>)
    \o (IF p.bailed THEN <<>>
        ELSE IF p.plan >= 0 /\ p.num # p.plan THEN <<Err("count-differs-from-plan")>>
        ELSE IF p.highest # p.num THEN <<Err("duplicate-or-missing-numbers")>>
        ELSE <<>>)

RECURSIVE RunFrom(_, _, _)
\* events per line (a sequence of event sequences), then the final state
RunFrom(p, s, acc) ==
    IF s = <<>> THEN <<p, acc>>
    ELSE LET r == Step(p, Head(s)) IN RunFrom(r[1], Tail(s), Append(acc, r[2]))

Run(s) == RunFrom(InitP, s, <<>>)
RunAll(s) == LET r == Run(s) IN Append(r[2], End(r[1]))

\* ---- whole-test verdict (TestRunTAP) -----------------------------------------
RECURSIVE Flatten(_)
Flatten(ss) == IF ss = <<>> THEN <<>> ELSE Head(ss) \o Flatten(Tail(ss))

BadResult(r) == r \in {"FAIL", "UNEXPECTEDPASS"}

\* bad iff some subtest failed / unexpectedly passed, an error or bail-out happened, or exit status non-zero
VerdictBad(events, exitcode) ==
    \/ \E i \in 1..Len(events) : \/ events[i].k = "test" /\ BadResult(events[i].r)
                                 \/ events[i].k \in {"error", "bail"}
    \/ exitcode # 0

\* the finer classification meson reports for a TAP test (documented in Unit-tests.md: all skipped -> SKIP)
VerdictClass(events, exitcode) ==
    LET tests == { i \in 1..Len(events) : events[i].k = "test" }
        errs  == \E i \in 1..Len(events) : events[i].k \in {"error", "bail"}
        fails == \E i \in tests : BadResult(events[i].r)
    IN IF errs \/ fails \/ exitcode # 0 THEN "BAD"
       ELSE IF \A i \in tests : events[i].r = "SKIP" THEN "SKIP"
       ELSE "OK"

=============================================================================
