------------------------------- MODULE TAPRules -------------------------------
(***************************************************************************)
(* Declarative TAP 12/13 obligations over a whole stream: for every        *)
(* position, which events that line owes, defined by comprehension over    *)
(* the positions before it - independent of the parser state machine in    *)
(* TAP.tla.  TAP_MC checks  DeclAll(L, s) = RunAllL(L, s)  for every       *)
(* stream s up to a bound and both values of the representability          *)
(* parameter L (see TAP!Rep).                                               *)
(***************************************************************************)
EXTENDS TAP

\* The protocol version of a stream: 13+ only when announced (representably) on the very first line.
DeclVersion(L, s) ==
    IF Len(s) >= 1 /\ s[1].k = "version" /\ Rep(L, s[1].a, s[1].z) /\ s[1].a >= 13 THEN s[1].a ELSE 12

\* One pass over the positions gives each its role with respect to YAML blocks and, for a test line that is read
\* as a TAP line, its number:
\*   role "live"  - read as a TAP line
\*        "open"  - opens a YAML block (only directly after a live, valid test line, TAP >= 13)
\*        "body"  - inside a block
\*        "close" - the `...` terminator
\*        "break" - a line that is not indented like the block: ends it with an error and is then read as a TAP line
\*   num  the number of a test line: its own, else one more than the previous valid test's (0 before the first);
\*        -1 for a test line whose number is not representable (the line is invalid: one error, otherwise
\*        ignored) and for every line that is not a test line or is not read as a TAP line.
RECURSIVE ScanFrom(_, _, _, _, _, _)
ScanFrom(L, s, i, mode, last, acc) ==
    \* mode: <<"live">>, <<"after">> (previous live line was a valid test), <<"yaml", indent>>
    IF i > Len(s) THEN acc
    ELSE LET ln == s[i]
             number == IF Given(ln) THEN ln.n ELSE last + 1
             valid == ln.k = "test" /\ Rep(L, number, ln.z)
             ReadAs(role) == ScanFrom(L, s, i + 1, IF valid THEN <<"after">> ELSE <<"live">>,
                                      IF valid THEN number ELSE last,
                                      Append(acc, [role |-> role, num |-> IF valid THEN number ELSE -1]))
             Skip(role, m) == ScanFrom(L, s, i + 1, m, last, Append(acc, [role |-> role, num |-> -1]))
         IN IF mode[1] = "yaml" THEN
              IF ln.k = "yend" THEN Skip("close", <<"live">>)
              ELSE IF ln.k \in {"ystart", "ibody"} /\ ln.a >= mode[2] THEN Skip("body", mode)
              ELSE ReadAs("break")
            ELSE IF mode[1] = "after" /\ DeclVersion(L, s) >= 13 /\ ln.k = "ystart"
                 THEN Skip("open", <<"yaml", ln.a>>)
            ELSE ReadAs("live")

Scan(L, s) == ScanFrom(L, s, 1, <<"live">>, 0, <<>>)

\* the sets of positions the rules talk about (sc = Scan(L, s), passed along so that it is computed once)
ReadOf(s, sc) == { i \in 1..Len(s) : sc[i].role \in {"live", "break"} }                  \* read as TAP lines
TestPosOf(s, sc) == { i \in 1..Len(s) : sc[i].num >= 0 }                                \* valid test lines
\* plan lines that announce a representable count; the first one counts
PlanPosOf(L, s, sc) == { i \in ReadOf(s, sc) : s[i].k = "plan" /\ Rep(L, s[i].a, s[i].z) }
First(S) == CHOOSE i \in S : \A j \in S : i <= j
Largest(S) == CHOOSE m \in S : \A k \in S : k <= m

Roles(L, s) == LET sc == Scan(L, s) IN [i \in 1..Len(s) |-> sc[i].role]
Read(L, s) == ReadOf(s, Scan(L, s))
TestPos(L, s) == TestPosOf(s, Scan(L, s))
NumberAt(L, s, i) == Scan(L, s)[i].num
PlanPos(L, s) == PlanPosOf(L, s, Scan(L, s))
HasPlan(L, s) == PlanPos(L, s) # {}
ThePlan(L, s) == First(PlanPos(L, s))
PlanIsLate(L, s) == \E t \in TestPos(L, s) : t < ThePlan(L, s)

\* events owed by position i  (sc = Scan(L, s))
OwedOf(L, s, sc, i) ==
    LET ln == s[i]
        role == sc[i].role
        tests == TestPosOf(s, sc)
        plans == PlanPosOf(L, s, sc)
        hasPlan == plans # {}
        thePlan == First(plans)
        planIsLate == \E t \in tests : t < thePlan
        brk == IF role = "break" THEN <<Err("yaml-not-terminated")>> ELSE <<>>
    IN
    IF role \in {"open", "body", "close"} THEN <<>>
    ELSE brk \o
    CASE ln.k \in {"blank", "comment"} -> <<>>
      [] ln.k = "test" ->
           IF sc[i].num < 0 THEN <<Err("invalid-test-number")>>
           ELSE
           LET planned == hasPlan /\ thePlan < i
               firstAfterLatePlan == planned /\ planIsLate /\ ~\E t \in tests : thePlan < t /\ t < i
               number == sc[i].num
           IN (IF firstAfterLatePlan THEN <<Err("test-after-late-plan")>> ELSE <<>>)
              \o (IF planned /\ number > s[thePlan].a THEN <<Err("number-exceeds-plan")>> ELSE <<>>)
              \o <<Ev("test", number, Result(ln.a, ln.d), 0)>>
      [] ln.k = "plan" ->
           IF hasPlan /\ thePlan < i THEN <<Err("second-plan")>>
           ELSE IF ~Rep(L, ln.a, ln.z) THEN <<Err("invalid-plan")>>
           ELSE (IF ln.d = "skip" /\ ln.a > 0 THEN <<Err("skip-plan-with-tests")>> ELSE <<>>)
                \o (IF ln.d = "todo" THEN <<Err("bad-plan-directive")>> ELSE <<>>)
                \o <<Ev("plan", ln.a, "", 2 * Bit(planIsLate) + Bit(ln.a = 0 \/ ln.d = "skip"))>>
      [] ln.k = "bail" -> <<Ev("bail", 0, "", 0)>>
      [] ln.k = "version" ->
           IF i # 1 THEN <<Err("misplaced-version")>>
           ELSE IF ~Rep(L, ln.a, ln.z) THEN <<Err("invalid-version")>>
           ELSE IF ln.a < 13 THEN <<Err("version-too-low")>> ELSE <<Ev("version", ln.a, "", 0)>>
      [] OTHER -> <<Ev("unknown", 0, "", 0)>>
Owed(L, s, i) == OwedOf(L, s, Scan(L, s), i)

\* events owed at end of stream
OwedAtEndOf(L, s, sc) ==
    LET tests == TestPosOf(s, sc)
        plans == PlanPosOf(L, s, sc)
        openYaml == Len(s) > 0 /\ sc[Len(s)].role \in {"open", "body"}
        count == Cardinality(tests)
        highest == IF tests = {} THEN 0 ELSE Largest({ sc[t].num : t \in tests })
        bailed == \E i \in ReadOf(s, sc) : s[i].k = "bail"
    IN (IF openYaml THEN <<Err("yaml-not-terminated")>> ELSE <<>>)
       \o (IF bailed THEN <<>>
           ELSE IF plans # {} /\ count # s[First(plans)].a THEN <<Err("count-differs-from-plan")>>
           ELSE IF highest # count THEN <<Err("duplicate-or-missing-numbers")>>
           ELSE <<>>)
OwedAtEnd(L, s) == OwedAtEndOf(L, s, Scan(L, s))

DeclAll(L, s) == LET sc == Scan(L, s)
                 IN [i \in 1..(Len(s) + 1) |-> IF i <= Len(s) THEN OwedOf(L, s, sc, i) ELSE OwedAtEndOf(L, s, sc)]

\* ---- the whole-test verdict, stated over the stream ----------------------------------------
\* bad iff some (valid) test line is `not ok` without TODO or `ok` with TODO, some position owes an error or a
\* bail-out, or the exit status is not zero
DeclBad(L, s, exitcode) ==
    LET owed == DeclAll(L, s) IN
    \/ \E t \in TestPos(L, s) : BadResult(Result(s[t].a, s[t].d))
    \/ \E i \in 1..(Len(s) + 1) : \E j \in 1..Len(owed[i]) : owed[i][j].k \in {"error", "bail"}
    \/ exitcode # 0

=============================================================================
