------------------------------- MODULE TAPRules -------------------------------
(***************************************************************************)
(* Declarative TAP 12/13 obligations over a whole stream: for every        *)
(* position, which events that line owes, defined by comprehension over    *)
(* the positions before it - independent of the parser state machine in    *)
(* TAP.tla.  TAP_MC checks  DeclAll(s) = RunAll(s)  for every stream s up  *)
(* to a bound.                                                              *)
(***************************************************************************)
EXTENDS TAP

\* The protocol version of a stream: 13+ only when announced on the very first line.
DeclVersion(s) == IF Len(s) >= 1 /\ s[1].k = "version" /\ s[1].a >= 13 THEN s[1].a ELSE 12

\* Role of each position with respect to YAML blocks:
\*   "live"  - read as a TAP line
\*   "open"  - opens a YAML block (only directly after a live test line, TAP >= 13)
\*   "body"  - inside a block
\*   "close" - the `...` terminator
\*   "break" - a line that is not indented like the block: ends it with an error and is then read as a TAP line
RECURSIVE RolesFrom(_, _, _, _)
RolesFrom(s, i, mode, acc) ==
    \* mode: <<"live">>, <<"after">> (previous live line was a test), <<"yaml", indent>>
    IF i > Len(s) THEN acc
    ELSE LET ln == s[i] IN
         IF mode[1] = "yaml" THEN
              IF ln.k = "yend" THEN RolesFrom(s, i + 1, <<"live">>, Append(acc, "close"))
              ELSE IF ln.k \in {"ystart", "ibody"} /\ ln.a >= mode[2] THEN RolesFrom(s, i + 1, mode, Append(acc, "body"))
              ELSE RolesFrom(s, i + 1, IF ln.k = "test" THEN <<"after">> ELSE <<"live">>, Append(acc, "break"))
         ELSE IF mode[1] = "after" /\ DeclVersion(s) >= 13 /\ ln.k = "ystart"
              THEN RolesFrom(s, i + 1, <<"yaml", ln.a>>, Append(acc, "open"))
         ELSE RolesFrom(s, i + 1, IF ln.k = "test" THEN <<"after">> ELSE <<"live">>, Append(acc, "live"))

Roles(s) == RolesFrom(s, 1, <<"live">>, <<>>)

Read(s) == { i \in 1..Len(s) : Roles(s)[i] \in {"live", "break"} }   \* positions read as TAP lines
TestPos(s) == { i \in Read(s) : s[i].k = "test" }
PlanPos(s) == { i \in Read(s) : s[i].k = "plan" }

\* the number of the test at position i: its own, else one more than the previous test's (0 before the first)
RECURSIVE NumberAt(_, _)
NumberAt(s, i) ==
    IF s[i].n # 0 THEN s[i].n
    ELSE LET prev == { j \in TestPos(s) : j < i } IN
         IF prev = {} THEN 1 ELSE NumberAt(s, CHOOSE j \in prev : \A k \in prev : k <= j) + 1

HasPlan(s) == PlanPos(s) # {}
ThePlan(s) == CHOOSE i \in PlanPos(s) : \A j \in PlanPos(s) : i <= j       \* the first one counts
PlanIsLate(s) == \E t \in TestPos(s) : t < ThePlan(s)

\* events owed by position i
Owed(s, i) ==
    LET ln == s[i]
        role == Roles(s)[i]
        brk == IF role = "break" THEN <<Err("yaml-not-terminated")>> ELSE <<>>
    IN
    IF role \in {"open", "body", "close"} THEN <<>>
    ELSE brk \o
    CASE ln.k \in {"blank", "comment"} -> <<>>
      [] ln.k = "test" ->
           LET planned == HasPlan(s) /\ ThePlan(s) < i
               firstAfterLatePlan == planned /\ PlanIsLate(s) /\ ~\E t \in TestPos(s) : ThePlan(s) < t /\ t < i
               number == NumberAt(s, i)
           IN (IF firstAfterLatePlan THEN <<Err("test-after-late-plan")>> ELSE <<>>)
              \o (IF planned /\ number > s[ThePlan(s)].a THEN <<Err("number-exceeds-plan")>> ELSE <<>>)
              \o <<Ev("test", number, Result(ln.a, ln.d), 0)>>
      [] ln.k = "plan" ->
           IF i # ThePlan(s) THEN <<Err("second-plan")>>
           ELSE (IF ln.d = "skip" /\ ln.a > 0 THEN <<Err("skip-plan-with-tests")>> ELSE <<>>)
                \o (IF ln.d = "todo" THEN <<Err("bad-plan-directive")>> ELSE <<>>)
                \o <<Ev("plan", ln.a, "", 2 * Bit(PlanIsLate(s)) + Bit(ln.a = 0 \/ ln.d = "skip"))>>
      [] ln.k = "bail" -> <<Ev("bail", 0, "", 0)>>
      [] ln.k = "version" ->
           IF i # 1 THEN <<Err("misplaced-version")>>
           ELSE IF ln.a < 13 THEN <<Err("version-too-low")>> ELSE <<Ev("version", ln.a, "", 0)>>
      [] OTHER -> <<Ev("unknown", 0, "", 0)>>

\* events owed at end of stream
OwedAtEnd(s) ==
    LET roles == Roles(s)
        openYaml == Len(s) > 0 /\ roles[Len(s)] \in {"open", "body"}
        count == Cardinality(TestPos(s))
        highest == IF TestPos(s) = {} THEN 0
                   ELSE LET nums == { NumberAt(s, t) : t \in TestPos(s) } IN CHOOSE m \in nums : \A k \in nums : k <= m
        bailed == \E i \in Read(s) : s[i].k = "bail"
    IN (IF openYaml THEN <<Err("yaml-not-terminated")>> ELSE <<>>)
       \o (IF bailed THEN <<>>
           ELSE IF HasPlan(s) /\ count # s[ThePlan(s)].a THEN <<Err("count-differs-from-plan")>>
           ELSE IF highest # count THEN <<Err("duplicate-or-missing-numbers")>>
           ELSE <<>>)

DeclAll(s) == [i \in 1..(Len(s) + 1) |-> IF i <= Len(s) THEN Owed(s, i) ELSE OwedAtEnd(s)]

=============================================================================
