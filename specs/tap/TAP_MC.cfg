SPECIFICATION Spec
CONSTANTS MaxLen = 3
 MaxNum = 3
 MaxPlan = 2
 Profile = "lines"
INVARIANT OperationalEqualsDeclarative
INVARIANT RunIsIncremental
INVARIANT OneSubtestPerTestLine
INVARIANT BadStaysBad
INVARIANT VerdictOverExitDomain
INVARIANT UnrepresentableIsIgnored
INVARIANT TypeOK
CHECK_DEADLOCK FALSE
POSTCONDITION Export
