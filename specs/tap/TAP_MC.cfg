SPECIFICATION Spec
CONSTANTS MaxLen = 3
 MaxNum = 3
 MaxPlan = 2
INVARIANT OperationalEqualsDeclarative
INVARIANT RunIsIncremental
INVARIANT OneSubtestPerTestLine
INVARIANT BadStaysBad
INVARIANT TypeOK
CHECK_DEADLOCK FALSE
POSTCONDITION EmitAlphabet
