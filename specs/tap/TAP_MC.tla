-------------------------------- MODULE TAP_MC --------------------------------
(* Model: every stream over the alphabet up to MaxLen lines is fed to the    *)
(* operational parser one line at a time; after every line the events so far  *)
(* must equal what the declarative rules owe for the stream read so far.     *)
EXTENDS TAPRules, TLC, Json, IOUtils, SequencesExt
CONSTANTS MaxLen, MaxNum, MaxPlan
VARIABLES stream, pst, out

vars == <<stream, pst, out>>
Init == stream = <<>> /\ pst = InitP /\ out = <<>>
Feed(ln) == /\ Len(stream) < MaxLen
            /\ LET r == Step(pst, ln) IN /\ pst' = r[1]
                                         /\ out' = Append(out, r[2])
            /\ stream' = Append(stream, ln)
Next == \E ln \in Alphabet(MaxNum, MaxPlan) : Feed(ln)
Spec == Init /\ [][Next]_vars

\* the state machine's output equals the declarative obligations (per line, and at end of stream)
OperationalEqualsDeclarative == Append(out, End(pst)) = DeclAll(stream)
\* the incremental run equals the batch run (sanity of Run, which trace validation uses)
RunIsIncremental == RunAll(stream) = Append(out, End(pst))
\* every ok / not ok line read as a TAP line yields exactly one subtest event
OneSubtestPerTestLine ==
    \A i \in 1..Len(stream) :
        Cardinality({ j \in 1..Len(out[i]) : out[i][j].k = "test" })
            = IF i \in TestPos(stream) THEN 1 ELSE 0
\* verdict is monotone: once an error/bail/fail has been seen the test can never be reported good
BadStaysBad == VerdictBad(Flatten(out), 0) => VerdictClass(Flatten(Append(out, End(pst))), 0) = "BAD"
\* the parser is total: Step is defined for every line in every reachable state (TLC would report a
\* CASE without matching arm), and its state stays in the declared shape
\* the alphabet is exported so that the implementation harness enumerates exactly the model's input space
EmitAlphabet == TLCGet("stats").diameter >= 0 /\ JsonSerialize("alphabet.json", SetToSeq(Alphabet(MaxNum, MaxPlan)))
TypeOK == /\ pst.st \in {"main", "after", "yaml"}
          /\ pst.num = Cardinality(TestPos(stream))
          /\ pst.lineno = Len(stream)
=============================================================================
