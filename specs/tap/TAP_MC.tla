-------------------------------- MODULE TAP_MC --------------------------------
(* Model: every stream over the alphabet up to MaxLen lines is fed to the    *)
(* operational parser one line at a time; after every line the events so far  *)
(* must equal what the declarative rules owe for the stream read so far.     *)
(* Profile "lines": the 44 line forms with small numbers, every number       *)
(* representable.  Profile "numbers": few line forms, numbers of every       *)
(* magnitude class in the test-number, plan and version positions, under     *)
(* both values of the representability parameter.                            *)
EXTENDS TAPRules, TLC, Json, IOUtils, SequencesExt
CONSTANTS MaxLen, MaxNum, MaxPlan, Profile
VARIABLES stream, pst, out

vars == <<stream, pst, out>>
TheAlphabet == IF Profile = "numbers" THEN NumberAlphabet ELSE Alphabet(MaxNum, MaxPlan)
TheLims == IF Profile = "numbers" THEN Lims ELSE {0}
Init == stream = <<>> /\ pst \in { InitL(lim) : lim \in TheLims } /\ out = <<>>
Feed(ln) == /\ Len(stream) < MaxLen
            /\ LET r == Step(pst, ln) IN /\ pst' = r[1]
                                         /\ out' = Append(out, r[2])
            /\ stream' = Append(stream, ln)
Next == \E ln \in TheAlphabet : Feed(ln)
Spec == Init /\ [][Next]_vars

AllOut == Append(out, End(pst))
\* the state machine's output equals the declarative obligations (per line, and at end of stream)
OperationalEqualsDeclarative == AllOut = DeclAll(pst.lim, stream)
\* the incremental run equals the batch run (sanity of Run, which trace validation uses)
RunIsIncremental == RunAllL(pst.lim, stream) = AllOut
\* every ok / not ok line read as a TAP line yields exactly one subtest event - unless its number is not
\* representable, then exactly one error and no subtest
OneSubtestPerTestLine ==
    \A i \in 1..Len(stream) :
        Cardinality({ j \in 1..Len(out[i]) : out[i][j].k = "test" })
            = IF i \in TestPos(pst.lim, stream) THEN 1 ELSE 0
\* verdict is monotone: once an error/bail/fail has been seen the test can never be reported good
BadStaysBad == VerdictBad(Flatten(out), 0) => VerdictClass(Flatten(AllOut), 0) = "BAD"
\* the whole-test verdict, for every exit status of the domain: reported bad iff the rule says bad (stated over
\* the events and, independently, over the stream); every non-zero status makes it bad, whatever the stream;
\* with status 0 the class of the stream decides (the table)
VerdictOverExitDomain ==
    LET evs == Flatten(AllOut)
        evBad == VerdictBad(evs, 0)                     \* what the events alone amount to
        declBad == DeclBad(pst.lim, stream, 0)          \* what the stream alone amounts to
        cls == StreamClass(stream)
    IN /\ evBad <=> declBad
       /\ pst.lim = 0 => cls \in StreamClasses
       /\ \A x \in ExitDomain :
            /\ (VerdictClass(evs, x) = "BAD") <=> VerdictBad(evs, x)
            /\ VerdictBad(evs, x) <=> (evBad \/ x # 0)
            /\ x # 0 => VerdictClass(evs, x) = "BAD"
            /\ pst.lim = 0 => VerdictClass(evs, x) = VerdictTable(cls, x)
\* a line with an unrepresentable number owes one error and changes nothing else; representable lines are read
\* the same under both values of the parameter
UnrepresentableIsIgnored ==
    \A i \in 1..Len(stream) :
        LET ln == stream[i]
            before == RunL(pst.lim, SubSeq(stream, 1, i - 1))[1]
            after == RunL(pst.lim, SubSeq(stream, 1, i))[1]
            written == IF ln.k = "test" THEN (IF Given(ln) THEN ln.n ELSE 0) ELSE ln.a
        IN (ln.k \in {"test", "plan", "version"} /\ ~Rep(pst.lim, written, ln.z) /\ before.st = "main")
           => /\ out[i] = <<Err("invalid-test-number")>> \/ out[i] = <<Err("invalid-plan")>>
                 \/ out[i] = <<Err("invalid-version")>> \/ out[i] = <<Err("second-plan")>>
                 \/ out[i] = <<Err("misplaced-version")>>
              /\ after = [before EXCEPT !.lineno = before.lineno + 1]
\* the parser is total: Step is defined for every line in every reachable state (TLC would report a
\* CASE without matching arm), and its state stays in the declared shape
TypeOK == /\ pst.st \in {"main", "after", "yaml"}
          /\ pst.num = Cardinality(TestPos(pst.lim, stream))
          /\ pst.lineno = Len(stream)
          /\ pst.lim \in Lims

\* ---- exports: the implementation harness enumerates exactly the model's input space -------------------
\* witnesses of every stream class, for the sample that goes through `meson test` (the product with ExitDomain)
W(k, a, n, d) == Line(k, a, n, d)
ClassWitnesses ==
    [ empty     |-> << <<>> >>,
      diag      |-> << <<W("comment", 0, 0, "none")>>, <<W("blank", 0, 0, "none"), W("unknown", 0, 0, "none")>>,
                       <<W("version", 13, 0, "none"), W("comment", 0, 0, "none")>> >>,
      plan0     |-> << <<W("plan", 0, 0, "none")>>, <<W("comment", 0, 0, "none"), W("plan", 0, 0, "none")>> >>,
      plan0skip |-> << <<W("plan", 0, 0, "skip")>>, <<W("version", 13, 0, "none"), W("plan", 0, 0, "skip")>> >>,
      allskip   |-> << <<W("plan", 2, 0, "none"), W("test", 1, 1, "skip"), W("test", 1, 2, "skip")>>,
                       <<W("test", 1, 0, "skip"), W("plan", 1, 0, "none")>>,
                       <<W("test", 1, 0, "skip")>> >>,
      passed    |-> << <<W("plan", 2, 0, "none"), W("test", 1, 1, "none"), W("test", 1, 2, "skip")>>,
                       <<W("test", 1, 0, "none")>>,
                       <<W("test", 0, 1, "todo"), W("test", 1, 2, "skip"), W("plan", 2, 0, "none")>> >>,
      failed    |-> << <<W("test", 0, 1, "none")>>, <<W("test", 1, 1, "skip"), W("test", 1, 2, "todo"), W("plan", 2, 0, "none")>> >>,
      broken    |-> << <<W("bail", 0, 0, "none")>>, <<W("plan", 1, 0, "none")>>,
                       <<W("test", 1, 1, "skip"), W("plan", 0, 0, "skip")>>,
                       <<W("test", 1, 2, "skip")>> >> ]
WitnessesAreInTheirClass ==
    /\ DOMAIN ClassWitnesses = StreamClasses
    /\ \A c \in StreamClasses : \A j \in 1..Len(ClassWitnesses[c]) : StreamClass(ClassWitnesses[c][j]) = c
WitnessSeq == LET cs == SetToSeq(StreamClasses)
              IN Flatten([ci \in 1..Len(cs) |-> [j \in 1..Len(ClassWitnesses[cs[ci]]) |->
                                                  [cls |-> cs[ci], s |-> ClassWitnesses[cs[ci]][j]]]])
Export == /\ TLCGet("stats").diameter >= 0
          /\ WitnessesAreInTheirClass
          /\ JsonSerialize("alphabet.json", SetToSeq(TheAlphabet))
          /\ JsonSerialize("exits.json", SetToSeq(ExitDomain))
          /\ JsonSerialize("witnesses.json", WitnessSeq)
EmitAlphabet == Export
=============================================================================
