------------------------------- MODULE TraceTAP -------------------------------
(***************************************************************************)
(* Trace validation for C18: every case is one execution of the real       *)
(* TAPParser (events recorded after every line and at end of stream) and   *)
(* optionally of TestRunTAP / `meson test` (whole-test classification, one *)
(* per exit status of c.vs).  The case is accepted iff, for one value of   *)
(* the representability parameter (TAP!Lims: the implementation either     *)
(* reads numerals of any length or reports those it cannot convert as an   *)
(* error), the operational specification TAP!RunAllL produces the same     *)
(* per-line events (error events compared by presence, class erased) and   *)
(* the same verdict for every recorded exit status.  An execution in which *)
(* the parser raised is never accepted (clause NoRaise).  One initial      *)
(* state per case; the judgement is made in the single step so that all    *)
(* TLC workers share the batch.                                             *)
(***************************************************************************)
EXTENDS TAP, TLC, Json, IOUtils

Cases == JsonDeserialize(IOEnv.TRACE_FILE)

VARIABLES i, done
vars == <<i, done>>

ToLine(x) == LineZ(x.k, x.a, x.n, x.d, x.z)
EraseClass(evs) == [j \in 1..Len(evs) |-> IF evs[j].k = "error" THEN Ev("error", 0, "", 0) ELSE evs[j]]

\* 0: different number of event groups; j > 0: first group that differs; -1: all equal
FirstDiff(exp, got) ==
    IF Len(exp) # Len(got) THEN 0
    ELSE IF \E j \in 1..Len(exp) : EraseClass(exp[j]) # got[j]
         THEN CHOOSE j \in 1..Len(exp) : EraseClass(exp[j]) # got[j] /\ \A k \in 1..(j - 1) : EraseClass(exp[k]) = got[k]
         ELSE -1

\* the group in which the implementation raised (the harness stops feeding lines there), 0 if it did not
RaisedAt(got) ==
    IF \E j \in 1..Len(got) : \E e \in 1..Len(got[j]) : got[j][e].k = "raised"
    THEN CHOOSE j \in 1..Len(got) : \E e \in 1..Len(got[j]) : got[j][e].k = "raised"
    ELSE 0

\* the number the line at position j of s carries where the parser has to convert one (for the NoRaise report):
\* can the implementation's integer type hold it, i.e. is it representable within 4300 digits?  At end of stream
\* (j = Len(s) + 1) the numbers of the parser state are reported.
Convertible(s, j) ==
    IF j <= Len(s)
    THEN LET ln == s[j]
             st == Run(SubSeq(s, 1, j - 1))[1]
             x == IF ln.k = "test" THEN (IF Given(ln) THEN ln.n ELSE st.last + 1) ELSE ln.a
         IN ln.k \notin {"test", "plan", "version"} \/ Rep(4300, x, ln.z)
    ELSE LET st == Run(s)[1] IN Rep(4300, st.highest, 0) /\ Rep(4300, Max(st.plan, 0), 0)

BadVerdicts(exp, vs) == { j \in 1..Len(vs) : VerdictClass(Flatten(exp), vs[j].x) # vs[j].c }

JudgeL(c, s, lim) ==
    LET exp == RunAllL(lim, s)
        d == FirstDiff(exp, c.ev)
        r == RaisedAt(c.ev)
        bv == BadVerdicts(exp, c.vs)
    IN IF r > 0 THEN [id |-> c.id, clause |-> "NoRaise", line |-> r, x |-> 0,
                      expected |-> IF r <= Len(exp) THEN exp[r] ELSE <<>>, got |-> c.ev[r],
                      what |-> (IF r <= Len(s) THEN s[r].k ELSE "eof") \o "/"
                               \o (IF Convertible(s, r) THEN "digits<=4300" ELSE "digits>4300")]
       ELSE IF d = 0 THEN [id |-> c.id, clause |-> "EventGroupCount", line |-> 0, x |-> 0, expected |-> <<>>, got |-> <<>>, what |-> ""]
       ELSE IF d > 0 THEN [id |-> c.id, clause |-> "EventsOfLine", line |-> d, x |-> 0, expected |-> exp[d], got |-> c.ev[d], what |-> ""]
       ELSE IF \E j \in 1..Len(c.vs) : c.vs[j].c = "raised"
            THEN LET j == CHOOSE j \in 1..Len(c.vs) : c.vs[j].c = "raised"
                 IN [id |-> c.id, clause |-> "NoRaise", line |-> 0, x |-> c.vs[j].x, expected |-> <<>>,
                     got |-> <<Ev("raised", 0, c.vs[j].r, 0)>>,
                     what |-> "verdict/" \o (IF Convertible(s, Len(s) + 1) THEN "digits<=4300" ELSE "digits>4300")]
       ELSE IF bv # {}
            THEN LET j == CHOOSE j \in bv : \A k \in bv : j <= k
                 IN [id |-> c.id, clause |-> "Verdict", line |-> 0, x |-> c.vs[j].x,
                     expected |-> <<VerdictClass(Flatten(exp), c.vs[j].x)>>, got |-> <<c.vs[j].c>>,
                     what |-> StreamClass(s)]
       ELSE [id |-> c.id, clause |-> "ok", line |-> 0, x |-> 0, expected |-> <<>>, got |-> <<>>, what |-> ""]

\* accepted under either reading of over-long numerals (streams without a numeral of 4300 digits or more read the
\* same under both); the report is made against the exact reading, unless the implementation visibly follows the
\* other one up to a later line
Judge(c) ==
    LET s == [j \in 1..Len(c.s) |-> ToLine(c.s[j])]
        v0 == JudgeL(c, s, 0)
    IN IF v0.clause = "ok" \/ \A j \in 1..Len(s) : s[j].n < D4300 /\ s[j].a < D4300 /\ s[j].z <= 4300
       THEN v0
       ELSE LET v1 == JudgeL(c, s, 4300)
            IN IF v1.clause = "ok" THEN v1
               ELSE IF v0.clause = "EventsOfLine" /\ v1.clause = "EventsOfLine" /\ v1.line > v0.line THEN v1
               ELSE v0

Init == i \in 1..Len(Cases) /\ done = FALSE
Next == /\ ~done
        /\ done' = TRUE
        /\ i' = i
        /\ LET v == Judge(Cases[i]) IN v.clause = "ok" \/ PrintT(ToJson(v))
Spec == Init /\ [][Next]_vars
=============================================================================
