------------------------------- MODULE TraceTAP -------------------------------
(***************************************************************************)
(* Trace validation for C18: every case is one execution of the real       *)
(* TAPParser (events recorded after every line and at end of stream) and   *)
(* optionally of TestRunTAP (whole-test classification).  The case is      *)
(* accepted iff the operational specification TAP!RunAll produces the same *)
(* per-line events (error events compared by presence, class erased) and   *)
(* the same verdict.  One initial state per case; the judgement is made in *)
(* the single step so that all TLC workers share the batch.                *)
(***************************************************************************)
EXTENDS TAP, TLC, Json, IOUtils

Cases == JsonDeserialize(IOEnv.TRACE_FILE)

VARIABLES i, done
vars == <<i, done>>

ToLine(x) == Line(x.k, x.a, x.n, x.d)
EraseClass(evs) == [j \in 1..Len(evs) |-> IF evs[j].k = "error" THEN Ev("error", 0, "", 0) ELSE evs[j]]

FirstDiff(exp, got) ==
    IF Len(exp) # Len(got) THEN 0
    ELSE IF \E j \in 1..Len(exp) : EraseClass(exp[j]) # got[j]
         THEN CHOOSE j \in 1..Len(exp) : EraseClass(exp[j]) # got[j] /\ \A k \in 1..(j - 1) : EraseClass(exp[k]) = got[k]
         ELSE -1

Judge(c) ==
    LET s == [j \in 1..Len(c.s) |-> ToLine(c.s[j])]
        exp == RunAll(s)
        d == FirstDiff(exp, c.ev)
    IN IF d = 0 THEN [id |-> c.id, clause |-> "EventGroupCount", line |-> 0, expected |-> <<>>, got |-> <<>>]
       ELSE IF d > 0 THEN [id |-> c.id, clause |-> "EventsOfLine", line |-> d, expected |-> exp[d], got |-> c.ev[d]]
       ELSE IF c.cls # "" /\ VerdictClass(Flatten(exp), c.exit) # c.cls
            THEN [id |-> c.id, clause |-> "Verdict", line |-> 0,
                  expected |-> <<VerdictClass(Flatten(exp), c.exit)>>, got |-> <<c.cls>>]
       ELSE [id |-> c.id, clause |-> "ok", line |-> 0, expected |-> <<>>, got |-> <<>>]

Init == i \in 1..Len(Cases) /\ done = FALSE
Next == /\ ~done
        /\ done' = TRUE
        /\ i' = i
        /\ LET v == Judge(Cases[i]) IN v.clause = "ok" \/ PrintT(ToJson(v))
Spec == Init /\ [][Next]_vars
=============================================================================
