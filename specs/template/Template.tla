------------------------------- MODULE Template -------------------------------
(***************************************************************************)
(* configure_file() template substitution (property C14), written from     *)
(* docs/markdown/Configuration.md, docs/yaml/functions/configure_file.yaml *)
(* and the project's pinned cases ("test cases/common/14 configure file":  *)
(* config6.h.in / prog6.c pin the backslash rules of the meson format,     *)
(* config7.h.in / config10.h.in the cmake format; unittests/               *)
(* allplatformstests.py test_do_conf_file_by_format / _preserve_newlines   *)
(* pin the #mesondefine / #cmakedefine forms and that CRLF is preserved).  *)
(*                                                                         *)
(* Text is a sequence of code points.  A configuration is a sequence of    *)
(* entries [k |-> name, t |-> "s" | "i" | "b", s |-> text, n |-> int]      *)
(* (s for strings, n for integers and booleans 0/1).                       *)
(* The result of a substitution is [text, missing, err]: the output, the   *)
(* set of undefined names that must be reported, and whether the template  *)
(* is rejected (then text/missing are empty).                              *)
(***************************************************************************)
EXTENDS Integers, Sequences, FiniteSets

BS == 92        \* backslash
AT == 64        \* @
DOLLAR == 36
LBRACE == 123
RBRACE == 125
HASH == 35
LF == 10
CR == 13
SP == 32

IsWs(c) == c \in {9, 10, 11, 12, 13, 32}
IsAlnum(c) == c \in 48..57 \/ c \in 65..90 \/ c \in 97..122
\* characters of a variable name: meson / cmake@ inline form, and the cmake forms
NameCharMeson(c) == IsAlnum(c) \/ c = 45 \/ c = 95
NameCharCmake(c) == IsAlnum(c) \/ c \in {45, 95, 47, 46, 43}

\* "#mesondefine", "cmakedefine", "cmakedefine01", and the texts of the define forms
KwMesondefine == <<35, 109, 101, 115, 111, 110, 100, 101, 102, 105, 110, 101>>
KwCmakedefine == <<99, 109, 97, 107, 101, 100, 101, 102, 105, 110, 101>>
KwCmakedefine01 == KwCmakedefine \o <<48, 49>>
TxtDefine == <<35, 100, 101, 102, 105, 110, 101, 32>>                  \* "#define "
TxtUndef == <<35, 117, 110, 100, 101, 102, 32>>                         \* "#undef "
TxtCUndefOpen == <<47, 42, 32, 35, 117, 110, 100, 101, 102, 32>>        \* "/* #undef "
TxtCClose == <<32, 42, 47>>                                             \* " */"
TxtTrue == <<84, 114, 117, 101>>
TxtFalse == <<70, 97, 108, 115, 101>>

\* ---- small helpers -------------------------------------------------------------------------
Res(text, missing) == [text |-> text, missing |-> missing, err |-> FALSE]
Error == [text |-> <<>>, missing |-> {}, err |-> TRUE]

RECURSIVE Digits(_)
Digits(n) == IF n < 10 THEN <<48 + n>> ELSE Digits(n \div 10) \o <<48 + (n % 10)>>
Decimal(n) == IF n < 0 THEN <<45>> \o Digits(0 - n) ELSE Digits(n)

\* number of consecutive characters satisfying ok, starting at position i
RunFrom(t, i, ok(_)) ==
    LET F[j \in i..(Len(t) + 1)] == IF j > Len(t) \/ ~ ok(t[j]) THEN 0 ELSE 1 + F[j + 1]
    IN IF i > Len(t) THEN 0 ELSE F[i]
IsBS(c) == c = BS
Rep(c, n) == [j \in 1..n |-> c]
StartsWith(t, i, kw) == i + Len(kw) - 1 <= Len(t) /\ SubSeq(t, i, i + Len(kw) - 1) = kw
Contains(t, kw) == \E i \in 1..Len(t) : StartsWith(t, i, kw)
RECURSIVE Concat(_)
Concat(ss) == IF ss = <<>> THEN <<>> ELSE Head(ss) \o Concat(Tail(ss))

\* ---- configuration data --------------------------------------------------------------------
Defined(conf, name) == \E j \in 1..Len(conf) : conf[j].k = name
Entry(conf, name) == conf[CHOOSE j \in 1..Len(conf) : conf[j].k = name]
Keys(conf) == { conf[j].k : j \in 1..Len(conf) }
\* value as substituted inline: meson format (a boolean is not documented there: str() of it)
InlineMeson(e) == CASE e.t = "s" -> e.s [] e.t = "i" -> Decimal(e.n) [] e.t = "b" -> IF e.n = 1 THEN TxtTrue ELSE TxtFalse
\* cmake formats: booleans are 1 / 0
InlineCmake(e) == CASE e.t = "s" -> e.s [] e.t = "i" -> Decimal(e.n) [] e.t = "b" -> <<48 + e.n>>
Truthy(e) == CASE e.t = "s" -> e.s # <<>> [] OTHER -> e.n # 0

\* ---- lines -----------------------------------------------------------------------------------
\* a text is cut into lines, each keeping its terminator: LF, CR LF or a lone CR
RECURSIVE SplitLines(_, _, _)
SplitLines(t, i, cur) ==
    IF i > Len(t) THEN (IF cur = <<>> THEN <<>> ELSE <<cur>>)
    ELSE IF t[i] = LF THEN <<Append(cur, LF)>> \o SplitLines(t, i + 1, <<>>)
    ELSE IF t[i] = CR THEN
            IF i < Len(t) /\ t[i + 1] = LF THEN <<cur \o <<CR, LF>>>> \o SplitLines(t, i + 2, <<>>)
            ELSE <<Append(cur, CR)>> \o SplitLines(t, i + 1, <<>>)
    ELSE SplitLines(t, i + 1, Append(cur, t[i]))
Lines(t) == SplitLines(t, 1, <<>>)

Eol(line) ==
    LET n == Len(line) IN
    IF n >= 2 /\ line[n - 1] = CR /\ line[n] = LF THEN <<CR, LF>>
    ELSE IF n >= 1 /\ line[n] \in {LF, CR} THEN <<line[n]>>
    ELSE <<>>
\* line terminator of the replacement of a define line: the line's own; a last line without
\* terminator gets LF (pinned by test_do_conf_file_by_format)
DefineEol(line) == IF Eol(line) = <<>> THEN <<LF>> ELSE Eol(line)

\* whitespace-separated tokens
RECURSIVE TokensFrom(_, _, _)
TokensFrom(t, i, cur) ==
    IF i > Len(t) THEN (IF cur = <<>> THEN <<>> ELSE <<cur>>)
    ELSE IF IsWs(t[i]) THEN (IF cur = <<>> THEN <<>> ELSE <<cur>>) \o TokensFrom(t, i + 1, <<>>)
    ELSE TokensFrom(t, i + 1, Append(cur, t[i]))
Tokens(t) == TokensFrom(t, 1, <<>>)
FirstNonWs(t) == 1 + RunFrom(t, 1, IsWs)
JoinSp(toks) == IF toks = <<>> THEN <<>> ELSE Head(toks) \o Concat([j \in 1..(Len(toks) - 1) |-> <<SP>> \o toks[j + 1]])

\* =============================================================================================
\* meson format, inline placeholders: operational scanner, one character position at a time
\*   - a run of backslashes directly in front of "@" (or of "\@"): every pair becomes one
\*     backslash (config6: MESSAGE3..6); the "@" behind backslashes never opens a variable
\*   - "\@name\@" becomes "@name@" (MESSAGE2, MESSAGE4)
\*   - "@name@" not preceded by a backslash is replaced by the value; the value is copied and
\*     never looked at again; an undefined name is replaced by nothing and reported
\*   - everything else is copied
\* =============================================================================================
\* index of the closing "@" of a variable opening at i (t[i] = "@"), 0 if none
VarClose(t, i) ==
    LET r == RunFrom(t, i + 1, NameCharMeson) IN
    IF r >= 1 /\ i + r + 1 <= Len(t) /\ t[i + r + 1] = AT THEN i + r + 1 ELSE 0
\* index of the closing "@" of an escaped variable "\@name\@" opening at i (t[i] = "\"), 0 if none
EscClose(t, i) ==
    IF ~ (i + 1 <= Len(t) /\ t[i + 1] = AT) THEN 0
    ELSE LET r == RunFrom(t, i + 2, NameCharMeson)
             j == i + 2 + r
         IN IF r >= 1 /\ j + 1 <= Len(t) /\ t[j] = BS /\ t[j + 1] = AT THEN j + 1 ELSE 0

RECURSIVE MScan(_, _, _, _, _)
MScan(t, conf, i, out, miss) ==
    IF i > Len(t) THEN Res(out, miss)
    ELSE IF t[i] = BS THEN
        LET r == RunFrom(t, i, IsBS)
            atFollows == i + r <= Len(t) /\ t[i + r] = AT
        IN IF atFollows /\ r >= 2 THEN MScan(t, conf, i + 2 * (r \div 2), out \o Rep(BS, r \div 2), miss)
           ELSE IF EscClose(t, i) > 0
                THEN MScan(t, conf, EscClose(t, i) + 1,
                           out \o <<AT>> \o SubSeq(t, i + 2, EscClose(t, i) - 2) \o <<AT>>, miss)
           ELSE MScan(t, conf, i + 1, Append(out, BS), miss)
    ELSE IF t[i] = AT /\ (i = 1 \/ t[i - 1] # BS) /\ VarClose(t, i) > 0 THEN
        LET e == VarClose(t, i)
            name == SubSeq(t, i + 1, e - 1)
        IN IF Defined(conf, name) THEN MScan(t, conf, e + 1, out \o InlineMeson(Entry(conf, name)), miss)
           ELSE MScan(t, conf, e + 1, out, miss \cup {name})
    ELSE MScan(t, conf, i + 1, Append(out, t[i]), miss)

MesonInline(t, conf) == MScan(t, conf, 1, <<>>, {})

\* ---- the same rules as a segmentation that does not depend on the configuration -------------
\* a segment is [k, src, dst]: "lit" copied text, "esc" a rewritten escape, "var" a variable
\* (src = the placeholder, dst = the name)
Seg(k, src, dst) == [k |-> k, src |-> src, dst |-> dst]
RECURSIVE MSegs(_, _)
MSegs(t, i) ==
    IF i > Len(t) THEN <<>>
    ELSE IF t[i] = BS THEN
        LET r == RunFrom(t, i, IsBS)
            atFollows == i + r <= Len(t) /\ t[i + r] = AT
        IN IF atFollows /\ r >= 2
           THEN <<Seg("esc", Rep(BS, 2 * (r \div 2)), Rep(BS, r \div 2))>> \o MSegs(t, i + 2 * (r \div 2))
           ELSE IF EscClose(t, i) > 0
                THEN <<Seg("esc", SubSeq(t, i, EscClose(t, i)),
                           <<AT>> \o SubSeq(t, i + 2, EscClose(t, i) - 2) \o <<AT>>)>> \o MSegs(t, EscClose(t, i) + 1)
           ELSE <<Seg("lit", <<BS>>, <<BS>>)>> \o MSegs(t, i + 1)
    ELSE IF t[i] = AT /\ (i = 1 \/ t[i - 1] # BS) /\ VarClose(t, i) > 0
         THEN <<Seg("var", SubSeq(t, i, VarClose(t, i)), SubSeq(t, i + 1, VarClose(t, i) - 1))>>
              \o MSegs(t, VarClose(t, i) + 1)
    ELSE <<Seg("lit", <<t[i]>>, <<t[i]>>)>> \o MSegs(t, i + 1)

RenderSegs(segs, conf) ==
    Res(Concat([j \in 1..Len(segs) |->
                  IF segs[j].k # "var" THEN segs[j].dst
                  ELSE IF Defined(conf, segs[j].dst) THEN InlineMeson(Entry(conf, segs[j].dst)) ELSE <<>>]),
        { segs[j].dst : j \in { h \in 1..Len(segs) : segs[h].k = "var" /\ ~ Defined(conf, segs[h].dst) } })

\* =============================================================================================
\* cmake formats, inline placeholders
\*   cmake : "${name}" (may nest: the inner reference is evaluated first and names the outer
\*           one) and "@name@";  cmake@ : only "@name@".  No escapes (config7).  A name is a
\*           non-empty run of [A-Za-z0-9_/.+-]; "@...@" around anything else is plain text; an
\*           invalid character or a missing "}" inside "${" rejects the template.
\* =============================================================================================
\* index of the next "@" after i within t, 0 if none
NextAt(t, i) == IF \E j \in (i + 1)..Len(t) : t[j] = AT
                THEN CHOOSE j \in (i + 1)..Len(t) : t[j] = AT /\ \A h \in (i + 1)..(j - 1) : t[h] # AT
                ELSE 0
AllCmakeName(s) == \A j \in 1..Len(s) : NameCharCmake(s[j])

\* position of the "}" closing the "${" at i, 0 = not closed, -1 = invalid character inside
RECURSIVE BraceClose(_, _, _)
BraceClose(t, j, depth) ==
    IF j > Len(t) THEN 0
    ELSE IF t[j] = DOLLAR /\ j < Len(t) /\ t[j + 1] = LBRACE THEN BraceClose(t, j + 2, depth + 1)
    ELSE IF t[j] = RBRACE THEN (IF depth = 1 THEN j ELSE BraceClose(t, j + 1, depth - 1))
    ELSE IF t[j] \in {AT, LF} \/ NameCharCmake(t[j]) THEN BraceClose(t, j + 1, depth)
    ELSE -1

RECURSIVE CScan(_, _, _, _, _, _)
CScan(t, conf, atOnly, i, out, miss) ==
    IF i > Len(t) THEN Res(out, miss)
    ELSE IF t[i] = AT /\ NextAt(t, i) > i + 1 /\ AllCmakeName(SubSeq(t, i + 1, NextAt(t, i) - 1)) THEN
        LET e == NextAt(t, i)
            name == SubSeq(t, i + 1, e - 1)
        IN IF Defined(conf, name) THEN CScan(t, conf, atOnly, e + 1, out \o InlineCmake(Entry(conf, name)), miss)
           ELSE CScan(t, conf, atOnly, e + 1, out, miss \cup {name})
    ELSE IF ~ atOnly /\ t[i] = DOLLAR /\ i < Len(t) /\ t[i + 1] = LBRACE THEN
        LET e == BraceClose(t, i + 2, 1) IN
        IF e <= 0 THEN Error
        ELSE LET inner == CScan(SubSeq(t, i + 2, e - 1), conf, atOnly, 1, <<>>, miss) IN
             IF inner.err \/ ~ AllCmakeName(inner.text) THEN Error
             ELSE IF Defined(conf, inner.text)
                  THEN CScan(t, conf, atOnly, e + 1, out \o InlineCmake(Entry(conf, inner.text)), inner.missing)
                  ELSE CScan(t, conf, atOnly, e + 1, out, inner.missing \cup {inner.text})
    ELSE CScan(t, conf, atOnly, i + 1, Append(out, t[i]), miss)

CmakeInline(t, conf, atOnly) == CScan(t, conf, atOnly, 1, <<>>, {})

\* =============================================================================================
\* define lines
\* =============================================================================================
\* "#mesondefine TOKEN": a line whose first non-blank text is #mesondefine
IsMesonDefine(line) == StartsWith(line, FirstNonWs(line), KwMesondefine)
\* exactly two tokens, else the template is rejected; the line is replaced by
\*   #define TOKEN        boolean true            #undef TOKEN     boolean false
\*   #define TOKEN value  integer or string       /* #undef TOKEN */  not set
\* the value is copied as is (never scanned), the line keeps its terminator
MesonDefine(line, conf) ==
    LET toks == Tokens(line) IN
    IF Len(toks) # 2 THEN Error
    ELSE LET name == toks[2]
             body == IF ~ Defined(conf, name) THEN TxtCUndefOpen \o name \o TxtCClose
                     ELSE LET e == Entry(conf, name) IN
                          CASE e.t = "b" -> IF e.n = 1 THEN TxtDefine \o name ELSE TxtUndef \o name
                            [] e.t = "i" -> TxtDefine \o name \o <<SP>> \o Decimal(e.n)
                            [] e.t = "s" -> IF e.s = <<>> THEN TxtDefine \o name ELSE TxtDefine \o name \o <<SP>> \o e.s
         IN Res(body \o DefineEol(line), {})

\* a "#" (blanks allowed after it) followed by cmakedefine, in a line of a meson-format template
\* that is not a define line, rejects the template (and vice versa)
HasCmakeDefineMark(line) ==
    \E i \in 1..Len(line) : line[i] = HASH /\ StartsWith(line, i + 1 + RunFrom(line, i + 1, IsWs), KwCmakedefine)

\* "#cmakedefine VAR ..." / "#cmakedefine01 VAR": first non-blank is "#", then (blanks and) cmakedefine
IsCmakeDefine(line) ==
    LET f == FirstNonWs(line) IN
    f <= Len(line) /\ line[f] = HASH /\ StartsWith(line, f + 1 + RunFrom(line, f + 1, IsWs), KwCmakedefine)

\* the tokens after "#": cmakedefine[01], the variable, the rest of the line
\*   #cmakedefine VAR rest...   VAR set and true (non-zero, non-empty): "#define VAR rest..." with the
\*                              placeholders of the rest replaced; else "/* #undef VAR */"
\*   #cmakedefine01 VAR         "#define VAR 1" / "#define VAR 0"
\* the line keeps its terminator; undefined names in the rest are reported like anywhere else
CmakeDefine(line, conf, atOnly) ==
    LET f    == FirstNonWs(line)
        toks == Tokens(SubSeq(line, f + 1, Len(line)))
        is01 == Head(toks) = KwCmakedefine01
        args == Tail(toks)
    IN IF args = <<>> THEN Error
       ELSE LET name == args[1]
                on == Defined(conf, name) /\ Truthy(Entry(conf, name))
            IN IF is01 THEN Res(TxtDefine \o name \o <<SP, IF on THEN 49 ELSE 48>> \o DefineEol(line), {})
               ELSE IF ~ on THEN Res(TxtCUndefOpen \o name \o TxtCClose \o DefineEol(line), {})
               \* "#define VAR" and the rest of the line (tokens separated by single blanks), placeholders replaced
               ELSE LET rest == CmakeInline(TxtDefine \o name \o (IF Len(args) > 1 THEN <<SP>> \o JoinSp(Tail(args)) ELSE <<>>),
                                            conf, atOnly) IN
                    IF rest.err THEN Error ELSE Res(rest.text \o DefineEol(line), rest.missing)

\* =============================================================================================
\* whole templates
\* =============================================================================================
MesonLine(line, conf) ==
    IF IsMesonDefine(line) THEN MesonDefine(line, conf)
    ELSE IF HasCmakeDefineMark(line) THEN Error
    ELSE MesonInline(line, conf)

CmakeLine(line, conf, atOnly) ==
    IF IsCmakeDefine(line) THEN CmakeDefine(line, conf, atOnly)
    ELSE IF Contains(line, KwMesondefine) THEN Error
    ELSE CmakeInline(line, conf, atOnly)

RECURSIVE Combine(_)
Combine(rs) ==
    IF rs = <<>> THEN Res(<<>>, {})
    ELSE LET a == Head(rs)
             b == Combine(Tail(rs))
         IN IF a.err \/ b.err THEN Error ELSE Res(a.text \o b.text, a.missing \cup b.missing)

\* fmt: "meson" | "cmake" | "cmake@"
Configure(t, conf, fmt) ==
    LET ls == Lines(t) IN
    Combine([j \in 1..Len(ls) |->
               IF fmt = "meson" THEN MesonLine(ls[j], conf) ELSE CmakeLine(ls[j], conf, fmt = "cmake@")])

\* =============================================================================================
\* header generated without a template: one entry per key, keys in code-point order
\*   [d |-> "define" | "undef", k |-> key, v |-> value text, hasv |-> 0/1]
\* =============================================================================================
SeqLess(a, b) ==
    \E j \in 1..(Len(a) + 1) :
        /\ j <= Len(b)
        /\ \A h \in 1..(j - 1) : h <= Len(a) /\ a[h] = b[h]
        /\ (j = Len(a) + 1 \/ a[j] < b[j])
HeaderEntry(e) ==
    CASE e.t = "b" -> [d |-> IF e.n = 1 THEN "define" ELSE "undef", k |-> e.k, v |-> <<>>, hasv |-> 0]
      [] e.t = "i" -> [d |-> "define", k |-> e.k, v |-> Decimal(e.n), hasv |-> 1]
      [] e.t = "s" -> [d |-> "define", k |-> e.k, v |-> e.s, hasv |-> 1]
RECURSIVE SortedKeys(_)
SortedKeys(ks) ==
    IF ks = {} THEN <<>>
    ELSE LET m == CHOOSE x \in ks : \A y \in ks \ {x} : SeqLess(x, y) IN <<m>> \o SortedKeys(ks \ {m})
Header(conf) == LET ks == SortedKeys(Keys(conf)) IN [j \in 1..Len(ks) |-> HeaderEntry(Entry(conf, ks[j]))]

=============================================================================
