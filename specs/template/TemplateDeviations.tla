-------------------------- MODULE TemplateDeviations --------------------------
(***************************************************************************)
(* Named deviations from the rule book (Template) that the pinned          *)
(* implementation is known to show.  They are NOT part of the rule book:   *)
(* ConfigureD(t, conf, fmt, {}) = Configure(t, conf, fmt), and a trace is  *)
(* accepted only with the empty set.  The trace specification uses them to *)
(* *name* what went wrong in a rejected case (the smallest set of          *)
(* deviations that reproduces the observed output), so that a recorded     *)
(* genuine defect is recognised by its kind and any other difference still *)
(* is a violation of its own.                                              *)
(*                                                                         *)
(*  define-eol         the replacement of a #mesondefine / #cmakedefine    *)
(*                     line always ends in LF: a CR LF (or CR) is lost     *)
(*  mesondefine-rescan the replacement text of a string-valued             *)
(*                     #mesondefine is scanned for @placeholders@ again    *)
(*  cmake-empty-skip   cmake formats: after a placeholder that expands to  *)
(*                     nothing (empty or undefined) the next character is  *)
(*                     copied unexamined, so a placeholder starting there  *)
(*                     is not replaced                                     *)
(*  cmakedefine-missing-unreported                                         *)
(*                     undefined names in the rest of a #cmakedefine line  *)
(*                     are not reported                                    *)
(*  cmakedefine-hash-split                                                 *)
(*                     the tokens of a #cmakedefine line are taken after   *)
(*                     dropping the first character of the line instead of *)
(*                     the "#": with indentation and a blank after "#"     *)
(*                     the variable is taken to be "cmakedefine"           *)
(***************************************************************************)
EXTENDS TemplateSpace

Devs == {"define-eol", "mesondefine-rescan", "cmake-empty-skip", "cmakedefine-missing-unreported", "cmakedefine-hash-split"}

EolD(line, dv) == IF "define-eol" \in dv THEN <<LF>> ELSE DefineEol(line)

MesonDefineD(line, conf, dv) ==
    LET r == MesonDefine(line, conf) IN
    IF r.err THEN r
    ELSE LET body == SubSeq(r.text, 1, Len(r.text) - Len(DefineEol(line)))
             name == Tokens(line)[2]
             str  == Defined(conf, name) /\ Entry(conf, name).t = "s"
             b2   == IF "mesondefine-rescan" \in dv /\ str THEN MesonInline(body, conf).text ELSE body
         IN Res(b2 \o EolD(line, dv), {})

RECURSIVE CScanD(_, _, _, _, _, _, _)
CScanD(t, conf, atOnly, i, out, miss, dv) ==
    LET after(e, value, m) ==
            IF value = <<>> /\ "cmake-empty-skip" \in dv /\ e + 1 <= Len(t)
            THEN CScanD(t, conf, atOnly, e + 2, Append(out, t[e + 1]), m, dv)
            ELSE CScanD(t, conf, atOnly, e + 1, out \o value, m, dv)
    IN
    IF i > Len(t) THEN Res(out, miss)
    ELSE IF t[i] = AT /\ NextAt(t, i) > i + 1 /\ AllCmakeName(SubSeq(t, i + 1, NextAt(t, i) - 1)) THEN
        LET e == NextAt(t, i)
            name == SubSeq(t, i + 1, e - 1)
        IN IF Defined(conf, name) THEN after(e, InlineCmake(Entry(conf, name)), miss)
           ELSE after(e, <<>>, miss \cup {name})
    ELSE IF ~ atOnly /\ t[i] = DOLLAR /\ i < Len(t) /\ t[i + 1] = LBRACE THEN
        LET e == BraceClose(t, i + 2, 1) IN
        IF e <= 0 THEN Error
        ELSE LET inner == CScanD(SubSeq(t, i + 2, e - 1), conf, atOnly, 1, <<>>, miss, dv) IN
             IF inner.err \/ ~ AllCmakeName(inner.text) THEN Error
             ELSE IF Defined(conf, inner.text) THEN after(e, InlineCmake(Entry(conf, inner.text)), inner.missing)
                  ELSE after(e, <<>>, inner.missing \cup {inner.text})
    ELSE CScanD(t, conf, atOnly, i + 1, Append(out, t[i]), miss, dv)

CmakeInlineD(t, conf, atOnly, dv) == CScanD(t, conf, atOnly, 1, <<>>, {}, dv)

CmakeDefineD(line, conf, atOnly, dv) ==
    LET f    == FirstNonWs(line)
        toks == IF "cmakedefine-hash-split" \in dv THEN Tokens(SubSeq(line, 2, Len(line)))
                ELSE Tokens(SubSeq(line, f + 1, Len(line)))
        is01 == IF "cmakedefine-hash-split" \in dv THEN Contains(line, KwCmakedefine01) ELSE Head(toks) = KwCmakedefine01
        args == Tail(toks)
    IN IF args = <<>> THEN Error
       ELSE LET name == args[1]
                on == Defined(conf, name) /\ Truthy(Entry(conf, name))
            IN IF is01 THEN Res(TxtDefine \o name \o <<SP, IF on THEN 49 ELSE 48>> \o EolD(line, dv), {})
               ELSE IF ~ on THEN Res(TxtCUndefOpen \o name \o TxtCClose \o EolD(line, dv), {})
               ELSE LET rest == CmakeInlineD(TxtDefine \o name \o (IF Len(args) > 1 THEN <<SP>> \o JoinSp(Tail(args)) ELSE <<>>),
                                             conf, atOnly, dv) IN
                    IF rest.err THEN Error
                    ELSE Res(rest.text \o EolD(line, dv),
                             IF "cmakedefine-missing-unreported" \in dv THEN {} ELSE rest.missing)

MesonLineD(line, conf, dv) ==
    IF IsMesonDefine(line) THEN MesonDefineD(line, conf, dv)
    ELSE IF HasCmakeDefineMark(line) THEN Error
    ELSE MesonInline(line, conf)

CmakeLineD(line, conf, atOnly, dv) ==
    IF IsCmakeDefine(line) THEN CmakeDefineD(line, conf, atOnly, dv)
    ELSE IF Contains(line, KwMesondefine) THEN Error
    ELSE CmakeInlineD(line, conf, atOnly, dv)

ConfigureD(t, conf, fmt, dv) ==
    LET ls == Lines(t) IN
    Combine([j \in 1..Len(ls) |->
               IF fmt = "meson" THEN MesonLineD(ls[j], conf, dv) ELSE CmakeLineD(ls[j], conf, fmt = "cmake@", dv)])

\* the smallest sets of deviations that reproduce an observation (text, missing, rejected)
Explains(t, conf, fmt, dv, err, text, missing) ==
    LET r == ConfigureD(t, conf, fmt, dv) IN r.err = err /\ (~ err => r.text = text /\ r.missing = missing)
ExplainedBy(t, conf, fmt, err, text, missing, k) ==
    { dv \in SUBSET Devs : Cardinality(dv) = k /\ Explains(t, conf, fmt, dv, err, text, missing) }
Explanations(t, conf, fmt, err, text, missing) ==
    LET e1 == ExplainedBy(t, conf, fmt, err, text, missing, 1) IN IF e1 # {} THEN e1 ELSE
    LET e2 == ExplainedBy(t, conf, fmt, err, text, missing, 2) IN IF e2 # {} THEN e2 ELSE
    LET e3 == ExplainedBy(t, conf, fmt, err, text, missing, 3) IN IF e3 # {} THEN e3 ELSE
    LET e4 == ExplainedBy(t, conf, fmt, err, text, missing, 4) IN IF e4 # {} THEN e4 ELSE
    ExplainedBy(t, conf, fmt, err, text, missing, 5)
=============================================================================
