----------------------------- MODULE TemplateFile -----------------------------
(***************************************************************************)
(* configure_file() at the level of FILES (property C14, clause "copies    *)
(* every other byte (including line endings) unchanged").                  *)
(*                                                                         *)
(* A template is a sequence of BYTES.  It is decoded with the codec named  *)
(* by the `encoding:` argument (docs/yaml/functions/configure_file.yaml:   *)
(* "Set the file encoding for the input and output file"), the text is     *)
(* processed by the rule book Template!Configure, and the result is        *)
(* encoded with the SAME codec.  A template that cannot be decoded, and a  *)
(* result that cannot be encoded, reject the template.                     *)
(*                                                                         *)
(* The codecs are the environment (Python's codecs as used by a text file  *)
(* opened with newline=''): utf-8, iso-8859-1 (latin-1), iso-8859-15,      *)
(* cp1252, utf-16-le and utf-16 (byte order mark required on input,        *)
(* written little-endian with mark on output unless the text is empty).    *)
(***************************************************************************)
EXTENDS TemplateSpace

Encodings == <<"utf-8", "iso-8859-1", "iso-8859-15", "cp1252", "utf-16-le", "utf-16">>
EightBit == {"iso-8859-1", "iso-8859-15", "cp1252"}

D(ok, s) == [ok |-> ok, s |-> s]
Bad == D(FALSE, <<>>)

\* ---- 8-bit character sets: byte -> code point (-1 = undefined) ---------------------------------
Latin9Pairs == << <<164, 8364>>, <<166, 352>>, <<168, 353>>, <<180, 381>>, <<184, 382>>, <<188, 338>>, <<189, 339>>, <<190, 376>> >>
Cp1252Pairs == << <<128, 8364>>, <<130, 8218>>, <<131, 402>>, <<132, 8222>>, <<133, 8230>>, <<134, 8224>>, <<135, 8225>>,
                  <<136, 710>>, <<137, 8240>>, <<138, 352>>, <<139, 8249>>, <<140, 338>>, <<142, 381>>, <<145, 8216>>,
                  <<146, 8217>>, <<147, 8220>>, <<148, 8221>>, <<149, 8226>>, <<150, 8211>>, <<151, 8212>>, <<152, 732>>,
                  <<153, 8482>>, <<154, 353>>, <<155, 8250>>, <<156, 339>>, <<158, 382>>, <<159, 376>> >>
Lookup(ps, by) == IF \E j \in 1..Len(ps) : ps[j][1] = by THEN ps[CHOOSE j \in 1..Len(ps) : ps[j][1] = by][2] ELSE -1
Latin1Tab == [by \in 0..255 |-> by]
Latin9Tab == [by \in 0..255 |-> IF Lookup(Latin9Pairs, by) >= 0 THEN Lookup(Latin9Pairs, by) ELSE by]
Cp1252Tab == [by \in 0..255 |-> IF by \in 128..159 THEN Lookup(Cp1252Pairs, by) ELSE by]
Tab(enc) == CASE enc = "iso-8859-1" -> Latin1Tab [] enc = "iso-8859-15" -> Latin9Tab [] enc = "cp1252" -> Cp1252Tab

Dec8(enc, by) ==
    LET tab == Tab(enc) IN
    IF \E j \in 1..Len(by) : tab[by[j]] < 0 THEN Bad ELSE D(TRUE, [j \in 1..Len(by) |-> tab[by[j]]])
ByteOf(tab, c) == IF c < 128 THEN c
                  ELSE IF \E x \in 128..255 : tab[x] = c THEN CHOOSE x \in 128..255 : tab[x] = c ELSE -1
Enc8(enc, s) ==
    LET tab == Tab(enc)
        bs == [j \in 1..Len(s) |-> ByteOf(tab, s[j])]
    IN IF \E j \in 1..Len(s) : bs[j] < 0 THEN Bad ELSE D(TRUE, bs)

\* ---- utf-8 (strict: no overlong forms, no surrogates, nothing above U+10FFFF) -------------------
RECURSIVE U8Dec(_, _, _)
U8Dec(by, i, acc) ==
    IF i > Len(by) THEN D(TRUE, acc)
    ELSE LET b0 == by[i]
             cont(j) == j <= Len(by) /\ by[j] \in 128..191
             low(j) == by[j] - 128
         IN IF b0 < 128 THEN U8Dec(by, i + 1, Append(acc, b0))
            ELSE IF b0 \in 194..223 /\ cont(i + 1)
                 THEN U8Dec(by, i + 2, Append(acc, (b0 - 192) * 64 + low(i + 1)))
            ELSE IF b0 \in 224..239 /\ cont(i + 1) /\ cont(i + 2)
                    /\ (b0 = 224 => by[i + 1] >= 160) /\ (b0 = 237 => by[i + 1] <= 159)
                 THEN U8Dec(by, i + 3, Append(acc, (b0 - 224) * 4096 + low(i + 1) * 64 + low(i + 2)))
            ELSE IF b0 \in 240..244 /\ cont(i + 1) /\ cont(i + 2) /\ cont(i + 3)
                    /\ (b0 = 240 => by[i + 1] >= 144) /\ (b0 = 244 => by[i + 1] <= 143)
                 THEN U8Dec(by, i + 4, Append(acc, (b0 - 240) * 262144 + low(i + 1) * 4096 + low(i + 2) * 64 + low(i + 3)))
            ELSE Bad
IsSurrogate(c) == c \in 55296..57343
U8Of(c) ==
    IF c < 128 THEN <<c>>
    ELSE IF c < 2048 THEN <<192 + (c \div 64), 128 + (c % 64)>>
    ELSE IF c < 65536 THEN <<224 + (c \div 4096), 128 + ((c \div 64) % 64), 128 + (c % 64)>>
    ELSE <<240 + (c \div 262144), 128 + ((c \div 4096) % 64), 128 + ((c \div 64) % 64), 128 + (c % 64)>>
EncU8(s) == IF \E j \in 1..Len(s) : IsSurrogate(s[j]) \/ s[j] > 1114111 THEN Bad
            ELSE D(TRUE, Concat([j \in 1..Len(s) |-> U8Of(s[j])]))

\* ---- utf-16 -----------------------------------------------------------------------------------------
\* units of a byte sequence read little-endian (le = TRUE) or big-endian
RECURSIVE U16Dec(_, _, _, _)
U16Dec(by, i, le, acc) ==
    IF i > Len(by) THEN D(TRUE, acc)
    ELSE IF i = Len(by) THEN Bad                                   \* half a unit
    ELSE LET unit(j) == IF le THEN by[j] + 256 * by[j + 1] ELSE 256 * by[j] + by[j + 1]
             u == unit(i)
         IN IF u \in 55296..56319 THEN                          \* high surrogate: a low one must follow
                 IF i + 3 <= Len(by) /\ unit(i + 2) \in 56320..57343
                 THEN U16Dec(by, i + 4, le, Append(acc, 65536 + (u - 55296) * 1024 + (unit(i + 2) - 56320)))
                 ELSE Bad
            ELSE IF u \in 56320..57343 THEN Bad
            ELSE U16Dec(by, i + 2, le, Append(acc, u))
U16Of(c) ==
    IF c < 65536 THEN <<c % 256, c \div 256>>
    ELSE LET v == c - 65536
             hi == 55296 + (v \div 1024)
             lo == 56320 + (v % 1024)
         IN <<hi % 256, hi \div 256, lo % 256, lo \div 256>>
EncU16LE(s) == IF \E j \in 1..Len(s) : IsSurrogate(s[j]) \/ s[j] > 1114111 THEN Bad
               ELSE D(TRUE, Concat([j \in 1..Len(s) |-> U16Of(s[j])]))
BomLE == <<255, 254>>
BomBE == <<254, 255>>
DecU16(by) ==
    IF by = <<>> THEN D(TRUE, <<>>)
    ELSE IF Len(by) = 1 THEN Bad
    ELSE IF SubSeq(by, 1, 2) = BomLE THEN U16Dec(by, 3, TRUE, <<>>)
    ELSE IF SubSeq(by, 1, 2) = BomBE THEN U16Dec(by, 3, FALSE, <<>>)
    ELSE Bad                                                       \* a stream without byte order mark

\* ---- decoding a template file, encoding the configured file -----------------------------------------
Decode(enc, by) ==
    CASE enc = "utf-8" -> U8Dec(by, 1, <<>>)
      [] enc \in EightBit -> Dec8(enc, by)
      [] enc = "utf-16-le" -> U16Dec(by, 1, TRUE, <<>>)
      [] enc = "utf-16" -> DecU16(by)
\* the stateless part of the codec
EncodeText(enc, s) ==
    CASE enc = "utf-8" -> EncU8(s)
      [] enc \in EightBit -> Enc8(enc, s)
      [] enc \in {"utf-16-le", "utf-16"} -> EncU16LE(s)
\* a file: utf-16 starts with the mark as soon as anything (even an empty line) is written, i.e. unless the
\* template was empty
EncodeFile(enc, s, wroteSomething) ==
    LET e == EncodeText(enc, s) IN
    IF enc = "utf-16" /\ e.ok /\ wroteSomething THEN D(TRUE, BomLE \o e.s) ELSE e

FRes(bytes, missing) == [err |-> FALSE, bytes |-> bytes, missing |-> missing]
FileError == [err |-> TRUE, bytes |-> <<>>, missing |-> {}]

ConfigureFile(by, enc, conf, fmt) ==
    LET d == Decode(enc, by) IN
    IF ~ d.ok THEN FileError
    ELSE LET r == Configure(d.s, conf, fmt) IN
         IF r.err THEN FileError
         ELSE LET e == EncodeFile(enc, r.text, d.s # <<>>) IN
              IF ~ e.ok THEN FileError ELSE FRes(e.s, r.missing)

\* ---- scope -----------------------------------------------------------------------------------------
\* the rule book knows ASCII blanks only: texts with other Unicode white space are not judged
ExoticWs(c) == c \in 28..31 \/ c \in {133, 160, 5760, 8232, 8233, 8239, 8287, 12288} \/ c \in 8192..8202
FileInScope(by, enc, conf, fmt) ==
    LET d == Decode(enc, by) IN
    ~ d.ok \/ ((\A j \in 1..Len(d.s) : ~ ExoticWs(d.s[j])) /\ InScope(d.s, conf, fmt))

\* a byte sequence that its codec writes back exactly as it was (utf-16: little-endian with mark, not mark only)
Canonical(by, enc) == enc # "utf-16" \/ (Len(by) > 2 /\ SubSeq(by, 1, 2) = BomLE)
=============================================================================
