SPECIFICATION Spec
CONSTANTS
 ByteSel = {1, 2, 3, 4, 6, 7}
 EncSel = {1, 2, 3, 4}
 ConfSel = {11, 12, 13}
 FmtSel = {1, 2, 3}
 MaxLen = 2
INVARIANT UndecodableIsError
INVARIANT DecodeEncodeRoundTrip
INVARIANT BytesOutsidePlaceholdersUnchanged
INVARIANT EncodingDistributes
INVARIANT AsciiAgreesWithDefault
INVARIANT ErrorHasNoOutput
CHECK_DEADLOCK FALSE
POSTCONDITION EmitSpace
