---------------------------- MODULE TemplateFile_MC ----------------------------
(* Laws of the file level, checked over every byte template of up to MaxLen     *)
(* atoms from ByteSel x encoding x configuration x format.                      *)
EXTENDS TemplateFile, TLC, Json, IOUtils
CONSTANTS ByteSel, EncSel, ConfSel, FmtSel, MaxLen
VARIABLES atoms, ei, ci, fi
vars == <<atoms, ei, ci, fi>>

\* byte atoms: ASCII placeholders, non-ASCII filler in several codecs, broken sequences
ByteAtoms == <<
    <<64, 97, 64>>,                         \*  1  @a@
    <<36, 123, 97, 125>>,                   \*  2  ${a}
    <<252>>,                                \*  3  FC   u-umlaut in the 8-bit sets, invalid alone in utf-8
    <<164>>,                                \*  4  A4   currency sign (latin-1, cp1252) / euro sign (latin-9)
    <<128>>,                                \*  5  80   euro sign in cp1252, a C1 control in latin-1/9
    <<129>>,                                \*  6  81   undefined in cp1252
    <<13, 10>>,                             \*  7  CR LF
    <<195, 188>>,                           \*  8  u-umlaut in utf-8
    <<226, 130, 172>>,                      \*  9  euro sign in utf-8
    <<195>>,                                \* 10  a truncated utf-8 sequence
    <<240, 159, 152, 128>>,                 \* 11  U+1F600 in utf-8
    <<255, 254>>,                           \* 12  byte order mark, little-endian
    <<254, 255>>,                           \* 13  byte order mark, big-endian
    <<64, 0, 97, 0, 64, 0>>,                \* 14  @a@ in utf-16-le
    <<36, 0, 123, 0, 97, 0, 125, 0>>,       \* 15  ${a} in utf-16-le
    <<252, 0>>,                             \* 16  u-umlaut in utf-16-le
    <<172, 32>>,                            \* 17  euro sign in utf-16-le
    <<0, 216>>,                             \* 18  a lone high surrogate
    <<61, 216, 0, 222>>,                    \* 19  U+1F600 in utf-16-le
    <<10, 0>>,                              \* 20  LF in utf-16-le
    <<97>>,                                 \* 21  a (half a unit in utf-16)
    <<35, 109, 101, 115, 111, 110, 100, 101, 102, 105, 110, 101, 32, 65, 13, 10>>,     \* 22  #mesondefine A CR LF
    <<35, 99, 109, 97, 107, 101, 100, 101, 102, 105, 110, 101, 32, 65, 32, 64, 97, 64, 10>>, \* 23  #cmakedefine A @a@ LF
    <<233>>,                                \* 24  E9   e-acute in the 8-bit sets
    <<92>>                                  \* 25  backslash
>>

Init == atoms \in SeqsOver(ByteSel, MaxLen) /\ ei \in EncSel /\ ci \in ConfSel /\ fi \in FmtSel
Next == UNCHANGED vars
Spec == Init /\ [][Next]_vars

bytes == Concat([j \in 1..Len(atoms) |-> ByteAtoms[atoms[j]]])
enc == Encodings[ei]
conf == ConfTable[ci]
fmt == Formats[fi]
dec == Decode(enc, bytes)
R == ConfigureFile(bytes, enc, conf, fmt)

\* a template that cannot be decoded is rejected
UndecodableIsError == ~ dec.ok => R.err

\* decoding and encoding are inverse: what is written reads back as the configured text, and a decodable
\* template in the codec's own form is written back byte for byte
DecodeEncodeRoundTrip ==
    dec.ok =>
        /\ (Canonical(bytes, enc) => EncodeFile(enc, dec.s, dec.s # <<>>) = D(TRUE, bytes))
        /\ (~ R.err => LET back == Decode(enc, R.bytes) IN back.ok /\ back.s = Configure(dec.s, conf, fmt).text)

\* bytes outside placeholders are copied: a template without any special character is its own output ...
Special(c) == c \in {BS, AT, DOLLAR, HASH}
BytesOutsidePlaceholdersUnchanged ==
    (dec.ok /\ Canonical(bytes, enc) /\ \A j \in 1..Len(dec.s) : ~ Special(dec.s[j])) => R = FRes(bytes, {})
\* ... and in general the output is the concatenation of the encoded pieces: encoding distributes over every
\* cut of the text, so the bytes of a literal stretch do not depend on what is substituted around it
EncodingDistributes ==
    LET txt == Configure(dec.s, conf, fmt).text IN
    (dec.ok /\ ~ R.err) =>
        \A k \in 0..Len(txt) :
            LET l == EncodeText(enc, SubSeq(txt, 1, k))
                r == EncodeText(enc, SubSeq(txt, k + 1, Len(txt)))
            IN l.ok /\ r.ok /\ l.s \o r.s = EncodeText(enc, txt).s

\* ASCII is common to utf-8 and the 8-bit sets: an all-ASCII template with all-ASCII values gives the same bytes
Ascii(s) == \A j \in 1..Len(s) : s[j] < 128
AsciiAgreesWithDefault ==
    (enc \in EightBit /\ Ascii(bytes) /\ \A j \in 1..Len(conf) : Ascii(conf[j].s)) => R = ConfigureFile(bytes, "utf-8", conf, fmt)

\* the result is all-or-nothing
ErrorHasNoOutput == R.err => R.bytes = <<>> /\ R.missing = {}

EmitSpace == TLCGet("stats").diameter >= 0 /\
             JsonSerialize("filespace.json", [batoms |-> ByteAtoms, confs |-> ConfTable, formats |-> Formats, encodings |-> Encodings])
=============================================================================
