---------------------------- MODULE TemplateSpace ----------------------------
(***************************************************************************)
(* The bounded template space shared by the model-checking module and      *)
(* (through the exported JSON) by the implementation replay: a table of    *)
(* atoms (single characters and placeholder-like fragments), a table of    *)
(* configuration dictionaries, and which templates are in scope.           *)
(***************************************************************************)
EXTENDS Template

AtomTable == <<
    <<92>>,                     \*  1  backslash
    <<64>>,                     \*  2  @
    <<97>>,                     \*  3  a
    <<98>>,                     \*  4  b
    <<32>>,                     \*  5  space
    <<45>>,                     \*  6  -
    <<36>>,                     \*  7  $
    <<123>>,                    \*  8  {
    <<125>>,                    \*  9  }
    <<35>>,                     \* 10  #
    <<10>>,                     \* 11  LF
    <<13, 10>>,                 \* 12  CR LF
    <<13>>,                     \* 13  CR
    <<9>>,                      \* 14  TAB
    KwMesondefine,              \* 15  #mesondefine
    <<35>> \o KwCmakedefine,    \* 16  #cmakedefine
    <<35>> \o KwCmakedefine01,  \* 17  #cmakedefine01
    <<35, 32>> \o KwCmakedefine,\* 18  # cmakedefine
    <<65>>,                     \* 19  A
    <<66>>,                     \* 20  B
    <<64, 97, 64>>,             \* 21  @a@
    <<36, 123, 97, 125>>,       \* 22  ${a}
    <<120>>,                    \* 23  x
    <<64, 98, 64>>,             \* 24  @b@
    <<36, 123, 98, 125>>,       \* 25  ${b}
    <<67>>                      \* 26  C (never defined)
>>

S(k, s) == [k |-> k, t |-> "s", s |-> s, n |-> 0]
I(k, n) == [k |-> k, t |-> "i", s |-> <<>>, n |-> n]
Bo(k, n) == [k |-> k, t |-> "b", s |-> <<>>, n |-> n]
a == <<97>>
b == <<98>>
ConfTable == <<
    <<>>,                                                        \* 1  empty
    << S(a, <<88>>) >>,                                          \* 2  a = 'X'
    << S(a, <<64, 98, 64>>), S(b, <<89>>) >>,                    \* 3  a = '@b@' (looks like a placeholder), b = 'Y'
    << S(a, <<92, 64, 98, 92, 64>>), S(b, <<36, 123, 97, 125>>) >>,  \* 4  a = '\@b\@', b = '${a}'
    << I(a, 7), S(b, <<>>) >>,                                   \* 5  a = 7, b = ''
    << S(a, <<120, 32, 121>>), Bo(<<65>>, 1), Bo(<<66>>, 0) >>,  \* 6  a = 'x y', A = true, B = false
    << S(<<65>>, <<64, 97, 64>>), S(a, <<90>>), I(<<66>>, 0) >>, \* 7  A = '@a@', a = 'Z', B = 0
    << S(a, <<88>>), S(b, <<89, 89>>), S(<<65>>, <<118>>), I(<<66>>, -3) >>,  \* 8  a = 'X', b = 'YY', A = 'v', B = -3
    << S(<<65>>, <<36, 123, 97, 125>>), S(a, <<90>>) >>,         \* 9  A = '${a}', a = 'Z'
    << S(<<65>>, <<118>>), Bo(<<66>>, 1) >>,                     \* 10 A = 'v', B = true (a, b undefined)
    << S(a, <<252, 8364>>), Bo(<<65>>, 1) >>,                    \* 11 a = u-umlaut + euro sign, A = true
    << S(a, <<26085>>) >>,                                       \* 12 a = a CJK character (no 8-bit codec has it)
    << S(a, <<120>>), S(<<65>>, <<233>>) >>                      \* 13 a = 'x', A = e-acute
>>
Formats == <<"meson", "cmake", "cmake@">>

SeqsOver(X, n) == UNION { [1..k -> X] : k \in 0..n }
TextOf(atoms) == Concat([j \in 1..Len(atoms) |-> AtomTable[atoms[j]]])

\* ---- scope: what the documentation and the pinned cases do not decide is not generated -------
\* in a define line the keyword stands alone (followed by a blank), and names a variable
KeywordAlone(line, kwEnd) == kwEnd + 1 <= Len(line) /\ IsWs(line[kwEnd + 1])
LineInScope(line, conf, fmt) ==
    IF fmt = "meson" THEN
        IF IsMesonDefine(line) THEN KeywordAlone(line, FirstNonWs(line) + Len(KwMesondefine) - 1)
        ELSE \* a boolean has no documented inline rendering in the meson format
             LET segs == MSegs(line, 1) IN
             \A j \in 1..Len(segs) : segs[j].k = "var" /\ Defined(conf, segs[j].dst) => Entry(conf, segs[j].dst).t # "b"
    ELSE
        IF IsCmakeDefine(line)
        THEN LET f == FirstNonWs(line)
                 toks == Tokens(SubSeq(line, f + 1, Len(line)))
             IN /\ Head(toks) \in {KwCmakedefine, KwCmakedefine01}
                /\ Len(toks) >= 2
                \* a token of the rest that is itself a key is outside the documentation
                /\ \A j \in 3..Len(toks) : ~ Defined(conf, toks[j])
                /\ (Head(toks) = KwCmakedefine01 => Len(toks) = 2)
                \* the keyword is not used as a name
                /\ \A j \in 2..Len(toks) : ~ Contains(toks[j], KwCmakedefine)
        ELSE TRUE
\* cmake formats: what happens to a value that itself contains placeholder characters is not
\* documented (the statement promises "never scanned again" for the meson format only)
PlainValue(s) == \A j \in 1..Len(s) : s[j] \notin {AT, DOLLAR, LBRACE, RBRACE, BS}
ConfInScope(conf, fmt) ==
    fmt = "meson" \/ \A j \in 1..Len(conf) : conf[j].t = "s" => PlainValue(conf[j].s)
InScope(t, conf, fmt) ==
    /\ ConfInScope(conf, fmt)
    /\ LET ls == Lines(t) IN \A j \in 1..Len(ls) : LineInScope(ls[j], conf, fmt)
=============================================================================
