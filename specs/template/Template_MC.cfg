SPECIFICATION Spec
CONSTANTS
 AtomSel = {1, 2, 3, 5, 11}
 ConfSel = {1, 2, 3, 4, 5}
 FmtSel = {1}
 MaxLen = 2
INVARIANT ScanEqualsSegments
INVARIANT OtherBytesUntouched
INVARIANT NoRescan
INVARIANT MissingAreUndefinedNamesOfTheTemplate
INVARIANT HeaderHasExactlyKeysSorted
INVARIANT PinnedCasesHold
CHECK_DEADLOCK FALSE
POSTCONDITION EmitSpace
