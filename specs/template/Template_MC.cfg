SPECIFICATION Spec
CONSTANTS
 AtomSel = {1, 2, 3, 6, 5, 11}
 ConfSel = {1, 2, 3, 4, 5}
 FmtSel = {1}
 MaxLen = 4
INVARIANT ScanEqualsSegments
INVARIANT OtherBytesUntouched
INVARIANT NoRescan
INVARIANT MissingAreUndefinedNamesOfTheTemplate
INVARIANT DeviationsOffIsRuleBook
INVARIANT HeaderHasExactlyKeysSorted
INVARIANT PinnedCasesHold
CHECK_DEADLOCK FALSE
POSTCONDITION EmitSpace
