------------------------------ MODULE Template_MC ------------------------------
(* Laws of the substitution rule book, checked over every template of up to    *)
(* MaxLen atoms from AtomSel x every configuration of ConfSel x every format   *)
(* of FmtSel.  A state is one (template, configuration, format); there are no  *)
(* steps.                                                                      *)
EXTENDS TemplatePinned, TemplateDeviations, TLC, Json, IOUtils
CONSTANTS AtomSel, ConfSel, FmtSel, MaxLen
VARIABLES atoms, ci, fi
vars == <<atoms, ci, fi>>

Init == atoms \in SeqsOver(AtomSel, MaxLen) /\ ci \in ConfSel /\ fi \in FmtSel
Next == UNCHANGED vars
Spec == Init /\ [][Next]_vars

t == TextOf(atoms)
conf == ConfTable[ci]
fmt == Formats[fi]
R == Configure(t, conf, fmt)

\* the operational scanner and the configuration-independent segmentation agree (meson format)
ScanEqualsSegments ==
    \A ln \in { Lines(t)[j] : j \in 1..Len(Lines(t)) } : MesonInline(ln, conf) = RenderSegs(MSegs(ln, 1), conf)

\* every byte outside a placeholder is copied: the segments tile the input, literal segments are
\* copied verbatim, and a template without any of the special characters is its own output
Special(c) == c \in {BS, AT, DOLLAR, HASH}
OtherBytesUntouched ==
    /\ \A ln \in { Lines(t)[j] : j \in 1..Len(Lines(t)) } :
          LET segs == MSegs(ln, 1) IN
          /\ Concat([j \in 1..Len(segs) |-> segs[j].src]) = ln
          /\ \A j \in 1..Len(segs) : segs[j].k = "lit" => segs[j].dst = segs[j].src
    /\ ((\A j \in 1..Len(t) : ~ Special(t[j])) => R = Res(t, {}))
    /\ Concat(Lines(t)) = t

\* a substituted value is never scanned again: substituting opaque markers first and the real
\* values afterwards gives the same output as substituting the real values directly
Marker(j) == <<j>>          \* code points 1..8 occur in no template
Opaque(c) == [j \in 1..Len(c) |-> IF c[j].t = "s" /\ c[j].s # <<>> THEN [c[j] EXCEPT !.s = Marker(j)] ELSE c[j]]
Expand(s, c) == Concat([j \in 1..Len(s) |-> IF s[j] \in 1..Len(c) THEN c[s[j]].s ELSE <<s[j]>>])
NoRescan ==
    LET O == Configure(t, Opaque(conf), fmt) IN
    /\ O.err = R.err
    /\ ~ R.err => (R.text = Expand(O.text, conf) /\ R.missing = O.missing)

\* exactly the undefined names are reported, and each occurs in the template
MissingAreUndefinedNamesOfTheTemplate ==
    \A m \in R.missing : ~ Defined(conf, m) /\ \E i \in 1..Len(t) : StartsWith(t, i, m) \/ m = <<>>

\* a header generated without a template: exactly the keys, once each, in sorted order
HeaderHasExactlyKeysSorted ==
    LET H == Header(conf) IN
    /\ { H[j].k : j \in 1..Len(H) } = Keys(conf)
    /\ Len(H) = Cardinality(Keys(conf))
    /\ \A j \in 1..(Len(H) - 1) : SeqLess(H[j].k, H[j + 1].k)

\* the named deviations (TemplateDeviations) are additions to the rule book, not part of it
DeviationsOffIsRuleBook == ConfigureD(t, conf, fmt, {}) = R

EmitSpace == TLCGet("stats").diameter >= 0 /\
             JsonSerialize("space.json", [atoms |-> AtomTable, confs |-> ConfTable, formats |-> Formats])
=============================================================================
