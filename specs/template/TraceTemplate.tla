----------------------------- MODULE TraceTemplate -----------------------------
(***************************************************************************)
(* Trace validation for C14.  The batch file holds a table of atoms, a     *)
(* table of configuration dictionaries and the cases.  A case is one       *)
(* execution of the real substitution (do_conf_file / configure_file()):   *)
(*   id  number of the case                                                *)
(*   a   the template as indices into the atom table   (or)                *)
(*   t   the template as code points                                       *)
(*   c   index of the configuration, f index of the format                 *)
(*   e   0 = produced output, 1 = rejected with a MesonException,          *)
(*       2 = died with any other exception                                 *)
(*   o   the output (code points), m the reported undefined names          *)
(* or of the header dump (dump_conf_header):                               *)
(*   hd  the directives of the generated header in file order,             *)
(*       [d, k, v, hasv]                                                   *)
(* or of the file level (TemplateFile): ba / by, en, ob (see JudgeFile).    *)
(* The case is accepted iff Template!Configure / Template!Header give the   *)
(* same result; cases outside the documented scope (TemplateSpace!InScope) *)
(* are accepted without judgement.                                         *)
(***************************************************************************)
EXTENDS TemplateDeviations, TemplateFile, TLC, Json, IOUtils

T == JsonDeserialize(IOEnv.TRACE_FILE)
Cases == T.cases

VARIABLES i, done
vars == <<i, done>>

ToSet(s) == { s[j] : j \in 1..Len(s) }
TextOfCase(c) == IF "a" \in DOMAIN c THEN Concat([j \in 1..Len(c.a) |-> T.atoms[c.a[j]]]) ELSE c.t

V(c, clause, exp, got) == [id |-> c.id, clause |-> clause, expected |-> exp, got |-> got]

JudgeHeader(c) ==
    LET H == Header(T.confs[c.c]) IN
    IF c.hd = H THEN <<>>
    ELSE <<V(c, "HeaderHasExactlyKeysSorted", [j \in 1..Len(H) |-> H[j].k], [j \in 1..Len(c.hd) |-> c.hd[j].k])>>

\* a rejected case is named: by the smallest set of known deviations that reproduces the observation
\* (clause "Deviation", got = the names), else by the part of the result that differs
JudgeTemplate(c) ==
    LET t == TextOfCase(c)
        conf == T.confs[c.c]
        fmt == Formats[c.f]
    IN IF ~ InScope(t, conf, fmt) THEN <<>>
       ELSE LET r == Configure(t, conf, fmt) IN
            IF c.e = 2 THEN <<V(c, "Crashed", r.text, <<>>)>>
            ELSE IF r.err = (c.e = 1) /\ (r.err \/ (r.text = c.o /\ r.missing = ToSet(c.m))) THEN <<>>
            ELSE LET ex == Explanations(t, conf, fmt, c.e = 1, c.o, ToSet(c.m)) IN
                 IF ex # {} THEN <<V(c, "Deviation", r.text, CHOOSE dv \in ex : TRUE)>>
                 ELSE IF r.err # (c.e = 1)
                      THEN <<V(c, IF r.err THEN "AcceptedButMustReject" ELSE "RejectedButMustAccept", r.text, c.o)>>
                 ELSE (IF r.text # c.o THEN <<V(c, "Text", r.text, c.o)>> ELSE <<>>)
                      \o (IF r.missing # ToSet(c.m) THEN <<V(c, "MissingReport", r.missing, ToSet(c.m))>> ELSE <<>>)

\* file level: the template and the output are BYTES, `en` names the codec of the `encoding:` argument
\*   ba  the template as indices into the byte-atom table T.batoms   (or)   by  the template bytes
\*   ob  the bytes of the produced file
BytesOfCase(c) == IF "ba" \in DOMAIN c THEN Concat([j \in 1..Len(c.ba) |-> T.batoms[c.ba[j]]]) ELSE c.by
JudgeFile(c) ==
    LET bytes == BytesOfCase(c)
        enc == Encodings[c.en]
        conf == T.confs[c.c]
        fmt == Formats[c.f]
    IN IF ~ FileInScope(bytes, enc, conf, fmt) THEN <<>>
       ELSE LET r == ConfigureFile(bytes, enc, conf, fmt) IN
            IF c.e = 2 THEN <<V(c, "Crashed", r.bytes, <<>>)>>
            ELSE IF r.err # (c.e = 1)
                 THEN <<V(c, IF r.err THEN "AcceptedButMustReject" ELSE "RejectedButMustAccept", r.bytes, c.ob)>>
            ELSE IF r.err THEN <<>>
            ELSE (IF r.bytes # c.ob THEN <<V(c, "FileBytes", r.bytes, c.ob)>> ELSE <<>>)
                 \o (IF r.missing # ToSet(c.m) THEN <<V(c, "MissingReport", r.missing, ToSet(c.m))>> ELSE <<>>)

Judge(c) == IF "hd" \in DOMAIN c THEN JudgeHeader(c)
            ELSE IF "en" \in DOMAIN c THEN JudgeFile(c)
            ELSE JudgeTemplate(c)

Init == i \in 1..Len(Cases) /\ done = FALSE
Next == /\ ~ done
        /\ done' = TRUE
        /\ i' = i
        /\ LET vs == Judge(Cases[i]) IN vs = <<>> \/ PrintT(ToJson(vs))
Spec == Init /\ [][Next]_vars
=============================================================================
