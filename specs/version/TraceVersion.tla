---------------------------- MODULE TraceVersion ----------------------------
(***************************************************************************)
(* Trace validation for C19.  The trace file holds                         *)
(*   dom   : a list of version strings (sequences of code points), and     *)
(*   cases : recorded calls of the real code (mesonlib.Version,            *)
(*           version_compare, version_compare_many, str.version_compare()  *)
(*           through the interpreter, Range.__contains__/intersect/always, *)
(*           version_check_to_range, version_compare_condition_with_min,   *)
(*           and the entry points of VersionEntry: meson.version(),        *)
(*           dependency / find_program / subproject `version:`,            *)
(*           project(meson_version:), compiler and dependency versions),   *)
(*           and whole feature-check programs (VersionFeature): nested     *)
(*           if / elif / else on meson.version().version_compare() with    *)
(*           FeatureNew / FeatureDeprecated uses and probes, observed per  *)
(*           event and judged by folding the machine over the events.      *)
(* Versions are tokenised *here* (Version!Tokenise), so the tokenisation   *)
(* rule is part of what is judged.  Ranges returned by the code are        *)
(* observed only through membership (`m`: the positions of dom that the    *)
(* returned range contains) and judged against the membership laws of      *)
(* VersionRange.  One initial state per case; the judgement is made in the *)
(* single step so that all TLC workers share the batch.                    *)
(***************************************************************************)
EXTENDS VersionFeature, TLC, Json, IOUtils

File == JsonDeserialize(IOEnv.TRACE_FILE)
Dom == File.dom
Cases == File.cases
N == Len(Dom)
J == 1..N
DomTok == [j \in J |-> Tokenise(Dom[j])]
V(j) == DomTok[j]

VARIABLES i, done
vars == <<i, done>>

\* ---- observed relation codes: lt=1 le=2 gt=4 ge=8 eq=16 ne=32 (+64: hashes equal) ----
Bit(code, b) == (code \div b) % 2 = 1
ExpectedCode(c) == IF c < 0 THEN 35 ELSE IF c = 0 THEN 26 ELSE 44
CodeOk(c, code) == (code % 64) = ExpectedCode(c) /\ (c = 0 => code >= 64)

\* the order axioms on what was observed (independent of Cmp)
WellFormedCode(code) ==
    /\ Cardinality({ b \in {1, 16, 4} : Bit(code, b) }) = 1                \* exactly one of < == >
    /\ Bit(code, 2) = (Bit(code, 1) \/ Bit(code, 16))                         \* <= is < or ==
    /\ Bit(code, 8) = (Bit(code, 4) \/ Bit(code, 16))
    /\ Bit(code, 32) = ~Bit(code, 16)
    /\ (Bit(code, 16) => Bit(code, 64))                                         \* equal versions hash equally
Mirror(xy, yx) == Bit(xy, 1) = Bit(yx, 4) /\ Bit(xy, 4) = Bit(yx, 1) /\ Bit(xy, 16) = Bit(yx, 16)
Trans(xy, yz, xz) == /\ (Bit(xy, 2) /\ Bit(yz, 2)) => Bit(xz, 2)
                     /\ (Bit(xy, 2) /\ Bit(yz, 2) /\ (Bit(xy, 1) \/ Bit(yz, 1))) => Bit(xz, 1)

\* ---- ranges as recorded: end points are positions of dom (0 = no bound) ---------------------
ToRng(r) == Rng(FALSE, r.lo # 0, IF r.lo = 0 THEN <<>> ELSE V(r.lo), r.loEq,
                r.hi # 0, IF r.hi = 0 THEN <<>> ELSE V(r.hi), r.hiEq)
AsSet(s) == { s[n] : n \in 1..Len(s) }
MinOf(S) == CHOOSE x \in S : \A y \in S : x <= y

Verdict(c, clause, w) == [id |-> c.id, clause |-> clause, witness |-> w]
Ok(c) == Verdict(c, "ok", 0)
FromBad(c, clause, bad) == IF bad = {} THEN Ok(c) ELSE Verdict(c, clause, MinOf(bad))

Pick(cs, ps) == [n \in 1..Len(ps) |-> cs[ps[n]]]

\* ---- feature-check programs: the machine of VersionFeature folded over the recorded events --------------------
\* recorded event -> event of the machine
FeatEvent(e) == CASE e.op \in {"if", "elif"} -> [op |-> e.op, cs |-> ParseAll(e.cs)]
                  [] e.op = "use" -> [op |-> "use", kind |-> e.kind, f |-> FeatureVersion(e.f)]
                  [] OTHER -> [op |-> e.op]
UseClause(kind, warned) == IF kind = "new" THEN (IF warned THEN "FeatureNewWarningUnjustified" ELSE "FeatureNewWarningMissing")
                           ELSE (IF warned THEN "FeatureDeprecatedWarningUnjustified" ELSE "FeatureDeprecatedWarningMissing")
\* s: state before the event, r: FStep(s, event); the name of the violated clause or "ok"
FeatJudge(e, s, r) ==
    CASE e.op \in {"if", "elif"} ->
           IF r.out.k = "none" THEN (IF e.ran \/ e.ans # "N" THEN "UnreachedClauseEvaluated" ELSE "ok")
           ELSE IF e.ran # r.out.flag THEN "BranchTakenIffListHolds"
           ELSE IF ClauseBad(J, V, r.s, ParseAll(e.cs), e.ans) # {} THEN (IF e.ans = "T" THEN "AlwaysTrueUnjustified" ELSE "AlwaysFalseUnjustified")
           ELSE "ok"
      [] e.op = "else" -> IF e.ran # r.s.live THEN "ElseBranchIffNoClauseTaken" ELSE "ok"
      [] e.op = "use" ->
           IF e.ran # s.live THEN "StatementRunsIffBlockLive"
           ELSE IF ~s.live THEN (IF e.warned THEN "WarningFromSkippedBlock" ELSE "ok")
           ELSE IF UseBad(J, V, s, s.target, e.kind, FeatureVersion(e.f), e.warned) # {} THEN UseClause(e.kind, e.warned)
           ELSE "ok"
      [] e.op = "probe" ->
           IF e.ran # s.live THEN "StatementRunsIffBlockLive"
           ELSE IF s.live /\ ProbeBad(J, V, s, LAMBDA j : j \in AsSet(e.m)) # {} THEN "TargetRangeInContext"
           ELSE "ok"
      [] OTHER -> "ok"
RECURSIVE FeatRun(_, _, _)
FeatRun(c, s, n) ==
    IF n > Len(c.ev) THEN (IF Depth(s) = 0 THEN Ok(c) ELSE Verdict(c, "generator-structure", n))
    ELSE LET ev == FeatEvent(c.ev[n])
         IN IF ~Enabled(s, ev) THEN Verdict(c, "generator-structure", n)
            ELSE LET r == FStep(s, ev)
                     v == FeatJudge(c.ev[n], s, r)
                 IN IF v # "ok" THEN Verdict(c, v, n) ELSE FeatRun(c, r.s, n + 1)

Judge(c) ==
    CASE c.k = "row" ->   \* all six relations and the hash of dom[a] against every dom[j]
           FromBad(c, "Relations", { j \in J : ~CodeOk(Cmp(V(c.a), V(j)), c.codes[j]) })
      [] c.k = "tri" ->   \* a free triple of strings: codes of ab ba bc cb ac ca
           LET a == Tokenise(c.s[1]) b == Tokenise(c.s[2]) d == Tokenise(c.s[3])
               q == c.codes
               exp == <<Cmp(a, b), Cmp(b, a), Cmp(b, d), Cmp(d, b), Cmp(a, d), Cmp(d, a)>>
           IN IF \E n \in 1..6 : ~WellFormedCode(q[n]) THEN Verdict(c, "AxiomRelationsConsistent", MinOf({ n \in 1..6 : ~WellFormedCode(q[n]) }))
              ELSE IF ~(Mirror(q[1], q[2]) /\ Mirror(q[3], q[4]) /\ Mirror(q[5], q[6])) THEN Verdict(c, "AxiomMirror", 0)
              ELSE IF ~(Trans(q[1], q[3], q[5]) /\ Trans(q[4], q[2], q[6])) THEN Verdict(c, "AxiomTransitive", 0)
              ELSE FromBad(c, "Relations", { n \in 1..6 : ~CodeOk(exp[n], q[n]) })
      [] c.k = "vc" ->    \* version_compare(v, constraint)
           IF VersionCompare(c.v, c.c) = c.got THEN Ok(c) ELSE Verdict(c, "VersionCompare", 0)
      [] c.k = "vcm" ->   \* version_compare_many(v, constraints) -> (ok, not_found, found)
           LET r == CompareMany(c.v, c.cs)
           IN IF r.ok # c.ok THEN Verdict(c, "ListHoldsIffEachHolds", 0)
              ELSE IF Pick(c.cs, r.notfound) # c.nf THEN Verdict(c, "NotFoundList", 0)
              ELSE IF Pick(c.cs, r.found) # c.f THEN Verdict(c, "FoundList", 0)
              ELSE Ok(c)
      [] c.k = "meson" -> \* 'v'.version_compare(c1, c2, ...) evaluated by the interpreter
           IF CompareMany(c.v, c.cs).ok = c.got THEN Ok(c) ELSE Verdict(c, "InterpreterVersionCompare", 0)
      [] c.k = "entry" -> \* one call through an entry point of VersionEntry: e = the entry point, v = the receiver's
                          \* version as the code reported it, cs = the constraint texts, got = the answer, each = the
                          \* answers of the same entry point asked for every constraint alone (<<>> when not asked),
                          \* pos = the class (-1 below / 0 equal / 1 above the receiver) the generator claims for every
                          \* constraint version (<<>> when it claims nothing)
           LET v == Tokenise(c.v)
               ks == ParseAll(c.cs)
               badPos == { x \in 1..Len(c.pos) : c.pos[x] # PosOf(v, ks[x]) }
               badEach == { x \in 1..Len(c.each) : c.each[x] # Sat(v, ks[x]) }
           IN IF ~(c.e \in Entries /\ Accepts(c.e, Len(ks))) THEN Verdict(c, "generator-arity", 0)
              ELSE IF badPos # {} THEN Verdict(c, "generator-class", MinOf(badPos))
              ELSE IF badEach # {} THEN Verdict(c, "ConstraintAgreesWithOrder", MinOf(badEach))
              ELSE IF c.got # ListHolds(v, ks) THEN Verdict(c, "ListHoldsIffEachHolds", 0)
              ELSE Ok(c)
      [] c.k = "feat" ->  \* a feature-check program under project(meson_version: p) run by a meson of version own:
                          \* per event what was observed (ran, ans of a clause, warned of a use, m of a probe);
                          \* witness = the number of the first event that breaks a law
           FeatRun(c, Start(c.own, c.p), 1)
      [] c.k = "in" ->    \* membership of every dom version in a constructed range
           FromBad(c, "Contains", ContainsBad(J, V, ToRng(c.r), LAMBDA j : j \in AsSet(c.m)))
      [] c.k = "isect" -> \* a.intersect(b): members of the result, and of a afterwards (not mutated)
           LET bad == IntersectBad(J, V, ToRng(c.a), ToRng(c.b), LAMBDA j : j \in AsSet(c.m))
           IN IF bad # {} THEN Verdict(c, "IntersectIffBoth", MinOf(bad))
              ELSE FromBad(c, "IntersectMutatedOperand", ContainsBad(J, V, ToRng(c.a), LAMBDA j : j \in AsSet(c.ma)))
      [] c.k = "always" -> \* outer.always(inner) -> "T" | "F" | "N"
           FromBad(c, IF c.got = "T" THEN "AlwaysTrueUnjustified" ELSE "AlwaysFalseUnjustified",
                   AlwaysBad(J, V, ToRng(c.a), ToRng(c.b), c.got))
      [] c.k = "checks" -> \* version_check_to_range(checks, start): members of the result
           LET cs == [n \in 1..Len(c.cs) |-> Constraint(c.cs[n])]
           IN FromBad(c, "ChecksToRange", ChecksBad(J, V, cs, ToRng(c.start), LAMBDA j : j \in AsSet(c.m)))
      [] c.k = "ifn" ->   \* inside nested `if meson.version().version_compare(group...)` under project(meson_version: p):
                          \* members of the narrowed target-version range.  It must contain every version of the project
                          \* range that satisfies all the conditions, and nothing outside the project range or violating a
                          \* condition - except that an `if` whose condition list has a `!=` may be left out of the
                          \* narrowing altogether (a wider range only means more warnings, never a missed one).
           LET grp(n) == [x \in 1..Len(c.groups[n]) |-> Constraint(c.groups[n][x])]
               strict(n) == \A x \in 1..Len(c.groups[n]) : grp(n)[x].op # "!="
               start == CheckRange(Constraint(c.p))
               G == 1..Len(c.groups)
               bad == { j \in J : \/ /\ In(V(j), start) /\ \A n \in G : AllSat(V(j), grp(n))
                                     /\ j \notin AsSet(c.m)
                                  \/ /\ j \in AsSet(c.m)
                                     /\ ~(In(V(j), start) /\ \A n \in G : strict(n) => AllSat(V(j), grp(n))) }
           IN FromBad(c, "IfBlockNarrowing", bad)
      [] c.k = "cms" ->   \* version_compare_condition_with_min(<constraint string>, minimum)
           LET k == Constraint(c.c)
               cond == CheckRange(k)
               m == V(c.min)
               bad == CondMinBad(J, V, cond, m, c.got)
           IN IF bad # {} THEN Verdict(c, "CondWithMinUnsound", MinOf(bad))
              ELSE IF CondWithMinPinned(k, m) # c.got THEN Verdict(c, "CondWithMinPinnedTable", 0)
              ELSE Ok(c)
      [] c.k = "cmr" ->   \* version_compare_condition_with_min(<Range>, minimum)
           LET cond == ToRng(c.r)
               m == V(c.min)
               bad == CondMinBad(J, V, cond, m, c.got)
           IN IF bad # {} THEN Verdict(c, "CondWithMinUnsound", MinOf(bad))
              ELSE IF ~c.got /\ ~CondMinFalseJustified(J, V, cond, m) THEN Verdict(c, "CondWithMinFalseUnjustified", 0)
              ELSE Ok(c)
      [] OTHER -> Verdict(c, "unknown-case-kind", 0)

Init == i \in 1..Len(Cases) /\ done = FALSE
Next == /\ ~done
        /\ done' = TRUE
        /\ i' = i
        /\ LET v == Judge(Cases[i]) IN v.clause = "ok" \/ PrintT(ToJson(v))
Spec == Init /\ [][Next]_vars
=============================================================================
