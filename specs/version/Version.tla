------------------------------- MODULE Version -------------------------------
(***************************************************************************)
(* The order on version strings that `str.version_compare()` and           *)
(* `mesonlib.Version` must implement (property C19).                       *)
(*                                                                          *)
(* A version string is a sequence of code points.  It denotes a sequence   *)
(* of components: every maximal run of ASCII digits is a numeric component *)
(* and every maximal run of ASCII letters is an alphabetic component;      *)
(* everything else only separates components and is dropped.  Versions     *)
(* are compared component by component: a numeric component ranks above an *)
(* alphabetic one, two numeric components compare as numbers, two          *)
(* alphabetic ones as code-point strings, and when one version is a prefix *)
(* of the other the longer one is greater.  (The RPM rule book pinned by   *)
(* unittests/versiontests.py.)                                             *)
(*                                                                          *)
(* Numbers are kept as digit strings without leading zeros, so no          *)
(* component is limited by TLC's 32-bit integers.                          *)
(*                                                                          *)
(* Two formulations of both the tokeniser and the comparison are given     *)
(* (a left-to-right scan and a positional, declarative definition);        *)
(* VersionOrder_MC proves them equal on the bounded domain.                *)
(***************************************************************************)
EXTENDS Integers, Sequences, FiniteSets

\* ---- characters ------------------------------------------------------------
IsDigit(c) == c >= 48 /\ c <= 57
IsAlpha(c) == (c >= 65 /\ c <= 90) \/ (c >= 97 /\ c <= 122)
Class(c) == IF IsDigit(c) THEN "n" ELSE IF IsAlpha(c) THEN "a" ELSE "s"

\* ---- components -------------------------------------------------------------
\* k = "n": s is the decimal digits of the number without leading zeros (zero is <<>>)
\* k = "a": s is the letters
RECURSIVE StripZerosFrom(_, _)
StripZerosFrom(d, i) == IF i > Len(d) THEN <<>>
                        ELSE IF d[i] = 48 THEN StripZerosFrom(d, i + 1)
                        ELSE SubSeq(d, i, Len(d))
StripZeros(d) == StripZerosFrom(d, 1)

Comp(k, run) == [k |-> k, s |-> IF k = "n" THEN StripZeros(run) ELSE run]

\* value of a numeric component (only meaningful below 10 digits; used by the laws, not by Cmp)
RECURSIVE NumValFrom(_, _, _)
NumValFrom(d, i, acc) == IF i > Len(d) THEN acc ELSE NumValFrom(d, i + 1, acc * 10 + (d[i] - 48))
NumVal(c) == NumValFrom(c.s, 1, 0)

\* ---- tokeniser, operational: one left-to-right scan -------------------------------
\* cur: the run being collected, cls: its class ("s" when none)
Flush(acc, cur, cls) == IF cls = "s" THEN acc ELSE Append(acc, Comp(cls, cur))

RECURSIVE Scan(_, _, _, _, _)
Scan(str, i, cur, cls, acc) ==
    IF i > Len(str) THEN Flush(acc, cur, cls)
    ELSE LET c == str[i]
             k == Class(c)
         IN IF k = cls /\ k # "s" THEN Scan(str, i + 1, Append(cur, c), cls, acc)
            ELSE Scan(str, i + 1, IF k = "s" THEN <<>> ELSE <<c>>, k, Flush(acc, cur, cls))

Tokenise(str) == Scan(str, 1, <<>>, "s", <<>>)

\* ---- tokeniser, declarative: components are the maximal runs -------------------------
RunStarts(str) == { i \in 1..Len(str) : Class(str[i]) # "s" /\ (i = 1 \/ Class(str[i - 1]) # Class(str[i])) }
RunEnd(str, i) == CHOOSE j \in i..Len(str) :
                      /\ \A m \in i..j : Class(str[m]) = Class(str[i])
                      /\ (j = Len(str) \/ Class(str[j + 1]) # Class(str[i]))
RECURSIVE Ascending(_)
Ascending(S) == IF S = {} THEN <<>>
                ELSE LET m == CHOOSE x \in S : \A y \in S : x <= y IN <<m>> \o Ascending(S \ {m})
TokeniseDecl(str) ==
    LET starts == Ascending(RunStarts(str))
    IN [n \in 1..Len(starts) |-> Comp(Class(str[starts[n]]), SubSeq(str, starts[n], RunEnd(str, starts[n])))]

\* ---- comparison ------------------------------------------------------------------
CmpInt(x, y) == IF x < y THEN -1 ELSE IF x > y THEN 1 ELSE 0

RECURSIVE LexFrom(_, _, _)
LexFrom(x, y, i) ==
    IF i > Len(x) THEN (IF i > Len(y) THEN 0 ELSE -1)
    ELSE IF i > Len(y) THEN 1
    ELSE IF x[i] # y[i] THEN CmpInt(x[i], y[i])
    ELSE LexFrom(x, y, i + 1)
Lex(x, y) == LexFrom(x, y, 1)

\* two numbers without leading zeros: the longer is the larger, equal lengths compare digit-wise
CmpNum(x, y) == IF Len(x) # Len(y) THEN CmpInt(Len(x), Len(y)) ELSE Lex(x, y)

CmpComp(x, y) ==
    IF x.k # y.k THEN (IF x.k = "n" THEN 1 ELSE -1)      \* numeric ranks above alphabetic
    ELSE IF x.k = "n" THEN CmpNum(x.s, y.s)
    ELSE Lex(x.s, y.s)

\* operational: walk both component sequences
RECURSIVE CmpFrom(_, _, _)
CmpFrom(a, b, i) ==
    IF i > Len(a) \/ i > Len(b) THEN CmpInt(Len(a), Len(b))
    ELSE LET c == CmpComp(a[i], b[i]) IN IF c # 0 THEN c ELSE CmpFrom(a, b, i + 1)
Cmp(a, b) == CmpFrom(a, b, 1)

\* declarative: the first differing position decides; without one, the longer version is greater
MinLen(a, b) == IF Len(a) <= Len(b) THEN Len(a) ELSE Len(b)
DiffPos(a, b) == { i \in 1..MinLen(a, b) : a[i] # b[i] }
FirstDiff(a, b) == CHOOSE i \in DiffPos(a, b) : \A j \in DiffPos(a, b) : i <= j
CmpDecl(a, b) == IF DiffPos(a, b) = {} THEN CmpInt(Len(a), Len(b))
                 ELSE CmpComp(a[FirstDiff(a, b)], b[FirstDiff(a, b)])

\* the six relations of the statement, all derived from the one three-way result
Rel(op, c) == CASE op = "<"  -> c < 0
                [] op = "<=" -> c <= 0
                [] op = ">"  -> c > 0
                [] op = ">=" -> c >= 0
                [] op = "==" -> c = 0
                [] op = "!=" -> c # 0
Ops == {"<", "<=", ">", ">=", "==", "!="}

\* what equal versions must share (the spec's "hash key"): the component sequence itself
Key(a) == a

\* canonical rendering of a component sequence (used by the round-trip law)
RECURSIVE Render(_)
CompText(c) == IF c.k = "n" /\ c.s = <<>> THEN <<48>> ELSE c.s
Render(a) == IF a = <<>> THEN <<>>
             ELSE IF Len(a) = 1 THEN CompText(a[1])
             ELSE CompText(a[1]) \o <<46>> \o Render(Tail(a))
=============================================================================
