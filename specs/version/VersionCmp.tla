----------------------------- MODULE VersionCmp -----------------------------
(***************************************************************************)
(* Constraints `<op><version>` as accepted by `version_compare`,           *)
(* `version_compare_many` and `str.version_compare()` (C19).               *)
(* docs/yaml/elementary/str.yml: "Supports the following operators: '>',   *)
(* '<', '>=', '<=', '!=', '==', '='"; the pinned tests add that a bare     *)
(* version means `==`.  A list of constraints holds iff every one holds.   *)
(***************************************************************************)
EXTENDS Version

\* code points of the operator characters
GT == 62
LS == 60
EQ == 61
BANG == 33

\* constraint text -> [op, rest] ; the two-character operators win over their one-character prefixes
SplitOp(c) ==
    LET c1 == IF Len(c) >= 1 THEN c[1] ELSE 0
        c2 == IF Len(c) >= 2 THEN c[2] ELSE 0
        rest(n) == SubSeq(c, n + 1, Len(c))
    IN CASE c1 = GT /\ c2 = EQ   -> [op |-> ">=", rest |-> rest(2)]
         [] c1 = LS /\ c2 = EQ   -> [op |-> "<=", rest |-> rest(2)]
         [] c1 = BANG /\ c2 = EQ -> [op |-> "!=", rest |-> rest(2)]
         [] c1 = EQ /\ c2 = EQ   -> [op |-> "==", rest |-> rest(2)]
         [] c1 = EQ /\ c2 # EQ   -> [op |-> "==", rest |-> rest(1)]
         [] c1 = GT /\ c2 # EQ   -> [op |-> ">", rest |-> rest(1)]
         [] c1 = LS /\ c2 # EQ   -> [op |-> "<", rest |-> rest(1)]
         [] OTHER                -> [op |-> "==", rest |-> c]

\* a parsed constraint: operator and the component sequence of its version
Constraint(c) == LET sp == SplitOp(c) IN [op |-> sp.op, v |-> Tokenise(sp.rest)]

\* does version v (components) satisfy constraint k (parsed)
Sat(v, k) == Rel(k.op, Cmp(v, k.v))

\* `version_compare(v, c)` on texts
VersionCompare(vtext, ctext) == Sat(Tokenise(vtext), Constraint(ctext))

\* `version_compare_many`: overall verdict, positions of the failed and of the satisfied constraints (in order)
RECURSIVE Positions(_, _, _, _)
Positions(v, cs, want, i) ==
    IF i > Len(cs) THEN <<>>
    ELSE (IF Sat(v, cs[i]) = want THEN <<i>> ELSE <<>>) \o Positions(v, cs, want, i + 1)

CompareMany(vtext, ctexts) ==
    LET v == Tokenise(vtext)
        cs == [i \in 1..Len(ctexts) |-> Constraint(ctexts[i])]
    IN [ok |-> \A i \in 1..Len(cs) : Sat(v, cs[i]),
        notfound |-> Positions(v, cs, FALSE, 1),
        found |-> Positions(v, cs, TRUE, 1)]
=============================================================================
