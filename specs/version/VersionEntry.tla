---------------------------- MODULE VersionEntry ----------------------------
(***************************************************************************)
(* The ENTRY POINTS through which a build definition, or meson itself,     *)
(* evaluates version constraints (C19): "version_compare with any operator *)
(* agrees with that order, a constraint list holds iff each constraint     *)
(* holds" is a statement about every one of them, not about one function.  *)
(*                                                                          *)
(*   str         'v'.version_compare(c1, ..., cn)              n >= 1       *)
(*   meson       meson.version().version_compare(c1, ..., cn)  n >= 1       *)
(*               (the receiver is the version of the running meson; the    *)
(*               call additionally proposes a narrowing of the project's   *)
(*               target-version range for the enclosing `if`)              *)
(*   compiler    meson.get_compiler(l).version().version_compare(...)      *)
(*   depver      dependency(...).version().version_compare(...)            *)
(*   many        mesonlib.version_compare_many(v, [c1, ..., cn])           *)
(*   dep         dependency(name, version: [c...]) answered by an override *)
(*   pkg         dependency(name, version: [c...]) answered by pkg-config  *)
(*   cfgtool     dependency(name, version: [c...]) answered by a           *)
(*               <name>-config tool                                        *)
(*   prog        find_program(name, version: [c...])                       *)
(*   subproject  subproject(name, version: [c...]), first and repeated use *)
(*   project     project(..., meson_version: c)                n = 1       *)
(*               (the receiver is the release the running meson stands for) *)
(*                                                                          *)
(* docs/yaml/elementary/str.yml (version_compare, "Since 1.8.0 multiple    *)
(* versions can be compared"), docs/yaml/functions/dependency.yaml,        *)
(* find_program.yaml, subproject.yaml (`version`: "must match"),           *)
(* project.yaml (`meson_version`).  None of them gives an entry point an   *)
(* order of its own: the answer is ListHolds of the one order of           *)
(* Version.tla, whatever the receiver and however the list is arranged.    *)
(*                                                                          *)
(* Besides the meaning, three implementation-shaped evaluators are given   *)
(* (visit every constraint; stop at the first failure; scan first for a    *)
(* constraint kind, then evaluate) and VersionEntry_MC proves them equal   *)
(* to the meaning for every list it builds.                                *)
(***************************************************************************)
EXTENDS VersionRange

\* ---- meaning -----------------------------------------------------------------
\* a constraint list holds iff each constraint holds (the empty list holds)
ListHolds(v, cs) == \A i \in 1..Len(cs) : Sat(v, cs[i])

ParseAll(ctexts) == [i \in 1..Len(ctexts) |-> Constraint(ctexts[i])]

\* the answer of an entry point: receiver text, constraint texts
EntryHolds(vtext, ctexts) == ListHolds(Tokenise(vtext), ParseAll(ctexts))

\* ---- which calls an entry point accepts -----------------------------------------
Entries == {"str", "meson", "compiler", "depver", "many", "dep", "pkg", "cfgtool", "prog", "subproject", "subproject2", "project"}
MinArgs(e) == IF e \in {"str", "meson", "compiler", "depver", "project"} THEN 1 ELSE 0
Accepts(e, n) == n >= MinArgs(e) /\ (e = "project" => n = 1)

\* ---- operational readings -----------------------------------------------------------
\* (1) visit every constraint, and-ing the answers
RECURSIVE EvalAll(_, _, _, _)
EvalAll(v, cs, i, acc) == IF i > Len(cs) THEN acc ELSE EvalAll(v, cs, i + 1, acc /\ Sat(v, cs[i]))
\* (2) stop at the first constraint that fails
RECURSIVE EvalStop(_, _, _)
EvalStop(v, cs, i) == IF i > Len(cs) THEN TRUE
                      ELSE IF ~Sat(v, cs[i]) THEN FALSE
                      ELSE EvalStop(v, cs, i + 1)
\* (3) what is left to evaluate after n constraints have been consumed (incremental form used by the model)
Step(acc, v, k) == acc /\ Sat(v, k)

\* ---- the operator table: what each operator answers for a constraint version below / equal to / above
\*      the receiver (pos = the sign of Cmp(constraint version, receiver))
OpTable(op, pos) ==
    CASE op = ">=" -> pos <= 0        \* receiver >= c  iff  c is not above the receiver
      [] op = ">"  -> pos < 0
      [] op = "<=" -> pos >= 0
      [] op = "<"  -> pos > 0
      [] op = "==" -> pos = 0
      [] op = "!=" -> pos # 0
Sign(c) == IF c < 0 THEN -1 ELSE IF c > 0 THEN 1 ELSE 0
\* position of a constraint's version relative to the receiver
PosOf(v, k) == Sign(Cmp(k.v, v))

\* ---- meson.version().version_compare(): the answer and the proposed narrowing ---------------
\* A list with a `!=` constraint cannot be written as one interval: no narrowing is proposed for it
\* (the answer is unaffected).  Otherwise the proposal is the range of the checks.
Narrows(cs) == \A i \in 1..Len(cs) : cs[i].op # "!="
MesonVersionCall(owntext, ctexts) ==
    LET cs == ParseAll(ctexts)
    IN [result |-> ListHolds(Tokenise(owntext), cs),
        narrows |-> Narrows(cs),
        range |-> IF Narrows(cs) THEN ChecksToRange(cs, Full) ELSE Full]
=============================================================================
