SPECIFICATION Spec
CONSTANTS Alphabet <- AlphabetDefault
 MaxList = 2
INVARIANT ReadOnce
INVARIANT ListIffEach
INVARIANT EmptyListHolds
INVARIANT EvaluatorsAgree
INVARIANT OrderIrrelevant
INVARIANT SplitIrrelevant
INVARIANT OperatorsAgreeWithOrder
INVARIANT SpellingRead
INVARIANT Partition
INVARIANT MesonEntry
INVARIANT Arity
CHECK_DEADLOCK FALSE
POSTCONDITION EmitAlphabet
