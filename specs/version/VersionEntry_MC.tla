--------------------------- MODULE VersionEntry_MC ---------------------------
(***************************************************************************)
(* Model: constraint lists are built one constraint at a time against a    *)
(* fixed receiver version Own.  The alphabet of a step is a spelled        *)
(* operator (all eight spellings, the bare version included) in front of a *)
(* version text taken from three classes: below the receiver, equal to it  *)
(* (in other spellings) and above it.  While a list grows, the model runs  *)
(* the incremental evaluators an implementation could use and checks, in   *)
(* every reachable state, that they agree with the one meaning and that    *)
(* the meaning does not depend on how the list is arranged.                *)
(*                                                                          *)
(* The alphabet comes either from the built-in default or from a file the  *)
(* harness writes around the version of the meson under test; the claimed  *)
(* classes are *checked* here (ClassesAsClaimed), and the very same        *)
(* alphabet is then replayed through every entry point of the real code.   *)
(***************************************************************************)
EXTENDS VersionEntry, TLC, Json, IOUtils, SequencesExt
CONSTANTS Alphabet,      \* [own, below, same, above : texts]
          MaxList
VARIABLES cs,            \* the constraint texts so far
          ps,            \* the same constraints as read when they were appended (operator, version)
          accAll,        \* evaluator (1): and of all answers so far
          stopped,       \* evaluator (2): has met a failing constraint
          sawNe          \* a `!=` constraint has been appended
vars == <<cs, ps, accAll, stopped, sawNe>>

AlphabetDefault == [own   |-> <<49, 46, 49, 50, 46, 57, 57>>,                          \* 1.12.99
                    below |-> << <<49, 46, 49, 50, 46, 57, 56>>, <<49, 46, 49, 50, 46, 114, 99>> >>,   \* 1.12.98  1.12.rc
                    same  |-> << <<49, 46, 49, 50, 46, 48, 57, 57>>, <<32, 49, 45, 49, 50, 45, 57, 57>> >>,   \* 1.12.099  " 1-12-99"
                    above |-> << <<49, 46, 49, 50, 46, 57, 57, 46, 48>>, <<50>> >>]           \* 1.12.99.0  2
AlphabetFromFile == JsonDeserialize("entry_alphabet.json")

Own == Tokenise(Alphabet.own)
SeqSet(s) == { s[n] : n \in 1..Len(s) }
Texts == SeqSet(Alphabet.below) \cup SeqSet(Alphabet.same) \cup SeqSet(Alphabet.above)
\* the eight spellings of the documented operators ('>', '<', '>=', '<=', '!=', '==', '=' and the bare version)
Spellings == {<<GT, EQ>>, <<LS, EQ>>, <<GT>>, <<LS>>, <<EQ, EQ>>, <<EQ>>, <<BANG, EQ>>, <<>>}
Meaning(sp) == CASE sp = <<GT, EQ>> -> ">=" [] sp = <<LS, EQ>> -> "<=" [] sp = <<GT>> -> ">" [] sp = <<LS>> -> "<"
                 [] sp = <<BANG, EQ>> -> "!=" [] OTHER -> "=="
Claimed(t) == IF t \in SeqSet(Alphabet.below) THEN -1 ELSE IF t \in SeqSet(Alphabet.same) THEN 0 ELSE 1

ASSUME ClassesAsClaimed == \A t \in Texts : Sign(Cmp(Tokenise(t), Own)) = Claimed(t)
ASSUME ClassesDisjoint == Cardinality(Texts) = Len(Alphabet.below) + Len(Alphabet.same) + Len(Alphabet.above)
\* a bare version must not start with an operator character (it would be read as an operator)
ASSUME \A t \in Texts : t = <<>> \/ t[1] \notin {GT, LS, EQ, BANG}

Init == cs = <<>> /\ ps = <<>> /\ accAll = TRUE /\ stopped = FALSE /\ sawNe = FALSE
Next == /\ Len(cs) < MaxList
        /\ \E sp \in Spellings, t \in Texts :
              LET c == sp \o t
                  k == Constraint(c)
              IN /\ cs' = Append(cs, c)
                 /\ ps' = Append(ps, k)
                 /\ accAll' = Step(accAll, Own, k)
                 /\ stopped' = (stopped \/ ~Sat(Own, k))
                 /\ sawNe' = (sawNe \/ k.op = "!=")
Spec == Init /\ [][Next]_vars

N == Len(cs)
Holds(ts) == EntryHolds(Alphabet.own, ts)
HoldsP(ks) == ListHolds(Own, ks)

\* ---- the laws -------------------------------------------------------------------
\* reading the finished list as a whole is reading its constraints one by one
ReadOnce == ParseAll(cs) = ps
\* a list holds iff each constraint, asked alone through the same entry point, holds
ListIffEach == HoldsP(ps) = \A i \in 1..N : HoldsP(<<ps[i]>>)
EmptyListHolds == N = 0 => HoldsP(ps) /\ Holds(cs)
\* the evaluators an implementation may use all compute the meaning
EvaluatorsAgree == LET h == HoldsP(ps)
                   IN /\ accAll = h
                      /\ (~stopped) = h
                      /\ EvalAll(Own, ps, 1, TRUE) = h
                      /\ EvalStop(Own, ps, 1) = h
\* the arrangement of the list is irrelevant: any permutation, any split into two calls
Perms == { p \in [1..N -> 1..N] : \A a, b \in 1..N : a # b => p[a] # p[b] }
OrderIrrelevant == LET h == HoldsP(ps) IN \A p \in Perms : HoldsP([i \in 1..N |-> ps[p[i]]]) = h
SplitIrrelevant == LET h == HoldsP(ps) IN \A n \in 0..N : h = (HoldsP(SubSeq(ps, 1, n)) /\ HoldsP(SubSeq(ps, n + 1, N)))
\* every constraint answers what the operator table says for the class of its version (agreement with the order)
OperatorsAgreeWithOrder == \A i \in 1..N : Sat(Own, ps[i]) = OpTable(ps[i].op, PosOf(Own, ps[i]))
\* spelled operator in front of a text is read as that operator on that version
SpellingRead == N > 0 => \E sp \in Spellings, t \in Texts :
                    cs[N] = sp \o t /\ ps[N] = [op |-> Meaning(sp), v |-> Tokenise(t)]
                    /\ PosOf(Own, ps[N]) = Claimed(t)
\* found / not-found lists of version_compare_many partition the positions, in order
Partition == LET r == CompareMany(Alphabet.own, cs)
             IN /\ r.ok = HoldsP(ps)
                /\ SeqSet(r.found) \cup SeqSet(r.notfound) = 1..N
                /\ SeqSet(r.found) \cap SeqSet(r.notfound) = {}
                /\ \A i \in 1..N : (i \in SeqSet(r.found)) = Sat(Own, ps[i])
\* meson.version(): a narrowing is proposed iff no `!=` was seen (in any position), the answer never depends on it,
\* and a proposed narrowing contains the running version exactly when the list holds (else the `if` would narrow
\* the target range to versions the running meson does not belong to while taking the branch)
MesonEntry == LET m == MesonVersionCall(Alphabet.own, cs)
              IN /\ m.result = HoldsP(ps)
                 /\ m.narrows = ~sawNe
                 /\ (m.narrows => (In(Own, m.range) = m.result))
                 /\ (m.result => In(Own, m.range))
\* the arity rules of the entry points
Arity == /\ \A e \in Entries : Accepts(e, 1)
         /\ \A e \in {"many", "dep", "pkg", "cfgtool", "prog", "subproject", "subproject2"} : Accepts(e, N)
         /\ ~Accepts("str", 0) /\ ~Accepts("meson", 0) /\ ~Accepts("project", 2)

EmitAlphabet == TLCGet("stats").diameter >= 0
                /\ JsonSerialize("entry.json", [own |-> Alphabet.own, below |-> Alphabet.below, same |-> Alphabet.same,
                                                above |-> Alphabet.above, spellings |-> SetToSeq(Spellings),
                                                entries |-> SetToSeq(Entries), maxlist |-> MaxList])
=============================================================================
