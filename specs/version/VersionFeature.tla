--------------------------- MODULE VersionFeature ---------------------------
(***************************************************************************)
(* The meson_version FEATURE CHECKS as a state machine (C19, "the range    *)
(* algebra behind meson_version feature checks is sound").                 *)
(*                                                                          *)
(* project(meson_version: c) fixes the project's TARGET RANGE.  While a    *)
(* build definition runs, an `if` / `elif` whose condition is              *)
(* meson.version().version_compare(c1, ..., cn) narrows the target range   *)
(* for the statements of its block (the block only runs on versions that   *)
(* satisfy the condition) and restores it afterwards; an `else` block runs *)
(* under the range the `if` started from.  A condition list with a `!=`    *)
(* cannot be written as one interval and may be left out of the narrowing. *)
(* Inside this context                                                      *)
(*   - using a feature introduced in f warns unless every targeted version *)
(*     has it (FeatureNew),                                                *)
(*   - using a feature deprecated in f warns once every targeted version   *)
(*     has it deprecated (FeatureDeprecated),                              *)
(*   - a condition that every / no targeted version satisfies is reported  *)
(*     as always true / always false.                                      *)
(* Pinned by test cases/unit/81 meson version compare, test cases/common/  *)
(* 297 redundant version check and unittests/versiontests.py.              *)
(*                                                                          *)
(* `FStep` is the machine (one design, built from the interval operators of *)
(* VersionRange); the LAWS are stated against the meaning of ranges and    *)
(* constraint lists only (sets of versions), so that recorded executions   *)
(* of the real interpreter can be judged by the laws, whatever interval    *)
(* representation it uses.  VersionFeature_MC proves that the machine      *)
(* obeys the laws on every program it can build.                           *)
(***************************************************************************)
EXTENDS VersionEntry

\* ---- feature versions -------------------------------------------------------------
\* "'0.46.0' is mapped to '0.46' so that meson_version '>=0.46' allows features of 0.46.0": trailing zero components
\* of a feature version do not count
RECURSIVE DropZeros(_)
DropZeros(v) == IF Len(v) > 1 /\ v[Len(v)] = [k |-> "n", s |-> <<>>] THEN DropZeros(SubSeq(v, 1, Len(v) - 1)) ELSE v
FeatureVersion(text) == DropZeros(Tokenise(text))

\* ---- state ---------------------------------------------------------------------------
\* own    : the running meson (components)
\* project: the range of project(meson_version:)
\* target : the current target range
\* live   : statements at this point are executed
\* frames : one per open `if`:  outer = target before the `if`, done = a clause of it has been entered,
\*          plive = the `if` itself was reached, cs = the condition list of the clause being executed (<<>> in `else`)
Start(owntext, pctext) ==
    LET p == ChecksToRange(<<Constraint(pctext)>>, Full)
    IN [own |-> Tokenise(owntext), project |-> p, target |-> p, live |-> TRUE, frames |-> <<>>]

Depth(s) == Len(s.frames)
Top(s) == s.frames[Depth(s)]

\* ---- observations ------------------------------------------------------------------------
\* k = "none" | "clause" (an if / elif condition was evaluated: always-answer, whether its block is entered)
\*            | "use" (a feature was used: warned or not) | "probe" (the target range is shown)
Obs(k, ans, flag, rng) == [k |-> k, ans |-> ans, flag |-> flag, rng |-> rng]
NoObs == Obs("none", "N", FALSE, Empty)

\* ---- the machine ---------------------------------------------------------------------------
Proposal(cs) == [has |-> Narrows(cs), r |-> IF Narrows(cs) THEN ChecksToRange(cs, Full) ELSE Full]

\* evaluating the condition list cs of an `if` / `elif` whose `if` started from `outer`
Clause(s, outer, cs) ==
    LET p == Proposal(cs)
    IN [target |-> IF p.has THEN Intersect(outer, p.r) ELSE outer,
        taken |-> ListHolds(s.own, cs),
        ans |-> IF p.has THEN Always(outer, p.r) ELSE "N"]

\* FeatureNew warns unless the least targeted version is at or above f; FeatureDeprecated warns once it is
Warns(kind, target, f) == IF kind = "new" THEN ~CondWithMin(target, f) ELSE CondWithMin(target, f)

\* events: [op |-> "if" | "elif", cs |-> parsed list], [op |-> "else"], [op |-> "end"],
\*         [op |-> "use", kind |-> "new" | "deprecated", f |-> components], [op |-> "probe"]
Enabled(s, ev) ==
    CASE ev.op \in {"elif", "else"} -> Depth(s) > 0 /\ ~Top(s).closed
      [] ev.op = "end" -> Depth(s) > 0
      [] OTHER -> TRUE

FStep(s, ev) ==
    CASE ev.op = "if" ->
           IF s.live
           THEN LET c == Clause(s, s.target, ev.cs)
                IN [s |-> [s EXCEPT !.frames = Append(@, [outer |-> s.target, done |-> c.taken, plive |-> TRUE, cs |-> ev.cs, closed |-> FALSE]),
                                    !.target = c.target, !.live = c.taken],
                    out |-> Obs("clause", c.ans, c.taken, Empty)]
           ELSE [s |-> [s EXCEPT !.frames = Append(@, [outer |-> s.target, done |-> TRUE, plive |-> FALSE, cs |-> <<>>, closed |-> FALSE])],
                 out |-> NoObs]
      [] ev.op = "elif" ->
           LET f == Top(s) IN
           IF f.plive /\ ~f.done
           THEN LET c == Clause(s, f.outer, ev.cs)
                IN [s |-> [s EXCEPT !.frames[Depth(s)].done = c.taken, !.frames[Depth(s)].cs = ev.cs,
                                    !.target = c.target, !.live = c.taken],
                    out |-> Obs("clause", c.ans, c.taken, Empty)]
           ELSE [s |-> [s EXCEPT !.frames[Depth(s)].cs = <<>>, !.target = f.outer, !.live = FALSE], out |-> NoObs]
      [] ev.op = "else" ->
           LET f == Top(s) IN
           [s |-> [s EXCEPT !.frames[Depth(s)].done = TRUE, !.frames[Depth(s)].cs = <<>>, !.frames[Depth(s)].closed = TRUE,
                            !.target = f.outer, !.live = (f.plive /\ ~f.done)],
            out |-> NoObs]
      [] ev.op = "end" ->
           LET f == Top(s) IN
           [s |-> [s EXCEPT !.frames = SubSeq(@, 1, Depth(s) - 1), !.target = f.outer, !.live = f.plive], out |-> NoObs]
      [] ev.op = "use" ->
           [s |-> s, out |-> IF s.live THEN Obs("use", "N", Warns(ev.kind, s.target, ev.f), Empty) ELSE NoObs]
      [] ev.op = "probe" ->
           [s |-> s, out |-> IF s.live THEN Obs("probe", "N", FALSE, s.target) ELSE NoObs]

\* ---- meaning of the context -------------------------------------------------------------
\* the versions the statements at this point can run on, as far as project() and the entered conditions say:
\* MUST be targeted; and the versions that MAY be targeted: nothing outside the project range, nothing that violates
\* an entered condition list free of `!=`
MustTarget(s, v) == In(v, s.project) /\ \A n \in 1..Depth(s) : AllSat(v, s.frames[n].cs)
MayTarget(s, v) == In(v, s.project) /\ \A n \in 1..Depth(s) : Narrows(s.frames[n].cs) => AllSat(v, s.frames[n].cs)
\* the same before the innermost `if` was entered
MustOuter(s, v) == In(v, s.project) /\ \A n \in 1..(Depth(s) - 1) : AllSat(v, s.frames[n].cs)

\* ---- the laws, over an index set J of versions V(j) -------------------------------------------
\* M(j): "the shown target range contains version j"
ProbeBad(J, V(_), s, M(_)) == { j \in J : (MustTarget(s, V(j)) /\ ~M(j)) \/ (M(j) /\ ~MayTarget(s, V(j))) }
\* a use that did not warn (new) / did warn (deprecated) promises that every version that must be targeted is >= f
UsePromiseBad(J, V(_), s, f) == { j \in J : MustTarget(s, V(j)) /\ Cmp(V(j), f) < 0 }
\* the opposite answer must be backed by a targeted version below f whenever the (widest admissible) target has a
\* least element to point at; `may` is that target as an interval
UseBacked(J, V(_), may, f) == CondMinFalseJustified(J, V, may, f)
UseBad(J, V(_), s, may, kind, f, warned) ==
    IF (kind = "new") = warned
    THEN (IF UseBacked(J, V, may, f) THEN {} ELSE {0})
    ELSE UsePromiseBad(J, V, s, f)
\* a clause answered "always true" / "always false": every / no version that must be targeted before the `if`
\* satisfies its list (s: the state after the clause was evaluated)
ClauseBad(J, V(_), s, cs, ans) ==
    CASE ans = "T" -> { j \in J : MustOuter(s, V(j)) /\ ~AllSat(V(j), cs) }
      [] ans = "F" -> { j \in J : MustOuter(s, V(j)) /\ AllSat(V(j), cs) }
      [] OTHER -> {}
=============================================================================
