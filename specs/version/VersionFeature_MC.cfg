SPECIFICATION Spec
CONSTANTS Space <- SpaceDefault
 MaxDepth = 2
 MaxEvents = 4
INVARIANT TargetBracket
INVARIANT TargetIsMay
INVARIANT ExactWithoutNe
INVARIANT OwnInside
INVARIANT LiveIsReachable
INVARIANT Restored
INVARIANT OuterChain
INVARIANT UsesJustified
INVARIANT ClausesJustified
INVARIANT ClausesAnswer
CHECK_DEADLOCK FALSE
POSTCONDITION EmitSpace
