-------------------------- MODULE VersionFeature_MC --------------------------
(***************************************************************************)
(* Model: every program of nested `if` / `elif` / `else` blocks up to      *)
(* MaxDepth deep and MaxEvents clauses long, over a set of condition lists *)
(* (with `!=` in every position, satisfied and unsatisfied by the running  *)
(* meson) and every project(meson_version:) of a set.  In every reachable  *)
(* state the machine's target range is judged by the laws for every probe, *)
(* every feature version and every possible next clause.                   *)
(* The space (running version, project constraints, condition lists,       *)
(* feature versions, probe versions) comes from the built-in default or    *)
(* from a file written by the harness, and is exported for the replay      *)
(* through the real interpreter.                                           *)
(***************************************************************************)
EXTENDS VersionFeature, TLC, Json, IOUtils, SequencesExt
CONSTANTS Space,         \* [own : text, projects : texts, groups : lists of texts, features : texts, probes : texts]
          MaxDepth, MaxEvents
VARIABLES s, n
vars == <<s, n>>

\* 1.2 with projects >=1.1 / <2 / ==1.2 ; texts are code points (48 + digit)
SpaceDefault ==
    [own |-> <<49, 46, 50>>,
     projects |-> << <<62, 61, 49, 46, 49>>, <<60, 50>>, <<62, 49>> >>,
     groups |-> << << <<62, 61, 49, 46, 49>> >>, << <<62, 61, 49, 46, 50>> >>, << <<60, 49, 46, 50>> >>, << <<62, 49, 46, 49>>, <<60, 61, 50>> >>,
                   << <<33, 61, 49, 46, 49>> >>, << <<62, 61, 49, 46, 49>>, <<33, 61, 50>>, <<60, 51>> >>, << <<61, 61, 49, 46, 50>> >>,
                   << <<62, 61, 51>> >> >>,
     features |-> << <<49, 46, 49>>, <<49, 46, 50, 46, 48>>, <<50>> >>,
     probes |-> << <<49>>, <<49, 46, 49>>, <<49, 46, 49, 46, 53>>, <<49, 46, 50>>, <<49, 46, 50, 46, 48>>, <<50>>, <<50, 46, 49>>, <<51>>, <<>> >>]
SpaceFromFile == JsonDeserialize("feature_space.json")

SeqSet(q) == { q[i] : i \in 1..Len(q) }
Groups == { ParseAll(g) : g \in SeqSet(Space.groups) }
Features == { FeatureVersion(f) : f \in SeqSet(Space.features) }
\* the versions the laws quantify over: the probes, the feature versions and every end point that occurs in a
\* project constraint or a condition list (a law about "some targeted version below f" needs the end points to point at)
EndPoints == { Constraint(p).v : p \in SeqSet(Space.projects) } \cup UNION { { g[i].v : i \in 1..Len(g) } : g \in Groups }
D == { Tokenise(p) : p \in SeqSet(Space.probes) } \cup { FeatureVersion(f) : f \in SeqSet(Space.features) } \cup EndPoints
Id(v) == v

Init == n = 0 /\ \E p \in SeqSet(Space.projects) : s = Start(Space.own, p)
Events == [op : {"if", "elif"}, cs : Groups] \cup {[op |-> "else"], [op |-> "end"]}
Next == /\ n < MaxEvents
        /\ \E ev \in Events :
              /\ Enabled(s, ev)
              /\ (ev.op = "if" => Depth(s) < MaxDepth)
              /\ s' = FStep(s, ev).s
              /\ n' = n + 1
Spec == Init /\ [][Next]_vars

\* ---- the laws -----------------------------------------------------------------------
\* the target range brackets the meaning of the context ...
TargetBracket == s.live => ProbeBad(D, Id, s, LAMBDA v : In(v, s.target)) = {}
\* ... and is exactly the admissible maximum (what justifications refer to)
TargetIsMay == \A v \in D : In(v, s.target) = MayTarget(s, v)
\* without `!=` in the entered conditions the target is exact
ExactWithoutNe == (s.live /\ \A i \in 1..Depth(s) : Narrows(s.frames[i].cs)) => \A v \in D : In(v, s.target) = MustTarget(s, v)
\* the running meson never leaves the target of the statements it executes
OwnInside == (s.live /\ In(s.own, s.project)) => In(s.own, s.target)
\* a block is live iff the running meson satisfies every entered condition and no earlier clause of the same `if` did
LiveIsReachable == s.live => \A i \in 1..Depth(s) : AllSat(s.own, s.frames[i].cs)
\* closing every `if` restores the project's range
Restored == Depth(s) = 0 => (s.target = s.project /\ s.live)
OuterChain == \A i \in 1..Depth(s) : s.frames[i].outer = (IF i = 1 THEN s.project ELSE
                                         IF Narrows(s.frames[i - 1].cs) /\ s.frames[i - 1].plive
                                         THEN Intersect(s.frames[i - 1].outer, ChecksToRange(s.frames[i - 1].cs, Full))
                                         ELSE s.frames[i - 1].outer)
\* feature uses at this point: what the machine answers is justified both ways
UsesJustified == s.live => \A f \in Features : \A kind \in {"new", "deprecated"} :
                     UseBad(D, Id, s, s.target, kind, f, Warns(kind, s.target, f)) = {}
\* every clause that could come next: the always-answer is justified, the block is entered iff the list holds
ClausesJustified == (s.live /\ Depth(s) < MaxDepth) => \A g \in Groups :
                        LET r == FStep(s, [op |-> "if", cs |-> g])
                        IN /\ ClauseBad(D, Id, r.s, g, r.out.ans) = {}
                           /\ r.out.flag = ListHolds(s.own, g)
                           /\ r.s.live = r.out.flag
\* the always-answer is not vacuous: a repeated condition is always true, one excluded by the context always false
ClausesAnswer == (s.live /\ Depth(s) > 0 /\ Depth(s) < MaxDepth /\ Narrows(Top(s).cs) /\ ~SymEmpty(s.target)) =>
                     FStep(s, [op |-> "if", cs |-> Top(s).cs]).out.ans = "T"

EmitSpace == TLCGet("stats").diameter >= 0
             /\ JsonSerialize("feature.json", [own |-> Space.own, projects |-> Space.projects, groups |-> Space.groups,
                                               features |-> Space.features, probes |-> Space.probes,
                                               maxdepth |-> MaxDepth, maxevents |-> MaxEvents])
=============================================================================
