SPECIFICATION Spec
CONSTANTS MaxLen = 3
 Numbers <- NumbersSmall
 Words <- WordsSmall
INVARIANT Trichotomy
INVARIANT RelationsConsistent
INVARIANT Reflexive
INVARIANT Transitive
INVARIANT EqualIffSameKey
INVARIANT OperationalEqualsDeclarative
INVARIANT FirstDifferenceDecides
INVARIANT LongerIsGreater
INVARIANT RoundTrip
CHECK_DEADLOCK FALSE
POSTCONDITION EmitDomain
