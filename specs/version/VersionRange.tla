---------------------------- MODULE VersionRange ----------------------------
(***************************************************************************)
(* The range algebra behind the `meson_version` feature checks (C19):      *)
(* `mesonlib.Range`, `version_check_to_range`,                             *)
(* `version_compare_condition_with_min`.                                   *)
(*                                                                          *)
(* The *meaning* of a range is the set of versions it contains (`In`).     *)
(* The laws of the statement are written against that meaning only:        *)
(*   - v in intersect(a, b)  iff  v in a and v in b                        *)
(*   - the range built from a list of checks contains every version that   *)
(*     satisfies all the checks and no version that violates one of its    *)
(*     non-`!=` checks                                                     *)
(*   - always() answers true (false) only if every (no) version of the     *)
(*     outer range satisfies the inner condition                           *)
(* The interval-level operators (`Intersect`, `Always`, `ChecksToRange`,   *)
(* `CondWithMin`) are one design that VersionRange_MC proves to obey these *)
(* laws; recorded executions of the real code are judged against the laws  *)
(* themselves (TraceVersion), never against field values.                  *)
(***************************************************************************)
EXTENDS VersionCmp

\* a range description: optional lower / upper bound, each inclusive or exclusive; e = the explicit empty range
Rng(e, hasLo, lo, loEq, hasHi, hi, hiEq) ==
    [e |-> e, hasLo |-> hasLo, lo |-> lo, loEq |-> loEq, hasHi |-> hasHi, hi |-> hi, hiEq |-> hiEq]
Full == Rng(FALSE, FALSE, <<>>, FALSE, FALSE, <<>>, FALSE)
Empty == Rng(TRUE, FALSE, <<>>, FALSE, FALSE, <<>>, FALSE)

\* ---- meaning ----------------------------------------------------------------
AboveLo(c, eq) == IF eq THEN c >= 0 ELSE c > 0      \* c = Cmp(v, lo)
BelowHi(c, eq) == IF eq THEN c <= 0 ELSE c < 0      \* c = Cmp(v, hi)
In(v, r) == /\ ~r.e
            /\ (r.hasLo => AboveLo(Cmp(v, r.lo), r.loEq))
            /\ (r.hasHi => BelowHi(Cmp(v, r.hi), r.hiEq))

\* ---- interval-level design ------------------------------------------------------
\* empty as far as the end points can tell
SymEmpty(r) == \/ r.e
               \/ /\ r.hasLo /\ r.hasHi
                  /\ LET c == Cmp(r.lo, r.hi) IN c > 0 \/ (c = 0 /\ ~(r.loEq /\ r.hiEq))

Intersect(a, b) ==
    IF a.e \/ b.e THEN Empty
    ELSE LET cl == Cmp(a.lo, b.lo)
             ch == Cmp(a.hi, b.hi)
             useALo == a.hasLo /\ (~b.hasLo \/ cl > 0 \/ (cl = 0 /\ ~a.loEq))
             useAHi == a.hasHi /\ (~b.hasHi \/ ch < 0 \/ (ch = 0 /\ ~a.hiEq))
             r == Rng(FALSE,
                      a.hasLo \/ b.hasLo, IF useALo THEN a.lo ELSE b.lo, IF useALo THEN a.loEq ELSE b.loEq,
                      a.hasHi \/ b.hasHi, IF useAHi THEN a.hi ELSE b.hi, IF useAHi THEN a.hiEq ELSE b.hiEq)
         IN IF SymEmpty(r) THEN Empty ELSE r

\* inner's bounds are at least as wide as outer's
LoCovers(inner, outer) ==
    ~inner.hasLo \/ (outer.hasLo /\ LET c == Cmp(outer.lo, inner.lo) IN c > 0 \/ (c = 0 /\ (inner.loEq \/ ~outer.loEq)))
HiCovers(inner, outer) ==
    ~inner.hasHi \/ (outer.hasHi /\ LET c == Cmp(outer.hi, inner.hi) IN c < 0 \/ (c = 0 /\ (inner.hiEq \/ ~outer.hiEq)))

\* "T" / "F" / "N" (cannot tell)
Always(outer, inner) ==
    IF SymEmpty(Intersect(outer, inner)) THEN "F"
    ELSE IF ~inner.e /\ LoCovers(inner, outer) /\ HiCovers(inner, outer) THEN "T"
    ELSE "N"

\* the range of one check; `!=` cannot be expressed and is left out (any version may still be contained)
CheckRange(k) ==
    CASE k.op = ">=" -> Rng(FALSE, TRUE, k.v, TRUE, FALSE, <<>>, FALSE)
      [] k.op = ">"  -> Rng(FALSE, TRUE, k.v, FALSE, FALSE, <<>>, FALSE)
      [] k.op = "<=" -> Rng(FALSE, FALSE, <<>>, FALSE, TRUE, k.v, TRUE)
      [] k.op = "<"  -> Rng(FALSE, FALSE, <<>>, FALSE, TRUE, k.v, FALSE)
      [] k.op = "==" -> Rng(FALSE, TRUE, k.v, TRUE, TRUE, k.v, TRUE)
      [] OTHER       -> Full

RECURSIVE ChecksFrom(_, _, _)
ChecksFrom(cs, i, acc) == IF i > Len(cs) THEN acc ELSE ChecksFrom(cs, i + 1, Intersect(acc, CheckRange(cs[i])))
ChecksToRange(cs, start) == ChecksFrom(cs, 1, start)

\* "does every version allowed by cond have the feature introduced in m": the lower end of cond is at or above m
CondWithMin(cond, m) == IF SymEmpty(cond) THEN TRUE
                        ELSE IF ~cond.hasLo THEN FALSE
                        ELSE Cmp(m, cond.lo) <= 0

\* the single-constraint table pinned by unittests/versiontests.py (test_version_compare_condition_with_min)
CondWithMinPinned(k, m) == IF k.op \in {">=", ">", "=="} THEN Cmp(m, k.v) <= 0 ELSE FALSE

\* ---- the laws, over a set D of versions ---------------------------------------------
AllSat(v, cs) == \A i \in 1..Len(cs) : Sat(v, cs[i])
NonNeSat(v, cs) == \A i \in 1..Len(cs) : cs[i].op # "!=" => Sat(v, cs[i])

\* The laws are stated over an index set J with V(j) the version (component sequence) of index j, so that
\* the same text serves the model (J = the domain itself) and trace validation (J = positions of a recorded
\* list of version strings).  M(j): "the implementation's result contains version j".  Each law is given as the
\* set of indices that refute it.
IntersectBad(J, V(_), a, b, M(_)) == { j \in J : M(j) # (In(V(j), a) /\ In(V(j), b)) }
ContainsBad(J, V(_), r, M(_)) == { j \in J : M(j) # In(V(j), r) }
ChecksBad(J, V(_), cs, start, M(_)) ==
    { j \in J : \/ (In(V(j), start) /\ AllSat(V(j), cs)) /\ ~M(j)            \* a version satisfying everything is missing
                \/ M(j) /\ ~(In(V(j), start) /\ NonNeSat(V(j), cs)) }         \* a version violating a non-`!=` check is inside
AlwaysBad(J, V(_), outer, inner, ans) ==
    CASE ans = "T" -> { j \in J : In(V(j), outer) /\ ~In(V(j), inner) }
      [] ans = "F" -> { j \in J : In(V(j), outer) /\ In(V(j), inner) }
      [] OTHER -> {}
\* version_compare_condition_with_min(cond, m): TRUE promises that every version allowed by cond is at least m
CondMinBad(J, V(_), cond, m, ans) ==
    IF ans THEN { j \in J : In(V(j), cond) /\ Cmp(V(j), m) < 0 }
    ELSE {}
\* FALSE must be backed by a version below m whenever cond has a least element to point at (an inclusive lower end)
CondMinFalseJustified(J, V(_), cond, m) ==
    \/ \E j \in J : In(V(j), cond) /\ Cmp(V(j), m) < 0
    \/ ~(cond.hasLo /\ cond.loEq) \/ cond.e
=============================================================================
