SPECIFICATION Spec
CONSTANTS MaxLen = 2
 Numbers <- NumbersSmall
 Words <- WordsSmall
 Ends <- EndsTiny
 MaxChecks = 2
INVARIANT IntersectSoundComplete
INVARIANT IntersectCommutes
INVARIANT EmptinessSound
INVARIANT AlwaysJustified
INVARIANT AlwaysAnswers
INVARIANT ChecksSound
INVARIANT ChecksExact
INVARIANT CondMinJustified
INVARIANT PinnedTableAgrees
CHECK_DEADLOCK FALSE
POSTCONDITION EmitRanges
