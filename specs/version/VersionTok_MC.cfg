SPECIFICATION Spec
CONSTANTS MaxStr = 5
 Chars = {48, 49, 57, 97, 66, 46, 45}
INVARIANT ScanEqualsRuns
INVARIANT WellFormed
INVARIANT SeparatorsDropped
INVARIANT SeparatorsRepeat
INVARIANT CutsBetweenComponents
INVARIANT OperatorPrefix
CHECK_DEADLOCK FALSE
