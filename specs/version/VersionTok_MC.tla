---------------------------- MODULE VersionTok_MC ----------------------------
(***************************************************************************)
(* Model: the tokenisation rule of C19 on every string up to MaxStr        *)
(* characters over a small character alphabet (digits, letters of both     *)
(* cases, separators), built one character at a time.                      *)
(***************************************************************************)
EXTENDS VersionCmp, TLC
CONSTANTS MaxStr, Chars
VARIABLES str
vars == <<str>>

Init == str = <<>>
Next == Len(str) < MaxStr /\ \E c \in Chars : str' = Append(str, c)
Spec == Init /\ [][Next]_vars

Seps == { c \in Chars : Class(c) = "s" }
\* the scan and the maximal-run definition agree
ScanEqualsRuns == Tokenise(str) = TokeniseDecl(str)
\* components are never empty words, and numbers carry no leading zero
WellFormed == \A i \in 1..Len(Tokenise(str)) : LET c == Tokenise(str)[i] IN
                 /\ c.k \in {"n", "a"}
                 /\ (c.k = "a" => c.s # <<>> /\ \A j \in 1..Len(c.s) : IsAlpha(c.s[j]))
                 /\ (c.k = "n" => (\A j \in 1..Len(c.s) : IsDigit(c.s[j])) /\ (c.s # <<>> => c.s[1] # 48))
\* which separator is used, and how many, does not matter
SeparatorsDropped ==
    \A s \in Seps : LET swapped == [i \in 1..Len(str) |-> IF Class(str[i]) = "s" THEN s ELSE str[i]]
                    IN Tokenise(swapped) = Tokenise(str)
SeparatorsRepeat ==
    \A i \in 1..Len(str) : Class(str[i]) = "s" =>
        Tokenise(SubSeq(str, 1, i) \o SubSeq(str, i, Len(str))) = Tokenise(str)
\* cutting at a separator or at a digit/letter boundary cuts between components
CutsBetweenComponents ==
    \A i \in 1..(Len(str) - 1) :
        (Class(str[i]) # Class(str[i + 1]) \/ Class(str[i]) = "s") =>
            Tokenise(str) = Tokenise(SubSeq(str, 1, i)) \o Tokenise(SubSeq(str, i + 1, Len(str)))
\* a constraint is its operator followed by a version; all seven spellings
OperatorPrefix ==
    /\ Constraint(<<GT, EQ>> \o str) = [op |-> ">=", v |-> Tokenise(str)]
    /\ Constraint(<<LS, EQ>> \o str) = [op |-> "<=", v |-> Tokenise(str)]
    /\ Constraint(<<BANG, EQ>> \o str) = [op |-> "!=", v |-> Tokenise(str)]
    /\ Constraint(<<EQ, EQ>> \o str) = [op |-> "==", v |-> Tokenise(str)]
    /\ Constraint(<<EQ>> \o str) = [op |-> "==", v |-> Tokenise(str)]
    /\ Constraint(<<GT>> \o str) = [op |-> ">", v |-> Tokenise(str)]
    /\ Constraint(<<LS>> \o str) = [op |-> "<", v |-> Tokenise(str)]
    /\ Constraint(<<32>> \o str) = [op |-> "==", v |-> Tokenise(str)]
    /\ (str # <<>> /\ Class(str[1]) # "s") => Constraint(str) = [op |-> "==", v |-> Tokenise(str)]
=============================================================================
