------------------------------- MODULE PlistLex -------------------------------
(***************************************************************************)
(* X05 - how a scalar of an old-style ASCII property list is read, and     *)
(* what a writer therefore has to do.                                      *)
(*                                                                         *)
(* Source: Apple, Property List Programming Guide, "Old-Style ASCII        *)
(* Property Lists" (strings: "you can omit the quotation marks if the      *)
(* string is composed strictly of alphanumeric characters and contains no  *)
(* white space"; the reader additionally accepts `_ $ / : . -` unquoted);  *)
(* inside quotation marks a backslash escapes the next character (`\"`,    *)
(* `\\`, `\n`, `\t`).  Octal and \U escapes are not modelled: a backslash  *)
(* is never followed by a digit or `U` in the model alphabet.              *)
(*                                                                         *)
(* Text and values are sequences of one-character strings.                 *)
(***************************************************************************)
EXTENDS Naturals, Sequences, FiniteSets

PSafe == {"a", "b", "c", "d", "e", "f", "g", "h", "i", "j", "k", "l", "m", "n", "o", "p", "q", "r", "s", "t", "u", "v", "w", "x",
          "y", "z", "A", "B", "C", "D", "E", "F", "G", "H", "I", "J", "K", "L", "M", "N", "O", "P", "Q", "R", "S", "T", "U", "V",
          "W", "X", "Y", "Z", "0", "1", "2", "3", "4", "5", "6", "7", "8", "9", "_", "$", "/", ":", ".", "-"}
PFail(acc, i) == [ok |-> FALSE, val |-> acc, next |-> i]
PUnescape(c) == CASE c = "n" -> "\n" [] c = "t" -> "\t" [] OTHER -> c
RECURSIVE PQuoted(_, _, _)
\* t[i..] after the opening quotation mark
PQuoted(t, i, acc) ==
    IF i > Len(t) THEN PFail(acc, i)
    ELSE IF t[i] = "\"" THEN [ok |-> TRUE, val |-> acc, next |-> i + 1]
    ELSE IF t[i] = "\\" THEN (IF i + 1 > Len(t) THEN PFail(acc, i) ELSE PQuoted(t, i + 2, Append(acc, PUnescape(t[i + 1]))))
    ELSE PQuoted(t, i + 1, Append(acc, t[i]))
PSafePrefix(t) == IF \A i \in DOMAIN t : t[i] \in PSafe THEN Len(t)
                  ELSE (CHOOSE i \in DOMAIN t : t[i] \notin PSafe /\ \A j \in 1..(i - 1) : t[j] \in PSafe) - 1
\* read one scalar at the start of t
PScalar(t) == IF t = <<>> THEN PFail(<<>>, 1)
              ELSE IF t[1] = "\"" THEN PQuoted(t, 2, <<>>)
              ELSE LET n == PSafePrefix(t) IN IF n = 0 THEN PFail(<<>>, 1) ELSE [ok |-> TRUE, val |-> SubSeq(t, 1, n), next |-> n + 1]
\* the text t is exactly one scalar with value s
PReadsAs(t, s) == LET r == PScalar(t) IN r.ok /\ r.next = Len(t) + 1 /\ r.val = s

(* ---- what a writer has to do --------------------------------------------- *)
PNeedsQuotes(s) == s = <<>> \/ \E i \in DOMAIN s : s[i] \notin PSafe
RECURSIVE PEscape(_)
PEscape(s) == IF s = <<>> THEN <<>>
              ELSE (CASE Head(s) \in {"\"", "\\"} -> <<"\\", Head(s)>>
                      [] Head(s) = "\n" -> <<"\\", "n">>
                      [] Head(s) = "\t" -> <<"\\", "t">>
                      [] OTHER -> <<Head(s)>>) \o PEscape(Tail(s))
PRefWrite(s) == IF PNeedsQuotes(s) THEN <<"\"">> \o PEscape(s) \o <<"\"">> ELSE s
=============================================================================
