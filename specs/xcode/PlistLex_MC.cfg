SPECIFICATION Spec
CONSTANTS N = 3
INVARIANT RoundTrip
INVARIANT QuotesExact
INVARIANT EscapeNeeded
CHECK_DEADLOCK FALSE
POSTCONDITION Emit
