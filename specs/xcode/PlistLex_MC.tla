----------------------------- MODULE PlistLex_MC -----------------------------
(***************************************************************************)
(* Every string of at most N characters over a small alphabet (plain,      *)
(* the unquoted punctuation, blank, the characters meson's writer knows    *)
(* about `+ @ $ < > /`, and characters it does not: `( ) , ; = ' * "` and  *)
(* backslash, newline).  Laws:                                             *)
(*   RoundTrip     the reference writer's text reads back as the value     *)
(*   QuotesExact   writing the value bare is right exactly when it needs   *)
(*                 no quotation marks                                      *)
(*   EscapeNeeded  wrapping in quotation marks without escaping is wrong   *)
(*                 exactly when the value holds `"`, a backslash (or a     *)
(*                 newline / tab written raw is still read back - allowed) *)
(* The string space is exported for the replay through meson's writer.     *)
(***************************************************************************)
EXTENDS PlistLex, TLC, Json, IOUtils, SequencesExt
CONSTANTS N
Alphabet == {"a", "Z", "7", "_", ".", "-", ":", "/", "$", " ", "+", "@", "<", "(", ")", ",", ";", "=", "'", "*", "\"", "\\", "\n"}
RECURSIVE Strings(_)
Strings(n) == IF n = 0 THEN {<<>>} ELSE LET S == Strings(n - 1) IN S \cup {Append(s, c) : s \in {x \in S : Len(x) = n - 1}, c \in Alphabet}

VARIABLES s, started
vars == <<s, started>>
Init == s \in Strings(N) /\ started = FALSE
Next == ~started /\ started' = TRUE /\ s' = s
Spec == Init /\ [][Next]_vars

RoundTrip == started => PReadsAs(PRefWrite(s), s)
QuotesExact == started => (PReadsAs(s, s) <=> ~PNeedsQuotes(s))
Wrapped(x) == <<"\"">> \o x \o <<"\"">>
EscapeNeeded == started => (PReadsAs(Wrapped(s), s) <=> \A i \in DOMAIN s : s[i] \notin {"\"", "\\"})
Emit == TLCGet("stats").diameter >= 0 /\
        LET S == SetToSeq({x \in Strings(N) : Len(x) <= 3})
        IN JsonSerialize("strings.json", [j \in DOMAIN S |-> S[j]])
=============================================================================
