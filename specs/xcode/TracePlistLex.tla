---------------------------- MODULE TracePlistLex ----------------------------
(***************************************************************************)
(* Trace validation of meson's property-list writer at the level of one    *)
(* scalar: a case is a value s (one-character strings), the place it is    *)
(* written to ("dict": the value of a PbxDictItem, "array": an item of a   *)
(* PbxArray) and the text t the real writer produced for it.  Accepted iff *)
(* the text reads back as exactly that value.                              *)
(***************************************************************************)
EXTENDS PlistLex, TLC, Json, IOUtils
Cases == JsonDeserialize(IOEnv.TRACE_FILE)
VARIABLES i, done
vars == <<i, done>>
Judge(c) == IF PReadsAs(c.t, c.s) THEN [id |-> c.id, clause |-> "ok", place |-> c.place, s |-> c.s, wrote_quotes |-> FALSE]
            ELSE [id |-> c.id, clause |-> "ScalarReadsBack", place |-> c.place, s |-> c.s,
                  wrote_quotes |-> (c.t # <<>> /\ c.t[1] = "\"")]
Init == i \in 1..Len(Cases) /\ done = FALSE
Next == /\ ~done
        /\ done' = TRUE
        /\ i' = i
        /\ LET v == Judge(Cases[i]) IN v.clause = "ok" \/ PrintT(ToJson(v))
Spec == Init /\ [][Next]_vars
=============================================================================
