------------------------------ MODULE TraceXcode ------------------------------
(***************************************************************************)
(* Trace validation for X05.  One case = one abstract project configured   *)
(* by the real `meson setup --backend=xcode` (twice, in the same place),   *)
(* projected to data by harness/pbxproj.py:                                *)
(*   id, p          the abstract project (ProjectModel form)               *)
(*   configured     did meson accept the project; error = its message      *)
(*   G              the object graph of the generated project.pbxproj      *)
(*   second, H, ren the object graph of the second configuration (objects  *)
(*                  without attrs) and the harness's candidate renaming of *)
(*                  ids (a witness: the clause Deterministic is decided    *)
(*                  here, by XSameModuloIds)                               *)
(* The verdict lists EVERY violated clause of the rule book with its       *)
(* detail strings, so that a known finding cannot mask another violation.  *)
(***************************************************************************)
EXTENDS XcodeModel, Json, IOUtils

Cases == JsonDeserialize(IOEnv.TRACE_FILE)

VARIABLES i, done
vars == <<i, done>>

Verdict(c, bad) == [id |-> c.id, clause |-> IF bad = <<>> THEN "ok" ELSE "violations",
                    bad |-> [j \in DOMAIN bad |-> [clause |-> bad[j].clause, detail |-> SetToSeq(bad[j].detail)]]]
Judge(c) ==
    IF ~c.configured THEN Verdict(c, XClause("BackendAccepts", {c.error}))
    ELSE LET V == XView(c.G)
         IN Verdict(c, XIntegrity(V) \o XFaithful(V, c.p)
                       \o (IF c.second THEN XClause("Deterministic", XSameModuloIds(c.G, c.H, c.ren)) ELSE <<>>))

Init == i \in 1..Len(Cases) /\ done = FALSE
Next == /\ ~done
        /\ done' = TRUE
        /\ i' = i
        /\ LET v == Judge(Cases[i]) IN v.clause = "ok" \/ PrintT(ToJson(v))
Spec == Init /\ [][Next]_vars
=============================================================================
