------------------------------ MODULE XcodeGraph ------------------------------
(***************************************************************************)
(* X05 - the rule book for the object graph of an Xcode project file       *)
(* (`<name>.xcodeproj/project.pbxproj`, an old-style property list whose   *)
(* `objects` dictionary maps 24-hex-digit ids to typed (`isa`) objects).   *)
(*                                                                         *)
(* Sources.  meson's manual only says that `--backend=xcode` "generates    *)
(* Xcode projects" (Builtin-options.md `backend`, Getting-meson.md,        *)
(* Release-notes-for-0.58.0 "usable enough for day to day development"); it *)
(* is silent on the file itself.  The integrity rules below are those of    *)
(* the X05 area statement, which restates the public description of the     *)
(* format (Apple, Property List Programming Guide, "Old-Style ASCII         *)
(* Property Lists"; the Xcode object model: a PBXProject root owning a      *)
(* main PBXGroup, targets, configuration lists; targets owning build        *)
(* phases; phases owning PBXBuildFile entries that point to                 *)
(* PBXFileReference objects; PBXTargetDependency / PBXContainerItemProxy    *)
(* naming a target):                                                        *)
(*   I1 Lexical       the file is a well-formed old-style property list     *)
(*   I2 UniqueIds     an id is defined at most once                         *)
(*   I3 Root          rootObject is a defined PBXProject                    *)
(*   I4 RefsDefined   every id referenced anywhere is defined               *)
(*   I5 Typed         isa-typed references point to objects of the right    *)
(*                    isa (table `XAllowed`)                                *)
(*   I6 Mandatory     single-valued mandatory references are present once   *)
(*   I7 Proxy         a dependency's proxy names the dependency's target    *)
(*                    and the root project                                  *)
(*   I8 GroupTree     the groups form a tree rooted at mainGroup            *)
(*   I9 TargetsListed every target object is in PBXProject.targets once     *)
(*   I10 ConfigLists  project and targets have a configuration list with    *)
(*                    configurations, the default one among them            *)
(*   I11 OwnedOnce    an owned object has one owner (ownership = the        *)
(*                    containment edges of the object model)                *)
(*                                                                         *)
(* A graph G is the projection made by harness/pbxproj.py:                 *)
(*   root   : STRING                                                       *)
(*   errors : Seq(STRING)      lexical / syntactic errors of the reader    *)
(*   objs   : Seq([id, isa, refs : Seq([k, v]), attrs : Seq([k, v]), dig]) *)
(* in file order, duplicates kept.  `refs` are all id-valued leaves with   *)
(* their key path, `attrs` the scalar leaves the rules read, `dig` a       *)
(* digest of the whole object with ids blanked.                            *)
(* Every clause is an operator returning the SET OF DETAIL STRINGS of its  *)
(* violations ({} = holds) so that a verdict can name all of them.         *)
(***************************************************************************)
EXTENDS Naturals, Sequences, FiniteSets, TLC

XRg(s) == {s[i] : i \in DOMAIN s}
XObjs(G) == XRg(G.objs)
XIds(G) == {o.id : o \in XObjs(G)}
\* a view: the graph with an index from id to (the first) object of that id
XView(G) == [G |-> G, ids |-> XIds(G),
             ix |-> [id \in XIds(G) |-> G.objs[CHOOSE i \in DOMAIN G.objs : G.objs[i].id = id]]]
XDefined(V, id) == id \in V.ids
XAt(V, id) == V.ix[id]

XRefIdx(o, k) == {j \in DOMAIN o.refs : o.refs[j].k = k}
XRefSet(o, k) == {o.refs[j].v : j \in XRefIdx(o, k)}
XRefCount(o, k) == Cardinality(XRefIdx(o, k))
XAttrSet(o, k) == {o.attrs[j].v : j \in {j \in DOMAIN o.attrs : o.attrs[j].k = k}}
XAttr(o, k) == LET S == XAttrSet(o, k) IN IF S = {} THEN "" ELSE CHOOSE x \in S : TRUE
XName(o) == XAttr(o, "name")
\* the defined objects a key of `o` points to
XPointees(V, o, k) == {XAt(V, id) : id \in {x \in XRefSet(o, k) : XDefined(V, x)}}

XTargetIsas == {"PBXNativeTarget", "PBXAggregateTarget", "PBXLegacyTarget"}
XPhaseIsas == {"PBXSourcesBuildPhase", "PBXFrameworksBuildPhase", "PBXShellScriptBuildPhase", "PBXResourcesBuildPhase",
               "PBXCopyFilesBuildPhase", "PBXHeadersBuildPhase", "PBXRezBuildPhase", "PBXAppleScriptBuildPhase"}
XFileIsas == {"PBXFileReference", "PBXVariantGroup", "PBXReferenceProxy", "XCVersionGroup"}
XGroupIsas == {"PBXGroup", "PBXVariantGroup", "XCVersionGroup"}

XOfIsa(V, S) == {o \in XObjs(V.G) : o.isa \in S}
XTargets(V) == XOfIsa(V, XTargetIsas)
XProjects(V) == XOfIsa(V, {"PBXProject"})

(* ---- I1..I3 -------------------------------------------------------------- *)
XLexical(V) == XRg(V.G.errors)
XUniqueIds(V) == {"duplicate-id:" \o V.ix[id].isa : id \in {x \in V.ids : Cardinality({i \in DOMAIN V.G.objs : V.G.objs[i].id = x}) > 1}}
XRoot(V) == IF ~XDefined(V, V.G.root) THEN {"root-undefined"}
            ELSE IF XAt(V, V.G.root).isa # "PBXProject" THEN {"root-is-" \o XAt(V, V.G.root).isa}
            ELSE IF Cardinality(XProjects(V)) # 1 THEN {"projects:" \o ToString(Cardinality(XProjects(V)))}
            ELSE {}

(* ---- I4 RefsDefined ------------------------------------------------------ *)
\* detail: <isa>.<key>[-n]  - the n-th last entry of that key in the referring object
XFromEnd(o, j) == Cardinality({m \in XRefIdx(o, o.refs[j].k) : m >= j})
XDanglingIn(V, o) == {j \in DOMAIN o.refs : ~XDefined(V, o.refs[j].v)}
XRefsDefined(V) ==
    UNION {{o.isa \o "." \o o.refs[j].k \o "[-" \o ToString(XFromEnd(o, j)) \o "]" : j \in XDanglingIn(V, o)} : o \in XObjs(V.G)}

(* ---- I5 Typed ------------------------------------------------------------ *)
\* {} = this (isa, key) pair is not judged
XAllowed(isa, k) ==
    CASE isa = "PBXProject" /\ k = "buildConfigurationList" -> {"XCConfigurationList"}
      [] isa = "PBXProject" /\ k \in {"mainGroup", "productRefGroup"} -> {"PBXGroup"}
      [] isa = "PBXProject" /\ k = "targets" -> XTargetIsas
      [] isa = "PBXProject" /\ k = "buildStyles" -> {"PBXBuildStyle"}
      [] isa \in XTargetIsas /\ k = "buildConfigurationList" -> {"XCConfigurationList"}
      [] isa \in XTargetIsas /\ k = "buildPhases" -> XPhaseIsas
      [] isa \in XTargetIsas /\ k = "dependencies" -> {"PBXTargetDependency"}
      [] isa \in XTargetIsas /\ k = "buildRules" -> {"PBXBuildRule"}
      [] isa \in XTargetIsas /\ k = "productReference" -> {"PBXFileReference"}
      [] isa = "PBXTargetDependency" /\ k = "target" -> XTargetIsas
      [] isa = "PBXTargetDependency" /\ k = "targetProxy" -> {"PBXContainerItemProxy"}
      [] isa = "PBXContainerItemProxy" /\ k = "containerPortal" -> {"PBXProject", "PBXFileReference"}
      [] isa = "PBXContainerItemProxy" /\ k = "remoteGlobalIDString" -> XTargetIsas
      [] isa = "PBXBuildFile" /\ k = "fileRef" -> XFileIsas
      [] isa \in XPhaseIsas /\ k = "files" -> {"PBXBuildFile"}
      [] isa \in XGroupIsas /\ k = "children" -> XGroupIsas \cup XFileIsas
      [] isa = "XCConfigurationList" /\ k = "buildConfigurations" -> {"XCBuildConfiguration"}
      [] OTHER -> {}
XTyped(V) ==
    UNION {{o.isa \o "." \o o.refs[j].k \o "->" \o XAt(V, o.refs[j].v).isa
              : j \in {j \in DOMAIN o.refs : /\ XDefined(V, o.refs[j].v)
                                             /\ XAllowed(o.isa, o.refs[j].k) # {}
                                             /\ XAt(V, o.refs[j].v).isa \notin XAllowed(o.isa, o.refs[j].k)}}
           : o \in XObjs(V.G)}

(* ---- I6 Mandatory -------------------------------------------------------- *)
XMandatoryKeys(isa) ==
    CASE isa = "PBXProject" -> {"mainGroup", "buildConfigurationList"}
      [] isa = "PBXNativeTarget" -> {"buildConfigurationList", "productReference"}
      [] isa \in {"PBXAggregateTarget", "PBXLegacyTarget"} -> {"buildConfigurationList"}
      [] isa = "PBXTargetDependency" -> {"target"}
      [] isa = "PBXContainerItemProxy" -> {"containerPortal", "remoteGlobalIDString"}
      [] isa = "PBXBuildFile" -> {"fileRef"}
      [] OTHER -> {}
XMandatory(V) ==
    UNION {{o.isa \o "." \o k \o ":" \o ToString(XRefCount(o, k)) : k \in {k \in XMandatoryKeys(o.isa) : XRefCount(o, k) # 1}}
           : o \in XObjs(V.G)}

(* ---- I7 Proxy ------------------------------------------------------------ *)
XProxy(V) ==
    UNION {UNION {(IF XRefSet(px, "remoteGlobalIDString") # XRefSet(d, "target") THEN {"proxy-names-another-target"} ELSE {})
                  \cup (IF XRefSet(px, "containerPortal") # {V.G.root} THEN {"proxy-portal-is-not-the-project"} ELSE {})
                    : px \in XPointees(V, d, "targetProxy")}
           : d \in XOfIsa(V, {"PBXTargetDependency"})}

(* ---- I8 GroupTree -------------------------------------------------------- *)
XGroups(V) == XOfIsa(V, XGroupIsas)
\* one element per (group, position) child entry
XChildEntries(V) == UNION {{<<g.id, j, g.refs[j].v>> : j \in XRefIdx(g, "children")} : g \in XGroups(V)}
XParentCount(ce, id) == Cardinality({c \in ce : c[3] = id})
RECURSIVE XGroupReach(_, _, _)
XGroupReach(V, frontier, seen) ==
    LET new == UNION {{x \in XRefSet(XAt(V, g), "children") : XDefined(V, x) /\ XAt(V, x).isa \in XGroupIsas} : g \in frontier} \ seen
    IN IF new = {} THEN seen ELSE XGroupReach(V, new, seen \cup new)
XMainGroups(V) == UNION {{x \in XRefSet(pr, "mainGroup") : XDefined(V, x)} : pr \in XProjects(V)}
XGroupTree(V) ==
    LET ce == XChildEntries(V)
        main == XMainGroups(V)
        gids == {g.id : g \in XGroups(V)}
        orphans == {g \in gids \ main : XParentCount(ce, g) = 0}
        reach == XGroupReach(V, main \cup orphans, main \cup orphans)
    IN {"orphan-group:" \o XName(XAt(V, g)) : g \in orphans}
       \cup {"detached-cycle:" \o XName(XAt(V, g)) : g \in gids \ reach}
       \cup {"shared-child:" \o XAt(V, x).isa : x \in {c[3] : c \in {c \in ce : XDefined(V, c[3])}} \cap {y \in V.ids : XParentCount(ce, y) > 1}}
       \cup {"main-group-has-parent" : g \in {m \in main : XParentCount(ce, m) > 0}}

(* ---- I9 TargetsListed ---------------------------------------------------- *)
XListed(V) == UNION {{<<pr.id, j, pr.refs[j].v>> : j \in XRefIdx(pr, "targets")} : pr \in XProjects(V)}
XTargetsListed(V) ==
    LET ls == XListed(V)
    IN {"unlisted:" \o XName(t) : t \in {t \in XTargets(V) : Cardinality({c \in ls : c[3] = t.id}) = 0}}
       \cup {"listed-twice:" \o XName(t) : t \in {t \in XTargets(V) : Cardinality({c \in ls : c[3] = t.id}) > 1}}

(* ---- I10 ConfigLists ----------------------------------------------------- *)
XConfsOf(V, o) == UNION {XPointees(V, l, "buildConfigurations") : l \in XPointees(V, o, "buildConfigurationList")}
XConfigLists(V) ==
    UNION {UNION {(IF XRefCount(l, "buildConfigurations") = 0 THEN {"empty-list:" \o o.isa} ELSE {})
                  \cup (IF XAttr(l, "defaultConfigurationName") \notin {XName(c) : c \in XPointees(V, l, "buildConfigurations")}
                        THEN {"default-configuration-unknown:" \o o.isa} ELSE {})
                    : l \in XPointees(V, o, "buildConfigurationList")}
           : o \in XTargets(V) \cup XProjects(V)}

(* ---- I11 OwnedOnce ------------------------------------------------------- *)
\* the containment edges of the object model.  Target.dependencies is deliberately not among them: meson
\* keeps one PBXTargetDependency per dependee and shares it between all dependents (a value object)
XOwning(isa, k) ==
    \/ isa = "PBXProject" /\ k \in {"buildConfigurationList", "mainGroup", "targets"}
    \/ isa \in XTargetIsas /\ k \in {"buildConfigurationList", "buildPhases", "buildRules"}
    \/ isa \in XPhaseIsas /\ k = "files"
    \/ isa = "XCConfigurationList" /\ k = "buildConfigurations"
    \/ isa = "PBXTargetDependency" /\ k = "targetProxy"
XOwnEntries(V) == UNION {{<<o.id, j, o.refs[j].v, o.isa \o "." \o o.refs[j].k>>
                            : j \in {j \in DOMAIN o.refs : XOwning(o.isa, o.refs[j].k) /\ XDefined(V, o.refs[j].v)}}
                         : o \in XObjs(V.G)}
XOwnedOnce(V) ==
    LET oe == XOwnEntries(V)
    IN {XAt(V, c[3]).isa \o "<-" \o c[4] : c \in {c \in oe : Cardinality({d \in oe : d[3] = c[3]}) > 1}}

(* ---- all integrity clauses, in the order a reader would check them ------- *)
XClause(name, S) == IF S = {} THEN <<>> ELSE <<[clause |-> name, detail |-> S]>>
XIntegrity(V) ==
    XClause("Lexical", XLexical(V)) \o XClause("UniqueIds", XUniqueIds(V)) \o XClause("Root", XRoot(V))
    \o XClause("RefsDefined", XRefsDefined(V)) \o XClause("Typed", XTyped(V)) \o XClause("Mandatory", XMandatory(V))
    \o XClause("Proxy", XProxy(V)) \o XClause("GroupTree", XGroupTree(V)) \o XClause("TargetsListed", XTargetsListed(V))
    \o XClause("ConfigLists", XConfigLists(V)) \o XClause("OwnedOnce", XOwnedOnce(V))

(* ---- the dependency relation between targets ----------------------------- *)
\* target ids a target depends on directly (through its PBXTargetDependency objects)
XDepTargets(V, o) == UNION {{x \in XRefSet(d, "target") : XDefined(V, x)} : d \in XPointees(V, o, "dependencies")}
RECURSIVE XDepReach(_, _, _)
XDepReach(V, frontier, seen) ==
    LET new == UNION {XDepTargets(V, XAt(V, t)) : t \in frontier} \ seen
    IN IF new = {} THEN seen ELSE XDepReach(V, new, seen \cup new)
\* everything that is built before target `o` (o itself only when it lies on a cycle)
XDepClosure(V, o) == XDepReach(V, XDepTargets(V, o), XDepTargets(V, o))
XAcyclicDeps(V) == {"cycle-through:" \o XName(t) : t \in {t \in XTargets(V) : t.id \in XDepClosure(V, t)}}

(* ---- determinism modulo a renaming of ids -------------------------------- *)
\* H is the graph of a second configuration of the same project; pairs = <<id in G, id in H>> is a witness
\* found by the harness.  The clause holds iff the witness is a bijection between the ids under which both
\* graphs have the same objects (digest, isa, references), the same root, the same reader errors and the same
\* order of objects (the PBXAggregateTarget and PBXTargetDependency sections are sorted by id by the
\* generator, hence excluded from the order comparison).
XSortedSections == {"PBXAggregateTarget", "PBXTargetDependency"}
XShape(o, ren) == [isa |-> o.isa, dig |-> o.dig,
                   refs |-> [j \in DOMAIN o.refs |-> [k |-> o.refs[j].k,
                                                       v |-> IF o.refs[j].v \in DOMAIN ren THEN ren[o.refs[j].v] ELSE "?"]]]
XOrder(G) == SelectSeq([j \in DOMAIN G.objs |-> G.objs[j]], LAMBDA o : o.isa \notin XSortedSections)
XSameModuloIds(G, H, pairs) ==
    LET V == XView(G)
        W == XView(H)
        dom == {pr[1] : pr \in XRg(pairs)}
        rng == {pr[2] : pr \in XRg(pairs)}
        ren == [id \in dom |-> (CHOOSE pr \in XRg(pairs) : pr[1] = id)[2]]
        idH == [id \in W.ids |-> id]
        o1 == XOrder(G)
        o2 == XOrder(H)
    IN IF G.errors # H.errors THEN {"reader-errors-differ"}
       ELSE IF Len(G.objs) # Len(H.objs) THEN {"object-count-differs"}
       ELSE IF ~(dom = V.ids /\ rng = W.ids /\ Cardinality(dom) = Len(pairs) /\ Cardinality(rng) = Len(pairs))
            THEN {"no-bijection-between-ids"}
       ELSE (IF (G.root \in dom /\ ren[G.root] = H.root) \/ (G.root \notin dom /\ H.root \notin rng) THEN {} ELSE {"root-differs"})
            \cup {"object-differs:" \o o.isa : o \in {o \in XObjs(G) : XShape(o, ren) # XShape(XAt(W, ren[o.id]), idH)}}
            \cup (IF [j \in DOMAIN o1 |-> ren[o1[j].id]] = [j \in DOMAIN o2 |-> o2[j].id] THEN {} ELSE {"order-of-objects-differs"})
=============================================================================
