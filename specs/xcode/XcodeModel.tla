------------------------------ MODULE XcodeModel ------------------------------
(***************************************************************************)
(* X05 - faithfulness of an Xcode project to the build definition, and a   *)
(* reference generator.                                                    *)
(*                                                                         *)
(* The abstract project p is the one of specs/ninja/ProjectModel.tla       *)
(* (harness/projgen.py renders it).  What the generated project must say   *)
(* about p comes from the reference manual, exactly as for the Ninja       *)
(* backend (docs/yaml/functions: executable, library, both_libraries,      *)
(* static_library, shared_library - one product per library type, names    *)
(* `<name>`, `lib<name>.a`, `lib<name>.so`; custom_target `output`,        *)
(* `depends`, `input`; run_target / alias_target "a new top-level target", *)
(* `depends`; `build_by_default`; `link_with`; test.yaml `depends`: "Those  *)
(* targets are built before test is executed even if they have             *)
(* build_by_default : false"; Release-notes-for-1.7.0: the `test` target    *)
(* "has always been guaranteed to do the right thing" while                 *)
(* `meson test --no-rebuild` gives no such guarantee) and from the X05 area *)
(* statement:                                                               *)
(*   F1 NativeTargets   one PBXNativeTarget per executable / library       *)
(*                      product, with the matching productType, product    *)
(*                      name and product file                              *)
(*   F2 AggregateTargets one aggregate (or legacy) target per custom / run *)
(*                      / alias target, plus ALL_BUILD, RUN_TESTS,         *)
(*                      REGENERATE; nothing else                           *)
(*   F3 AllBuild        ALL_BUILD depends on exactly the targets that are  *)
(*                      built by default                                   *)
(*   F4 DepsCover       the dependency closure of a target contains every  *)
(*                      target it links with, whose outputs it consumes or *)
(*                      that it names in depends: (the Ninja backend's     *)
(*                      obligation); RUN_TESTS reaches ALL_BUILD and what  *)
(*                      the tests need                                     *)
(*   F5 AcyclicDeps     the target dependencies are acyclic                *)
(*   F6 Sources         every source file of a target is in its one        *)
(*                      PBXSourcesBuildPhase exactly once                  *)
(* The Xcode backend has no notion of layout=flat: products live below the *)
(* target's directory; expectations use the mirror rules.                  *)
(*                                                                         *)
(* Identification of a graph target with a target of p uses what the file  *)
(* says about the product, not meson's private id: native targets by       *)
(* (productType, PRODUCT_NAME, directory of BUILD_DIR), custom targets by  *)
(* the outputPaths of their script phase, run/alias targets by their name  *)
(* (the bare name, or meson's target id `[<hash>@@]<name>@<suffix>` that   *)
(* intro-targets.json documents, IDE-integration.md).                      *)
(***************************************************************************)
EXTENDS ProjectModel, XcodeGraph

XMirror(p) == [p EXCEPT !.layout = "mirror"]

(* ---- the units of p: one per Xcode target --------------------------------- *)
\* <<index of the target in p, half>>; half = exe | static | shared | custom | run | alias
XHalves(p, t) == IF t.kind = "exe" THEN {"exe"} ELSE IF IsBuild(t) THEN LibTypes(p, t) ELSE {t.kind}
XUnits(p) == UNION {{<<i, h>> : h \in XHalves(p, p.targets[i])} : i \in Targets(p)}
XIsNative(u) == u[2] \in {"exe", "static", "shared"}
XLabel(p, u) == u[2] \o ":" \o p.targets[u[1]].name \o "#" \o ToString(u[1])
XProductType(h) == CASE h = "exe" -> "com.apple.product-type.tool"
                     [] h = "static" -> "com.apple.product-type.library.static"
                     [] h = "shared" -> "com.apple.product-type.library.dynamic"
                     [] OTHER -> ""
XProductFile(t, h) == IF h = "exe" THEN t.name ELSE LibFile(t.name, h)
\* a reference to a library means its default half (Builtin-options.md default_both_libraries = shared)
XRefUnit(p, r) == LET t == p.targets[r]
                  IN IF t.kind = "exe" THEN <<r, "exe">>
                     ELSE IF IsBuild(t) THEN <<r, IF "shared" \in LibTypes(p, t) THEN "shared" ELSE "static">>
                     ELSE <<r, t.kind>>
XGenIdx(t) == IF "genidx" \in DOMAIN t THEN Rng(t.genidx) ELSE {}
\* what a unit needs built first
XReq(p, u) ==
    LET t == p.targets[u[1]]
    IN {XRefUnit(p, r) : r \in Rng(t.link) \cup Rng(t.gen) \cup XGenIdx(t) \cup Rng(t.deps)}
\* what `meson test` needs (test executables, depends:, target arguments)
XTestReq(p) == UNION {{XRefUnit(p, r) : r \in TestRefs(p.tests[k])} : k \in {j \in DOMAIN p.tests : ~p.tests[j].bench}}
XDefaultUnits(p) == {u \in XUnits(p) : DefaultBuilt(p.targets[u[1]])}
\* `install: true` on a build target whose build_by_default is false: the manual is silent for build targets (it
\* spells the interplay out for custom_target only), meson builds such a target by default - either is accepted
XMayDefaultUnits(p) == {u \in XUnits(p) : IsBuild(p.targets[u[1]]) /\ p.targets[u[1]].bbd = "false" /\ p.targets[u[1]].install}

(* ---- matching graph targets with units ------------------------------------ *)
XFixedNames == {"ALL_BUILD", "RUN_TESTS", "REGENERATE"}
XNatives(V) == XOfIsa(V, {"PBXNativeTarget"})
XAggs(V) == XOfIsa(V, {"PBXAggregateTarget", "PBXLegacyTarget"})
XHasSub(s, sub) == \E k \in 1..(Len(s) - Len(sub) + 1) : SubSeq(s, k, k + Len(sub) - 1) = sub
XStartsWith(s, pre) == Len(s) >= Len(pre) /\ SubSeq(s, 1, Len(pre)) = pre
XNameMatches(s, n) == s = n \/ XStartsWith(s, n \o "@") \/ XHasSub(s, "@@" \o n \o "@")
XOutsOfTarget(V, o) == UNION {XAttrSet(ph, "out") : ph \in XPointees(V, o, "buildPhases")}
XMatch(V, p, u) ==
    LET t == p.targets[u[1]]
        q == XMirror(p)
    IN IF XIsNative(u)
       THEN {o \in XNatives(V) : /\ XAttrSet(o, "productType") = {XProductType(u[2])}
                                 /\ \E c \in XConfsOf(V, o) : /\ XAttrSet(c, "buildSettings.PRODUCT_NAME") = {t.name}
                                                               /\ XAttrSet(c, "subdir") = {"@build/" \o Loc(t)}}
       ELSE IF u[2] = "custom"
       THEN {o \in XAggs(V) : XName(o) \notin XFixedNames /\ XOutsOfTarget(V, o) = {"@build/" \o f : f \in OutPaths(q, t)}}
       ELSE {o \in XAggs(V) : XName(o) \notin XFixedNames /\ XOutsOfTarget(V, o) = {} /\ XNameMatches(XName(o), t.name)}
XMatched(V, p) == {u \in XUnits(p) : Cardinality(XMatch(V, p, u)) = 1}
XObjOf(V, p, u) == CHOOSE o \in XMatch(V, p, u) : TRUE
XFixed(V, n) == {o \in XAggs(V) : XName(o) = n}
XHasScript(V, o) == \E ph \in XPointees(V, o, "buildPhases") : ph.isa = "PBXShellScriptBuildPhase"

(* ---- F1 / F2 -------------------------------------------------------------- *)
XNativeTargets(V, p) ==
    {"missing:" \o XLabel(p, u) : u \in {u \in XUnits(p) : XIsNative(u) /\ XMatch(V, p, u) = {}}}
    \cup {"ambiguous:" \o XLabel(p, u) : u \in {u \in XUnits(p) : XIsNative(u) /\ Cardinality(XMatch(V, p, u)) > 1}}
    \cup {"unexpected:" \o XName(o) : o \in {o \in XNatives(V) : \A u \in XUnits(p) : o \notin XMatch(V, p, u)}}
    \cup UNION {{"product:" \o XLabel(p, u) \o ":" \o XAttr(f, "loc")
                   : f \in {f \in XPointees(V, XObjOf(V, p, u), "productReference")
                              : XAttr(f, "loc") # "@products/" \o XProductFile(p.targets[u[1]], u[2])}}
                : u \in {u \in XMatched(V, p) : XIsNative(u)}}
XAggregateTargets(V, p) ==
    {"missing:" \o XLabel(p, u) : u \in {u \in XUnits(p) : ~XIsNative(u) /\ XMatch(V, p, u) = {}}}
    \cup {"ambiguous:" \o XLabel(p, u) : u \in {u \in XUnits(p) : ~XIsNative(u) /\ Cardinality(XMatch(V, p, u)) > 1}}
    \cup {"unexpected:" \o XName(o) : o \in {o \in XAggs(V) : XName(o) \notin XFixedNames /\ \A u \in XUnits(p) : o \notin XMatch(V, p, u)}}
    \cup {"fixed:" \o n \o ":" \o ToString(Cardinality(XFixed(V, n))) : n \in {n \in XFixedNames : Cardinality(XFixed(V, n)) # 1}}
    \* a target that has to run something (the tests, the regeneration check, the command of a run target) needs a
    \* script phase
    \cup {"no-script-phase:" \o XName(o) : o \in {o \in XFixed(V, "RUN_TESTS") \cup XFixed(V, "REGENERATE") : ~XHasScript(V, o)}}
    \cup {"no-script-phase:" \o XLabel(p, u) : u \in {u \in XMatched(V, p) : u[2] = "run" /\ ~XHasScript(V, XObjOf(V, p, u))}}

(* ---- F3 AllBuild ---------------------------------------------------------- *)
XAllBuild(V, p) ==
    UNION {LET got == XDepTargets(V, ab) \ {o.id : o \in XFixed(V, "REGENERATE")}
               want == {XObjOf(V, p, u).id : u \in XMatched(V, p) \cap XDefaultUnits(p)}
           IN {"missing:" \o XLabel(p, u) : u \in {u \in XMatched(V, p) \cap XDefaultUnits(p) : XObjOf(V, p, u).id \notin got}}
              \cup {"extra:" \o XName(XAt(V, x)) : x \in got \ (want \cup {XObjOf(V, p, u).id : u \in XMatched(V, p) \cap XMayDefaultUnits(p)})}
           : ab \in XFixed(V, "ALL_BUILD")}

(* ---- F4 DepsCover --------------------------------------------------------- *)
XDepsCover(V, p) ==
    UNION {{XLabel(p, u) \o "->" \o XLabel(p, v)
              : v \in {v \in XReq(p, u) \cap XMatched(V, p) : XObjOf(V, p, v).id \notin XDepClosure(V, XObjOf(V, p, u))}}
           : u \in XMatched(V, p)}
    \cup UNION {{"RUN_TESTS->ALL_BUILD" : ab \in {ab \in XFixed(V, "ALL_BUILD") : ab.id \notin XDepClosure(V, rt)}}
                \cup {"RUN_TESTS->" \o XLabel(p, v)
                        : v \in {v \in XTestReq(p) \cap XMatched(V, p) : XObjOf(V, p, v).id \notin XDepClosure(V, rt)}}
                : rt \in XFixed(V, "RUN_TESTS")}

(* ---- F6 Sources ----------------------------------------------------------- *)
\* the locations (@src/.., @build/..) listed by a sources phase, one element per (position) entry
XPhaseEntries(V, ph) ==
    UNION {{<<j, XAttr(f, "loc")>> : f \in XPointees(V, XAt(V, ph.refs[j].v), "fileRef")}
           : j \in {j \in XRefIdx(ph, "files") : XDefined(V, ph.refs[j].v)}}
XSourcesOf(V, p, u) ==
    LET t == p.targets[u[1]]
        q == XMirror(p)
        o == XObjOf(V, p, u)
        phases == {ph \in XPointees(V, o, "buildPhases") : ph.isa = "PBXSourcesBuildPhase"}
        once == {"@src/" \o Join(Loc(t), s) : s \in Rng(t.srcs)} \cup {"@build/" \o f : f \in GenC(q, t)}
        atmost == {"@build/" \o f : f \in GenH(q, t)}
        genbase == {DropSuffix(g, 3) \o ".c" : g \in Rng(t.genlist)}
        IsGen(loc, b) == XStartsWith(loc, "@build/") /\ EndsWith(loc, "/" \o b)
    IN IF Cardinality(phases) # 1 THEN {"sources-phases:" \o ToString(Cardinality(phases)) \o ":" \o XLabel(p, u)}
       ELSE LET es == XPhaseEntries(V, CHOOSE ph \in phases : TRUE)
                Count(loc) == Cardinality({e \in es : e[2] = loc})
            IN {"missing:" \o loc : loc \in {l \in once : Count(l) = 0}}
               \cup {"twice:" \o loc : loc \in {l \in once \cup atmost : Count(l) > 1}}
               \cup {"generator-output:" \o b \o ":" \o ToString(Cardinality({e \in es : IsGen(e[2], b)}))
                       : b \in {b \in genbase : Cardinality({e \in es : IsGen(e[2], b)}) # 1}}
               \cup {"unexpected:" \o e[2] : e \in {e \in es : e[2] \notin once \cup atmost /\ \A b \in genbase : ~IsGen(e[2], b)}}
XSources(V, p) == UNION {XSourcesOf(V, p, u) : u \in {u \in XMatched(V, p) : XIsNative(u)}}

XFaithful(V, p) ==
    XClause("NativeTargets", XNativeTargets(V, p)) \o XClause("AggregateTargets", XAggregateTargets(V, p))
    \o XClause("AllBuild", XAllBuild(V, p)) \o XClause("DepsCover", XDepsCover(V, p))
    \o XClause("AcyclicDeps", XAcyclicDeps(V)) \o XClause("Sources", XSources(V, p))

(* ======================================================================== *)
(* The reference generator: abstract project -> object graph.  It emits    *)
(* only what the rule book demands (no frameworks phase, no REGENERATE     *)
(* dependencies, files outside the group tree), so that Xcode_MC can show  *)
(* that every single reference and object of it is demanded by some clause.*)
(* ======================================================================== *)
XR(k, v) == [k |-> k, v |-> v]
XO(id, isa, refs, attrs) == [id |-> id, isa |-> isa, refs |-> refs, attrs |-> attrs, dig |-> ""]
XSeqOf(S) == SetToSeq(S)
XMap(S, Op(_)) == LET s == SetToSeq(S) IN [j \in DOMAIN s |-> Op(s[j])]
RECURSIVE XFlat(_)
XFlat(ss) == IF ss = <<>> THEN <<>> ELSE Head(ss) \o XFlat(Tail(ss))

XUid(p, u) == ToString(u[1]) \o ":" \o u[2]
XTid(p, u) == "T:" \o XUid(p, u)
\* one PBXTargetDependency (+ proxy) per dependee that somebody depends on
XDepId(tid) == "D:" \o tid
XDepObjs(tid) == <<XO(XDepId(tid), "PBXTargetDependency", <<XR("target", tid), XR("targetProxy", "PX:" \o tid)>>, <<>>),
                   XO("PX:" \o tid, "PBXContainerItemProxy", <<XR("containerPortal", "P"), XR("remoteGlobalIDString", tid)>>,
                      <<XR("proxyType", "1")>>)>>
XConfObjs(owner, attrs) ==
    <<XO("CL:" \o owner, "XCConfigurationList", <<XR("buildConfigurations", "XC:" \o owner)>>, <<XR("defaultConfigurationName", "debug")>>),
      XO("XC:" \o owner, "XCBuildConfiguration", <<>>, <<XR("name", "debug")>> \o attrs)>>

\* source locations of a native unit (every one listed exactly once)
XSrcLocs(p, u) ==
    LET t == p.targets[u[1]]
        q == XMirror(p)
    IN {"@src/" \o Join(Loc(t), s) : s \in Rng(t.srcs)} \cup {"@build/" \o f : f \in GenC(q, t)}
       \cup {"@build/" \o Join(Priv(q, t), DropSuffix(g, 3) \o ".c") : g \in Rng(t.genlist)}

XUnitObjs(p, u) ==
    LET t == p.targets[u[1]]
        q == XMirror(p)
        id == XUid(p, u)
        tid == XTid(p, u)
        deps == XMap(XReq(p, u), LAMBDA v : XR("dependencies", XDepId(XTid(p, v))))
    IN IF XIsNative(u)
       THEN LET locs == XSeqOf(XSrcLocs(p, u))
            IN <<XO(tid, "PBXNativeTarget",
                    <<XR("buildConfigurationList", "CL:" \o id), XR("buildPhases", "SRC:" \o id)>> \o deps
                    \o <<XR("productReference", "PR:" \o id)>>,
                    <<XR("name", XLabel(p, u)), XR("productType", XProductType(u[2]))>>),
                 XO("SRC:" \o id, "PBXSourcesBuildPhase", [j \in DOMAIN locs |-> XR("files", "BF:" \o id \o ":" \o ToString(j))], <<>>),
                 XO("PR:" \o id, "PBXFileReference", <<>>, <<XR("loc", "@products/" \o XProductFile(t, u[2]))>>)>>
               \o XConfObjs(id, <<XR("buildSettings.PRODUCT_NAME", t.name), XR("subdir", "@build/" \o Loc(t))>>)
               \o XFlat([j \in DOMAIN locs |->
                           <<XO("BF:" \o id \o ":" \o ToString(j), "PBXBuildFile", <<XR("fileRef", "FR:" \o id \o ":" \o ToString(j))>>, <<>>),
                             XO("FR:" \o id \o ":" \o ToString(j), "PBXFileReference", <<>>, <<XR("loc", locs[j])>>)>>])
       ELSE LET outs == XMap(OutPaths(q, t), LAMBDA f : XR("out", "@build/" \o f))
                phase == IF u[2] = "alias" THEN <<>> ELSE <<XR("buildPhases", "SH:" \o id)>>
            IN <<XO(tid, "PBXAggregateTarget", <<XR("buildConfigurationList", "CL:" \o id)>> \o phase \o deps,
                    <<XR("name", t.name \o "@" \o u[2])>>)>>
               \o (IF u[2] = "alias" THEN <<>> ELSE <<XO("SH:" \o id, "PBXShellScriptBuildPhase", <<>>, IF u[2] = "custom" THEN outs ELSE <<>>)>>)
               \o XConfObjs(id, <<>>)

XRefGraph(p) ==
    LET us == XSeqOf(XUnits(p))
        tids == [j \in DOMAIN us |-> XTid(p, us[j])]
        fixed == <<"T:ALL_BUILD", "T:RUN_TESTS", "T:REGENERATE">>
        alldeps == XMap(XDefaultUnits(p), LAMBDA v : XR("dependencies", XDepId(XTid(p, v))))
        testdeps == <<XR("dependencies", XDepId("T:ALL_BUILD"))>> \o XMap(XTestReq(p), LAMBDA v : XR("dependencies", XDepId(XTid(p, v))))
        \* dependees: everything some target depends on
        dependees == {XTid(p, v) : v \in UNION {XReq(p, u) : u \in XUnits(p)} \cup XDefaultUnits(p) \cup XTestReq(p)} \cup {"T:ALL_BUILD"}
        groups == <<XO("G:main", "PBXGroup", <<XR("children", "G:targets")>>, <<>>),
                    XO("G:targets", "PBXGroup", [j \in DOMAIN us |-> XR("children", "G:" \o XUid(p, us[j]))], <<XR("name", "targets")>>)>>
                  \o [j \in DOMAIN us |-> XO("G:" \o XUid(p, us[j]), "PBXGroup", <<>>, <<XR("name", XLabel(p, us[j]))>>)]
    IN [root |-> "P", errors |-> <<>>,
        objs |-> <<XO("P", "PBXProject",
                      <<XR("buildConfigurationList", "CL:P"), XR("mainGroup", "G:main")>>
                      \o [j \in DOMAIN fixed |-> XR("targets", fixed[j])] \o [j \in DOMAIN tids |-> XR("targets", tids[j])], <<>>)>>
                 \o XConfObjs("P", <<>>)
                 \o <<XO("T:ALL_BUILD", "PBXAggregateTarget", <<XR("buildConfigurationList", "CL:ALL_BUILD")>> \o alldeps, <<XR("name", "ALL_BUILD")>>),
                      XO("T:RUN_TESTS", "PBXAggregateTarget",
                         <<XR("buildConfigurationList", "CL:RUN_TESTS"), XR("buildPhases", "SH:RUN_TESTS")>> \o testdeps, <<XR("name", "RUN_TESTS")>>),
                      XO("SH:RUN_TESTS", "PBXShellScriptBuildPhase", <<>>, <<>>),
                      XO("T:REGENERATE", "PBXAggregateTarget",
                         <<XR("buildConfigurationList", "CL:REGENERATE"), XR("buildPhases", "SH:REGENERATE")>>, <<XR("name", "REGENERATE")>>),
                      XO("SH:REGENERATE", "PBXShellScriptBuildPhase", <<>>, <<>>)>>
                 \o XConfObjs("ALL_BUILD", <<>>) \o XConfObjs("RUN_TESTS", <<>>) \o XConfObjs("REGENERATE", <<>>)
                 \o XFlat([j \in DOMAIN us |-> XUnitObjs(p, us[j])])
                 \o XFlat(XMap(dependees, XDepObjs))
                 \o groups]

\* the closure of the unit requirements, for the comparison with the Ninja model
RECURSIVE XReqReach(_, _, _)
XReqReach(p, frontier, seen) ==
    LET new == UNION {XReq(p, u) : u \in frontier} \ seen
    IN IF new = {} THEN seen ELSE XReqReach(p, new, seen \cup new)
XReqClosure(p, u) == XReqReach(p, XReq(p, u), XReq(p, u))
=============================================================================
