SPECIFICATION Spec
CONSTANTS Deflibs = {"shared", "both", "static"}
 LocSet = "all"
 Mutate = "chains"
INVARIANT FamilySane
INVARIANT RefWellFormed
INVARIANT RefFaithful
INVARIANT RefClosure
INVARIANT ClosureIsNinjas
INVARIANT Tight
INVARIANT BenignAccepted
CHECK_DEADLOCK FALSE
POSTCONDITION EmitFamily
