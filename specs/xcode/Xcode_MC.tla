------------------------------- MODULE Xcode_MC -------------------------------
(***************************************************************************)
(* Model for X05.  A bounded family of abstract projects:                  *)
(*   X1 "pairs"  - a provider (static / both / default library,            *)
(*      executable, custom target with C or data outputs, run target) in   *)
(*      the root or a sub-directory with every build_by_default / install  *)
(*      combination, and a consumer (executable, shared or both library,   *)
(*      custom target, run target, alias) that uses it in the natural way  *)
(*      or ignores it; optionally a test / benchmark on the executable     *)
(*      that depends on the other target;                                  *)
(*   X2 "chains" - three or four targets: library -> library ->            *)
(*      executable, custom -> custom -> executable, executable -> custom   *)
(*      -> run -> alias, generator() sources, a non-default test           *)
(*      executable.                                                        *)
(* Laws (for every project p of the family, G = XRefGraph(p)):             *)
(*   RefWellFormed    G satisfies every integrity clause                   *)
(*   RefFaithful      G satisfies every faithfulness clause for p          *)
(*   RefClosure       the dependency closure of every target of G is the   *)
(*                    closure of the unit requirements                     *)
(*   ClosureIsNinjas  that closure is the one of the Ninja model           *)
(*                    (ProjectModel!ModelGraph / BuildGraph!ReachPaths)    *)
(*   Tight            (state machine) dropping any single reference,       *)
(*                    deleting any single object, or retargeting any       *)
(*                    reference to an object of a wrong kind makes some    *)
(*                    clause fail - except for the two benign cases        *)
(*                    spelled out in XBenign - i.e. nothing in the rule    *)
(*                    book is vacuous for the family.                      *)
(* The family is exported for binding (A).                                 *)
(***************************************************************************)
EXTENDS XcodeModel, Json, IOUtils
CONSTANTS Deflibs, LocSet, Mutate

Locs == IF LocSet = "small" THEN {"sub"} ELSE {"", "sub"}

T(kind, name, subdir, srcs, gen, link, bbd, install, outs, deps) ==
    [kind |-> kind, name |-> name, subdir |-> subdir, sp |-> "", srcs |-> srcs, gen |-> gen, genidx |-> <<>>, genlist |-> <<>>,
     link |-> link, bbd |-> bbd, install |-> install, outs |-> outs, deps |-> deps]
P(deflib, ts, tests) == [name |-> "fam", lang |-> "c", layout |-> "mirror", deflib |-> deflib, targets |-> ts, tests |-> tests]
Test(name, exe, depends, args, bench) ==
    [name |-> name, exe |-> exe, depends |-> depends, args |-> args, sargs |-> <<>>, bench |-> bench, suite |-> <<>>,
     env |-> <<>>, sp |-> "", script |-> ""]
NoTest == <<>>

(* ---- X1 ---- *)
BbdInstall == {<<"unset", FALSE>>, <<"unset", TRUE>>, <<"true", FALSE>>, <<"false", FALSE>>, <<"false", TRUE>>}
Providers ==
    {T(k, "foo", d, <<"t1.c">>, <<>>, <<>>, bi[1], bi[2], <<>>, <<>>) : k \in {"static", "lib", "both", "exe"}, d \in Locs, bi \in BbdInstall}
    \cup {T("custom", "c1", d, <<>>, <<>>, <<>>, bi[1], bi[2], o, <<>>) : d \in Locs, bi \in BbdInstall, o \in {<<"gen.c", "gen.h">>, <<"out.txt">>}}
    \cup {T("run", "foo", d, <<>>, <<>>, <<>>, "unset", FALSE, <<>>, <<>>) : d \in Locs}
IsLib(t) == t.kind \in {"static", "shared", "both", "lib"}
IsCGen(t) == t.kind = "custom" /\ \E k \in DOMAIN t.outs : EndsWith(t.outs[k], ".c")
Consumers(a, rel) ==
    IF a.kind = "run"
    THEN (IF rel THEN {T("alias", "bar", "", <<>>, <<>>, <<>>, "unset", FALSE, <<>>, <<1>>)} ELSE {})
    ELSE {T(k, "bar", "", <<"t2.c">>, IF rel /\ IsCGen(a) THEN <<1>> ELSE <<>>, IF rel /\ IsLib(a) THEN <<1>> ELSE <<>>,
            b, FALSE, <<>>, <<>>) : k \in {"exe", "shared", "both"}, b \in {"unset", "false"}}
         \cup {T("custom", "c2", "", <<>>, IF rel /\ a.kind = "custom" /\ inp THEN <<1>> ELSE <<>>, <<>>, b, FALSE, <<"out2.txt">>,
                 IF rel /\ ~inp THEN <<1>> ELSE <<>>) : b \in {"unset", "true"}, inp \in BOOLEAN}
         \cup {T("run", "bar", "", <<>>, <<>>, <<>>, "unset", FALSE, <<>>, IF rel THEN <<1>> ELSE <<>>)}
         \cup (IF rel THEN {T("alias", "bar", "", <<>>, <<>>, <<>>, "unset", FALSE, <<>>, <<1>>)} ELSE {})
TestsFor(a, b) ==
    LET exes == {i \in {1, 2} : <<a, b>>[i].kind = "exe"}
    IN {NoTest} \cup
       (IF exes = {} THEN {}
        ELSE LET e == CHOOSE i \in exes : \A j \in exes : i <= j
                 o == 3 - e
                 ot == <<a, b>>[o]
             IN {<<Test("t", e, IF IsBuildable(ot) THEN <<o>> ELSE <<>>, IF ot.kind = "custom" THEN <<o>> ELSE <<>>, bn)>> : bn \in BOOLEAN})
\* default_library only matters when a `library()` is present
DeflibsFor(ts) == IF \E i \in DOMAIN ts : ts[i].kind = "lib" THEN Deflibs ELSE {"shared"}
X1 == UNION {UNION {UNION {{P(dl, <<a, b>>, x) : dl \in DeflibsFor(<<a, b>>)} : x \in TestsFor(a, b)}
                     : b \in Consumers(a, rel)} : <<a, rel>> \in Providers \X BOOLEAN}

(* ---- X2 ---- *)
Lib(k, name, d, src, link, bbd) == T(k, name, d, <<src>>, <<>>, link, bbd, FALSE, <<>>, <<>>)
Chains ==
    {<<Lib(k1, "foo", d, "t1.c", <<>>, "unset"), Lib(k2, "mid", "", "t2.c", <<1>>, b2), Lib("exe", "bar", "", "t3.c", <<2>>, "unset")>>
        : k1 \in {"static", "both"}, k2 \in {"static", "both", "shared"}, d \in Locs, b2 \in {"unset", "false"}}
    \cup {<<T("custom", "c1", d, <<>>, <<>>, <<>>, "unset", FALSE, <<"gen.c", "gen.h">>, <<>>),
            T("custom", "c2", "", <<>>, <<1>>, <<>>, "unset", FALSE, <<"out.c">>, <<>>),
            T("exe", "bar", "", <<"t3.c">>, <<2>>, <<>>, b, FALSE, <<>>, <<>>)>> : d \in Locs, b \in {"unset", "false"}}
    \cup {<<T("exe", "foo", d, <<"t1.c">>, <<>>, <<>>, "false", FALSE, <<>>, <<>>),
            T("custom", "c2", "", <<>>, <<>>, <<>>, b, FALSE, <<"out2.txt">>, <<1>>),
            T("run", "r", "", <<>>, <<>>, <<>>, "unset", FALSE, <<>>, <<2>>),
            T("alias", "al", "", <<>>, <<>>, <<>>, "unset", FALSE, <<>>, <<3>>)>> : d \in Locs, b \in {"unset", "true"}}
    \cup {<<[T("exe", "bar", d, <<"t1.c", "u1.c">>, <<>>, <<>>, "unset", FALSE, <<>>, <<>>) EXCEPT !.genlist = <<"g1.in">>]>> : d \in Locs}
ChainTests(ts) ==
    {NoTest} \cup {<<Test("t", i, <<>>, <<>>, FALSE)>> : i \in {i \in DOMAIN ts : ts[i].kind = "exe"}}
X2 == UNION {UNION {{P(dl, ts, x) : dl \in DeflibsFor(ts)} : x \in ChainTests(ts)} : ts \in Chains}

Family == X1 \cup X2

(* ---- mutations of the reference graph ------------------------------------- *)
DropRef(G, k, j) == [G EXCEPT !.objs[k].refs = [m \in 1..(Len(@) - 1) |-> IF m < j THEN @[m] ELSE @[m + 1]]]
DropObj(G, k) == [G EXCEPT !.objs = [m \in 1..(Len(@) - 1) |-> IF m < k THEN @[m] ELSE @[m + 1]]]
WrongKind(r) == IF r.k = "buildConfigurations" THEN "G:main" ELSE "XC:P"
Retarget(G, k, j) == [G EXCEPT !.objs[k].refs[j] = [k |-> @.k, v |-> WrongKind(@)]]
Apply(G, m) == CASE m[1] = "none" -> G
                 [] m[1] = "dropref" -> DropRef(G, m[2], m[3])
                 [] m[1] = "dropobj" -> DropObj(G, m[2])
                 [] m[1] = "retarget" -> Retarget(G, m[2], m[3])
Mutations(G) ==
    UNION {{<<kind, k, j>> : kind \in {"dropref", "retarget"}, j \in DOMAIN G.objs[k].refs} : k \in DOMAIN G.objs}
    \cup {<<"dropobj", k, 0>> : k \in DOMAIN G.objs}
Violations(q, G) == LET V == XView(G) IN XIntegrity(V) \o XFaithful(V, q)
\* the only single-reference removals the rule book tolerates: a dependency that is still implied through
\* another one, and the (optional) proxy of a target dependency
XBenign(q, G, m) ==
    /\ m[1] = "dropref"
    /\ LET o == G.objs[m[2]]
           r == o.refs[m[3]]
       IN \/ r.k = "targetProxy"
          \/ /\ r.k = "dependencies" /\ o.isa \in XTargetIsas /\ XName(o) # "ALL_BUILD"
             /\ LET V == XView(G)
                    W == XView(Apply(G, m))
                IN XDepClosure(V, o) = XDepClosure(W, W.G.objs[m[2]])

VARIABLES p, mut, started
vars == <<p, mut, started>>
Init == p \in Family /\ mut = <<"none", 0, 0>> /\ started = FALSE
Start == ~started /\ started' = TRUE /\ UNCHANGED <<p, mut>>
Mutated == CASE Mutate = "none" -> FALSE
             [] Mutate = "chains" -> p \in X2
             [] OTHER -> TRUE
Pick == /\ started /\ mut[1] = "none" /\ Mutated
        /\ mut' \in Mutations(XRefGraph(p))
        /\ UNCHANGED <<p, started>>
Next == Start \/ Pick
Spec == Init /\ [][Next]_vars

G0 == XRefGraph(p)
Fresh == started /\ mut[1] = "none"
FamilySane == Fresh => ~Collides(p)
RefWellFormed == Fresh => XIntegrity(XView(G0)) = <<>>
RefFaithful == Fresh => XFaithful(XView(G0), p) = <<>>
RefClosure == Fresh =>
    LET V == XView(G0)
    IN \A u \in XUnits(p) : XDepClosure(V, XAt(V, XTid(p, u))) = {XTid(p, v) : v \in XReqClosure(p, u)}
\* the products of a unit as the Ninja model names them
XProd(q, u) == LET t == q.targets[u[1]]
               IN IF XIsNative(u) THEN {Join(OutDir(q, t), XProductFile(t, u[2]))} ELSE OutPaths(q, t)
ClosureIsNinjas == Fresh =>
    LET M == ModelGraph(p)
    IN \A u \in XUnits(p) :
          LET reach == ReachPaths(M, XProd(p, u))
          IN \A v \in XUnits(p) \ {u} : (v \in XReqClosure(p, u)) <=> (XProd(p, v) \cap reach # {})
Tight == (mut[1] # "none") => (XBenign(p, G0, mut) \/ Violations(p, Apply(G0, mut)) # <<>>)
\* the benign cases really are accepted (the exception list is not wider than needed)
BenignAccepted == (mut[1] # "none" /\ XBenign(p, G0, mut)) => Violations(p, Apply(G0, mut)) = <<>>

EmitFamily == TLCGet("stats").diameter >= 0 /\
              LET s == SetToSeq(Family)
              IN JsonSerialize("xfamily.json", [j \in DOMAIN s |-> s[j]])
=============================================================================
