#!/usr/bin/env python3
"""Regenerates the generated tables of DESIGN.md (between <!-- BEGIN x --> / <!-- END x --> markers):
fixes (from the `fixed:` lines of the known-findings files + /repo git log), findings (remaining known findings),
seeds (from seeded/*/meta.json).  Run after changing findings or seeds: tools/gen_design_tables.py"""
import glob, json, os, re, subprocess
from pathlib import Path

V = Path(__file__).resolve().parent.parent


def esc(s: str) -> str:
    return s.replace('|', '\\|').replace('\n', ' ')


def findings_files():
    return [V / 'known_findings.json'] + sorted((V / 'known_findings.d').glob('*.json'))


def fixes() -> str:
    log = subprocess.run(['git', '-C', '/repo', 'log', '--reverse', '--format=%h %s'], capture_output=True, text=True).stdout.splitlines()
    order = [l.split()[0] for l in log if ' fix:' in l]
    subj = {l.split()[0]: l.split(' ', 1)[1][5:] for l in log if ' fix:' in l}
    rows = {}
    for p in findings_files():
        for l in json.loads(p.read_text()).get('fixed', []):
            m = re.match(r'fixed: property=(\S+) (\S+) (.*)', l)
            h = next((o for o in order if o.startswith(m.group(2)[:7]) or m.group(2).startswith(o)), None)
            if h:
                rows.setdefault(h, []).append((m.group(1), m.group(3)))
    out = ['| property | commit | subject of the `fix:` commit | what failed before |', '|---|---|---|---|']
    for h in order:
        for prop, what in rows.get(h, [('?', '')]):
            out.append(f'| {prop} | {h} | {esc(subj[h])} | {esc(what)} |')
    out.append('')
    out.append(f'{len(order)} `fix:` commits; the pinned suite (107 tests) passes after each.')
    return '\n'.join(out)


def findings() -> str:
    out = ['| property | signature | what fails |', '|---|---|---|']
    n = 0
    for p in findings_files():
        for f in json.loads(p.read_text()).get('findings', []):
            out.append(f"| {f['property']} | `{esc(f['signature'])[:110]}` | {esc(f['what'])[:400]} |")
            n += 1
    out.append('')
    out.append(f'{n} signatures.')
    return '\n'.join(out)


def seeds() -> str:
    out = ['| seed (`seeded/<dir>`) | what the change does | confirmed | caught by the quick check | first reported signature |', '|---|---|---|---|---|']
    tot = caught = 0
    for d in sorted((V / 'seeded').iterdir()):
        mp = d / 'meta.json'
        if not mp.exists():
            continue
        m = json.loads(mp.read_text())
        notes = (d / 'notes.md').read_text() if (d / 'notes.md').exists() else ''
        title = next((l.lstrip('# ').strip() for l in notes.splitlines() if l.startswith('#')), '')
        sig = (m.get('check_first_signatures') or [''])[0].replace('signature: ', '')
        conf = 'yes' if m.get('confirmed') else ('yes (at ' + m['confirmed_at'] + ')' if m.get('confirmed_at') else 'no')
        fu = m.get('followup') or {}
        det = 'yes' if m.get('check_detected') else ('yes (after follow-up)' if fu.get('detected') else 'NO')
        if not m.get('check_detected') and fu.get('detected'):
            sig = fu.get('signature', sig)
        tot += 1
        caught += bool(m.get('check_detected') or fu.get('detected'))
        out.append(f"| {d.name} | {esc(title)[:160]} | {conf} | {det} | `{esc(sig)[:90]}` |")
    out.append('')
    out.append(f'{caught} of {tot} seeded changes are caught.')
    return '\n'.join(out)


def main() -> None:
    p = V / 'DESIGN.md'
    s = p.read_text()
    for name, fn in (('fixes', fixes), ('findings', findings), ('seeds', seeds)):
        b, e = f'<!-- BEGIN {name} -->', f'<!-- END {name} -->'
        if b in s and e in s:
            s = s[:s.index(b) + len(b)] + '\n' + fn() + '\n' + s[s.index(e):]
    p.write_text(s)


if __name__ == '__main__':
    main()
