#!/usr/bin/env python3
"""Regenerates /verif/MANIFEST.json from the table below (one source of truth, always schema-valid)."""
import json
import os
from pathlib import Path

VERIF = Path(__file__).resolve().parent.parent

# id -> (technique, level text, level note, design ref)
CHECKS = {
    'C18': (
        'TLC: operational TAP parser spec = declarative TAP rules on all streams <= N; trace validation of the real '
        'TAPParser/TestRunTAP (every stream <= N of the model alphabet, random long streams) by TraceTAP.tla',
        'Model checking of specs/tap (operational state machine equals the declarative TAP 12/13 rule book on every '
        'stream up to the bound) plus trace validation: every stream of the same bounded space and seeded random long '
        'streams are executed by the real TAPParser line by line and each recorded execution is accepted or rejected '
        'by the TLC trace spec; whole-test verdicts of TestRunTAP are validated the same way. Exhaustive small scope '
        'is the right level for a line-oriented state machine with a handful of counters.',
        'Trusted: TLC, the renderer abstract line -> text (harness/c18_tap.py), the projection of event objects. '
        'Alphabet limits listed in the evidence assumptions.',
        'DESIGN.md section 5, C18'),
    'C02': (
        'TLC: reference grammar (specs/lang/MesonGrammar) total / drops no accepted token / extents nest on all token '
        'sequences <= N over four alphabets; trace validation of the real Lexer+Parser+RawPrinter (same bounded spaces '
        'rendered with trivia, every build file in the repository, token mutants, soups) by TraceGrammar.tla',
        'Model checking of the reference grammar (every token sequence up to the bound over four token alphabets: '
        'totality, no accepted token dropped, extents nest, call/array extents delimit name..closer) plus trace '
        'validation of the real parser: every sequence of the same bounded spaces rendered to text with seeded trivia, '
        'all build files shipped in the repository, token-level mutants and soups are parsed by the real mparser.Parser '
        'and re-printed by RawPrinter; TLC judges each recorded outcome (no internal error, located rejection, byte-exact '
        're-print, FunctionNode/ArrayNode extents equal to the reference extents). Character soups check totality.',
        'Trusted: TLC, the token renderer and the line/column -> token index conversion in harness/lang_driver.py; for '
        'corpus files the real Lexer supplies the tokens. Byte-exact re-printing is observed by the harness and fed to the trace.',
        'DESIGN.md section 5, C02'),
    'C01': (
        'TLC: reference evaluator (specs/lang/MesonEval over MesonGrammar/MesonValues) total on all token sequences <= N of three '
        'alphabets with the reference laws as invariants; trace validation of the real Parser+Interpreter (same bounded spaces, '
        'seeded grammar-generated programs, CLI sample) by TraceEval.tla / TraceGrammar.tla',
        'Model checking of the reference evaluator (transcribed from Syntax.md and the elementary-type reference, not from the '
        'Python code): totality, typing and immutability laws over every token sequence up to the bound, fixed facts (floor '
        'division, escape decoding, short circuit, substring, split, zero fill) as assumptions TLC evaluates. Binding: every token '
        'sequence of the bounded spaces and thousands of generated programs are run by the real mparser.Parser + Interpreter '
        '(in-process; a sample through `meson setup`) and TLC re-parses and re-evaluates the same tokens with the reference, '
        'comparing value-vs-failure and the complete variable store (also at the point of failure) and the tree shape.',
        'Trusted: TLC, token renderer, value projection (harness/c01_eval.py). Where the reference is silent the spec answers '
        '"unspecified" and accepts any outcome (listed in the evidence assumptions). subdir() and subproject() are exercised through generated project trees (tree_program).',
        'DESIGN.md section 5, C01'),
    'C16': (
        'TLC: normal form of program trees (specs/format/FormatEquiv over MesonGrammar) ignores exactly layout trivia and '
        'distinguishes literals by denotation; trace validation of the real Formatter (generated + corpus + mutated inputs x '
        'seeded configurations) by TraceFormat.tla',
        'Model checking of the normal-form laws (layout decoration never changes Norm; literal rewrites keep Norm iff the '
        'denotation is equal) plus trace validation: generated programs with legal trivia, every build file of the repository '
        'and token mutants are formatted by the real Formatter under seeded option combinations; TLC parses input and output '
        'tokens with the reference grammar and compares normal forms and comment sequences; idempotence (classified) and the '
        '--check-only/--check-diff exit status against a real --inplace run are recorded in the same trace.',
        'Trusted: TLC; input and output are tokenised by the real Lexer (itself checked at small scope by C02); harness '
        'classification of idempotence failures (indentation-only, line continuation, no_single_comma_function) feeds the known-findings list.',
        'DESIGN.md section 5, C16'),
    'C12': (
        'TLC: TestSched (main loop, FIFO job semaphore, serial barriers, timeout->kill, --maxfail cut, --repeat stop, '
        'classification, tallies, exit status) checked over all interleavings of every small instance; TestSelect laws; '
        'nondeterministic trace validation (TraceTestSched / TraceTestSelect) of real `meson test` CLI runs and of the real '
        'scheduler under a virtual-time loop; TLC-simulated schedules replayed',
        'Model checking of specs/mtest: every interleaving of every instance up to 4 tests x 2 iterations, J <= 3, maxfail <= 2 '
        'satisfies AtMostOnce / ExactlyOnceWhenNotCut / SerialAlone / JobBound / TalliesEqualClassification / ExitNonZeroIffBad / '
        'SlicesPartition. In addition, each recorded execution of the real code (child-written start/end log order, testlog.json '
        'order, printed totals, exit status) is accepted only if TLC finds a behaviour of that spec producing it.',
        'Trusted: TLC, the test script and its O_APPEND log, the projection of the logs, and the fake subprocess/virtual loop. '
        'Concurrency claims use only child-observed intervals, so the start order of concurrently running tests is not observable '
        'in CLI runs. Thorough ~ 9M model states plus about 10k traces.',
        'DESIGN.md section 5, C12 and section 10'),
    'C03': (
        'TLC: decoders between meson\'s output and the process (Ninja $-unescape/variable scoping, POSIX sh word splitting with '
        'metacharacter faults, gcc response-file splitting, env/exe-wrapper/pickle unwrapping) and Expected(args,pos,mode) with the '
        'four documented rewrites; Decode(Encode(s))=s for all texts <=N over a 14-code-point alphabet; trace validation of the real '
        'quoting functions, manifest writer, generated build.ninja/pickles in 27 positions, and of real /bin/sh, gcc and meson test '
        'executions by TraceArgFidelity.tla',
        'Model checking of specs/ninja ArgFidelity_MC (round-trip laws of every quoting layering, newline => pickled wrapper, algebra '
        'of Expected) plus trace validation at three levels: (1) all texts of the model space through the real ninja_quote/quote_arg/'
        'join_args/gcc_rsp_quote/NinjaRule._quoter/NinjaBuildElement.write, decoded by TLC; (2) generated projects with every string '
        'in every command position, raw rule+edge text and unpickled exe/test serialisations expanded, split and compared with '
        'Expected by TLC; (3) the same command lines run by real /bin/sh, env, meson --internal exe and meson test with an argv '
        'dumper, which must agree with the spec decoders. Fidelity checking: TLA+ is the oracle language; the assurance comes from '
        'exhaustive small strings in every position.',
        'Trusted: TLC, ninja_ref (cross-checked against the TLA+ expansion on every edge), c03_raw line cutter, the C dumper, /bin/sh, '
        'env, gcc as environment. Environment-model disagreements are exit 2. Known findings: newline refusals in compiler/linker '
        'arguments. POSIX host only.',
        'DESIGN.md section 5, C03 and section 10'),
    'C09': (
        'TLC: BuildDirCrash (state files as contents/version/synced, file-system ops, Crash between any two ops, Recover model) over a '
        '6,848-design family of write protocols (incl. machine files given through a pipe, whose private copy is the only copy) and over the op scripts recorded with strace from the real commands; trace validation '
        'of every SIGKILL point injected into the real CLI (strace inject) by TraceBuildDirCrash.tla',
        'Model checking of specs/builddir: safe write-protocol designs satisfy Recoverable and ValuesOldOrNew for every order, chunking '
        'and history (126k/200k states), the same machine is run over the op scripts recorded from the real commands (every prefix), '
        'and every kill point of the command/history pairs (quick: flagged prefixes + stride sample; thorough: all 674) is executed on '
        'the real CLI under strace fault injection and judged by the trace spec (crash state = Run(script, k), follow-up succeeds, '
        'every option old or new); the reader model is replayed on 12 synthesized crash states.',
        'Trusted: TLC, strace (-P path filter, inject=...:signal=SIGKILL:when=k), the log-to-script parser and file projections in '
        'harness/c09_*.py. SIGKILL semantics (page cache survives); power loss only as the fsync-before-rename ordering law.',
        'DESIGN.md section 5, C09 and section 10'),
    'C06': (
        'TLC: configurator state machine (ConfigDeterminism) with ideal generator satisfies Functional/Quiescent/Untouched on all '
        'histories within the bound and refutes them for four faulty generators; trace validation of real `meson setup/--reconfigure/'
        '--wipe/configure` runs of generated and corpus projects under varied hash seed, environment order, readdir order and build-dir '
        'history by TraceConfigDeterminism.tla',
        'Model checking of a small configurator state machine (2 keys x 3 environments, histories <= 5 commands): same key => same '
        'bytes, no-change reconfigure changes no digest and no mtime of a kept output, both formulations of the judge agree, faulty '
        'generators are refuted. Binding: each project\'s recorded history (command, key, environment, {file -> sha256, mtime_ns, kept}) '
        'from real CLI runs at a fixed absolute path is judged by TLC with the same operators; TLC names clause, file and the pair of '
        'runs. History shapes are exported by the model.',
        'The spec is thin by nature (a hyper-property over environment nondeterminism: bookkeeping, not insight); the power is in the '
        'driver (hash seed, environ order incl. exact reversal, listdir/scandir order via an add-only sitecustomize, fresh/reconfigured/'
        'toggled/wiped directories). Trusted: TLC, the file projection and the kept classification (harness/c06_determinism.py), sha256.',
        'DESIGN.md section 5, C06 and section 10'),
    'C10': (
        'TLC: DepLookup decision table (3,240 configurations x lookup sequences <= 3, 15 laws) and WrapFetch pipeline (fetch -> verify '
        '-> unpack -> patch -> diff as a step machine run twice, 6 laws); trace validation (TraceDepLookup, TraceWrapFetch) of real '
        '`meson setup` / `meson subprojects download` runs on materialised cells and wrap scenarios',
        'Model checking of specs/deps: the documented fallback policy as a function Lookup(cfg, state, args) with OverrideWins / '
        'ForcedNeverConsultsSystem / NofallbackNeverConfigures / RequiredNotFoundIsError / RepeatStable ... over the full cross product, '
        'and the wrap acquisition pipeline with NeverUnpackBadHash / NodownloadFetchesNothing / FailedPatchLeavesNoDir / '
        'SecondRunNeverAcceptsHalfPrepared. Every cell of the table (thorough: all 48,600; quick: seeded 3,780 histories) and the wrap '
        'scenarios are replayed on the real CLI (private PKG_CONFIG_LIBDIR, logging pkg-config wrapper, file:// URLs with real archives) '
        'and TLC judges each recorded history step by step.',
        'Trusted: TLC, the cell renderer and observation parser (harness/depdrv_*.py), pkg-config as the system. One name and one '
        'candidate subproject per cell; [wrap-file] wraps only; sequences longer than 3 and VCS wraps are not covered.',
        'DESIGN.md section 5, C10 and section 10'),
    'C05': (
        'TLC: Ninja scheduling rule Run(e) over manifests with observed reads/probes/writes (specs/ninja/BuildSched): all graphs of 3 '
        'statements x all schedules (behavioural laws = declarative ancestor-closure laws = compiled form), vacuity guards; trace '
        'validation of real builds (reference executor + strace, 3 adversarial real schedules, per-statement hermetic replay) by '
        'TraceBuildSched.tla; every schedule of every recorded graph explored by TraceBuildSchedAll.tla',
        'Hermetic, StableProbes, NoUndeclaredWrite and Confluent are invariants checked by TLC over every prefix-closed statement set of '
        'each concrete generated graph, so they are decided for all topological orders rather than sampled. Real adversarial schedules '
        'and hermetic replays must be behaviours of the rule, exit 0 and reproduce digests.',
        'Needs and Writes are observational (one strace\'d run). Manifest reading and execution rest on ninja_ref and c05_exec because no '
        'ninja binary exists. Graphs above the state cap are judged by the declarative form. .gch bytes are ignored.',
        'DESIGN.md section 5, C05 and section 10'),
    'C11': (
        'TLC: Install_MC - operational installer (InstallOps, whole file system, re-rooting per call, DirMaker-style log) equals the '
        'declarative rule book (Install) on the complete reachable state space of all conflict-free plans <= 2-3 rules over a 16-rule '
        'catalog x 4 umask configurations; laws Confined/Exact/DryRunNoop/Idempotent/LogNamesCreated/UninstallRemovesExactlyLog/'
        'OrderIndependent/ReversibleWhenFresh/ForeignKept. Trace validation (TraceInstall) of real meson setup / install / --internal '
        'uninstall histories on model-exported plans (A) and seeded random rich projects (B) plus fixed probes',
        'Model checking of the install rule book (260,622 states thorough / 17,540 quick, no depth bound) plus trace validation of the '
        'real CLI: 786 (thorough) / 78 (quick) histories; after every command the complete listing of DESTDIR (type, mode, link target, '
        'content), of everything else below the work directory, install-log.txt and intro-install_plan.json are compared by TLC with '
        'the tree/log computed from the abstract plan.',
        'Trusted: TLC, renderer/projection in harness/c11_install.py. Runs as root: chown parts of install_mode not exercised; the '
        'target root is virtualised below <work>/r; "outside" is the work directory, not the whole machine.',
        'DESIGN.md section 5, C11 and section 10'),
    'C13': (
        'TLC: eager rule book (ArgList) and lazy container/queues design (ArgListLazy) proved to refine it for all operation sequences '
        'of the bounded spaces; replay of the exported operation space and trace validation of random histories on real '
        'CLikeCompilerArgs, plus build.ninja ARGS of generated projects, by TraceArgList.tla',
        'Model checking of specs/arglist: NothingInventedOrLost / NoDedupOrderAndMultiplicityKept / LaterSettingWins on the eager '
        'meaning and lock-step refinement LazyRefinesEager over every operation sequence of the bounded spaces (630k states quick); '
        'every path of the exported operation space and seeded random histories (2-40 operations on up to 4 aliased objects) run on '
        'the real CLikeCompilerArgs with return values and end-of-history lists judged by TLC; compile ARGS of generated C projects '
        'with settings duplicated at global/project/option/dependency/target level judged against the eager meaning.',
        'Trusted: TLC, the stub compiler object, spelling tables of harness/c13_arglist.py. to_native() without copy is terminal; '
        'index/slice assignment not generated.',
        'DESIGN.md section 5, C13 and section 10'),
    'C14': (
        'TLC: character-level substitution rule book (Template: meson / cmake / cmake@ scanners, #mesondefine / #cmakedefine[01] line '
        'forms, missing names, header dump) with laws model-checked over bounded template families; the same families plus random '
        'fragment templates through real do_conf_file / configure_file / dump_conf_header judged by TraceTemplate.tla',
        'Model checking of specs/template (OtherBytesUntouched, ScanEqualsSegments, NoRescan, MissingAreUndefinedNamesOfTheTemplate, '
        'HeaderHasExactlyKeysSorted, 48 pinned cases; ~205k states quick) plus conformance: every template of the bounded families x '
        'configurations x formats and seeded random templates are processed by the real code (files in and out, bytes compared; a '
        'sample through configure_file() with the CLI) and TLC recomputes the expected text, missing set or rejection.',
        'Trusted: TLC, the family renderer. Scope predicate TemplateSpace!InScope lists what the documentation leaves open (keyword as '
        'name, bool inline in meson format, cmake value rescan ...).',
        'DESIGN.md section 5, C14 and section 10'),
    'C17': (
        'TLC: rule book of the rewriter commands (specs/rewrite/Rewriter over an abstract project; laws model-checked on RewriterModel); '
        'ProjectView.tla computes the project a set of build files denotes from the reference grammar and evaluator; trace validation '
        'of the real `meson rewrite` CLI by TraceRewriter.tla',
        'Model checking of the command rule book (every command sequence of length <= 3 quick / <= 4 thorough from three initial '
        'projects, 84 commands: AddThenRemoveRestores, RemoveThenAddKeeps, OnlyAddressedChanges ...) plus trace validation: generated '
        'projects x command sequences, model sequences from tlc -simulate and fixed projects are run through the real CLI; TLC parses '
        'the tokens before and after each command, compares ProjectOf (all targets, every keyword argument by evaluated value, '
        'variables) with Step folded over the commands, and checks textual locality and `info`.',
        'Trusted: TLC; the real Lexer for tokens (C02) and the Parser statement count. Harness input-class labels only select the '
        'signatures of known findings.',
        'DESIGN.md section 5, C17 and section 10'),
    'C19': (
        'TLC: order axioms on all triples of a bounded version domain (operational = declarative comparison), tokenisation laws on all '
        'strings <= 6 chars, interval design obeys the membership laws for all range pairs/check lists; trace validation '
        '(TraceVersion.tla) of the real Version / version_compare* / Range / version_check_to_range / '
        'version_compare_condition_with_min / str.version_compare (in-process interpreter + CLI) / if-block narrowing',
        'Model checking of specs/version plus conformance: the exported version domain (2-3 spellings each, full pair table) and range '
        'space (all pairs, all check lists <= 2) and seeded random long versions are executed by the real code; every recorded '
        'execution is judged by TLC from the code-point strings (tokenisation included); Range results are observed only through '
        'membership over a version domain.',
        'Trusted: TLC, the renderer of abstract versions to strings, membership probing via the real __contains__ (itself checked). '
        'always() may always answer "unknown"; ASCII only.',
        'DESIGN.md section 5, C19 and section 10'),
    'C20': (
        'TLC: SemVer precedence axioms on all triples; Cargo-book interval tables = semver-crate matcher wherever claimed, pinned '
        'deviations exactly D1/D2; cfg recursive-descent parser = span grammar on all token sequences <= 6; trace validation '
        '(TraceCargo.tla) of SemVer, cargo_parse and eval_cfg',
        'Model checking of specs/cargo plus conformance: the exported requirement x version grid (several spellings, single and paired '
        'comparators), the SemVer pair table, every cfg token sequence <= 5 (sample at 6) under all 16 configurations, and seeded '
        'random requirements / versions / cfg trees / malformed texts go through the real code; TLC parses the same texts and accepts '
        'or rejects each observation.',
        'No known finding left (the SemVer pre-release and cfg identifier defects were repaired). Pre-release versions are judged only where CargoReq!InScope holds. cfg '
        'trailing comma and lone all/any/not may go either way.',
        'DESIGN.md section 5, C20 and section 10'),
    'C04': (
        'TLC: BuildGraph (static laws + Run(e) machine: greedy fixpoint = every maximal schedule; all built at deadlock <=> Closed and '
        'Acyclic for unique producers) on all small manifests, ProjectModel (documented output names, Collides, all / test-prereq '
        'expectations) on a bounded project family; real build.ninja of family, random and corpus projects read by an independent '
        'Ninja reader and judged by TraceBuildGraph.tla; every model graph pushed through the real NinjaBuild writer',
        'Model checking of BuildGraph_MC (all schedules of all <= 2/<= 3-edge manifests) and ProjectModel_MC (13k abstract projects); '
        'the real build.ninja of sampled family projects (with expectations exported by TLC), odd-name probes, seeded random projects '
        'and the configurable projects of test cases/common is projected by harness/ninja_ref.py and judged clause by clause '
        '(Lexical, RulesDefined, UniqueProducer, Closed, Acyclic, ReachAll, ReachTestPrereq, CollisionAccepted ...).',
        'Validity "as ninja would judge it" rests on ninja_ref (no ninja binary); the family is sampled, not exhausted, against the '
        'implementation; the writer-level binding is exhaustive over the exported graphs.',
        'DESIGN.md section 5, C04 and section 10'),
    'C15': (
        'TLC: IntroConsistent - a 26-clause relation between intro-*.json, build.ninja (ninja_ref), the pickled test/install data, '
        'get_option() messages, real install trees and real test runs; IntroModel_MC checks the relation on the generator model; '
        'trace validation of random C projects, data projects (--backend=none with real install and test), the TLC family and the '
        'corpus by TraceIntro.tla',
        'Model checking of the relation on the generator model for the bounded family, and evaluation of the same relation by TLC on '
        'the projected views of real build directories: target filenames vs statements, sources vs compile inputs, tests vs '
        'meson_test_setup.dat and vs argv/env seen by really executed tests, buildoptions vs get_option() messages (non-default values '
        'on the command line), install plan vs install.dat vs the tree a real `meson install --destdir` leaves, buildsystem files vs '
        'the regeneration statement.',
        'Real install/test only on --backend=none projects; run and alias targets and install scripts, symlinks and empty directories '
        'are outside the relation. TraceIntro reports every violated clause, so a known finding cannot mask another.',
        'DESIGN.md section 5, C15 and section 10'),
    'C07': (
        'TLC: OptionStore (API-shaped machine mirroring add_*_option / initialize_from_top_level_project_call / '
        'initialize_from_subproject_call / set_option / set_from_configure_command) refines the declarative OptionPrecedence rule book '
        '(4 top-level / 8 subproject levels, yielding, buildtype, prefix defaults, per-kind validation) for all source subsets x kinds '
        'x classes; every case replayed on the real OptionStore and a stratified sample through `meson setup`; random API sequences '
        'judged by TraceOptionStore.tla',
        'TLC proves that the API-shaped option-store machine refines the declarative precedence rule book for all 2^4/2^8 source '
        'subsets x kinds x classes (28k cases, 197k states thorough; seed-rotated families quick); every case is replayed in-process on '
        'the real OptionStore (including the real parse_cmd_line_options), cases are merged ~13 per generated project and run through '
        'the real CLI (top-level + subproject + native/cross file + -D flags, message() lines and introspect --buildoptions), and '
        'seeded random API call sequences incl. invalid values are judged after every call.',
        'Verdicts are computed only by TLC; Python renders and projects. Known findings: buildtype clobbering explicit debug/'
        'optimization (three mechanisms). Compiler-like options are played by c_* options in-process only.',
        'DESIGN.md section 5, C07 and section 10'),
    'C08': (
        'TLC: OptionLifecycle (Setup, Configure -D, ConfigureU, Reconfigure, Wipe, option-file edits, failing variants) with the '
        'history laws (last given else creation default, wipe = fresh setup with what the user gave, failed step = no-op ...) on every '
        'history <= 4 events; every 3-event history plus simulated longer ones replayed with the real CLI in real processes and judged '
        'after every step by TraceOptionLifecycle.tla',
        'TLC checks the declarative history laws on every history up to the bound (1.2M states thorough, 30k quick); histories exported '
        'by TLC are replayed with real `meson setup / configure -D / -U / --reconfigure / --wipe`, edits of meson.options and injected '
        'failures on one build directory; after every command introspect --buildoptions, the effective subproject values (read back '
        'from coredata.dat with the tree\'s own loader) and get_option() messages are projected and TLC keeps the set of machine states '
        'consistent with the observations.',
        'Verdicts by TLC only. The quick tier samples histories by the model\'s situation tags so every law is exercised. Known '
        'findings recorded with circumstance taints (eq-subdl, own-sp, parent-replaced, stale-x).',
        'DESIGN.md section 5, C08 and section 10'),
}

NOT_YET = {}


# extension areas (not properties): id -> one-line description, see DESIGN.md section 11
EXTENSIONS = {
    'X01': 'machine files: sections, constants, composition of several files, wiring into properties/options/binaries (specs/machinefile)',
    'X03': 'meson compile: target expression resolution and backend command construction (specs/mcompile)',
    'X04': 'language objects: disabler absorption, feature options, configuration_data, environment objects, join_paths and fs string functions (specs/langobj)',
    'X05': 'Xcode backend: integrity of the generated project object graph and faithfulness to the build definition (specs/xcode)',
    'X06': 'pkg-config file generator: field contents, visibility, order constraints, uninstalled variant (specs/pkgconfig)',
    'X02': 'command-template substitution of custom_target/generator/configure_file and Makefile-style depfiles (specs/cmdsubst)',
    'X08': 'find_program() resolution: overrides, [binaries], dirs, source directory, PATH, wrap providers, wrap modes, versions, machines (specs/findprog)',
    'X09': 'CMake interoperability: generator-expression evaluation, trace-command folding, define/flag helpers (specs/cmakeinterop)',
    'X07': 'option definition files (restricted expression language, option() declaration rules) and deprecated-option translation (specs/optfile)',
    'X10': 'build-directory lock and wrap lock: concurrent meson commands on one build directory / one subprojects directory as multi-process state machines with kills, schedules forced on real processes through gates (specs/dirlock)',
    'X11': '`meson subprojects` command family (download, update, checkout, foreach, purge, packagefiles) over an abstract subprojects directory (specs/msubprojects)',
    'X12': '`meson dist`: archive contents versus the revision-controlled tree, dist scripts, the test cycle of the unpacked archive (specs/mdist)',
}


def main() -> None:
    props = [json.loads(l) for l in (VERIF / 'properties.jsonl').read_text().splitlines() if l.strip()]
    na_path = VERIF / 'tools' / 'not_applicable.json'
    na_reasons = json.loads(na_path.read_text()) if na_path.exists() else {}
    checks = []
    na = []
    for p in props:
        pid = p['id']
        if pid in CHECKS and any((VERIF / "harness").glob(pid.lower() + "_*.py")):
            tech, text, note, ref = CHECKS[pid]
            checks.append({
                'property_id': pid,
                'quick_cmd': f'./check {pid} --tier quick',
                'thorough_cmd': f'./check {pid} --tier thorough',
                'evidence_file': f'/verif/evidence/{pid}.json',
                'replay_cmd_template': f'./check {pid} --replay {{path}}',
                'engine': 'tlc+python-conformance',
                'level_claimed': {'category': 'model_checking', 'text': text, 'design_ref': ref},
                'level_note': note,
                'technique': tech,
            })
        else:
            na.append({'property_id': pid,
                       'reason': na_reasons.get(pid, 'no check registered yet: the TLA+ specification and conformance harness for '
                                                'this property are still being built (see DESIGN.md section 9); not claimed until the check exists')})
    manifest = {
        'version': 1,
        'setup_cmd': 'sh tools/setup.sh',
        'hooks': {
            'guard': 'MESON_VERIF_TRACE',
            'enable': 'no source hooks are needed: all observations are made through public APIs, the CLI and the file system; '
                      'checks import meson from /repo (VERIF_REPO) directly',
            'baseline_off_cmd': 'cd /repo && /venv/bin/python -m pytest -ra -q -p no:cacheprovider --timeout=900 --continue-on-collection-errors',
            'source_commits': [],
            'add_only': True,
        },
        'engines': [
            {'name': 'tlc+python-conformance', 'path': '/verif/check',
             'serves_properties': [c['property_id'] for c in checks],
             'kind_free_text': 'explicit TLA+ specifications (specs/*) model-checked with TLC; Python harnesses (harness/*) replay '
                               'spec behaviours into the real meson code and validate recorded executions of the real code against trace specs'},
            {'name': 'extension-areas', 'path': '/verif/tools/run_extended.sh',
             'serves_properties': [],
             'kind_free_text': 'specification growth beyond the listed properties (DESIGN.md section 11): ' + '; '.join(
                 f'{k} {v}' for k, v in sorted(EXTENSIONS.items())) + '. Same method and machinery; run one with ./check X0N --tier quick|thorough'},
        ],
        'checks': checks,
        'not_applicable': na,
        'notes': 'Exit codes: 0 held, 1 VIOLATION, 2 machinery failure. VERIF_REPO selects the tree under test (default /repo). '
                 'known_findings.json lists recorded genuine defects. Round-4 follow-ups (DESIGN.md 10.17): the quick tier of every check '
                 'was re-run on the final tree with VERIF_SEED=1 (committed evidence); the complete mutant sweeps and the thorough tiers '
                 'of C01 C03 C04 C06 C08 C10 C11 C13 C15 C17 C18 C19 were not re-run after the last extensions (overloaded box).',
    }
    (VERIF / 'MANIFEST.json').write_text(json.dumps(manifest, indent=1) + '\n')
    try:
        import jsonschema
        jsonschema.validate(manifest, json.loads(Path('/root/.vp/MANIFEST.schema.json').read_text()))
        print('MANIFEST.json valid;', len(checks), 'checks,', len(na), 'not_applicable')
    except ImportError:
        import subprocess
        subprocess.check_call(['python3-vt', '-c', 'import json, jsonschema; jsonschema.validate(json.load(open("/verif/MANIFEST.json")), '
                               'json.load(open("/root/.vp/MANIFEST.schema.json"))); print("MANIFEST.json valid")'])
        print(len(checks), 'checks,', len(na), 'not_applicable')


if __name__ == '__main__':
    main()
