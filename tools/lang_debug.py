#!/venv/bin/python
"""usage: tools/lang_debug.py <replay.json | -t 'program text'> : show impl vs spec outcome for one program (C01)."""
import sys, json, re
sys.path.insert(0, '/verif')
from harness import common, lang_driver as ld, c01_eval
from harness.common import run_tlc, SPECS, scratch, parse_tla_value

def show(v):
    k = v['k']
    if k == 'int': return str(v['n'])
    if k == 'bool': return 'true' if v['n'] else 'false'
    if k == 'str': return repr(''.join(chr(c) for c in v['s']))
    if k == 'arr': return '[' + ', '.join(show(x) for x in v['e']) + ']'
    if k == 'range': return 'range[' + ', '.join(show(x) for x in v['e']) + ']'
    if k == 'dict': return '{' + ', '.join(repr(''.join(chr(c) for c in e['s'])) + ': ' + show(e['e'][0]) for e in v['e']) + '}'
    return '<' + k + '>'

if sys.argv[1] == '-t':
    text = sys.argv[2]; env0 = []
else:
    d = json.load(open(sys.argv[1])); text = d['detail']['text']; env0 = []
mp, pr, ml = ld.load_modules()
toks, _ = ld.lex_real(text, mp)
alpha = ld.Alphabet()
penv = {}
if len(sys.argv) > 3 and sys.argv[3] == 'x':
    env0 = [[[120], {'k': 'arr', 'n': 0, 's': [], 'e': [{'k': 'int', 'n': 7, 's': [], 'e': []}, {'k': 'str', 'n': 0, 's': [97], 'e': []}]}]]
    penv = c01_eval.env0_to_python(env0)
obs = c01_eval.run_program(text, penv)
print('IMPL:', obs['st'], {''.join(chr(c) for c in n): show(v) for n, v in obs['vars']})
case = {'id': 'dbg', 't': [alpha.add(t) for t in toks], 'st': 'ok', 'vars': []}
with scratch('dbg-') as dd:
    tf = dd / 'c.json'
    tf.write_text(json.dumps({'alphabet': alpha.items, 'env0': env0, 'cases': [case]}))
    res = run_tlc(SPECS / 'lang', 'TraceEval', env={'TRACE_FILE': str(tf)}, workers=1)
    for v in res.json_lines():
        note = v.get('note', '')
        print('SPEC verdict (forced mismatch):', v['clause'])
        if note:
            val = parse_tla_value(note)
            print('SPEC store:', {''.join(chr(c) for c in n): show(x) for n, x in val})
    if not res.json_lines():
        print('SPEC: agrees with the flipped outcome?? (unspecified or same)'); print(res.stdout[-500:])
