#!/usr/bin/env python3
"""usage: tools/mark_fixed.py <ID> <commit> <signature-substring> [...]  -- move matching known findings of known_findings.d/<ID>.json to its `fixed` list"""
import json, sys
from pathlib import Path
pid, commit, subs = sys.argv[1], sys.argv[2], sys.argv[3:]
p = Path(__file__).resolve().parent.parent / 'known_findings.d' / f'{pid}.json'
d = json.loads(p.read_text())
keep = []
for f in d.get('findings', []):
    if any(s in f['signature'] for s in subs):
        d.setdefault('fixed', []).append(f"fixed: property={f['property']} {commit} {f['what']}")
        print('fixed:', f['signature'])
    else:
        keep.append(f)
d['findings'] = keep
p.write_text(json.dumps(d, indent=1) + '\n')
