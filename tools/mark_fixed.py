#!/usr/bin/env python3
"""usage: tools/mark_fixed.py <ID> <commit> <signature-substring> [...]  -- move the matching known findings of property <ID>
(in known_findings.json, or known_findings.d/<ID>.json if that exists) to the `fixed` list.  Substrings must be specific."""
import json, sys
from pathlib import Path
pid, commit, subs = sys.argv[1], sys.argv[2], sys.argv[3:]
V = Path(__file__).resolve().parent.parent
p = V / 'known_findings.d' / f'{pid}.json'
if not p.exists():
    p = V / 'known_findings.json'
d = json.loads(p.read_text())
keep = []
for f in d.get('findings', []):
    if f['property'] == pid and any(s in f['signature'] for s in subs):
        d.setdefault('fixed', []).append(f"fixed: property={f['property']} {commit} {f['what']}")
        print('fixed:', f['signature'])
    else:
        keep.append(f)
d['findings'] = keep
p.write_text(json.dumps(d, indent=1) + '\n')
