#!/usr/bin/env python3
"""Merges known_findings.d/*.json (written by the per-property builders) into the single committed known_findings.json
and removes the merged files.  The check machinery (harness/common.py Findings) reads both places, so this can be run at
any time; nothing is added to or removed from the set of findings."""
import json
from pathlib import Path
V = Path(__file__).resolve().parent.parent
main = V / 'known_findings.json'
d = json.loads(main.read_text())
d.setdefault('findings', [])
d.setdefault('fixed', [])
dd = V / 'known_findings.d'
for f in sorted(dd.glob('*.json')) if dd.is_dir() else []:
    e = json.loads(f.read_text())
    for x in e.get('findings', []):
        if not any(y['property'] == x['property'] and y['signature'] == x['signature'] for y in d['findings']):
            d['findings'].append(x)
    for x in e.get('fixed', []):
        if x not in d['fixed']:
            d['fixed'].append(x)
    f.unlink()
if dd.is_dir() and not any(dd.iterdir()):
    dd.rmdir()
d['findings'].sort(key=lambda x: (x['property'], ))
d['fixed'].sort(key=lambda l: l.split()[1])
main.write_text(json.dumps(d, indent=1) + '\n')
print(len(d['findings']), 'findings,', len(d['fixed']), 'fixed entries')
