#!/bin/sh
# usage: tools/run_all.sh [quick|thorough] [LOGFILE]  -- run every registered check (C01..C20) and every extension check
# (X-series) one after the other; prints one summary line per check (id, exit status, wall time, known findings)
cd "$(dirname "$0")/.." || exit 2
TIER="${1:-quick}"; LOG="${2:-/dev/stdout}"; RC=0
for f in $(ls harness/c[0-9][0-9]_*.py harness/x[0-9][0-9]_*.py | sort); do
  grep -q "sys.exit(common.run_check(" "$f" || continue
  ID=$(basename "$f" | cut -c1-3 | tr 'a-z' 'A-Z')
  S=$(date +%s)
  OUT=$(./check "$ID" --tier "$TIER" 2>&1); R=$?
  echo "$ID rc=$R wall=$(( $(date +%s) - S ))s kf=$(echo "$OUT" | grep -c '^KNOWN-FINDING') $(echo "$OUT" | tail -1 | cut -c1-110)" >> "$LOG"
  [ "$R" -ne 0 ] && RC=1
done
exit $RC
