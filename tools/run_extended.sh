#!/bin/sh
# usage: tools/run_extended.sh [quick|thorough]  -- run every extension-area check (X-series); exit 1 if any reports a violation
cd "$(dirname "$0")/.." || exit 2
TIER="${1:-quick}"; RC=0
for f in harness/x[0-9][0-9]_*.py; do
  grep -q "sys.exit(common.run_check(" "$f" || continue
  ID=$(basename "$f" | cut -c1-3 | tr 'a-z' 'A-Z')
  OUT=$(./check "$ID" --tier "$TIER" 2>&1); R=$?
  echo "$OUT" | tail -3
  [ "$R" -ne 0 ] && RC=1
done
exit $RC
