#!/bin/sh
# usage: tools/run_mutants.sh <ID> [tier] : run every mutants/<ID>/*.patch against the check; print CAUGHT/MISSED per mutant
ID="$1"; TIER="${2:-quick}"
cd "$(dirname "$0")/.."
for m in mutants/$ID/*.patch; do
  out=$(LINES_SHOWN=400 tools/try_mutant.sh "$m" "$ID" "$TIER" 2>&1)
  if echo "$out" | grep -q "^VIOLATION property=$ID"; then
    echo "CAUGHT $m ($(echo "$out" | grep -c '^VIOLATION') violations; first: $(echo "$out" | grep -m1 'signature:' | cut -c1-150))"
  elif echo "$out" | grep -q "MACHINERY-ERROR"; then
    echo "MACHINERY $m: $(echo "$out" | grep -m1 MACHINERY | cut -c1-200)"
  else
    echo "MISSED $m"
  fi
done
