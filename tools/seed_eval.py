#!/usr/bin/env python3
"""usage: tools/seed_eval.py <PROP> <adversary-change-dir> <name>
Confirms a seeded change (patch.diff + demo) independently in a scratch worktree of /repo, runs the property's quick
check against it, and stores everything under /verif/seeded/<PROP>-<name>/ with meta.json."""
import json, os, shutil, subprocess, sys, tempfile
from pathlib import Path

prop, src, name = sys.argv[1], Path(sys.argv[2]), sys.argv[3]
VERIF = Path(__file__).resolve().parent.parent
dest = VERIF / 'seeded' / f'{prop}-{name}'
dest.mkdir(parents=True, exist_ok=True)
for f in src.iterdir():
    if f.is_file() and src.resolve() != dest.resolve():
        shutil.copy(f, dest / f.name)
demo = next((dest / n for n in ('demo.py', 'demo.sh') if (dest / n).exists()), None)
wt = tempfile.mkdtemp(prefix='seed-')
subprocess.run(['git', '-C', '/repo', 'worktree', 'add', '--detach', wt, 'HEAD'], check=True, capture_output=True)
old_meta = json.loads((dest / 'meta.json').read_text()) if (dest / 'meta.json').exists() else {}
meta = {'property': prop, 'name': name, 'repo_head': subprocess.run(['git', '-C', '/repo', 'rev-parse', 'HEAD'], capture_output=True, text=True).stdout.strip()}
try:
    def run_demo():
        cmd = ['/venv/bin/python', str(demo)] if demo.suffix == '.py' else ['sh', str(demo)]
        env = dict(os.environ, MESON_TREE=wt, PYTHONPATH=wt)
        p = subprocess.run(cmd, env=env, capture_output=True, text=True, timeout=1800)
        return p.returncode, (p.stdout + p.stderr)[-1500:]
    rc0, out0 = run_demo()
    ap = subprocess.run(['git', '-C', wt, 'apply', str(dest / 'patch.diff')], capture_output=True, text=True)
    meta['patch_applies'] = ap.returncode == 0
    if ap.returncode != 0:
        meta['apply_error'] = ap.stderr[-500:]
    rc1, out1 = run_demo()
    meta['demo_clean_rc'] = rc0
    meta['demo_patched_rc'] = rc1
    meta['demo_patched_output_tail'] = out1[-600:]
    t = subprocess.run(['/venv/bin/python', '-m', 'pytest', '-q', '-p', 'no:cacheprovider', '--timeout=900', '--continue-on-collection-errors'],
                       cwd=wt, capture_output=True, text=True, timeout=3600)
    meta['pytest_tail'] = t.stdout.strip().splitlines()[-1] if t.stdout.strip() else ''
    out = tempfile.mkdtemp(prefix='seed-out-')
    env = dict(os.environ, VERIF_REPO=wt, VERIF_EVIDENCE_DIR=out + '/evidence', VERIF_REPLAY_DIR=out + '/replays')
    c = subprocess.run(['./check', prop, '--tier', os.environ.get('SEED_TIER', 'quick')], cwd=VERIF, env=env, capture_output=True, text=True, timeout=7200)
    lines = [l for l in c.stdout.splitlines() if l.startswith('VIOLATION') or l.strip().startswith('signature:')]
    meta['check_cmd'] = f'VERIF_REPO=<worktree with patch> ./check {prop} --tier ' + os.environ.get('SEED_TIER', 'quick')
    meta['check_rc'] = c.returncode
    meta['check_detected'] = c.returncode == 1 and any(l.startswith('VIOLATION property=' + prop) for l in lines)
    meta['check_first_signatures'] = [l.strip()[:300] for l in lines if 'signature' in l][:5]
    if c.returncode not in (0, 1):
        meta['check_stderr_tail'] = c.stderr[-800:]
    shutil.rmtree(out, ignore_errors=True)
finally:
    subprocess.run(['git', '-C', '/repo', 'worktree', 'remove', '--force', wt], capture_output=True)
    shutil.rmtree(wt, ignore_errors=True)
notes = (dest / 'notes.md').read_text() if (dest / 'notes.md').exists() else ''
meta['needs_to_manifest'] = notes[:1500]
meta['confirmed'] = bool(meta.get('patch_applies') and meta.get('demo_clean_rc') == 0 and meta.get('demo_patched_rc') not in (0, None)
                         and '107 passed' in meta.get('pytest_tail', ''))
if old_meta:      # a re-evaluation: keep what the first evaluation found
    meta['first_evaluation'] = old_meta.get('first_evaluation') or {k: old_meta.get(k) for k in ('repo_head', 'check_detected', 'check_rc', 'check_first_signatures')}
    if old_meta.get('followup'):
        meta['followup'] = old_meta['followup']
(dest / 'meta.json').write_text(json.dumps(meta, indent=1) + '\n')
print(json.dumps({k: meta[k] for k in ('property', 'name', 'confirmed', 'check_detected', 'check_rc', 'demo_clean_rc', 'demo_patched_rc', 'pytest_tail', 'check_first_signatures')}, indent=1))
