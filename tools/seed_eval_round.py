#!/usr/bin/env python3
"""usage: tools/seed_eval_round.py <round-prefix> <out-dir-pattern> [ID ...]
Evaluates every not yet evaluated adversary change <out-dir-pattern with {id}>/changeN with tools/seed_eval.py and stores it as
seeded/<ID>-<round-prefix>-<slug>/.  Example: tools/seed_eval_round.py r2 /tmp/adv2-out-{id} C10 C11"""
import json, re, subprocess, sys
from pathlib import Path
V = Path(__file__).resolve().parent.parent
prefix, pattern, ids = sys.argv[1], sys.argv[2], sys.argv[3:]
for pid in ids:
    out = Path(pattern.format(id=pid))
    for ch in sorted(out.glob('change*')):
        if not (ch / 'patch.diff').exists():
            continue
        notes = (ch / 'notes.md').read_text() if (ch / 'notes.md').exists() else ch.name
        title = next((l for l in notes.splitlines() if l.strip()), ch.name)
        title = re.sub(r'^#+\s*', '', title)
        title = re.sub(r'^(C\d\d\s*)?(change|Change)\s*\d\s*[-:–—]*\s*', '', title)
        slug = re.sub(r'[^a-z0-9]+', '-', title.lower()).strip('-')[:40].strip('-') or ch.name
        name = f'{prefix}-{slug}'
        marker = ch / '.evaluated'
        if marker.exists():
            continue
        print(f'== {pid} {ch.name} -> {pid}-{name}', flush=True)
        p = subprocess.run([sys.executable, str(V / 'tools' / 'seed_eval.py'), pid, str(ch), name], capture_output=True, text=True)
        print((p.stdout + p.stderr)[-1500:], flush=True)
        marker.write_text(name + '\n')
