#!/bin/sh
# Offline setup: nothing to build - the framework is Python (stdlib) + TLA+ specs run by the pre-installed TLC.
# Verifies that the tools the checks need are present.
set -e
cd "$(dirname "$0")/.."
test -x /venv/bin/python
test -f /opt/veriftools/tla/tla2tools.jar
java -version >/dev/null 2>&1
chmod +x check tools/*.sh tools/*.py tools/ninja-stub tools/ninja-stub-x03 tools/xcodebuild-stub/xcodebuild 2>/dev/null || true
mkdir -p evidence
echo "setup ok"
