#!/bin/sh
# usage: tools/try_mutant.sh <patch-file> <ID> [tier]   -- run a check against a scratch worktree of /repo with a patch applied
# Evidence/replays of the mutant run go to a scratch directory; /repo and /verif/evidence are untouched.
set -e
PATCH=$(readlink -f "$1"); ID="$2"; TIER="${3:-quick}"
WT=$(mktemp -d /tmp/mut-XXXXXX)
git -C /repo worktree add --detach "$WT" HEAD >/dev/null 2>&1
trap 'git -C /repo worktree remove --force "$WT" >/dev/null 2>&1; rm -rf "$WT" "$WT.out"' EXIT
git -C "$WT" apply "$PATCH"
mkdir -p "$WT.out"
cd "$(dirname "$0")/.."
set +e
VERIF_REPO="$WT" VERIF_EVIDENCE_DIR="$WT.out/evidence" VERIF_REPLAY_DIR="$WT.out/replays" ./check "$ID" --tier "$TIER" 2>&1 | tail -${LINES_SHOWN:-12}
